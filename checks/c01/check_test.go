// C01: replicated state transition is deterministic and restart-transparent.
// Every block history of the bounded tree is executed on a reference replica
// and replayed on every variant replica (backend x node-local options x flush
// schedule x restart schedule x mempool content); observations must agree at
// every height (DESIGN.md section 4, C01).
package c01

import (
	"fmt"
	"os"
	"path/filepath"
	"runtime/pprof"
	"sort"
	"strings"
	"sync"
	"testing"
	"time"

	"github.com/nspcc-dev/neo-go/pkg/config"
	"github.com/nspcc-dev/neo-go/pkg/core/block"
	"github.com/nspcc-dev/neo-go/pkg/core/native/nativehashes"
	"github.com/nspcc-dev/neo-go/pkg/core/state"
	"github.com/nspcc-dev/neo-go/pkg/core/storage"
	"github.com/nspcc-dev/neo-go/pkg/core/storage/dbconfig"
	"github.com/nspcc-dev/neo-go/pkg/core/transaction"
	"github.com/nspcc-dev/neo-go/pkg/neotest"

	"verif/lib/chainx"
	"verif/lib/vk"
)

type family struct {
	Name  string
	Multi bool
	SRIH  bool
	MTB   uint32            // protocol MaxTraceableBlocks (0 = default)
	HF    map[string]uint32 // hardfork activation heights (nil = all from genesis)
}

func (f family) proto(c *config.Blockchain) {
	if f.MTB != 0 {
		c.MaxTraceableBlocks = f.MTB
		c.MaxValidUntilBlockIncrement = 100
	}
	if f.HF != nil {
		c.Hardforks = f.HF
	}
}

type variant struct {
	Name    string
	Backend string // mem | bolt | level
	Cfg     func(*config.Blockchain)
	Flush   uint // bit i: flush after block i of the history (bit 0: after the preamble)
	Restart uint // bit i: restart after block i
	InBlock uint // bit i: a flush lands INSIDE AddBlock of block i (after its header part, hook H5)
	Pool    bool // pool transactions of the coming block, of the one after it, and conflicting ones
	GC      bool // run the GC step after every flush (needs RemoveUntraceableBlocks)
	Share   bool // plan I (ext_share_test.go): the latest state is also read through the trie after OP2, T1 and T2
	Full    uint // if not 0: bit i = everything is observed after block i; at the other boundaries only height, block hash, state root and execution results
}

type histKey string

type treeNode struct {
	block []byte      // wire bytes of the last block of the prefix
	obs   *chainx.Obs // reference observation after it
	names []string
}

type scenario struct {
	vs       []variant
	r        *vk.Run
	fam      family
	pad      int
	tpls     []chainx.Tpl
	depth    int
	filter   func(h []int) bool // optional: histories outside it are not part of the plan
	fixed    [][]int            // optional: the plan consists of exactly these histories (all of length depth)
	preamble [][]byte
	preObs   *chainx.Obs
	world    *chainx.World
	mu       sync.Mutex
	tree     map[histKey]*treeNode
	// plan G (ext_cross_test.go): a sequential scenario is ONE fixed history built block
	// after block on one reference node
	seq   bool
	label string // short stable name of the history for violation keys
	group string // path family (evidence counters)
	// plan J (ext_many_test.go): the transfer logs of the block's accounts are part of the observation
	many     bool
	manyOnce sync.Once
}

func key(h []int) histKey { return histKey(fmt.Sprint(h)) }

// refNode builds a fresh reference replica that has replayed the preamble and
// the blocks of prefix h.
func (sc *scenario) refNode(h []int) (*chainx.Node, *chainx.World, error) {
	n, err := chainx.New(chainx.Opts{Multi: sc.fam.Multi, SRIH: sc.fam.SRIH, Proto: sc.fam.proto})
	if err != nil {
		return nil, nil, err
	}
	if sc.preamble == nil {
		w, err := chainx.BuildPreamble(n, sc.pad)
		if err != nil {
			n.Close()
			return nil, nil, err
		}
		for _, b := range w.Preamble {
			bb, err := chainx.BlockBytes(b)
			if err != nil {
				n.Close()
				return nil, nil, err
			}
			sc.preamble = append(sc.preamble, bb)
		}
		sc.world = w
		if sc.preObs, err = n.Observe(w.MaxID, w.Hashes()); err != nil {
			n.Close()
			return nil, nil, err
		}
		return n, w, nil
	}
	for _, bb := range sc.preamble {
		if err := addBytes(n, bb, sc.fam.SRIH); err != nil {
			n.Close()
			return nil, nil, fmt.Errorf("ref preamble: %w", err)
		}
	}
	for i := 1; i <= len(h); i++ {
		sc.mu.Lock()
		tn := sc.tree[key(h[:i])]
		sc.mu.Unlock()
		if err := addBytes(n, tn.block, sc.fam.SRIH); err != nil {
			n.Close()
			return nil, nil, fmt.Errorf("ref replay: %w", err)
		}
	}
	return n, sc.world.Attach(n), nil
}

func addBytes(n *chainx.Node, bb []byte, srih bool) error {
	b, err := chainx.DecodeBlock(bb, srih)
	if err != nil {
		return err
	}
	return n.BC.AddBlock(b)
}

// grow builds the tree node for history h (its prefix exists already).
func (sc *scenario) grow(h []int) error {
	n, w, err := sc.refNode(h[:len(h)-1])
	if err != nil {
		return err
	}
	defer n.Close()
	return sc.growOn(n, w, h)
}

// growOn executes the last block of history h on reference node n (which is at
// the state of h's prefix) and records the tree node.
func (sc *scenario) growOn(n *chainx.Node, w *chainx.World, h []int) error {
	tpl := sc.tpls[h[len(h)-1]]
	// Nonces must not depend on how often a template was built elsewhere.
	txs, err := tpl.Build(w)
	if err != nil {
		return fmt.Errorf("template %s: %w", tpl.Name, err)
	}
	b, err := n.AddBlock(txs...)
	if err != nil {
		return fmt.Errorf("template %s: reference rejected its own block: %w", tpl.Name, err)
	}
	bb, err := chainx.BlockBytes(b)
	if err != nil {
		return err
	}
	obs, err := n.Observe(w.MaxID, w.Hashes())
	if err != nil {
		return err
	}
	if sc.isMany() {
		x, _ := manyXfers(n)
		obs.Extra = map[string]string{"xfers": x}
	}
	if sc.r != nil {
		for _, tx := range b.Transactions {
			st := "?"
			if a, err := n.BC.GetAppExecResults(tx.Hash(), 0x40); err == nil && len(a) == 1 {
				st = a[0].VMState.String()
				if len(a[0].Stack) == 1 {
					if v, err := a[0].Stack[0].TryBool(); err == nil && a[0].Stack[0].Type().String() == "Boolean" {
						st += fmt.Sprintf("(%v)", v)
					}
				}
			}
			sc.r.Outcome("tx:" + tpl.Name + ":" + st)
		}
	}
	names := make([]string, len(h))
	for i, k := range h {
		names[i] = sc.tpls[k].Name
	}
	sc.mu.Lock()
	sc.tree[key(h)] = &treeNode{block: bb, obs: obs, names: names}
	sc.mu.Unlock()
	return nil
}

func openStore(v variant, dir string) (storage.Store, error) {
	switch v.Backend {
	case "bolt":
		return storage.NewBoltDBStore(dbconfig.BoltDBOptions{FilePath: filepath.Join(dir, "bolt.db")})
	case "level":
		return storage.NewLevelDBStore(dbconfig.LevelDBOptions{DataDirectoryPath: filepath.Join(dir, "level")})
	}
	return nil, nil
}

type caseRec struct {
	Family  string   `json:"family"`
	Pad     int      `json:"pad"`
	History []string `json:"history"`
	HistIdx []int    `json:"hist_idx"`
	Variant string   `json:"variant"`
	Flush   uint     `json:"flush_mask"`
	Restart uint     `json:"restart_mask"`
	At      int      `json:"at_block"`
	What    string   `json:"what"`
	Diff    []string `json:"diff,omitempty"`
}

// runVariant replays history h on variant v and compares with the reference.
// It returns the number of block executions and a failure description.
func (sc *scenario) runVariant(h []int, v variant) (blocks int, rec *caseRec) {
	fail := func(at int, what string, diff []string) *caseRec {
		r := &caseRec{Family: sc.fam.Name, Pad: sc.pad, HistIdx: append([]int{}, h...), Variant: v.Name, Flush: v.Flush, Restart: v.Restart, At: at, What: what, Diff: diff}
		for _, k := range h {
			r.History = append(r.History, sc.tpls[k].Name)
		}
		return r
	}
	var dir string
	var cleanup func()
	opts := chainx.Opts{Multi: sc.fam.Multi, SRIH: sc.fam.SRIH, Proto: sc.fam.proto, Cfg: v.Cfg}
	if v.Backend != "mem" {
		dir, cleanup = vk.Scratch("c01")
		defer cleanup()
		st, err := openStore(v, dir)
		if err != nil {
			return 0, fail(-1, "open store: "+err.Error(), nil)
		}
		opts.Store = st
	}
	n, err := chainx.New(opts)
	if err != nil {
		return 0, fail(-1, "start: "+err.Error(), nil)
	}
	defer func() {
		if n != nil {
			n.Close()
		}
	}()
	for _, bb := range sc.preamble {
		if err := addBytes(n, bb, sc.fam.SRIH); err != nil {
			return blocks, fail(0, "preamble block rejected: "+err.Error(), nil)
		}
		blocks++
	}
	w := sc.world.Attach(n)
	after := func(i int, want *chainx.Obs) *caseRec {
		if v.Flush&(1<<uint(i)) != 0 {
			old := n.BC.VerifPersistedHeight()
			if err := n.Persist(); err != nil {
				return fail(i, "flush failed: "+err.Error(), nil)
			}
			if v.GC {
				n.BC.VerifTryRunGC(old)
			}
		}
		if v.Restart&(1<<uint(i)) != 0 {
			if v.Backend == "mem" {
				m, err := n.Reopen()
				if err != nil {
					n = nil
					return fail(i, "restart failed: "+err.Error(), nil)
				}
				n = m
			} else {
				n.Close()
				n = nil
				st, err := openStore(v, dir)
				if err != nil {
					return fail(i, "reopen store: "+err.Error(), nil)
				}
				o := opts
				o.Store = st
				m, err := chainx.New(o)
				if err != nil {
					return fail(i, "restart failed: "+err.Error(), nil)
				}
				n = m
			}
			w = sc.world.Attach(n)
		}
		if x, ok := want.Extra["xfers"]; ok {
			// plan J: order-sensitive data derived from the execution results
			if got, _ := manyXfers(n); got != x {
				return fail(i, "transfer logs of the block differ from the reference replica", []string{"reference: " + x, "variant:   " + got})
			}
		}
		if v.Full != 0 && v.Full&(1<<uint(i)) == 0 {
			if d := lightDiff(n, want); len(d) != 0 {
				return fail(i, "observation differs from the reference replica", d)
			}
			return nil
		}
		got, err := n.Observe(w.MaxID, w.Hashes())
		if err != nil {
			return fail(i, "observe: "+err.Error(), nil)
		}
		if d := want.Diff(got); len(d) != 0 {
			return fail(i, "observation differs from the reference replica", d)
		}
		if v.Share {
			if d := shTrieCheck(n, i, got); len(d) != 0 {
				return fail(i, "latest state incomplete in the trie", append(d, shDiagnose(n, sc.tpls[h[0]].Name, i, "")...))
			}
		}
		return nil
	}
	if r := after(0, sc.preObs); r != nil {
		return blocks, r
	}
	for i := 1; i <= len(h); i++ {
		tn := sc.tree[key(h[:i])]
		b, err := chainx.DecodeBlock(tn.block, sc.fam.SRIH)
		if err != nil {
			return blocks, fail(i, "decode: "+err.Error(), nil)
		}
		if v.Pool {
			sc.pool(n, b, h, i)
		}
		if v.InBlock&(1<<uint(i)) != 0 {
			bc := n.BC
			bc.VerifSetPointHook(func(int) { _ = bc.VerifPersist() })
		}
		// execution results are also handed to subscribers (RPC notifications): what they
		// get must be what the ledger stores (which in turn must equal the reference)
		execs := make(chan *state.AppExecResult, len(b.Transactions)+8)
		n.BC.SubscribeForExecutions(execs)
		// a Go panic inside block processing (the reference counting of the trie panics on a negative counter)
		// poisons the instance (locks stay taken): it is reported like a rejection and the node is dropped
		if perr := chainx.Try(func() { err = n.BC.AddBlock(b) }); perr != nil {
			n = nil
			return blocks, fail(i, "block made the variant panic: "+perr.Error(), shDiagnose(nil, sc.tpls[h[0]].Name, i, perr.Error()))
		}
		n.BC.VerifSetPointHook(nil)
		if err != nil {
			var d []string
			if v.Share {
				d = shDiagnose(n, sc.tpls[h[0]].Name, i-1, "")
			}
			return blocks, fail(i, "block rejected by the variant: "+err.Error(), d)
		}
		blocks++
		guard := time.After(30 * time.Second) // liveness guard only: a late dispatcher skips the comparison
	events:
		for k := 0; k < len(b.Transactions)+2; k++ {
			select {
			case a := <-execs:
				st, err := n.BC.GetAppExecResults(a.Container, a.Trigger)
				if err != nil || len(st) != 1 {
					return blocks, fail(i, fmt.Sprintf("execution result delivered to subscribers not found in the ledger: %s %s", a.Container.StringLE(), a.Trigger), nil)
				}
				if a.VMState != st[0].VMState || a.GasConsumed != st[0].GasConsumed || len(a.Events) != len(st[0].Events) || len(a.Stack) != len(st[0].Stack) || a.FaultException != st[0].FaultException ||
					(sc.isMany() && chainx.AERString([]state.AppExecResult{*a}) != chainx.AERString(st)) { // plan J: events in order, with their items
					return blocks, fail(i, "execution result delivered to subscribers differs from the stored one", []string{
						fmt.Sprintf("delivered: %s %s vmstate=%d gas=%d events=%d stack=%d", a.Container.StringLE(), a.Trigger, a.VMState, a.GasConsumed, len(a.Events), len(a.Stack)),
						fmt.Sprintf("stored:    %s %s vmstate=%d gas=%d events=%d stack=%d", st[0].Container.StringLE(), st[0].Trigger, st[0].VMState, st[0].GasConsumed, len(st[0].Events), len(st[0].Stack))})
				}
			case <-guard:
				break events
			}
		}
		n.BC.UnsubscribeFromExecutions(execs)
		if r := after(i, tn.obs); r != nil {
			return blocks, r
		}
	}
	return blocks, nil
}

// lightDiff compares what is cheap to read: height, block hash, state root (it commits to the whole
// contract storage) and the execution results of the last block.
func lightDiff(n *chainx.Node, want *chainx.Obs) []string {
	bc := n.BC
	var d []string
	h := bc.BlockHeight()
	if h != want.Height || bc.CurrentBlockHash().StringLE() != want.Hash {
		return []string{fmt.Sprintf("height/hash: %d %s != %d %s", want.Height, want.Hash, h, bc.CurrentBlockHash().StringLE())}
	}
	sr, err := bc.GetStateRoot(h)
	if err != nil {
		return []string{"state root: " + err.Error()}
	}
	if sr.Root.StringLE() != want.StateRoot {
		d = append(d, fmt.Sprintf("state_root: %s != %s", want.StateRoot, sr.Root.StringLE()))
	}
	b, err := bc.GetBlock(bc.CurrentBlockHash())
	if err != nil {
		return append(d, "block: "+err.Error())
	}
	aers, err := n.BlockAERs(b)
	if err != nil {
		return append(d, err.Error())
	}
	if aers != want.AERs {
		d = append(d, "aers: "+want.AERs+" != "+aers)
	}
	return d
}

// pool fills the variant's mempool with things the reference never sees.
func (sc *scenario) pool(n *chainx.Node, b *block.Block, h []int, i int) {
	// transactions of the coming block
	for _, tx := range b.Transactions {
		c := *tx
		_ = n.BC.PoolTx(&c)
	}
	// a conflicting twin for the first transaction of the coming block
	for _, tx := range b.Transactions {
		var sg neotest.Signer
		for k := 1; k <= 3; k++ {
			if chainx.Acc(k).ScriptHash() == tx.Sender() {
				sg = chainx.Signer(k)
			}
		}
		if sg == nil {
			continue
		}
		twin, err := n.MakeTx(chainx.CallScript(nativehashes.GasToken, "transfer", tx.Sender(), tx.Sender(), int64(1), nil), []neotest.Signer{sg}, func(t *transaction.Transaction) {
			t.Attributes = append(t.Attributes, transaction.Attribute{Type: transaction.ConflictsT, Value: &transaction.Conflicts{Hash: tx.Hash()}})
			t.NetworkFee = tx.NetworkFee + 1000000
		})
		if err == nil {
			_ = n.BC.PoolTx(twin)
		}
		break
	}
	// transactions of the block after it (may or may not be valid yet)
	if i < len(h) {
		if tn := sc.tree[key(h[:i+1])]; tn != nil {
			if nb, err := chainx.DecodeBlock(tn.block, sc.fam.SRIH); err == nil {
				for _, tx := range nb.Transactions {
					_ = n.BC.PoolTx(tx)
				}
			}
		}
	}
}

func variants(r *vk.Run, depth int) []variant {
	thorough := r != nil && r.Thorough()
	all := uint(1<<uint(depth+1)) - 1
	alt := uint(0x55555555) & all
	latest := func(c *config.Blockchain) { c.Ledger.KeepOnlyLatestState = true }
	prune := func(c *config.Blockchain) {
		c.Ledger.RemoveUntraceableBlocks = true
		c.Ledger.GarbageCollectionPeriod = 1
	}
	noverify := func(c *config.Blockchain) { c.SkipBlockVerification = true }
	batch := func(c *config.Blockchain) { c.Ledger.SaveStorageBatch = true }
	invoc := func(c *config.Blockchain) { c.Ledger.SaveInvocations = true }
	vs := []variant{
		{Name: "mem/save-invocations", Backend: "mem", Cfg: invoc, Flush: alt, Restart: all &^ alt},
		{Name: "mem/flush-all", Backend: "mem", Flush: all},
		{Name: "mem/restart-all", Backend: "mem", Restart: all},
		{Name: "mem/pool", Backend: "mem", Pool: true, Flush: alt},
		{Name: "mem/inblock-flush-restart", Backend: "mem", InBlock: all, Restart: all},
		{Name: "bolt/inblock-flush", Backend: "bolt", InBlock: all &^ alt, Flush: alt, Restart: all},
		{Name: "mem/latest", Backend: "mem", Cfg: latest, Flush: all, Restart: alt},
		{Name: "mem/prune-gc", Backend: "mem", Cfg: prune, GC: true, Flush: all, Restart: all &^ alt},
		{Name: "mem/noverify", Backend: "mem", Cfg: noverify, Flush: alt},
		{Name: "mem/savebatch", Backend: "mem", Cfg: batch, Flush: all &^ alt, Restart: alt},
		{Name: "bolt/flush-alt-restart", Backend: "bolt", Flush: alt, Restart: all &^ alt},
		{Name: "level/flush-all-restart-alt", Backend: "level", Flush: all, Restart: alt},
		{Name: "bolt/prune-gc-pool", Backend: "bolt", Cfg: prune, GC: true, Pool: true, Flush: all, Restart: alt},
		{Name: "level/latest", Backend: "level", Cfg: latest, Flush: alt, Restart: all},
	}
	if thorough && depth > 3 {
		// long fixed histories (plan F): the full subset product is 4^(depth+1) - for these
		// every single boundary gets its own flush / restart / flush-all+restart variant
		for i := 0; i <= depth; i++ {
			bit := uint(1) << uint(i)
			vs = append(vs, variant{Name: fmt.Sprintf("mem/f@%d", i), Backend: "mem", Flush: bit})
			vs = append(vs, variant{Name: fmt.Sprintf("mem/r@%d", i), Backend: "mem", Restart: bit})
			vs = append(vs, variant{Name: fmt.Sprintf("mem/fall-r@%d", i), Backend: "mem", Flush: all, Restart: bit})
			vs = append(vs, variant{Name: fmt.Sprintf("bolt/prune-fall-r@%d", i), Backend: "bolt", Cfg: prune, GC: true, Flush: all, Restart: bit})
		}
	}
	if thorough && depth <= 3 {
		// every flush subset x every restart subset on memory, all flush subsets on disk
		for f := uint(0); f <= all; f++ {
			for rs := uint(0); rs <= all; rs++ {
				vs = append(vs, variant{Name: fmt.Sprintf("mem/f%x-r%x", f, rs), Backend: "mem", Flush: f, Restart: rs})
			}
			vs = append(vs, variant{Name: fmt.Sprintf("bolt/f%x-r%x", f, all&^f), Backend: "bolt", Flush: f, Restart: all &^ f})
			vs = append(vs, variant{Name: fmt.Sprintf("level/prune-f%x", f), Backend: "level", Cfg: prune, GC: true, Flush: f, Restart: alt})
			vs = append(vs, variant{Name: fmt.Sprintf("mem/latest-pool-f%x", f), Backend: "mem", Cfg: latest, Pool: true, Flush: f, Restart: all &^ alt})
		}
	}
	return vs
}

func flipTemplates() []chainx.Tpl {
	put := func(name, val string) chainx.Tpl {
		return chainx.Tpl{Name: name, Build: func(w *chainx.World) ([]*transaction.Transaction, error) {
			tx, err := w.URun(2, w.UA, []any{[]any{chainx.OpPut, []byte("flip"), []byte(val)}})
			if err != nil {
				return nil, err
			}
			return []*transaction.Transaction{tx}, nil
		}}
	}
	del := chainx.Tpl{Name: "flip-del", Build: func(w *chainx.World) ([]*transaction.Transaction, error) {
		tx, err := w.URun(3, w.UA, []any{[]any{chainx.OpDel, []byte("flip")}})
		if err != nil {
			return nil, err
		}
		return []*transaction.Transaction{tx}, nil
	}}
	return append([]chainx.Tpl{put("flip-a", "1"), put("flip-b", "2"), del}, chainx.TplByName("empty")...)
}

// settingTemplates is the alphabet of plan D: a native setting kept both in
// contract storage and in the native's in-memory cache (Policy's whitelisted
// method fees) is set, set AGAIN to another value, removed and used, with
// restarts in between: what a restarted node reads back from storage must be
// what the running node has in its cache.
func settingTemplates() []chainx.Tpl {
	pol := nativehashes.PolicyContract
	one := func(tx *transaction.Transaction, err error) ([]*transaction.Transaction, error) {
		if err != nil {
			return nil, err
		}
		return []*transaction.Transaction{tx}, nil
	}
	set := chainx.Tpl{Name: "wl-set", Build: func(w *chainx.World) ([]*transaction.Transaction, error) {
		fee := int64(w.N.Height()%3) * 1000000 // consecutive uses give different fees
		return one(w.N.CallTx([]neotest.Signer{w.N.Committee}, pol, "setWhitelistFeeContract", w.UA.Hash, "other", 1, fee))
	}}
	rem := chainx.Tpl{Name: "wl-remove", Build: func(w *chainx.World) ([]*transaction.Transaction, error) {
		return one(w.N.CallTx([]neotest.Signer{w.N.Committee}, pol, "removeWhitelistFeeContract", w.UA.Hash, "other", 1))
	}}
	use := chainx.Tpl{Name: "wl-use", Build: func(w *chainx.World) ([]*transaction.Transaction, error) {
		return one(w.N.CallTx([]neotest.Signer{chainx.Signer(2)}, w.UA.Hash, "other", 7))
	}}
	return append([]chainx.Tpl{set, use, rem}, chainx.TplByName("empty")...)
}

// lifecycleTemplates is the alphabet of plan E: candidate acc1 walks through
// every (registered, voted-for) combination again and again - vote, reward
// accrual, vote withdrawn, unregistered (the candidate record is dropped),
// registered again, voted again - with idle blocks in between. Only effective
// operations are part of the alphabet: a toggle is built from the current state.
func lifecycleTemplates() []chainx.Tpl {
	neo := nativehashes.NeoToken
	one := func(tx *transaction.Transaction, err error) ([]*transaction.Transaction, error) {
		if err != nil {
			return nil, err
		}
		return []*transaction.Transaction{tx}, nil
	}
	registered := func(w *chainx.World) bool {
		cs, _ := w.N.BC.GetEnrollments()
		for _, c := range cs {
			if c.Key.Equal(chainx.Acc(1).PublicKey()) {
				return true
			}
		}
		return false
	}
	votes := func(w *chainx.World) bool {
		si := w.N.BC.GetStorageItem(-5, append([]byte{20}, chainx.Acc(1).ScriptHash().BytesBE()...))
		if si == nil {
			return false
		}
		st, err := state.NEOBalanceFromBytes(si)
		return err == nil && st.VoteTo != nil
	}
	tv := chainx.Tpl{Name: "toggle-vote1", Build: func(w *chainx.World) ([]*transaction.Transaction, error) {
		if votes(w) {
			return one(w.N.CallTx([]neotest.Signer{chainx.Signer(1)}, neo, "vote", chainx.Acc(1).ScriptHash(), nil))
		}
		if !registered(w) {
			return nil, fmt.Errorf("no candidate to vote for")
		}
		return one(w.N.CallTx([]neotest.Signer{chainx.Signer(1)}, neo, "vote", chainx.Acc(1).ScriptHash(), chainx.Acc(1).PublicKey().Bytes()))
	}}
	tr := chainx.Tpl{Name: "toggle-candidate1", Build: func(w *chainx.World) ([]*transaction.Transaction, error) {
		if registered(w) {
			return one(w.N.CallTx([]neotest.Signer{chainx.Signer(1)}, neo, "unregisterCandidate", chainx.Acc(1).PublicKey().Bytes()))
		}
		return one(w.N.MakeTx(chainx.CallScript(neo, "registerCandidate", chainx.Acc(1).PublicKey().Bytes()), []neotest.Signer{chainx.Signer(1)}, chainx.SysFee(1010_0000_0000)))
	}}
	return append([]chainx.Tpl{tv, tr}, chainx.TplByName("empty")...)
}

// pagesVariants are the variants of part "pages".
func pagesVariants(depth int) []variant {
	prune := func(c *config.Blockchain) {
		c.Ledger.RemoveUntraceableBlocks = true
		c.Ledger.GarbageCollectionPeriod = 1
	}
	all := uint(1<<uint(depth+1)) - 1
	return []variant{
		{Name: "mem/pages-prune-gc-flush-all", Backend: "mem", Cfg: prune, GC: true, Flush: all},
		{Name: "mem/pages-prune-gc-restart-alt", Backend: "mem", Cfg: prune, GC: true, Flush: all, Restart: all & 0x55555555},
		{Name: "bolt/pages-prune-gc", Backend: "bolt", Cfg: prune, GC: true, Flush: all, Restart: all & 0x44444444},
		{Name: "mem/pages-archival-restart-all", Backend: "mem", Restart: all},
	}
}

func flipVariants(depth int) []variant {
	all := uint(1<<uint(depth+1)) - 1
	alt := uint(0x55555555) & all
	latest := func(c *config.Blockchain) { c.Ledger.KeepOnlyLatestState = true }
	prune := func(c *config.Blockchain) {
		c.Ledger.RemoveUntraceableBlocks = true
		c.Ledger.GarbageCollectionPeriod = 1
	}
	return []variant{
		{Name: "mem/prune-gc-flush-all", Backend: "mem", Cfg: prune, GC: true, Flush: all},
		{Name: "mem/prune-gc-restart-alt", Backend: "mem", Cfg: prune, GC: true, Flush: all, Restart: alt},
		{Name: "mem/latest-flush-alt", Backend: "mem", Cfg: latest, Flush: alt, Restart: all &^ alt},
		{Name: "mem/archival-restart-all", Backend: "mem", Restart: all},
	}
}

func tplNames(r *vk.Run) []string {
	if e := os.Getenv("C01_TPLS"); e != "" { // experiments with deliberate changes only
		return strings.Split(e, ",")
	}
	thorough := r != nil && r.Thorough()
	q := []string{"empty", "vote1", "vote2+transfer", "neo-transfer", "policy-fee+tx", "u-storage2", "fault-between", "caught-callee", "destroy-ub", "unregister1", "designate-notary+use", "ledger-reads"}
	if thorough {
		q = append(q, "gas-transfer", "unvote1", "register2", "policy-storage-price", "block-account3", "u-storage", "deploy-uc", "designate-oracle", "designate-notary", "notary-deposit", "gas-to-contract", "oracle-request", "max-traceable", "exec-fee")
	}
	return q
}

func TestCheck(t *testing.T) {
	vk.UseT(t)
	r := vk.Start("C01", "model_checking", 175*time.Second, 25*time.Minute)
	defer vk.CleanScratch()
	stopProf := func() {}
	if p := os.Getenv("C01_CPUPROF"); p != "" { // development aid
		if f, err := os.Create(p); err == nil {
			_ = pprof.StartCPUProfile(f)
			stopProf = func() { pprof.StopCPUProfile(); f.Close() }
		}
	}
	fams := []family{
		{Name: "single", MTB: 6},
		{Name: "single-srih", SRIH: true, MTB: 6},
		{Name: "multi", Multi: true, MTB: 8},
		{Name: "multi-srih", Multi: true, SRIH: true, MTB: 8},
		// hardforks activating INSIDE the explored histories (preamble = heights 1..3): natives are
		// updated/activated at these heights and a restarted node re-derives which ones are active
		{Name: "single-hf", MTB: 6, HF: map[string]uint32{"Aspidochelone": 0, "Basilisk": 0, "Cockatrice": 0, "Domovoi": 0, "Echidna": 4, "Faun": 5, "Gorgon": 6}},
	}
	// families of plan G only: the multi configuration of the repository's unit-test protocol file activates
	// the hardforks up to Echidna at heights 1..5 and never Faun/Gorgon; here all of them are active from genesis
	// (Policy.blockAccount revokes votes, destroy blocks the contract's hash, Gorgon's reward rules)
	allHF := map[string]uint32{"Aspidochelone": 0, "Basilisk": 0, "Cockatrice": 0, "Domovoi": 0, "Echidna": 0, "Faun": 0, "Gorgon": 0}
	allFams := append(append([]family{}, fams...), family{Name: "multi-faun", Multi: true, MTB: 8, HF: allHF})
	depth := 2
	pads := vk.Pick(r, []int{0, 1, 2}, []int{0, 1, 2, 3, 5})
	if r.Replay != "" {
		replay(r, allFams, depth)
		return
	}
	var scs []*scenario
	if os.Getenv("C01_PAGES") != "" {
		// Part "pages": built with the header-hash page size scaled from 2000 to 4 (overlay hdrbatch4).
		// Only then a bounded history makes a pruning node really delete old blocks and transactions
		// (removeUntraceableBlocks never deletes inside the current header-hash page): plan F with the
		// answer coming 10..20 blocks after the request, on pruning+GC variants against the archival reference.
		tp := chainx.TplByName("designate-oracle", "oracle-request", "empty", "oracle-respond", "ledger-reads")
		for _, f := range fams {
			if f.Multi || (!r.Thorough() && f.SRIH) {
				continue
			}
			for k := 10; k <= 20; k += vk.Pick(r, 2, 1) {
				for _, last := range []int{3, 4} { // oracle response / plain Ledger reads of the old transaction
					h := []int{0, 1}
					for i := 0; i < k; i++ {
						h = append(h, 2)
					}
					if last == 4 {
						h[2] = 4 // reads right after the request as well
					}
					h = append(h, last, 2)
					scs = append(scs, &scenario{r: r, vs: pagesVariants(len(h)), fam: f, pad: 0, tpls: tp, depth: len(h), fixed: [][]int{h}, tree: map[histKey]*treeNode{}})
				}
			}
		}
		fams = nil
	}
	if os.Getenv("C01_ONLY") == "G" { // development aid: plan G alone
		fams = nil
	}
	for _, f := range fams {
		for _, p := range pads {
			if !f.Multi && p > 0 {
				continue // epoch is 1 block with one committee member: padding changes nothing
			}
			// plan A: the full alphabet, depth 2, all variants of the tier
			scs = append(scs, &scenario{r: r, vs: variants(r, 2), fam: f, pad: p, tpls: chainx.TplByName(tplNames(r)...), depth: 2, tree: map[histKey]*treeNode{}})
			if !f.Multi && (f.HF == nil || r.Thorough()) {
				// plan C: delete-then-recreate across blocks (values flipping back and forth,
				// unrelated blocks in between), depth 5, on the trie modes with reference
				// counting / garbage collection and a restart-heavy archival control
				scs = append(scs, &scenario{r: r, vs: flipVariants(5), fam: f, pad: p, tpls: flipTemplates(), depth: 5, tree: map[histKey]*treeNode{}})
			}
			if f.Name == "single" || (r.Thorough() && !f.Multi) {
				// plan D: a cached native setting set, re-set, removed and used, depth 4
				scs = append(scs, &scenario{r: r, vs: flipVariants(4), fam: f, pad: p, tpls: settingTemplates(), depth: 4, tree: map[histKey]*treeNode{}})
			}
			if f.Name == "single" || (r.Thorough() && !f.Multi) {
				// plan E: candidate life cycle (vote, reward, unvote, unregister = record dropped,
				// register, vote again ...), depth 7 with at most 2 idle blocks (thorough: depth 8, any)
				d := vk.Pick(r, 7, 8)
				fv := flipVariants(d)
				sc := &scenario{r: r, vs: []variant{fv[1], fv[3]}, fam: f, pad: p, tpls: lifecycleTemplates(), depth: d, tree: map[histKey]*treeNode{}}
				if !r.Thorough() {
					sc.filter = func(h []int) bool {
						idle := 0
						for _, k := range h {
							if k == 2 {
								idle++
							}
						}
						return idle <= 2
					}
				}
				scs = append(scs, sc)
			}
			if !f.Multi && (f.HF == nil || r.Thorough()) {
				// plan F: an oracle request answered k blocks later, k = 0..MaxTraceableBlocks+2 (the
				// original transaction gets older than what pruning nodes keep), all variants
				tp := chainx.TplByName("designate-oracle", "oracle-request", "empty", "oracle-respond")
				for k := 0; k <= int(f.MTB)+2; k++ {
					if !r.Thorough() && f.Name != "single" && k != int(f.MTB)+1 {
						continue
					}
					h := []int{0, 1}
					for i := 0; i < k; i++ {
						h = append(h, 2)
					}
					h = append(h, 3, 2)
					scs = append(scs, &scenario{r: r, vs: variants(r, len(h)), fam: f, pad: p, tpls: tp, depth: len(h), fixed: [][]int{h}, tree: map[histKey]*treeNode{}})
				}
			}
			if r.Thorough() {
				// plan B: the quick alphabet, depth 3, the basic variants
				scs = append(scs, &scenario{r: r, vs: variants(nil, 3), fam: f, pad: p, tpls: chainx.TplByName(tplNames(nil)...), depth: 3, tree: map[histKey]*treeNode{}})
			}
		}
	}
	var blocks, hist, runs vk.Counter
	states := vk.NewSet()
	// plan G (ext_cross_test.go): cross-native side effects, restart at every later height. One
	// base scenario per family owns the preamble; every path is a sequential scenario on top of it.
	type xplan struct {
		base  *scenario
		paths []xpath
	}
	var xplans []xplan
	if os.Getenv("C01_PAGES") == "" && os.Getenv("C01_TPLS") == "" {
		for _, f := range allFams {
			var paths []xpath
			switch {
			case f.Name == "multi-faun", f.Name == "multi", f.Name == "multi-srih" && r.Thorough():
				if f.Name == "multi-faun" {
					// plan J (ext_many_test.go): many of a kind in one block (the Notary histories need the
					// family with every hardfork; on multi / multi-srih neotest cannot build their witnesses)
					paths = manyPaths(r.Thorough(), true, r.Thorough())
				}
				paths = append(paths, crossPaths(r.Thorough(), 6)...)
				// plan H (ext_thresh_test.go): election inputs crossing a threshold
				paths = append(paths, thrPaths(r.Thorough(), 6, f.Name == "multi-faun")...)
			case f.Name == "single":
				// plan I (ext_share_test.go) first: shared MPT nodes x flush schedule on the reference-counting trie modes
				paths = append(manyPaths(r.Thorough(), false, true), shPaths(r.Thorough())...) // plan J before it (cheapest)
				paths = append(paths, crossPaths(r.Thorough(), 1)...) // one-block epochs: the committee is refreshed every block
				paths = append(paths, thrPaths(r.Thorough(), 1, true)...)
			case f.Name == "single-hf":
				paths = hfPaths()
			}
			if len(paths) == 0 {
				continue
			}
			base := &scenario{r: r, fam: f, pad: 0, depth: 0, tree: map[histKey]*treeNode{}}
			scs = append(scs, base)
			xplans = append(xplans, xplan{base, paths})
		}
	}
	// stage 1: reference trees (level by level so that prefixes exist)
	for _, sc := range scs {
		n, _, err := sc.refNode(nil)
		if err != nil {
			fmt.Println("CHECK-ERROR: cannot build preamble:", sc.fam.Name, err)
			os.Exit(3)
		}
		n.Close()
	}
	// stage 2 (a closure: plan G runs it on its own scenarios before the other plans build their trees)
	runStage2 := func(scs []*scenario) {
		type vjob struct {
			sc *scenario
			h  []int
			v  variant
		}
		var vjobs []vjob
		for _, sc := range scs {
			each := func(h []int) {
				hh := append([]int{}, h...)
				if _, ok := sc.tree[key(hh)]; !ok {
					return
				}
				hist.Inc()
				for _, v := range sc.vs {
					vjobs = append(vjobs, vjob{sc, hh, v})
				}
			}
			if sc.fixed != nil {
				for _, f := range sc.fixed {
					each(f)
				}
				continue
			}
			enumerate(len(sc.tpls), sc.depth, each)
		}
		r.Parallel(len(vjobs), func(i int) {
			j := vjobs[i]
			nb, rec := j.sc.runVariant(j.h, j.v)
			blocks.Add(nb)
			runs.Inc()
			for d := 1; d <= len(j.h); d++ {
				tn := j.sc.tree[key(j.h[:d])]
				states.Add(fmt.Sprintf("%s/%d/%s/%s", j.sc.fam.Name, d, tn.obs.StateRoot, j.v.Name))
			}
			if rec != nil && os.Getenv("C01_XLIST") != "" { // development aid: list failing cases compactly, no violation
				d := ""
				if len(rec.Diff) > 0 {
					d = rec.Diff[0][:min(len(rec.Diff[0]), 40)]
				}
				fmt.Printf("XLIST %s %s %s at=%d %s %s\n", rec.Family, j.sc.label, rec.Variant, rec.At, rec.What, d)
				return
			}
			if rec != nil {
				r.Outcome("variant-differs")
				if j.sc.label != "" {
					// plan G: <what>:<family>:<path group>:<path>:<variant> (a path name says setup / event@height)
					r.Violation(fmt.Sprintf("%s:%s:%s:%s:%s", rec.What[:min(len(rec.What), 28)], rec.Family, j.sc.group, j.sc.label, rec.Variant), rec)
					return
				}
				r.Violation(fmt.Sprintf("%s:%s:%s:pad%d:%s", rec.What[:min(len(rec.What), 28)], rec.Family, rec.Variant, rec.Pad, strings.Join(rec.History, ",")), rec)
			} else {
				r.Outcome("agree")
				if j.sc.seq {
					r.Outcome("planG:" + j.sc.group + ":agree")
				}
				r.Sample(map[string]any{"family": j.sc.fam.Name, "pad": j.sc.pad, "history": j.sc.tree[key(j.h)].names, "variant": j.v.Name, "final_root": j.sc.tree[key(j.h)].obs.StateRoot})
			}
		})
	}
	var xscs []*scenario
	for _, xp := range xplans {
		xscs = append(xscs, crossScenarios(r, xp.base, xp.paths)...)
	}
	if f := os.Getenv("C01_XONLY"); f != "" { // development aid: only the plan G/H paths whose "family/label" contains f
		var keep []*scenario
		for _, sc := range xscs {
			if strings.Contains(sc.fam.Name+"/"+sc.label, f) {
				keep = append(keep, sc)
			}
		}
		xscs = keep
	}
	// plan J first, whatever the family: a deadline must not cut it
	sort.SliceStable(xscs, func(i, j int) bool {
		return strings.HasPrefix(xscs[i].group, "J") && !strings.HasPrefix(xscs[j].group, "J")
	})
	xbuilt := make([]bool, len(xscs))
	r.Parallel(len(xscs), func(i int) {
		if err := xscs[i].growPath(); err != nil {
			// every path of plan G is designed to be applicable: a path that cannot be built is a harness error
			crossFatal(xscs[i].fam.Name, xscs[i].label, err)
		}
		xbuilt[i] = true
		blocks.Add(xscs[i].depth)
	})
	xgroups := map[string][3]int{} // group -> paths, blocks, variant runs
	for i, sc := range xscs {
		if !xbuilt[i] {
			continue // deadline
		}
		g := xgroups[sc.fam.Name+"/"+sc.group]
		g[0]++
		g[1] += sc.depth
		g[2] += len(sc.vs)
		xgroups[sc.fam.Name+"/"+sc.group] = g
	}
	// plan G runs first and completely (reference paths above, variants here): its cases are the cheap and
	// sharp ones, a deadline must cut the broad plans, not them
	runStage2(xscs)
	var level [][]int
	level = append(level, []int{})
	var broken sync.Map
	maxDepth := 0
	for _, sc := range scs {
		maxDepth = max(maxDepth, sc.depth)
	}
	for d := 1; d <= maxDepth; d++ {
		type job struct {
			sc *scenario
			h  []int
		}
		var jobs []job
		for _, sc := range scs {
			if d > sc.depth || sc.seq {
				continue
			}
			var hs [][]int
			if sc.fixed != nil {
				seen := map[histKey]bool{}
				for _, f := range sc.fixed {
					if !seen[key(f[:d])] {
						seen[key(f[:d])] = true
						hs = append(hs, append([]int{}, f[:d]...))
					}
				}
			} else {
				enumerate(len(sc.tpls), d, func(h []int) { hs = append(hs, append([]int{}, h...)) })
			}
			for _, h := range hs {
				if _, bad := broken.Load(sc.fam.Name + fmt.Sprint(sc.pad) + string(key(h[:len(h)-1]))); bad {
					continue
				}
				if sc.filter != nil && !sc.filter(h) {
					continue
				}
				if d > 1 {
					if _, ok := sc.tree[key(h[:d-1])]; !ok {
						continue
					}
				}
				jobs = append(jobs, job{sc, h})
			}
		}
		r.Parallel(len(jobs), func(i int) {
			j := jobs[i]
			if err := j.sc.grow(j.h); err != nil {
				// A template that cannot be built in this state (e.g. the contract
				// it calls was destroyed by the previous block) is not part of the
				// history space; it is counted, not reported.
				r.Outcome("template-not-applicable: " + j.sc.tpls[j.h[len(j.h)-1]].Name)
				if strings.Contains(err.Error(), "reference rejected its own block") {
					fmt.Println("note:", j.sc.fam.Name, j.h, err)
				}
				return
			}
			blocks.Inc()
		})
	}
	// stage 2: variants over all complete histories (plan G ran already)
	runStage2(scs)
	var names []string
	vs := variants(r, 2)
	for _, v := range vs {
		names = append(names, v.Name)
	}
	if len(names) > 24 {
		names = append(names[:24], fmt.Sprintf("... %d more", len(vs)-24))
	}
	roots := vk.NewSet()
	for _, sc := range append(append([]*scenario{}, scs...), xscs...) {
		for _, tn := range sc.tree {
			roots.Add(sc.fam.Name + tn.obs.StateRoot)
		}
	}
	// plan G counters: per family/group the number of paths, reference blocks, variant runs, and in how
	// many paths the event really changed the committee / the validators / the candidate list later on
	xcount := map[string]map[string]int{}
	xoutcomes := vk.NewSet()
	for i, sc := range xscs {
		if !xbuilt[i] {
			continue
		}
		k := sc.fam.Name + "/" + sc.group
		if xcount[k] == nil {
			g := xgroups[k]
			xcount[k] = map[string]int{"paths": g[0], "reference_blocks": g[1], "variant_runs": g[2]}
		}
		h := sc.fixed[0]
		first := sc.tree[key(h[:1])].obs
		com, val, enr := false, false, false
		for d := 2; d <= len(h); d++ {
			o := sc.tree[key(h[:d])].obs
			com = com || o.Committee != first.Committee
			val = val || o.NextVals != first.NextVals
			enr = enr || o.Enroll != first.Enroll
		}
		last := sc.tree[key(h)].obs
		xoutcomes.Add(sc.fam.Name + last.Committee + "|" + last.NextVals + "|" + last.Enroll + "|" + last.Policy + "|" + last.Roles)
		for name, b := range map[string]bool{"committee_changed": com, "validators_changed": val, "candidates_changed": enr} {
			if b {
				xcount[k][name]++
			}
		}
	}
	stopProf()
	manyCov := manyCoverage(xscs, xbuilt)
	shCov := shStats(xscs, xbuilt)
	shScalar := func(k string) any {
		if shCov == nil {
			return 0
		}
		return shCov[k]
	}
	r.Finish(map[string]any{
		"plan_I_chains":                           shScalar("chains"),
		"plan_I_distinct_group_histories":         shScalar("distinct_group_histories"),
		"plan_I_group_runs":                       shScalar("group_runs"),
		"plan_I_group_runs_with_a_shared_leaf":    shScalar("group_runs_with_a_shared_leaf"),
		"plan_I_variant_runs":                     shScalar("variant_runs"),
		"plan_I_trie_reads_compared_with_storage": shScalar("trie_reads_compared_with_storage"),
		"plan_J_paths":                                       manyCov["paths"],
		"plan_J_path_groups":                                 manyCov["path_groups"],
		"plan_J_variant_runs":                                manyCov["variant_runs"],
		"plan_J_fresh_replica_replays":                       manyCov["fresh_replica_replays"],
		"plan_J_many_blocks":                                 manyCov["many_blocks"],
		"plan_J_distinct_many_block_results":                 manyCov["distinct_many_block_results"],
		"plan_J_blocks_with_ge2_oracle_rewards_postpersist":  manyCov["blocks_with_ge2_oracle_rewards_in_postpersist"],
		"plan_J_blocks_with_ge2_notary_rewards_onpersist":    manyCov["blocks_with_ge2_notary_rewards_in_onpersist"],
		"plan_J_blocks_with_ge2_fee_burns_onpersist":         manyCov["blocks_with_ge2_fee_burns_in_onpersist"],
		"plan_J_max_oracle_nodes_paid_in_one_postpersist":    manyCov["max_oracle_nodes_paid_postpersist"],
		"plan_J_max_notary_nodes_paid_in_one_onpersist":      manyCov["max_notary_nodes_paid_onpersist"],
		"plan_J_max_fee_payers_burnt_in_one_onpersist":       manyCov["max_fee_payers_burnt_onpersist"],
		"plan_J_transfer_log_entries_of_reference_compared":  manyCov["transfer_log_entries_reference"],
		"plan_J_repetitions_per_path":                        vk.Pick(r, manyRepeatQuick, manyRepeatThorough),
		"plan_J_many_of_a_kind":                              manyCov,
		"plan_G_groups":                           xcount,
		"plan_H_election_thresholds":              thrStats(xscs, xbuilt),
		"plan_I_shared_nodes":                     shCov,
		"plan_G_paths":                            len(xscs), // plans G, H and I together
		"plan_G_distinct_final_answers":           xoutcomes.Len(),
		"plan_G_templates":                        min(len(xscs), 1) * len(crossTemplates()),
		"plan_G_probe_parts_dropped":              int(probeDropped.Load()),
		"states":                                  states.Len(),
		"transitions":                             int(blocks.Get()),
		"traces_validated_against_impl":           int(runs.Get()),
		"histories":                               int(hist.Get()),
		"distinct_state_roots":                    roots.Len(),
		"plans":                                   "A: full alphabet of the tier, depth 2, all variants; B (thorough only): quick alphabet, depth 3, basic variants; C (single families): value flip/delete/re-create alphabet, depth 5, pruning/GC/latest-state and restart variants; D (single families): Policy whitelisted-method fee set / set again / removed / used, depth 4, same variants; F (single families): oracle request answered 0..MaxTraceableBlocks+2 blocks later, all variants; E (single families): candidate life cycle toggles (vote / registration) + idle blocks, depth 7 (<= 2 idle) / 8, restart variants; G (multi; single for designate/setters; single-hf for the block list across Faun): cross-native side effects (Policy block/unblock of candidate / voter / committee member / NEO holder / contract, Management destroy/update of a voting contract, deploy of a blocked hash, re-designation of notary/oracle/state validator nodes with the old list used in the same block, setters of NEO/Policy/Notary/Oracle values) at epoch phases first/inner/last block, history continued over two epoch boundaries + probe block, replayed with ONE restart after block k for every k from the block before the event on; H (ext_thresh_test.go; single, multi-faun, a few on multi): election inputs crossing a threshold - voter turnout exactly at / one below / above 20% of the supply, registered candidates at n-1 / n / n+1 of the committee size, votes in a tie - crossed by ONE operation (vote, unvote, vote change, partial / whole-balance transfer from and to voters, unregistration with votes and the votes leaving later in one go, re-registration, registration by GAS payment, Policy block/unblock of a voter or candidate, NEO setters next to a vote) or by a pair (there and back again), same continuation and variants as G; I (ext_share_test.go; single, runs first): shared MPT nodes x flush schedule on the reference-counting trie modes - groups of two keys and two values of their own (kinds: deep below stored prefix keys / shallow / same key under two contracts / one key a prefix of the other), state after block S in {absent, A, B}^2 up to A<->B, blocks OP1 and OP2 apply {nothing, put A, put B, delete} to each key (4 x 16 x 16 group histories, 256 per chain side by side), T1 flips / creates every key, six idle blocks (GC sweeps), T2 deletes the first key of every group; replayed on KeepOnlyLatestState and RemoveUntraceableBlocks+GC with every subset of the flush points {before S, after S, OP1, OP2, T1} x restart sets {none, after S, after OP2, after both}; additional oracle: the latest state read through the trie equals the contract storage after OP2, T1 and T2; J (ext_many_test.go; single: every case, multi-faun: a few; runs first): many of a kind in ONE block - 2..4 oracle responses of one block whose requests (consecutive ids, every subset of 4 with >= 2 members, ascending / descending transaction order) are assigned to different oracle nodes (2, 3, 4 designated), 2..4 notary-assisted transactions with different NKeys over 2..4 notary nodes, 2..4 fee payers, three voters voting / claiming in one block, contracts deployed and destroyed in one block, all kinds mixed; replayed on r fresh replicas of the reference's own configuration (r = 4 quick / 16 thorough), restart before / after the block and after every block, flush, BoltDB, mempool, SaveInvocations, pruning+GC; observation additionally: NEP-17/NEP-11 transfer log entries of the block in log order and last-updated heights of every account a Transfer event of the block names, execution results delivered to subscribers equal the stored ones event by event",
		"block_alphabet":                          tplNames(r),
		"families":                                []string{"single", "single-srih", "multi", "multi-srih", "single-hf (Echidna@4, Faun@5, Gorgon@6)", "multi-faun (plan G only: 4/6 with every hardfork from genesis; 'multi' has Echidna@5 and no Faun)"},
		"preamble_pads":                           pads,
		"variants":                                names,
		"variant_count":                           len(vs),
		"rule":                                    "every history = preamble + depth blocks from the block alphabet (all K^depth), on every family; each replayed on every variant; state = (family, height, state root, variant)",
	}, []string{
		"backend batch atomicity/durability trusted; restarts are graceful (crashes are C02)",
		"pruned variants are compared at the current height only (everything compared there is retained)",
		"StateRootInHeader on/off are separate families (the block format differs, and block hashes enter native Ledger storage, so roots legitimately differ across families)",
		"node-local options exercised: backend, KeepOnlyLatestState, RemoveUntraceableBlocks+GC, SkipBlockVerification, SaveStorageBatch, mempool content, flush and restart schedules",
		"plan J: the enumeration of histories is exhaustive within its bounds, but a subject that emits a batch in Go map iteration order is nondeterministic and is exposed only with a probability: every replay of a many block is an independent trial (a deterministic subject gives identical runs). Two executions of a 2-element batch differ with probability >= 0.2 (a small Go map starts its iteration at one of 8 slot offsets; 4 elements: >= 0.5), every path replays its many blocks on >= 8 replicas (4 fresh ones of the reference's own configuration + flush / restart variants; 16 fresh ones in thorough) and every kind of batch has >= 3 paths in the quick tier: residual probability of missing such a subject < 1% per kind (oracle rewards: 39+6 paths, < 1e-9); a replayed violation of this kind reproduces in some of the 5 replay runs only",
		"plan J compares transfer logs through ForEachNEP17Transfer / ForEachNEP11Transfer restricted to the entries of the current block (older entries may be pruned on RemoveUntraceableBlocks nodes); no NEP-11 contract exists in the histories (NEP-11 logs are compared and empty)",
	})
}

func enumerate(k, d int, f func([]int)) {
	h := make([]int, d)
	var rec func(i int)
	rec = func(i int) {
		if i == d {
			f(h)
			return
		}
		for x := 0; x < k; x++ {
			h[i] = x
			rec(i + 1)
		}
	}
	rec(0)
}

func replay(r *vk.Run, fams []family, depth int) {
	var c caseRec
	if err := r.ReadReplay(&c); err != nil {
		fmt.Println("cannot read replay:", err)
		os.Exit(3)
	}
	// names are stable across tiers; rebuild the alphabet from the recorded names
	local := append(append(append(flipTemplates(), settingTemplates()...), lifecycleTemplates()...), crossTemplates()...)
	seq := false // plan G histories are built on one reference node
	for _, name := range c.History {
		seq = seq || strings.HasPrefix(name, "x-") || strings.HasPrefix(name, thrPrefix) || strings.HasPrefix(name, shPrefix) || strings.HasPrefix(name, manyPrefix)
	}
	var tpls []chainx.Tpl
	for _, name := range c.History {
		found := false
		if strings.HasPrefix(name, thrPrefix) {
			tpls, found = append(tpls, thrTpl(name)), true
		}
		if strings.HasPrefix(name, shPrefix) {
			tpls, found = append(tpls, shTpl(name)), true
		}
		if strings.HasPrefix(name, manyPrefix) {
			tpls, found = append(tpls, manyTpl(name)), true
		}
		for _, t := range local {
			if found {
				break
			}
			if t.Name == name && name != "empty" {
				tpls, found = append(tpls, t), true
				break
			}
		}
		if !found {
			tpls = append(tpls, chainx.TplByName(name)...)
		}
	}
	h := make([]int, len(tpls))
	for i := range h {
		h[i] = i
	}
	for _, f := range fams {
		if f.Name != c.Family {
			continue
		}
		for i := 0; i < 5; i++ {
			sc := &scenario{fam: f, pad: c.Pad, tpls: tpls, depth: len(h), tree: map[histKey]*treeNode{}}
			n, _, err := sc.refNode(nil)
			if err != nil {
				fmt.Println("replay: preamble:", err)
				os.Exit(3)
			}
			n.Close()
			if seq {
				sc.fixed = [][]int{h}
				if err := sc.growPath(); err != nil {
					fmt.Println("replay: grow:", err)
					os.Exit(3)
				}
			}
			for d := 1; d <= len(h) && !seq; d++ {
				if err := sc.grow(h[:d]); err != nil {
					fmt.Println("replay: grow:", err)
					os.Exit(3)
				}
			}
			var v variant
			found := false
			for _, x := range append(append(variants(r, len(h)), flipVariants(len(h))...), pagesVariants(len(h))...) {
				if x.Name == c.Variant && !found {
					v, found = x, true
				}
			}
			if sv, ok := shVariantByName(c.Variant); ok && !found {
				v, found = sv, true
			}
			if mv, ok := manyVariantByName(c.Variant, len(h)); ok && !found && seq {
				for _, name := range c.History {
					if strings.HasPrefix(name, manyPrefix) {
						v, found = mv, true
					}
				}
			}
			if !found {
				v = variant{Name: c.Variant, Backend: strings.SplitN(c.Variant, "/", 2)[0], Flush: c.Flush, Restart: c.Restart}
			}
			_, rec := sc.runVariant(h, v)
			if rec != nil {
				fmt.Printf("replay %d: REPRODUCED at block %d: %s %v\n", i, rec.At, rec.What, rec.Diff)
				r.Violation("replay:"+rec.What, rec)
			} else {
				fmt.Printf("replay %d: agrees with the reference\n", i)
			}
		}
	}
	r.Finish(map[string]any{"states": 1, "transitions": 5, "traces_validated_against_impl": 5}, nil)
}
