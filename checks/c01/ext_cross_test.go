// Plan G of C01: cross-native side effects followed by a restart at every later
// height.
//
// The in-memory caches of the native contracts carry invalidation flags and
// derived values that one native relies on ANOTHER native to keep up to date:
// NEO's votesChanged flag decides whether the committee is recomputed at the end
// of an epoch, and Policy.blockAccount / Policy.unblockAccount / Management.destroy
// change the candidate set NEO computes the committee from; Notary and GAS read
// Policy's cached attribute fee and Designate's cached node lists; Management asks
// Policy's cached block list on deploy; Oracle pays Designate's cached nodes. A
// running node works from these caches, a restarted node rebuilds all of them from
// storage (InitializeCache), so a forgotten flag or a stale list shows as a
// difference between the never-restarted reference replica and a replica restarted
// once at ANY later height - but only for histories in which nothing else heals
// the cache (no other vote in the rest of the epoch), which cross the next epoch
// boundary(ies) after the event, and which then use the cached values.
//
// Every history of this plan is a fixed path
//
//	setup (who votes for whom / who is a candidate) , idle blocks up to the event's
//	epoch phase , EVENT , idle blocks over two epoch boundaries , probe block
//
// built block after block on ONE reference node, and it is replayed on a variant
// restarted once after block k for EVERY k from the block before the event to the
// last but one block (plus a never-restarted, always-flushing control and a
// restart-after-every-block variant). The probe block reads every native getter a
// contract can see and moves NEO / GAS / registers / deploys / uses the notary and
// oracle nodes, so that a cached value nobody observed until then enters the state.
package c01

import (
	"encoding/json"
	"fmt"
	"os"
	"strings"
	"sync/atomic"

	"github.com/nspcc-dev/neo-go/pkg/core/native/nativehashes"
	"github.com/nspcc-dev/neo-go/pkg/core/native/nativeids"
	"github.com/nspcc-dev/neo-go/pkg/core/native/noderoles"
	"github.com/nspcc-dev/neo-go/pkg/core/transaction"
	"github.com/nspcc-dev/neo-go/pkg/crypto/hash"
	"github.com/nspcc-dev/neo-go/pkg/crypto/keys"
	"github.com/nspcc-dev/neo-go/pkg/io"
	"github.com/nspcc-dev/neo-go/pkg/neotest"
	"github.com/nspcc-dev/neo-go/pkg/smartcontract"
	"github.com/nspcc-dev/neo-go/pkg/smartcontract/manifest"
	"github.com/nspcc-dev/neo-go/pkg/util"
	"github.com/nspcc-dev/neo-go/pkg/vm/emit"
	"github.com/nspcc-dev/neo-go/pkg/wallet"

	"verif/lib/chainx"
	"verif/lib/vk"
)

const xgas = 100000000

// probeDropped counts probe parts that did not pass the reference's own verification (evidence counter; 0 on a
// consistent tree).
var probeDropped atomic.Int64

type txs = []*transaction.Transaction

func xpub(i int) []byte       { return chainx.Acc(i).PublicKey().Bytes() }
func xacc(i int) util.Uint160 { return chainx.Acc(i).ScriptHash() }

func init() { chainx.RegisterKey(chainx.Acc(7)) }

// electedSigner is the majority multi-signature account of the committee that
// consists of the candidate accounts in members.
func electedSigner(members ...int) neotest.Signer {
	var pubs keys.PublicKeys
	for _, i := range members {
		pubs = append(pubs, chainx.Acc(i).PublicKey())
	}
	m := smartcontract.GetMajorityHonestNodeCount(len(pubs))
	var accs []*wallet.Account
	for _, i := range members {
		a := wallet.NewAccountFromPrivateKey(chainx.Acc(i).PrivateKey())
		if err := a.ConvertMultisig(m, pubs.Copy()); err != nil {
			panic(err)
		}
		accs = append(accs, a)
	}
	return neotest.NewMultiSigner(accs...)
}

// committeeSigners: a committee transaction of this plan is sent by account 5
// (never blocked) and carries the witnesses of the standby committee AND of
// every committee that can be elected in this plan's histories (the candidates
// 1..6, or any six of the candidates 1..7 once account 7 is registered), so that
// it is valid whichever of them is in office when it executes - including the
// first block of an epoch, where the committee changes in OnPersist of the very
// block that carries the transaction.
func committeeSigners(w *chainx.World) []neotest.Signer {
	sg := []neotest.Signer{chainx.Signer(5), w.N.Committee}
	if !w.N.Opts.Multi {
		// single family: one standby member; the elected committee is candidate 1 alone
		return append(sg, electedSigner(1))
	}
	sg = append(sg, electedSigner(1, 2, 3, 4, 5, 6))
	if isCandidate(w, 7) {
		for out := 1; out <= 6; out++ {
			var m []int
			for i := 1; i <= 7; i++ {
				if i != out {
					m = append(m, i)
				}
			}
			sg = append(sg, electedSigner(m...))
		}
	}
	return sg
}

func isCandidate(w *chainx.World, i int) bool {
	return w.N.BC.GetStorageItem(nativeids.NeoToken, append([]byte{33}, xpub(i)...)) != nil
}

func isBlocked(w *chainx.World, h util.Uint160) bool {
	return w.N.BC.GetStorageItem(nativeids.PolicyContract, append([]byte{15}, h.BytesBE()...)) != nil
}

func committeeTx(w *chainx.World, h util.Uint160, method string, args ...any) (*transaction.Transaction, error) {
	return w.N.MakeTx(chainx.CallScript(h, method, args...), committeeSigners(w))
}

func seqTx(fs ...func() (*transaction.Transaction, error)) (txs, error) {
	var out txs
	for _, f := range fs {
		tx, err := f()
		if err != nil {
			return nil, err
		}
		out = append(out, tx)
	}
	return out, nil
}

// who resolves the account names used in template names.
func who(w *chainx.World, name string) util.Uint160 {
	switch name {
	case "cand1": // candidate with 30M NEO of its own (votes for itself or for nobody)
		return xacc(1)
	case "acc2": // 20M NEO: the voter of candidate 1 in setup vote2for1, a NEO holder without a vote otherwise
		return xacc(2)
	case "cand4": // candidate whose account never held NEO (no NEO account record at all)
		return xacc(4)
	case "acc7": // funded by setup fund7: NEO but no vote, candidate number seven after reg7
		return xacc(7)
	case "member0": // account of the first standby committee member (no NEO, not a candidate)
		if ms, ok := w.N.Committee.(neotest.MultiSigner); ok {
			return ms.Single(0).Account().ScriptHash()
		}
		return w.N.Committee.ScriptHash()
	case "holder": // the validators' multi-signature account: about half of all NEO, never votes
		return w.N.Validator.ScriptHash()
	case "ua":
		return w.UA.Hash
	case "ub":
		return w.UB.Hash
	case "uc": // hash of a contract that is not deployed yet
		return w.UC.Hash
	}
	panic("unknown account name " + name)
}

var whoNames = []string{"cand1", "acc2", "cand4", "acc7", "member0", "holder", "ua", "ub", "uc"}

func designateTpl(name string, role noderoles.Role, nodes ...int) chainx.Tpl {
	return chainx.Tpl{Name: name, Build: func(w *chainx.World) (txs, error) {
		var ks []any
		for _, i := range nodes {
			ks = append(ks, xpub(i))
		}
		return seqTx(func() (*transaction.Transaction, error) {
			return committeeTx(w, nativehashes.RoleManagement, "designateAsRole", int64(role), ks)
		})
	}}
}

// notaryAssisted: an ordinary transaction of account 5 that carries the
// NotaryAssisted attribute and the Notary contract as its second signer, signed
// by notary node `node`: GAS.OnPersist and Notary.OnPersist split its fee with
// Policy's cached attribute fee over Designate's cached notary node list.
func notaryAssisted(w *chainx.World, node int) (*transaction.Transaction, error) {
	magic := uint32(w.N.BC.GetConfig().Magic)
	ns := neotest.NewContractSigner(nativehashes.Notary, func(tx *transaction.Transaction) []any {
		cp := *tx
		return []any{chainx.Acc(node).PrivateKey().SignHashable(magic, &cp)}
	})
	return w.N.MakeTx(chainx.CallScript(nativehashes.GasToken, "transfer", xacc(5), xacc(6), int64(13), nil),
		[]neotest.Signer{chainx.Signer(5), ns}, chainx.SysFee(xgas),
		func(t *transaction.Transaction) {
			t.Signers[1].Scopes = transaction.None
			t.Attributes = append(t.Attributes, transaction.Attribute{Type: transaction.NotaryAssistedT, Value: &transaction.NotaryAssisted{NKeys: 1}})
		})
}

// oracleRespond answers the oldest pending oracle request, signed by the oracle
// nodes given (they must be the list designated last).
func oracleRespond(w *chainx.World, nodes ...int) (*transaction.Transaction, error) {
	n := w.N
	var (
		id    uint64
		found bool
	)
	n.BC.SeekStorage(nativeids.OracleContract, []byte{7}, func(k, v []byte) bool {
		if len(k) == 8 && !found {
			for _, b := range k {
				id = id<<8 | uint64(b)
			}
			found = true
		}
		return !found
	})
	if !found {
		return nil, fmt.Errorf("no pending oracle request")
	}
	var pubs keys.PublicKeys
	for _, i := range nodes {
		pubs = append(pubs, chainx.Acc(i).PublicKey())
	}
	ver, err := smartcontract.CreateDefaultMultiSigRedeemScript(pubs)
	if err != nil {
		return nil, err
	}
	const reserved = int64(xgas / 10)
	tx := transaction.New(chainx.CallScript(nativehashes.OracleContract, "finish"), reserved/2)
	tx.NetworkFee = reserved - tx.SystemFee
	tx.Nonce = n.Nonce()
	tx.ValidUntilBlock = n.BC.BlockHeight() + 5
	tx.Signers = []transaction.Signer{
		{Account: nativehashes.OracleContract, Scopes: transaction.None},
		{Account: hash.Hash160(ver), Scopes: transaction.None},
	}
	tx.Attributes = []transaction.Attribute{{Type: transaction.OracleResponseT, Value: &transaction.OracleResponse{ID: id, Code: transaction.Success, Result: []byte{1, 2, 3}}}}
	// signatures in the order of the sorted keys, m of them
	sorted := pubs.Copy()
	sortKeys(sorted)
	m := smartcontract.GetDefaultHonestNodeCount(len(pubs))
	wr := io.NewBufBinWriter()
	cnt := 0
	for _, p := range sorted {
		if cnt == m {
			break
		}
		for _, i := range nodes {
			if chainx.Acc(i).PublicKey().Equal(p) {
				emit.Bytes(wr.BinWriter, chainx.Acc(i).PrivateKey().SignHashable(uint32(n.BC.GetConfig().Magic), tx))
				cnt++
			}
		}
	}
	tx.Scripts = []transaction.Witness{
		{InvocationScript: []byte{}, VerificationScript: []byte{}},
		{InvocationScript: wr.Bytes(), VerificationScript: ver},
	}
	return tx, nil
}

func sortKeys(p keys.PublicKeys) {
	for i := 1; i < len(p); i++ {
		for j := i; j > 0 && p[j].Cmp(p[j-1]) < 0; j-- {
			p[j], p[j-1] = p[j-1], p[j]
		}
	}
}

// lastDesignated returns the account numbers (3..6) of the node list designated last for role.
func lastDesignated(w *chainx.World, role noderoles.Role) []int {
	ks, _, err := w.N.BC.GetDesignatedByRole(role)
	if err != nil {
		return nil
	}
	var out []int
	for _, k := range ks {
		for i := 1; i <= 7; i++ {
			if chainx.Acc(i).PublicKey().Equal(k) {
				out = append(out, i)
			}
		}
	}
	if len(out) != len(ks) {
		return nil
	}
	return out
}

type setter struct {
	name   string
	hash   util.Uint160
	method string
	args   []any
}

func setters() []setter {
	neo, pol := nativehashes.NeoToken, nativehashes.PolicyContract
	return []setter{
		{"gas-per-block", neo, "setGasPerBlock", []any{int64(3 * xgas)}},
		{"register-price", neo, "setRegisterPrice", []any{int64(700 * xgas)}},
		{"attr-fee", pol, "setAttributeFee", []any{int64(transaction.NotaryAssistedT), int64(2000_0000)}},
		{"exec-fee", pol, "setExecFeeFactor", []any{int64(50)}},
		{"storage-price", pol, "setStoragePrice", []any{int64(50000)}},
		{"fee-per-byte", pol, "setFeePerByte", []any{int64(2000)}},
		{"ms-per-block", pol, "setMillisecondsPerBlock", []any{int64(7000)}},
		{"notary-delta", nativehashes.Notary, "setMaxNotValidBeforeDelta", []any{int64(20)}}, // <= MaxValidUntilBlockIncrement/2: before max-vub
		{"max-vub", pol, "setMaxValidUntilBlockIncrement", []any{int64(5)}},                  // < MaxTraceableBlocks (6 / 8 here)
		{"oracle-price", nativehashes.OracleContract, "setPrice", []any{int64(3000_0000)}},
	}
}

// probe builds the probe block on the current state. Every part that cannot
// apply in this state (a blocked signer, a destroyed contract, no notary node)
// is left out; the rest never depends on which replica executes it.
func probe(w *chainx.World, final bool) (txs, error) {
	neo, gasH, pol := nativehashes.NeoToken, nativehashes.GasToken, nativehashes.PolicyContract
	var out txs
	add := func(tx *transaction.Transaction, err error) {
		if err != nil || tx == nil {
			return
		}
		// A part the reference itself would not accept (its own cached notary / oracle node list
		// does not match the witness, ...) is left out instead of making the reference reject
		// its own block: the getter transaction still shows what the caches hold.
		if e := w.N.BC.VerifyTx(tx); e != nil {
			probeDropped.Add(1)
			return
		}
		out = append(out, tx)
	}
	h := int64(w.N.Height() + 1)
	// 1. everything a contract can read from the native caches, results on the stack
	var script []byte
	call := func(hh util.Uint160, m string, args ...any) {
		script = append(script, chainx.CallScript(hh, m, args...)...)
	}
	call(neo, "getCommittee")
	call(neo, "getNextBlockValidators")
	call(neo, "getCandidates")
	call(neo, "getCommitteeAddress")
	call(neo, "getGasPerBlock")
	call(neo, "getRegisterPrice")
	for _, a := range []util.Uint160{xacc(1), xacc(2), xacc(3), xacc(7), w.UA.Hash} {
		call(neo, "getAccountState", a)
		call(neo, "unclaimedGas", a, h)
	}
	for i := 1; i <= 7; i++ {
		call(neo, "getCandidateVote", xpub(i))
	}
	call(pol, "getFeePerByte")
	call(pol, "getExecFeeFactor")
	call(pol, "getStoragePrice")
	call(pol, "getAttributeFee", int64(transaction.NotaryAssistedT))
	call(pol, "getAttributeFee", int64(transaction.HighPriority))
	call(pol, "getMaxValidUntilBlockIncrement")
	call(pol, "getMillisecondsPerBlock")
	call(pol, "getMaxTraceableBlocks")
	for _, name := range whoNames {
		call(pol, "isBlocked", who(w, name))
	}
	for _, role := range []noderoles.Role{noderoles.StateValidator, noderoles.Oracle, noderoles.NeoFSAlphabet, noderoles.P2PNotary} {
		call(nativehashes.RoleManagement, "getDesignatedByRole", int64(role), h)
		if h > 1 {
			call(nativehashes.RoleManagement, "getDesignatedByRole", int64(role), h-1)
		}
	}
	call(nativehashes.Notary, "getMaxNotValidBeforeDelta")
	call(nativehashes.OracleContract, "getPrice")
	call(nativehashes.ContractManagement, "getMinimumDeploymentFee")
	for _, c := range []util.Uint160{w.UA.Hash, w.UB.Hash, w.UC.Hash} {
		call(nativehashes.ContractManagement, "hasMethod", c, "run", 1)
		call(nativehashes.ContractManagement, "isContract", c)
	}
	add(w.N.MakeTx(script, []neotest.Signer{chainx.Signer(5)}))
	// 2. NEO moves: GAS claims (gas-per-block history, GAS per vote), vote weight changes
	if !isBlocked(w, xacc(3)) {
		add(w.N.CallTx([]neotest.Signer{chainx.Signer(3)}, neo, "transfer", xacc(3), xacc(6), int64(1), nil))
	}
	if !isBlocked(w, xacc(2)) {
		add(w.N.CallTx([]neotest.Signer{chainx.Signer(2)}, neo, "transfer", xacc(2), xacc(1), int64(1), nil))
	}
	// 3. storage price / execution fee / Management's contract cache: a write through UA, GAS to UA with a callback
	if w.N.BC.GetContractState(w.UA.Hash) != nil && !isBlocked(w, w.UA.Hash) {
		add(w.N.CallTx([]neotest.Signer{chainx.Signer(5)}, w.UA.Hash, "run", []any{[]any{chainx.OpPut, []byte("probe"), []byte(fmt.Sprint(h))}, []any{chainx.OpNotify, 8}}))
		add(w.N.CallTx([]neotest.Signer{chainx.Signer(5)}, gasH, "transfer", xacc(5), w.UA.Hash, int64(1000), []any{[]any{chainx.OpPut, []byte("paid"), []byte(fmt.Sprint(h))}}))
	}
	// 4. notary nodes + attribute fee
	if nn := lastDesignated(w, noderoles.P2PNotary); len(nn) > 0 {
		add(notaryAssisted(w, nn[len(nn)-1]))
	}
	// 5. oracle nodes
	if on := lastDesignated(w, noderoles.Oracle); len(on) > 0 {
		add(oracleRespond(w, on...))
	}
	if final {
		// 6. register price: candidate 6 leaves and comes back (the price is charged as GAS of the transaction)
		if isCandidate(w, 6) {
			add(w.N.CallTx([]neotest.Signer{chainx.Signer(6)}, neo, "unregisterCandidate", xpub(6)))
		}
		var price int64 = 1000 * xgas
		if si := w.N.BC.GetStorageItem(nativeids.NeoToken, []byte{13}); si != nil {
			price = 0
			for i := len(si) - 1; i >= 0; i-- {
				price = price<<8 | int64(si[i])
			}
		}
		add(w.N.MakeTx(chainx.CallScript(neo, "registerCandidate", xpub(6)), []neotest.Signer{chainx.Signer(6)}, chainx.SysFee(price+10*xgas)))
		// 7. Management.deploy asks Policy whether the new hash is blocked
		if w.N.BC.GetContractState(w.UC.Hash) == nil && !isBlocked(w, xacc(2)) {
			mb, _ := json.Marshal(w.UC.Manifest)
			nb, _ := w.UC.NEF.Bytes()
			add(w.N.MakeTx(chainx.CallScript(nativehashes.ContractManagement, "deploy", nb, mb, nil), []neotest.Signer{chainx.Signer(2)}, chainx.SysFee(20*xgas)))
		}
	}
	return out, nil
}

// crossTemplates is the alphabet of plan G (names are stable: replay resolves them).
func crossTemplates() []chainx.Tpl {
	neo, gasH, pol := nativehashes.NeoToken, nativehashes.GasToken, nativehashes.PolicyContract
	mgmt := nativehashes.ContractManagement
	t := []chainx.Tpl{
		{Name: "x-idle", Build: func(w *chainx.World) (txs, error) { return nil, nil }},
		// ---- setups
		{Name: "x-vote1", Build: func(w *chainx.World) (txs, error) { // 30M NEO of account 1 for candidate 1
			return seqTx(func() (*transaction.Transaction, error) {
				return w.N.CallTx([]neotest.Signer{chainx.Signer(1)}, neo, "vote", xacc(1), xpub(1))
			})
		}},
		{Name: "x-vote2for1", Build: func(w *chainx.World) (txs, error) { // candidate 1 has votes of others only; its own account holds NEO and votes for nobody
			return seqTx(func() (*transaction.Transaction, error) {
				return w.N.CallTx([]neotest.Signer{chainx.Signer(2)}, neo, "vote", xacc(2), xpub(1))
			})
		}},
		{Name: "x-vote2for4", Build: func(w *chainx.World) (txs, error) { // votes for the candidate whose own account is empty
			return seqTx(func() (*transaction.Transaction, error) {
				return w.N.CallTx([]neotest.Signer{chainx.Signer(2)}, neo, "vote", xacc(2), xpub(4))
			})
		}},
		{Name: "x-fund7", Build: func(w *chainx.World) (txs, error) { // account 7: NEO but no vote, GAS for a registration
			return seqTx(
				func() (*transaction.Transaction, error) {
					return w.N.CallTx([]neotest.Signer{chainx.Signer(1)}, gasH, "transfer", xacc(1), xacc(7), int64(1200*xgas), nil)
				},
				func() (*transaction.Transaction, error) {
					return w.N.CallTx([]neotest.Signer{chainx.Signer(1)}, neo, "transfer", xacc(1), xacc(7), int64(500), nil)
				})
		}},
		{Name: "x-reg7+vote1", Build: func(w *chainx.World) (txs, error) { // a seventh candidate: blocking one leaves an ELECTED committee
			return seqTx(
				func() (*transaction.Transaction, error) {
					return w.N.MakeTx(chainx.CallScript(neo, "registerCandidate", xpub(7)), []neotest.Signer{chainx.Signer(7)}, chainx.SysFee(1010*xgas))
				},
				func() (*transaction.Transaction, error) {
					return w.N.CallTx([]neotest.Signer{chainx.Signer(1)}, neo, "vote", xacc(1), xpub(1))
				})
		}},
		{Name: "x-ua-neo", Build: func(w *chainx.World) (txs, error) { // a contract that holds NEO
			return seqTx(func() (*transaction.Transaction, error) {
				return w.N.CallTx([]neotest.Signer{chainx.Signer(1)}, neo, "transfer", xacc(1), w.UA.Hash, int64(25000000), nil)
			})
		}},
		{Name: "x-ua-vote", Build: func(w *chainx.World) (txs, error) { // ... and votes with it for candidate 1
			return seqTx(func() (*transaction.Transaction, error) {
				return w.URun(5, w.UA, []any{[]any{chainx.OpCall, neo.BytesBE(), "vote", 15, []any{w.UA.Hash.BytesBE(), xpub(1)}}})
			})
		}},
		// ---- Management
		{Name: "x-destroy-ua", Build: func(w *chainx.World) (txs, error) { // Management.destroy -> Policy block list -> NEO.revoke votes -> GAS to the dying contract
			return seqTx(func() (*transaction.Transaction, error) {
				return w.N.MakeTx(chainx.CallScript(w.UA.Hash, "run", []any{
					[]any{chainx.OpPut, []byte("last"), []byte("1")},
					[]any{chainx.OpCall, mgmt.BytesBE(), "destroy", 15, []any{}},
				}), []neotest.Signer{chainx.Signer(5)}, chainx.SysFee(5*xgas))
			})
		}},
		{Name: "x-update-ua", Build: func(w *chainx.World) (txs, error) { // same code, changed manifest: Management's contract cache
			mb, err := json.Marshal(w.UA.Manifest)
			if err != nil {
				return nil, err
			}
			m := new(manifest.Manifest)
			if err := json.Unmarshal(mb, m); err != nil {
				return nil, err
			}
			m.Extra = json.RawMessage(fmt.Sprintf(`{"rev":%d}`, w.N.Height()))
			m.SupportedStandards = []string{"NEP-27"}
			mb2, err := json.Marshal(m)
			if err != nil {
				return nil, err
			}
			nb, err := w.UA.NEF.Bytes()
			if err != nil {
				return nil, err
			}
			return seqTx(func() (*transaction.Transaction, error) {
				return w.N.MakeTx(chainx.CallScript(w.UA.Hash, "run", []any{
					[]any{chainx.OpCall, mgmt.BytesBE(), "update", 15, []any{nb, mb2, nil}},
				}), []neotest.Signer{chainx.Signer(5)}, chainx.SysFee(20*xgas))
			})
		}},
		// ---- Designate
		designateTpl("x-desig-notary:4", noderoles.P2PNotary, 4),
		designateTpl("x-desig-notary:34", noderoles.P2PNotary, 3, 4),
		designateTpl("x-desig-oracle:3", noderoles.Oracle, 3),
		designateTpl("x-desig-oracle:4", noderoles.Oracle, 4),
		designateTpl("x-desig-stateval:5", noderoles.StateValidator, 5),
		designateTpl("x-desig-stateval:56", noderoles.StateValidator, 5, 6),
		{Name: "x-desig-all", Build: func(w *chainx.World) (txs, error) { // first designation of every role in one block
			return seqTx(
				func() (*transaction.Transaction, error) {
					return committeeTx(w, nativehashes.RoleManagement, "designateAsRole", int64(noderoles.P2PNotary), []any{xpub(4)})
				},
				func() (*transaction.Transaction, error) {
					return committeeTx(w, nativehashes.RoleManagement, "designateAsRole", int64(noderoles.Oracle), []any{xpub(3)})
				},
				func() (*transaction.Transaction, error) {
					return committeeTx(w, nativehashes.RoleManagement, "designateAsRole", int64(noderoles.StateValidator), []any{xpub(5)})
				})
		}},
		{Name: "x-redesig-all+use", Build: func(w *chainx.World) (txs, error) { // every role re-designated, and the OLD lists used in the same block
			var fs []func() (*transaction.Transaction, error)
			fs = append(fs,
				func() (*transaction.Transaction, error) {
					return committeeTx(w, nativehashes.RoleManagement, "designateAsRole", int64(noderoles.P2PNotary), []any{xpub(3), xpub(4)})
				},
				func() (*transaction.Transaction, error) {
					return committeeTx(w, nativehashes.RoleManagement, "designateAsRole", int64(noderoles.Oracle), []any{xpub(4)})
				},
				func() (*transaction.Transaction, error) {
					return committeeTx(w, nativehashes.RoleManagement, "designateAsRole", int64(noderoles.StateValidator), []any{xpub(5), xpub(6)})
				})
			if nn := lastDesignated(w, noderoles.P2PNotary); len(nn) > 0 {
				fs = append(fs, func() (*transaction.Transaction, error) { return notaryAssisted(w, nn[0]) })
			}
			if on := lastDesignated(w, noderoles.Oracle); len(on) > 0 {
				fs = append(fs, func() (*transaction.Transaction, error) { return oracleRespond(w, on...) })
			}
			return seqTx(fs...)
		}},
		{Name: "x-oracle-request2", Build: func(w *chainx.World) (txs, error) { // two pending requests: one answered by the old, one by the new node list
			req := func() (*transaction.Transaction, error) {
				return w.URun(5, w.UA, []any{
					[]any{chainx.OpCall, nativehashes.OracleContract.BytesBE(), "request", 15, []any{"https://x.y/z", nil, "other", nil, int64(xgas / 10)}},
				})
			}
			return seqTx(req, req, req)
		}},
		// ---- setters of values other natives use later
		{Name: "x-setters", Build: func(w *chainx.World) (txs, error) {
			var fs []func() (*transaction.Transaction, error)
			for _, s := range setters() {
				fs = append(fs, func() (*transaction.Transaction, error) { return committeeTx(w, s.hash, s.method, s.args...) })
			}
			return seqTx(fs...)
		}},
		{Name: "x-set:gas-per-block-twice", Build: func(w *chainx.World) (txs, error) { // two records for the same index
			return seqTx(
				func() (*transaction.Transaction, error) {
					return committeeTx(w, neo, "setGasPerBlock", int64(7*xgas))
				},
				func() (*transaction.Transaction, error) {
					return committeeTx(w, neo, "setGasPerBlock", int64(2*xgas))
				})
		}},
		// ---- probes
		{Name: "x-probe", Build: func(w *chainx.World) (txs, error) { return probe(w, false) }},
		{Name: "x-probe-final", Build: func(w *chainx.World) (txs, error) { return probe(w, true) }},
	}
	for _, s := range setters() {
		t = append(t, chainx.Tpl{Name: "x-set:" + s.name, Build: func(w *chainx.World) (txs, error) {
			return seqTx(func() (*transaction.Transaction, error) { return committeeTx(w, s.hash, s.method, s.args...) })
		}})
	}
	for _, name := range whoNames {
		t = append(t,
			chainx.Tpl{Name: "x-block:" + name, Build: func(w *chainx.World) (txs, error) {
				return seqTx(func() (*transaction.Transaction, error) { return committeeTx(w, pol, "blockAccount", who(w, name)) })
			}},
			chainx.Tpl{Name: "x-unblock:" + name, Build: func(w *chainx.World) (txs, error) {
				return seqTx(func() (*transaction.Transaction, error) { return committeeTx(w, pol, "unblockAccount", who(w, name)) })
			}},
			chainx.Tpl{Name: "x-block+unblock:" + name, Build: func(w *chainx.World) (txs, error) { // votes revoked, account free again, in one block
				return seqTx(
					func() (*transaction.Transaction, error) { return committeeTx(w, pol, "blockAccount", who(w, name)) },
					func() (*transaction.Transaction, error) { return committeeTx(w, pol, "unblockAccount", who(w, name)) })
			}},
		)
	}
	return t
}

func crossTpl(name string) chainx.Tpl {
	if strings.HasPrefix(name, thrPrefix) { // plan H: the name is the program of the block
		return thrTpl(name)
	}
	if strings.HasPrefix(name, shPrefix) { // plan I: the name says kind, pack and role
		return shTpl(name)
	}
	if strings.HasPrefix(name, manyPrefix) { // plan J: the name is the program of the block
		return manyTpl(name)
	}
	for _, t := range crossTemplates() {
		if t.Name == name {
			return t
		}
	}
	panic("no cross template " + name)
}

// ---- paths -----------------------------------------------------------------------

// xpath is one fixed history of plan G.
type xpath struct {
	group string    // family of paths (evidence counter)
	label string    // short stable name used in violation keys
	names []string  // template name per block
	first int       // restarts are enumerated after every block from this history index on (1-based)
	vs    []variant // plan I: the path brings its own variants
}

const xP = 3 // height of the last preamble block (pad 0)

// pathTo pads with idle blocks: `blocks` maps chain height -> template name, the
// history ends at height `end`.
func pathTo(end int, blocks map[int]string) []string {
	var names []string
	for h := xP + 1; h <= end; h++ {
		if n, ok := blocks[h]; ok {
			names = append(names, n)
		} else {
			names = append(names, "x-idle")
		}
	}
	return names
}

// nextBoundary: the first height > h at which the committee is refreshed (epoch = 6 blocks in
// the multi families).
func nextBoundary(h, epoch int) int { return (h/epoch + 1) * epoch }

type xsetup struct {
	name   string
	blocks map[int]string // heights 4 and 5 (the elected committee takes office at height 6)
}

func crossPaths(thorough bool, epoch int) []xpath {
	var out []xpath
	setups := []xsetup{
		{"none", nil}, // nobody votes: the standby committee stays in office
		{"vote1", map[int]string{4: "x-vote1"}},
		{"vote2for1", map[int]string{4: "x-vote2for1"}},
		{"reg7", map[int]string{4: "x-fund7", 5: "x-reg7+vote1"}},
		{"vote2for4", map[int]string{4: "x-vote2for4"}},
	}
	merge := func(a map[int]string, h int, name string) map[int]string {
		m := map[int]string{h: name}
		for k, v := range a {
			m[k] = v
		}
		return m
	}
	phases := []int{0, 2, 5} // first block of an epoch, inside, last block of an epoch
	if thorough {
		phases = []int{0, 1, 2, 3, 4, 5}
	}
	base := 6
	if epoch == 1 {
		phases, base = []int{0}, 6
	}
	// G1: block an account (candidate / voter / committee member / NEO holder / contract) ...
	blockers := map[string][]string{
		"none":      {"cand1", "cand4", "member0", "holder"},
		"vote1":     {"cand1", "cand4", "acc2", "ub"},
		"vote2for1": {"cand1", "acc2", "cand4"},
		"reg7":      {"cand1", "cand4", "acc7"},
		"vote2for4": {"cand4", "acc2"},
	}
	if thorough {
		for k := range blockers {
			blockers[k] = []string{"cand1", "acc2", "cand4", "acc7", "member0", "holder", "ub", "uc"}
		}
	}
	for _, s := range setups {
		for _, whom := range blockers[s.name] {
			for _, ph := range phases {
				he := base + ph
				b2 := nextBoundary(nextBoundary(he, epoch), epoch)
				if epoch == 1 {
					b2 = he + 3
				}
				kinds := []string{"x-block:"}
				if thorough {
					kinds = append(kinds, "x-block+unblock:")
				}
				for _, kind := range kinds {
					m := merge(s.blocks, he, kind+whom)
					m[b2+1] = "x-probe-final"
					out = append(out, xpath{group: "G1-block", label: fmt.Sprintf("G1/%s/%s%s@%d", s.name, strings.TrimPrefix(kind, "x-"), whom, he), names: pathTo(b2+1, m), first: he - xP - 1})
				}
			}
		}
	}
	// G1u: ... and unblock it again in the same epoch / first / inner / last block of the next one
	type bu struct{ setup, whom string }
	bus := []bu{{"vote1", "cand4"}, {"vote1", "cand1"}, {"vote2for1", "cand1"}, {"vote2for1", "acc2"}, {"reg7", "cand4"}}
	if thorough {
		bus = nil
		for _, s := range setups {
			for _, whom := range []string{"cand1", "acc2", "cand4", "acc7"} {
				bus = append(bus, bu{s.name, whom})
			}
		}
	}
	for _, c := range bus {
		var s xsetup
		for _, x := range setups {
			if x.name == c.setup {
				s = x
			}
		}
		hb := base + 2 // blocked inside the first epoch of the elected committee
		if epoch == 1 {
			hb = base
		}
		b1 := nextBoundary(hb, epoch)
		unblockAt := []int{hb + 1, b1, b1 + 2, b1 + epoch - 1}
		if epoch == 1 {
			unblockAt = []int{hb + 1, hb + 3}
		}
		for _, hu := range unblockAt {
			b2 := nextBoundary(nextBoundary(hu, epoch), epoch)
			if epoch == 1 {
				b2 = hu + 3
			}
			m := merge(s.blocks, hb, "x-block:"+c.whom)
			m[hu] = "x-unblock:" + c.whom
			m[b2+1] = "x-probe-final"
			out = append(out, xpath{group: "G1-unblock", label: fmt.Sprintf("G1u/%s/block:%s@%d,unblock@%d", c.setup, c.whom, hb, hu), names: pathTo(b2+1, m), first: hb - xP - 1})
		}
	}
	// G1c: a contract that holds NEO and votes is blocked / destroyed (Management -> Policy -> NEO -> GAS) / updated
	for _, ev := range []string{"x-block:ua", "x-destroy-ua", "x-update-ua"} {
		for _, ph := range phases {
			he := base + ph
			b2 := nextBoundary(nextBoundary(he, epoch), epoch)
			if epoch == 1 {
				b2 = he + 3
			}
			m := map[int]string{4: "x-ua-neo", 5: "x-ua-vote", he: ev, b2 + 1: "x-probe-final"}
			out = append(out, xpath{group: "G1-contract-voter", label: fmt.Sprintf("G1c/%s@%d", strings.TrimPrefix(ev, "x-"), he), names: pathTo(b2+1, m), first: he - xP - 1})
		}
	}
	// G1d: deploy of a contract whose hash was blocked before it existed, and after it was freed again
	out = append(out,
		xpath{group: "G1-deploy-blocked", label: "G1d/block:uc", names: pathTo(9, map[int]string{5: "x-block:uc", 9: "x-probe-final"}), first: 1},
		xpath{group: "G1-deploy-blocked", label: "G1d/block:uc,unblock:uc", names: pathTo(10, map[int]string{5: "x-block:uc", 7: "x-unblock:uc", 9: "x-probe-final", 10: "x-probe"}), first: 1},
	)
	// G2: node lists of Designate used by Notary / Oracle / GAS: designated, used, re-designated (the old
	// lists used in the very block of the re-designation), used again
	for _, gap := range []int{0, 1, 2} {
		if !thorough && gap == 1 {
			continue
		}
		m := map[int]string{4: "x-desig-all", 5: "x-oracle-request2", 6: "x-probe"}
		hr := 7 + gap
		m[hr] = "x-redesig-all+use"
		m[hr+1] = "x-probe"
		m[hr+3] = "x-probe-final"
		out = append(out, xpath{group: "G2-designate", label: fmt.Sprintf("G2/redesignate@%d", hr), names: pathTo(hr+3, m), first: 1})
	}
	for _, ev := range []string{"x-desig-notary:4", "x-desig-notary:34", "x-desig-oracle:3", "x-desig-oracle:4", "x-desig-stateval:5", "x-desig-stateval:56"} {
		if !thorough {
			break
		}
		m := map[int]string{4: "x-desig-all", 5: "x-oracle-request2", 7: ev, 8: "x-probe", 10: "x-probe-final"}
		out = append(out, xpath{group: "G2-designate", label: "G2/" + strings.TrimPrefix(ev, "x-"), names: pathTo(10, m), first: 1})
	}
	// G3: setters of values that other natives read in later blocks
	evs := []string{"x-setters", "x-set:gas-per-block-twice"}
	if thorough {
		for _, s := range setters() {
			evs = append(evs, "x-set:"+s.name)
		}
	}
	for _, ev := range evs {
		for _, he := range []int{5, 6} { // last block of an epoch / first block of the next
			b1 := nextBoundary(he, epoch)
			if epoch == 1 {
				b1 = he + 2
			}
			m := map[int]string{4: "x-desig-all", he: ev, he + 1: "x-probe", b1 + 1: "x-probe-final"}
			out = append(out, xpath{group: "G3-setters", label: fmt.Sprintf("G3/%s@%d", strings.TrimPrefix(ev, "x-"), he), names: pathTo(b1+1, m), first: he - xP - 1})
		}
	}
	return out
}

// hfPaths: family single-hf (Echidna@4, Faun@5, Gorgon@6): accounts blocked BEFORE Faun
// (no vote revocation, empty record), Faun's migration of the block list at height 5
// (it walks Policy's CACHED list), unblock / block after it.
func hfPaths() []xpath {
	mk := func(label string, m map[int]string, end int) xpath {
		m[end] = "x-probe-final"
		return xpath{group: "G4-hardfork-blocklist", label: label, names: pathTo(end, m), first: 1}
	}
	return []xpath{
		mk("G4/block:acc2@4,unblock@6", map[int]string{4: "x-block:acc2", 6: "x-unblock:acc2"}, 8),
		mk("G4/block:cand1@4,block:acc2@5", map[int]string{4: "x-block:cand1", 5: "x-block:acc2"}, 8),
		mk("G4/vote2for1+block:acc2@4,unblock@5,block@6", map[int]string{4: "x-block:acc2", 5: "x-unblock:acc2", 6: "x-block:acc2"}, 8),
		mk("G4/block:ub@4,block:cand1@6", map[int]string{4: "x-block:ub", 6: "x-block:cand1", 7: "x-unblock:cand1"}, 9),
	}
}

// crossVariants: one restart after block k, for every k in [first, n-1]; a control that flushes
// after every block and never restarts; restart after every block.
func crossVariants(n, first int) []variant {
	if first < 0 {
		first = 0
	}
	all := uint(1<<uint(n+1)) - 1
	vs := []variant{
		{Name: "mem/x-flush-all", Backend: "mem", Flush: all},
		{Name: "mem/x-restart-all", Backend: "mem", Restart: all},
	}
	for k := first; k < n; k++ {
		vs = append(vs, variant{Name: fmt.Sprintf("mem/x-restart@%d", k), Backend: "mem", Restart: 1 << uint(k)})
	}
	return vs
}

// crossScenarios builds one sequential scenario per path on top of base (the
// scenario that owns the preamble of the family).
func crossScenarios(r *vk.Run, base *scenario, paths []xpath) []*scenario {
	var out []*scenario
	for _, p := range paths {
		var tpls []chainx.Tpl
		h := make([]int, len(p.names))
		for i, name := range p.names {
			tpls = append(tpls, crossTpl(name))
			h[i] = i
		}
		vs := p.vs
		if vs == nil {
			vs = crossVariants(len(h), p.first)
		}
		out = append(out, &scenario{
			r: r, vs: vs, fam: base.fam, pad: base.pad, tpls: tpls, depth: len(h), fixed: [][]int{h},
			preamble: base.preamble, preObs: base.preObs, world: base.world, tree: map[histKey]*treeNode{},
			seq: true, label: p.label, group: p.group,
		})
	}
	return out
}

// growPath builds the whole fixed history of a sequential scenario on one reference node.
func (sc *scenario) growPath() error {
	n, w, err := sc.refNode(nil)
	if err != nil {
		return err
	}
	defer n.Close()
	h := sc.fixed[0]
	for i := 1; i <= len(h); i++ {
		if err := sc.growOn(n, w, h[:i]); err != nil {
			return fmt.Errorf("block %d (%s): %w", i, sc.tpls[h[i-1]].Name, err)
		}
		if err := thrVerify(n, sc.tpls[h[i-1]].Name); err != nil {
			return fmt.Errorf("block %d: %w", i, err)
		}
		if err := shVerify(n, sc.tpls[h[i-1]].Name); err != nil {
			return fmt.Errorf("block %d: %w", i, err)
		}
		if err := manyVerify(n, sc.tpls[h[i-1]].Name); err != nil {
			return fmt.Errorf("block %d: %w", i, err)
		}
		shMeasureDepth(n, sc.tpls[h[i-1]].Name)
	}
	return nil
}

func crossFatal(a ...any) {
	fmt.Println(append([]any{"CHECK-ERROR: plan G:"}, a...)...)
	os.Exit(3)
}
