// Plan J of C01: many of a kind in ONE block.
//
// Natives collect events of the same kind over a whole block and emit their
// consequences together: Oracle.PostPersist sums the reward of every oracle node
// over all responses of the block and mints node after node, Notary.OnPersist
// splits the fees of all notary-assisted transactions over all notary nodes,
// GAS.OnPersist burns the fees sender after sender, NEO pays committee members
// and voters, Management emits one event per deployed / destroyed contract. The
// ORDER in which such a batch is emitted is part of the execution results (the
// OnPersist / PostPersist application logs, the transfer logs derived from them)
// although balances, supply and state roots do not depend on it. A batch of ONE
// (the histories of plans A-I: one oracle node, one response per block, one
// notary-assisted transaction) has only one order.
//
// Every history of this plan is a short fixed path whose "many" block carries
// k = 2..4 events of one kind that concern DIFFERENT nodes / senders / voters /
// contracts (block names "j-<part>+<part>...", a part is <kind>:<argument>, see
// manyPart). Replica comparison: the reference against r fresh replicas of the
// SAME configuration (the first sentence of the property; a subject whose order
// depends on Go's map iteration differs between two runs of the same block only
// with some probability, so the replay is REPEATED - the enumeration of histories
// stays exhaustive), the restart / flush / backend / mempool variants, and on all
// of them additionally the order-sensitive transfer logs of every account the
// block's Transfer events touch.
package c01

import (
	"encoding/json"
	"fmt"
	"math"
	"sort"
	"strconv"
	"strings"
	"sync"

	"github.com/nspcc-dev/neo-go/pkg/config"
	"github.com/nspcc-dev/neo-go/pkg/core/native/nativehashes"
	"github.com/nspcc-dev/neo-go/pkg/core/native/nativeids"
	"github.com/nspcc-dev/neo-go/pkg/core/native/noderoles"
	"github.com/nspcc-dev/neo-go/pkg/core/state"
	"github.com/nspcc-dev/neo-go/pkg/core/transaction"
	"github.com/nspcc-dev/neo-go/pkg/crypto/hash"
	"github.com/nspcc-dev/neo-go/pkg/crypto/keys"
	"github.com/nspcc-dev/neo-go/pkg/io"
	"github.com/nspcc-dev/neo-go/pkg/neotest"
	"github.com/nspcc-dev/neo-go/pkg/smartcontract"
	"github.com/nspcc-dev/neo-go/pkg/smartcontract/trigger"
	"github.com/nspcc-dev/neo-go/pkg/util"
	"github.com/nspcc-dev/neo-go/pkg/vm/emit"
	"github.com/nspcc-dev/neo-go/pkg/vm/stackitem"

	"verif/lib/chainx"
)

const manyPrefix = "j-"

// manyTpl: the name is the program of the block.
func manyTpl(name string) chainx.Tpl {
	return chainx.Tpl{Name: name, Build: func(w *chainx.World) (txs, error) {
		var out txs
		for _, part := range strings.Split(strings.TrimPrefix(name, manyPrefix), "+") {
			kind, arg, _ := strings.Cut(part, ":")
			t, err := manyPart(w, kind, arg)
			if err != nil {
				return nil, fmt.Errorf("%s: %w", part, err)
			}
			out = append(out, t...)
		}
		return out, nil
	}}
}

func manyInts(arg string) ([]int, error) {
	var out []int
	for _, s := range strings.Split(arg, ".") {
		v, err := strconv.Atoi(s)
		if err != nil {
			return nil, err
		}
		out = append(out, v)
	}
	return out, nil
}

func manyDigits(arg string) []int {
	var out []int
	for _, c := range arg {
		out = append(out, int(c-'0'))
	}
	return out
}

// manyPart builds the transactions of one part of a block program:
//
//	oracle:345   designate accounts 3,4,5 as oracle nodes        notary:34  ... as notary nodes
//	req:4        four oracle requests (ids are consecutive from 0), 1 GAS reserved for each response
//	resp:2.0.1   responses to the requests 2, 0, 1 - one transaction each, in this order
//	na:1.3       two notary-assisted transactions with NKeys 1 and 3, signed by different notary nodes
//	send:1.2.5   GAS transfers sent (and paid) by accounts 1, 2, 5 in this order
//	claim:2.1    accounts 2 and 1 claim their GAS (NEO transfer of 0 to themselves)
//	vote:1>1.2>4 account 1 votes for candidate 1, account 2 for candidate 4
//	life:dUC.xUB deploy UC, destroy UB (xUA: destroy UA)
func manyPart(w *chainx.World, kind, arg string) (txs, error) {
	neo, gasH := nativehashes.NeoToken, nativehashes.GasToken
	var fs []func() (*transaction.Transaction, error)
	switch kind {
	case "oracle", "notary":
		role := noderoles.Oracle
		if kind == "notary" {
			role = noderoles.P2PNotary
		}
		var ks []any
		for _, i := range manyDigits(arg) {
			ks = append(ks, xpub(i))
		}
		fs = append(fs, func() (*transaction.Transaction, error) {
			return committeeTx(w, nativehashes.RoleManagement, "designateAsRole", int64(role), ks)
		})
	case "req":
		k, err := strconv.Atoi(arg)
		if err != nil {
			return nil, err
		}
		for i := 0; i < k; i++ {
			fs = append(fs, func() (*transaction.Transaction, error) {
				return w.URun(5, w.UA, []any{
					[]any{chainx.OpCall, nativehashes.OracleContract.BytesBE(), "request", 15, []any{fmt.Sprintf("https://x.y/%d", i%2), nil, "other", nil, int64(xgas)}},
				})
			})
		}
	case "resp":
		ids, err := manyInts(arg)
		if err != nil {
			return nil, err
		}
		on := lastDesignated(w, noderoles.Oracle)
		if len(on) == 0 {
			return nil, fmt.Errorf("no oracle nodes")
		}
		for _, id := range ids {
			fs = append(fs, func() (*transaction.Transaction, error) { return manyOracleResp(w, uint64(id), xgas, on) })
		}
	case "na":
		nk, err := manyInts(arg)
		if err != nil {
			return nil, err
		}
		nn := lastDesignated(w, noderoles.P2PNotary)
		if len(nn) == 0 {
			return nil, fmt.Errorf("no notary nodes")
		}
		for i, k := range nk {
			fs = append(fs, func() (*transaction.Transaction, error) { return manyNotaryAssisted(w, nn[i%len(nn)], uint8(k), int64(20+i)) })
		}
	case "send":
		accs, err := manyInts(arg)
		if err != nil {
			return nil, err
		}
		for i, a := range accs {
			to := 6
			if a == 6 {
				to = 5
			}
			fs = append(fs, func() (*transaction.Transaction, error) {
				return w.N.CallTx([]neotest.Signer{chainx.Signer(a)}, gasH, "transfer", xacc(a), xacc(to), int64(1000+i), nil)
			})
		}
	case "claim":
		accs, err := manyInts(arg)
		if err != nil {
			return nil, err
		}
		for _, a := range accs {
			fs = append(fs, func() (*transaction.Transaction, error) {
				return w.N.CallTx([]neotest.Signer{chainx.Signer(a)}, neo, "transfer", xacc(a), xacc(a), int64(0), nil)
			})
		}
	case "vote":
		for _, p := range strings.Split(arg, ".") {
			a, c, _ := strings.Cut(p, ">")
			ai, err1 := strconv.Atoi(a)
			ci, err2 := strconv.Atoi(c)
			if err1 != nil || err2 != nil {
				return nil, fmt.Errorf("bad vote %q", p)
			}
			fs = append(fs, func() (*transaction.Transaction, error) {
				return w.N.CallTx([]neotest.Signer{chainx.Signer(ai)}, neo, "vote", xacc(ai), xpub(ci))
			})
		}
	case "life":
		mgmt := nativehashes.ContractManagement
		for _, op := range strings.Split(arg, ".") {
			switch op {
			case "dUC":
				fs = append(fs, func() (*transaction.Transaction, error) {
					mb, _ := json.Marshal(w.UC.Manifest)
					nb, _ := w.UC.NEF.Bytes()
					return w.N.MakeTx(chainx.CallScript(mgmt, "deploy", nb, mb, nil), []neotest.Signer{chainx.Signer(2)}, chainx.SysFee(20*xgas))
				})
			case "xUA", "xUB":
				c := w.UA
				if op == "xUB" {
					c = w.UB
				}
				fs = append(fs, func() (*transaction.Transaction, error) {
					return w.N.MakeTx(chainx.CallScript(c.Hash, "run", []any{
						[]any{chainx.OpPut, []byte("last"), []byte("1")},
						[]any{chainx.OpCall, mgmt.BytesBE(), "destroy", 15, []any{}},
					}), []neotest.Signer{chainx.Signer(5)}, chainx.SysFee(5*xgas))
				})
			default:
				return nil, fmt.Errorf("bad life op %q", op)
			}
		}
	default:
		return nil, fmt.Errorf("unknown part kind %q", kind)
	}
	return seqTx(fs...)
}

// manyOracleResp answers request id (reserved = the GAS the request set aside), signed by the oracle
// nodes (account numbers) designated last.
func manyOracleResp(w *chainx.World, id uint64, reserved int64, nodes []int) (*transaction.Transaction, error) {
	n := w.N
	var pubs keys.PublicKeys
	for _, i := range nodes {
		pubs = append(pubs, chainx.Acc(i).PublicKey())
	}
	ver, err := smartcontract.CreateDefaultMultiSigRedeemScript(pubs)
	if err != nil {
		return nil, err
	}
	tx := transaction.New(chainx.CallScript(nativehashes.OracleContract, "finish"), reserved/2)
	tx.NetworkFee = reserved - tx.SystemFee
	tx.Nonce = n.Nonce()
	tx.ValidUntilBlock = n.BC.BlockHeight() + 5
	tx.Signers = []transaction.Signer{
		{Account: nativehashes.OracleContract, Scopes: transaction.None},
		{Account: hash.Hash160(ver), Scopes: transaction.None},
	}
	tx.Attributes = []transaction.Attribute{{Type: transaction.OracleResponseT, Value: &transaction.OracleResponse{ID: id, Code: transaction.Success, Result: []byte{1, 2, byte(id)}}}}
	sorted := pubs.Copy()
	sortKeys(sorted)
	m := smartcontract.GetDefaultHonestNodeCount(len(pubs))
	wr := io.NewBufBinWriter()
	cnt := 0
	for _, p := range sorted {
		if cnt == m {
			break
		}
		for _, i := range nodes {
			if chainx.Acc(i).PublicKey().Equal(p) {
				emit.Bytes(wr.BinWriter, chainx.Acc(i).PrivateKey().SignHashable(uint32(n.BC.GetConfig().Magic), tx))
				cnt++
			}
		}
	}
	tx.Scripts = []transaction.Witness{
		{InvocationScript: []byte{}, VerificationScript: []byte{}},
		{InvocationScript: wr.Bytes(), VerificationScript: ver},
	}
	return tx, nil
}

// manyNotaryAssisted: like notaryAssisted of plan G with a chosen NKeys and amount.
func manyNotaryAssisted(w *chainx.World, node int, nkeys uint8, amount int64) (*transaction.Transaction, error) {
	magic := uint32(w.N.BC.GetConfig().Magic)
	ns := neotest.NewContractSigner(nativehashes.Notary, func(tx *transaction.Transaction) []any {
		cp := *tx
		return []any{chainx.Acc(node).PrivateKey().SignHashable(magic, &cp)}
	})
	return w.N.MakeTx(chainx.CallScript(nativehashes.GasToken, "transfer", xacc(5), xacc(6), amount, nil),
		[]neotest.Signer{chainx.Signer(5), ns}, chainx.SysFee(xgas),
		func(t *transaction.Transaction) {
			t.Signers[1].Scopes = transaction.None
			t.Attributes = append(t.Attributes, transaction.Attribute{Type: transaction.NotaryAssistedT, Value: &transaction.NotaryAssisted{NKeys: nkeys}})
		})
}

// ---- order-sensitive observation: transfer logs ---------------------------------------

// manyTransferAccounts: every account named as sender or receiver by a Transfer event of the
// current block (OnPersist, transactions, PostPersist), sorted.
func manyTransferAccounts(n *chainx.Node) ([]util.Uint160, error) {
	bc := n.BC
	b, err := bc.GetBlock(bc.CurrentBlockHash())
	if err != nil {
		return nil, err
	}
	set := map[util.Uint160]bool{}
	scan := func(h util.Uint256) error {
		aers, err := bc.GetAppExecResults(h, trigger.All)
		if err != nil {
			return err
		}
		for _, a := range aers {
			for _, e := range a.Events {
				if e.Name != "Transfer" {
					continue
				}
				arr, ok := e.Item.Value().([]stackitem.Item)
				if !ok || len(arr) < 3 {
					continue
				}
				for _, it := range arr[:2] {
					if bs, err := it.TryBytes(); err == nil && len(bs) == util.Uint160Size {
						u, _ := util.Uint160DecodeBytesBE(bs)
						set[u] = true
					}
				}
			}
		}
		return nil
	}
	if err := scan(b.Hash()); err != nil {
		return nil, err
	}
	for _, tx := range b.Transactions {
		if err := scan(tx.Hash()); err != nil {
			return nil, err
		}
	}
	out := make([]util.Uint160, 0, len(set))
	for u := range set {
		out = append(out, u)
	}
	sort.Slice(out, func(i, j int) bool { return out[i].Less(out[j]) })
	return out, nil
}

// manyXfers renders, for every such account, the entries of its NEP-17 and NEP-11 transfer logs that belong
// to the current block, in the order the log yields them, and the account's last-updated heights.
func manyXfers(n *chainx.Node) (string, int) {
	accs, err := manyTransferAccounts(n)
	if err != nil {
		return "error: " + err.Error(), 0
	}
	bc := n.BC
	h := bc.BlockHeight()
	var sb strings.Builder
	entries := 0
	for _, acc := range accs {
		fmt.Fprintf(&sb, "%s:", acc.StringLE()[:8])
		err := bc.ForEachNEP17Transfer(acc, math.MaxUint64, func(t *state.NEP17Transfer) (bool, error) {
			if t.Block != h {
				return false, nil
			}
			entries++
			fmt.Fprintf(&sb, "(%d %s %s %s)", t.Asset, t.Counterparty.StringLE()[:8], t.Amount, t.Tx.StringLE()[:8])
			return true, nil
		})
		if err != nil {
			fmt.Fprintf(&sb, "<nep17 error %v>", err)
		}
		err = bc.ForEachNEP11Transfer(acc, math.MaxUint64, func(t *state.NEP11Transfer) (bool, error) {
			if t.Block != h {
				return false, nil
			}
			entries++
			fmt.Fprintf(&sb, "(11 %d %s %s %x %s)", t.Asset, t.Counterparty.StringLE()[:8], t.Amount, t.ID, t.Tx.StringLE()[:8])
			return true, nil
		})
		if err != nil {
			fmt.Fprintf(&sb, "<nep11 error %v>", err)
		}
		lu, err := bc.GetTokenLastUpdated(acc)
		if err != nil {
			fmt.Fprintf(&sb, "<last-updated error %v>", err)
		}
		var ids []int
		for id := range lu {
			if id != math.MinInt32 {
				ids = append(ids, int(id))
			}
		}
		sort.Ints(ids)
		for _, id := range ids {
			fmt.Fprintf(&sb, "[%d@%d]", id, lu[int32(id)])
		}
		sb.WriteString(";")
	}
	return sb.String(), entries
}

func (sc *scenario) isMany() bool {
	sc.manyOnce.Do(func() {
		for _, t := range sc.tpls {
			if strings.HasPrefix(t.Name, manyPrefix) {
				sc.many = true
			}
		}
	})
	return sc.many
}

// ---- non-vacuity: the many block really emitted a batch --------------------------------

type manyStat struct {
	mu          sync.Mutex
	blocks      int
	results     map[string]bool // distinct rendered execution results of many blocks
	maxPost     int             // most GAS mints to designated oracle nodes in one PostPersist
	maxOn       int             // most GAS mints to designated notary nodes in one OnPersist
	maxBurn     int             // most distinct fee payers burnt in one OnPersist
	xferEntries int
	batches     map[string]int // kind -> blocks whose batch had >= 2 distinct members
}

var manyStats = manyStat{results: map[string]bool{}, batches: map[string]int{}}

// transferEvents returns (from, to) of the Transfer events of contract c in execution result a (nil = mint / burn).
func transferEvents(a *state.AppExecResult, c util.Uint160) [][2]*util.Uint160 {
	var out [][2]*util.Uint160
	for _, e := range a.Events {
		if e.Name != "Transfer" || e.ScriptHash != c {
			continue
		}
		arr, ok := e.Item.Value().([]stackitem.Item)
		if !ok || len(arr) < 3 {
			continue
		}
		var p [2]*util.Uint160
		for i := 0; i < 2; i++ {
			if bs, err := arr[i].TryBytes(); err == nil && len(bs) == util.Uint160Size {
				u, _ := util.Uint160DecodeBytesBE(bs)
				p[i] = &u
			}
		}
		out = append(out, p)
	}
	return out
}

// manyVerify checks on the reference replica that the block just added emitted the batch its program
// describes (a path of this plan is designed: anything else is a harness error), and counts.
func manyVerify(n *chainx.Node, name string) error {
	if !strings.HasPrefix(name, manyPrefix) {
		return nil
	}
	bc := n.BC
	b, err := bc.GetBlock(bc.CurrentBlockHash())
	if err != nil {
		return err
	}
	aers, err := bc.GetAppExecResults(b.Hash(), trigger.All)
	if err != nil || len(aers) != 2 {
		return fmt.Errorf("block execution results: %v (%d)", err, len(aers))
	}
	on, post := &aers[0], &aers[1]
	if on.Trigger != trigger.OnPersist {
		on, post = post, on
	}
	designatedAt := func(role noderoles.Role) map[util.Uint160]bool {
		// the list in force for this block: stored under role||BE32(index) with the greatest index <= this block's
		out := map[util.Uint160]bool{}
		var best []byte
		bc.SeekStorage(nativeids.RoleManagement, []byte{byte(role)}, func(k, v []byte) bool {
			if len(k) == 4 {
				idx := uint32(k[0])<<24 | uint32(k[1])<<16 | uint32(k[2])<<8 | uint32(k[3])
				if idx <= b.Index {
					best = v
				}
			}
			return true
		})
		if best == nil {
			return out
		}
		for i := 1; i <= 7; i++ {
			if strings.Contains(string(best), string(xpub(i))) {
				out[xacc(i)] = true
			}
		}
		return out
	}
	gasH := nativehashes.GasToken
	count := func(a *state.AppExecResult, role noderoles.Role) int {
		nodes := designatedAt(role)
		seen := map[util.Uint160]bool{}
		for _, p := range transferEvents(a, gasH) {
			if p[0] == nil && p[1] != nil && nodes[*p[1]] {
				seen[*p[1]] = true
			}
		}
		return len(seen)
	}
	burnt := map[util.Uint160]bool{}
	for _, p := range transferEvents(on, gasH) {
		if p[0] != nil && p[1] == nil {
			burnt[*p[0]] = true
		}
	}
	postMints, onMints := count(post, noderoles.Oracle), count(on, noderoles.P2PNotary)
	rendered, err := n.BlockAERs(b)
	if err != nil {
		return err
	}
	_, entries := manyXfers(n)
	for _, part := range strings.Split(strings.TrimPrefix(name, manyPrefix), "+") {
		kind, arg, _ := strings.Cut(part, ":")
		switch kind {
		case "resp":
			ids, _ := manyInts(arg)
			nodes := len(designatedAt(noderoles.Oracle))
			if nodes == 0 {
				return fmt.Errorf("%s: no oracle nodes in force", name)
			}
			want := map[int]bool{}
			for _, id := range ids {
				want[id%nodes] = true
			}
			if postMints != len(want) {
				return fmt.Errorf("%s: PostPersist rewarded %d oracle nodes, the program says %d", name, postMints, len(want))
			}
		case "na":
			if nodes := len(designatedAt(noderoles.P2PNotary)); onMints != nodes || nodes == 0 {
				return fmt.Errorf("%s: OnPersist rewarded %d notary nodes of %d", name, onMints, nodes)
			}
		case "send":
			if accs := strings.Split(arg, "."); len(accs) >= 2 && len(burnt) < 2 {
				return fmt.Errorf("%s: OnPersist burnt the fees of %d senders", name, len(burnt))
			}
		}
	}
	for _, tx := range b.Transactions {
		a, err := bc.GetAppExecResults(tx.Hash(), trigger.Application)
		if err != nil || len(a) != 1 {
			return fmt.Errorf("%s: no execution result of %s", name, tx.Hash().StringLE())
		}
		// responses end in the callback `other`, which takes one argument: they FAULT by design (PostPersist pays anyway)
		if a[0].VMState.String() != "HALT" && getOracleResp(tx) == nil {
			return fmt.Errorf("%s: transaction %d did not halt: %s", name, tx.Nonce, a[0].FaultException)
		}
	}
	s := &manyStats
	s.mu.Lock()
	defer s.mu.Unlock()
	s.blocks++
	s.results[rendered] = true
	s.maxPost = max(s.maxPost, postMints)
	s.maxOn = max(s.maxOn, onMints)
	s.maxBurn = max(s.maxBurn, len(burnt))
	s.xferEntries += entries
	if postMints >= 2 {
		s.batches["oracle_rewards_in_postpersist"]++
	}
	if onMints >= 2 {
		s.batches["notary_rewards_in_onpersist"]++
	}
	if len(burnt) >= 2 {
		s.batches["fee_burns_in_onpersist"]++
	}
	return nil
}

func getOracleResp(tx *transaction.Transaction) *transaction.OracleResponse {
	for i := range tx.Attributes {
		if tx.Attributes[i].Type == transaction.OracleResponseT {
			return tx.Attributes[i].Value.(*transaction.OracleResponse)
		}
	}
	return nil
}

// ---- paths and variants -----------------------------------------------------------------

const manyRepeatQuick, manyRepeatThorough = 4, 16

// manyVariants: r fresh replicas of the reference's own configuration, restarts around the many block
// (history index `at`, 1-based), and one variant per node-local dimension.
func manyVariants(n, at, r int) []variant {
	all := uint(1<<uint(n+1)) - 1
	alt := uint(0x55555555) & all
	var vs []variant
	for i := 1; i <= r; i++ {
		vs = append(vs, variant{Name: fmt.Sprintf("mem/j-fresh#%d", i), Backend: "mem"})
	}
	vs = append(vs,
		variant{Name: "mem/x-flush-all", Backend: "mem", Flush: all},
		variant{Name: "mem/x-restart-all", Backend: "mem", Restart: all},
		variant{Name: "mem/j-pool-flush-alt", Backend: "mem", Pool: true, Flush: alt},
		variant{Name: "bolt/j-flush-all-restart-all", Backend: "bolt", Flush: all, Restart: all},
		variant{Name: "mem/j-save-invocations", Backend: "mem", Cfg: func(c *config.Blockchain) { c.Ledger.SaveInvocations = true }, Flush: alt, Restart: all &^ alt},
		variant{Name: "mem/j-prune-gc", Backend: "mem", Cfg: func(c *config.Blockchain) {
			c.Ledger.RemoveUntraceableBlocks = true
			c.Ledger.GarbageCollectionPeriod = 1
		}, GC: true, Flush: all, Restart: alt},
	)
	for k := max(at-1, 0); k <= min(at, n-1); k++ {
		vs = append(vs, variant{Name: fmt.Sprintf("mem/x-restart@%d", k), Backend: "mem", Restart: 1 << uint(k)})
	}
	return vs
}

func manyVariantByName(name string, n int) (variant, bool) {
	for at := 1; at <= n; at++ {
		for _, v := range manyVariants(n, at, manyRepeatThorough) {
			if v.Name == name {
				return v, true
			}
		}
	}
	return variant{}, false
}

// subsets of {0..k-1} with at least two members, as id lists (ascending), simplest first
func manySubsets(k int) [][]int {
	var out [][]int
	for size := 2; size <= k; size++ {
		for m := 0; m < 1<<uint(k); m++ {
			var s []int
			for i := 0; i < k; i++ {
				if m&(1<<uint(i)) != 0 {
					s = append(s, i)
				}
			}
			if len(s) == size {
				out = append(out, s)
			}
		}
	}
	return out
}

func joinInts(s []int) string {
	var p []string
	for _, v := range s {
		p = append(p, strconv.Itoa(v))
	}
	return strings.Join(p, ".")
}

func reversed(s []int) []int {
	out := make([]int, len(s))
	for i, v := range s {
		out[len(s)-1-i] = v
	}
	return out
}

// manyPaths: the histories of plan J. full = every id subset in both orders (the family that carries the plan in
// the quick tier and every family in thorough), otherwise a few per kind.
func manyPaths(thorough, multi, full bool) []xpath {
	r := manyRepeatQuick
	if thorough {
		r = manyRepeatThorough
	}
	var out []xpath
	add := func(group, label string, at int, names ...string) {
		out = append(out, xpath{group: group, label: label, names: names, vs: manyVariants(len(names), at, r)})
	}
	nodeSets := []string{"34", "345", "3456"}
	// J1: k responses of one block, requests assigned (id mod number of nodes) to different oracle nodes
	for _, nodes := range nodeSets {
		var lists [][]int
		for _, s := range manySubsets(4) {
			if full {
				lists = append(lists, s)
			}
			if (full && thorough) || len(s) == 4 || (full && len(s) == 2 && s[0] == 0 && s[1] == 1) {
				lists = append(lists, reversed(s))
			}
		}
		if !full {
			lists = append(lists, []int{0, 1, 2, 3}[:len(nodes)])
		}
		for _, ids := range lists {
			// the requests left over are answered by the next block (in descending order), then the probe
			names := []string{"j-oracle:" + nodes, "j-req:4", "j-resp:" + joinInts(ids)}
			var rest []int
			for id := 3; id >= 0; id-- {
				if !strings.Contains("."+joinInts(ids)+".", fmt.Sprintf(".%d.", id)) {
					rest = append(rest, id)
				}
			}
			if len(rest) > 0 {
				names = append(names, "j-resp:"+joinInts(rest)+"+send:1.2")
			}
			add("J1-oracle-responses", fmt.Sprintf("J1/oracle:%s/resp:%s", nodes, joinInts(ids)), 3, append(names, "x-probe-final")...)
			if len(ids) < 4 && joinInts(ids) != "0.1" && !thorough {
				// the bulk of the id subsets: fresh replicas, flush, restarts; the node-local dimensions are on the other paths
				p := &out[len(out)-1]
				var keep []variant
				for _, v := range p.vs {
					if !strings.Contains(v.Name, "/j-") || strings.HasPrefix(v.Name, "mem/j-fresh#") {
						keep = append(keep, v)
					}
				}
				p.vs = keep
			}
		}
	}
	// J2: k notary-assisted transactions with different NKeys, 2..4 notary nodes rewarded in OnPersist
	nks := [][]int{{1, 2}, {2, 1, 3}, {1, 1}}
	if thorough {
		nks = append(nks, []int{1, 2, 3, 4}, []int{3, 1})
	}
	for i, nodes := range nodeSets {
		for j, nk := range nks {
			if !full && i != j {
				continue
			}
			add("J2-notary-rewards", fmt.Sprintf("J2/notary:%s/na:%s", nodes, joinInts(nk)), 2,
				"j-notary:"+nodes, "j-na:"+joinInts(nk), "j-na:"+joinInts(reversed(nk))+"+send:1.2", "x-probe-final")
		}
	}
	// J3: several fee payers in one block, both orders
	add("J3-fee-payers", "J3/send:1.2.3.5", 1, "j-send:1.2.3.5", "j-send:5.3.2.1", "x-probe")
	add("J3-fee-payers", "J3/send:1.2", 1, "j-send:1.2", "j-send:2.1", "j-send:3.5", "x-probe")
	add("J3-fee-payers", "J3/send:2.3.5", 1, "j-send:2.3.5", "j-send:1.6.2", "j-send:6.5.1", "x-probe")
	// J5: several voters (of different candidates where there are any) voting in one block and claiming in one block
	vote := "j-vote:1>1.2>1.3>1"
	idle := 2
	if multi {
		vote, idle = "j-vote:1>1.2>4.3>3", 8 // elected at height 6, paid over a whole epoch
	}
	for _, order := range [][2]string{{"1.2.3", "3.1.2"}, {"3.2.1", "2.3.1"}} {
		names := []string{vote}
		for i := 0; i < idle; i++ {
			names = append(names, "x-idle")
		}
		names = append(names, "j-claim:"+order[0], "j-claim:"+order[1]+"+send:2.1", "x-probe-final")
		add("J5-voters-claim", "J5/claim:"+order[0], idle+2, names...)
		if !full {
			break
		}
	}
	// J6: several contracts deployed / destroyed in one block
	add("J6-contract-lifecycle", "J6/life:dUC.xUB.xUA", 1, "j-life:dUC.xUB.xUA", "x-probe-final")
	if full {
		add("J6-contract-lifecycle", "J6/life:xUA.dUC.xUB", 1, "j-life:xUA.dUC.xUB", "x-probe-final")
	}
	// J7: all kinds in one block
	add("J7-mix", "J7/mix", 3, "j-oracle:345+notary:34", "j-req:4",
		"j-resp:0.1.2+na:1.2+send:1.2.3+claim:1.2", "j-resp:3+na:2+life:dUC.xUB+send:3.1", "x-probe-final")
	return out
}

// manyCoverage: scalar evidence counters of plan J.
func manyCoverage(xscs []*scenario, built []bool) map[string]int {
	s := &manyStats
	s.mu.Lock()
	defer s.mu.Unlock()
	out := map[string]int{
		"many_blocks":                       s.blocks,
		"distinct_many_block_results":       len(s.results),
		"max_oracle_nodes_paid_postpersist": s.maxPost,
		"max_notary_nodes_paid_onpersist":   s.maxOn,
		"max_fee_payers_burnt_onpersist":    s.maxBurn,
		"transfer_log_entries_reference":    s.xferEntries,
	}
	for k, v := range s.batches {
		out["blocks_with_ge2_"+k] = v
	}
	groups := map[string]bool{}
	for i, sc := range xscs {
		if !built[i] || !strings.HasPrefix(sc.group, "J") {
			continue
		}
		out["paths"]++
		out["variant_runs"] += len(sc.vs)
		groups[sc.group] = true
		for _, v := range sc.vs {
			if strings.HasPrefix(v.Name, "mem/j-fresh#") {
				out["fresh_replica_replays"]++
			}
		}
	}
	out["path_groups"] = len(groups)
	return out
}
