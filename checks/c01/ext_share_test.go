// Plan I of C01: shared MPT nodes x flush schedule on the reference-counting trie modes.
//
// KeepOnlyLatestState and RemoveUntraceableBlocks nodes keep ONE copy of every MPT node
// together with a reference counter (RemoveUntraceableBlocks: plus an "active" flag and
// the height of deactivation, swept by the garbage collector MaxTraceableBlocks later).
// The counters are maintained through a cache inside the in-memory trie that lives from
// block to block and is dropped (Trie.Collapse, at the END of storeBlock) only by a block
// whose predecessor is flushed already (hence also by the first block after a restart) -
// so WHICH counter value a node-local option writes depends on the
// flush schedule, while state roots, storage and execution results do not: a counter
// that is one too low stays invisible until the node is deleted although another
// storage item still needs it, and then shows as a node that REJECTS a valid block
// ("key not found" while applying the MPT batch) after its next restart or collapse.
// An archival node, and a same-option node that flushed at other moments, accept it.
//
// Counters above 1 exist only for SHARED nodes: the same value under two keys (one leaf),
// the same key/value layout under two contracts (one extension / branch). The broad
// plans hardly ever produce them, so this plan is built around them:
//
//	group    two storage keys k1 < k2 and two values A, B that nothing else in the chain uses
//	history  block S puts the group into one of the states {absent, A, B}^2 (up to swapping
//	         A and B), blocks OP1 and OP2 apply one of {nothing, put A, put B, delete} to each
//	         key - put of the value the key holds already and delete of an absent key included:
//	         4 x 16 x 16 = 1024 group histories, ALL enumerated, 256 per chain in parallel
//	         (groups are independent by construction: own keys, own values)
//	kinds    (group j of pack p of rotation r is of kind (j+p+r) mod 4: quick runs two rotations,
//	         thorough all four, i.e. every history on every kind)
//	         deep    both keys under one contract below three stored prefix keys ("x", "xx",
//	                 "xxx"): the leaves sit deeper than the 10 levels Collapse leaves expanded
//	         shallow short keys: the leaves stay expanded across a collapse, only a restart
//	                 turns them into hash nodes
//	         cross   the SAME key bytes under two contracts: shared leaves, extensions, branches
//	         prefix  k1 is a prefix of k2 (value child of a branch)
//	tail     block T1 touches every key (present: flipped to the other value, absent: created: every
//	         reference S..OP2 left is given up), six idle blocks let the garbage collector of the
//	         pruning mode sweep everything S..T1 deactivated, block T2 deletes the first key of every group
//
// Every chain is replayed on KeepOnlyLatestState and on RemoveUntraceableBlocks+GC with EVERY
// subset of the flush points {after the preamble, S, OP1, OP2, T1} x {no restart, restart after
// S, after OP2, after both}, plus archival controls (quick: the second rotation only with the
// restart sets that contain "after OP2"; thorough: the first rotation also on BoltDB and LevelDB
// with these restart sets). Oracles: the variant accepts every block (a Go panic inside block
// processing counts as a rejection), state root, block and execution results equal the reference
// replica's at every height and the whole observation after OP2, T1 and T2, and at these three points the latest state read THROUGH THE
// TRIE (StateRoot module, SeekStates at the current root) is the contract storage the ledger
// serves (a hole in the trie shows there even while the expanded in-memory nodes still mask it).
//
// Block names are "s:r<rotation>.<pack>:<role>"; rotation, pack and role determine the whole block, so
// a recorded case replays from its history alone.
package c01

import (
	"encoding/binary"
	"encoding/hex"
	"fmt"
	"os"
	"sort"
	"strings"
	"sync"
	"sync/atomic"

	"github.com/nspcc-dev/neo-go/pkg/config"

	"verif/lib/chainx"
)

const (
	shPrefix = "s:"
	shG      = 256 // groups per chain
	shIdle   = 6   // idle blocks between T1 and T2 (MaxTraceableBlocks of the family: the collector has swept what T1 deactivated)
	shTxOps  = 170 // storage operations per transaction
)

var shKinds = []string{"deep", "shallow", "cross", "prefix"}

// shHist is one group history: state after S, operations of OP1 and OP2 per key.
// States: 0 absent, 1 value A, 2 value B. Operations: 0 nothing, 1 put A, 2 put B, 3 delete.
type shHist struct {
	S0, Op1, Op2 [2]uint8
}

func (h shHist) String() string {
	st := func(s [2]uint8) string { return string("-AB"[s[0]]) + string("-AB"[s[1]]) }
	op := func(o [2]uint8) string { return string(".abd"[o[0]]) + string(".abd"[o[1]]) }
	return st(h.S0) + "/" + op(h.Op1) + "/" + op(h.Op2)
}

// shHistories: the complete list in a fixed order (simplest first: fewest operations).
func shHistories() []shHist {
	// up to the A <-> B symmetry; (absent, absent) is left out: OP1 would only play the role of S
	states := [][2]uint8{{0, 1}, {1, 0}, {1, 1}, {1, 2}}
	var out []shHist
	for o1 := 0; o1 < 16; o1++ {
		for o2 := 0; o2 < 16; o2++ {
			for _, s := range states {
				out = append(out, shHist{S0: s, Op1: [2]uint8{uint8(o1 / 4), uint8(o1 % 4)}, Op2: [2]uint8{uint8(o2 / 4), uint8(o2 % 4)}})
			}
		}
	}
	w := func(h shHist) int {
		n := 0
		for _, o := range []uint8{h.Op1[0], h.Op1[1], h.Op2[0], h.Op2[1]} {
			if o != 0 {
				n++
			}
		}
		return n
	}
	sort.SliceStable(out, func(i, j int) bool { return w(out[i]) < w(out[j]) })
	return out
}

func shApply(s, op uint8) uint8 {
	switch op {
	case 1, 2:
		return op
	case 3:
		return 0
	}
	return s
}

type shPack struct {
	rot int
	idx int
	hs  []shHist
}

func (p shPack) kind(j int) string { return shKinds[(j+p.idx+p.rot)%len(shKinds)] }

func shPackCount() int {
	shAllOnce.Do(func() { shAll = shHistories() })
	return (len(shAll) + shG - 1) / shG
}

var (
	shAll     []shHist
	shAllOnce sync.Once
)

func shGetPack(rot, idx int) shPack {
	shAllOnce.Do(func() { shAll = shHistories() })
	lo, hi := idx*shG, min((idx+1)*shG, len(shAll))
	if lo >= hi || rot < 0 || rot >= len(shKinds) {
		panic(fmt.Sprintf("plan I: no pack r%d.%d", rot, idx))
	}
	return shPack{rot: rot, idx: idx, hs: shAll[lo:hi]}
}

// shPackOf parses "r<rot>.<idx>".
func shPackOf(name string) shPack {
	var rot, idx int
	if _, err := fmt.Sscanf(name, "r%d.%d", &rot, &idx); err != nil {
		panic("plan I: bad pack name " + name)
	}
	return shGetPack(rot, idx)
}

func (p shPack) name() string { return fmt.Sprintf("r%d.%d", p.rot, p.idx) }

// key: contract (0 = UA, 1 = UB) and key bytes of key k (0, 1) of group j.
func (p shPack) key(j, k int) (int, []byte) {
	switch p.kind(j) {
	case "deep":
		return 0, []byte{'x', 'x', 'x', byte(j), 0x11 + byte(k)}
	case "shallow":
		return 0, []byte{byte(j), 0x11 + byte(k)}
	case "cross":
		return k, []byte{'x', 'x', 'x', byte(j), 0x11}
	case "prefix":
		if k == 0 {
			return 0, []byte{'x', 'x', 'x', byte(j)}
		}
		return 0, []byte{'x', 'x', 'x', byte(j), 0x00}
	}
	panic("plan I: unknown kind")
}

func shVal(j int, v uint8) []byte { return []byte{0x40 + v, byte(j)} } // 'A'/'B' + group number

// state of every key after the given role's block.
func (p shPack) stateAfter(role string) [][2]uint8 {
	out := make([][2]uint8, len(p.hs))
	for j, h := range p.hs {
		s := h.S0
		if role == "S" {
			out[j] = s
			continue
		}
		s = [2]uint8{shApply(s[0], h.Op1[0]), shApply(s[1], h.Op1[1])}
		if role == "OP1" {
			out[j] = s
			continue
		}
		s = [2]uint8{shApply(s[0], h.Op2[0]), shApply(s[1], h.Op2[1])}
		if role == "OP2" {
			out[j] = s
			continue
		}
		for k := 0; k < 2; k++ { // T1: flip / create
			if s[k] == 1 {
				s[k] = 2
			} else {
				s[k] = 1
			}
		}
		if role == "T1" {
			out[j] = s
			continue
		}
		out[j] = [2]uint8{0, s[1]} // T2
	}
	return out
}

// ops of a role: per contract the list of universal-contract operations.
func (p shPack) ops(role string) [2][]any {
	var out [2][]any
	put := func(j, k int, v uint8) {
		c, key := p.key(j, k)
		out[c] = append(out[c], []any{chainx.OpPut, key, shVal(j, v)})
	}
	del := func(j, k int) {
		c, key := p.key(j, k)
		out[c] = append(out[c], []any{chainx.OpDel, key})
	}
	if role == "S" {
		for _, c := range []int{0, 1} {
			for i, k := range []string{"x", "xx", "xxx"} {
				out[c] = append(out[c], []any{chainx.OpPut, []byte(k), []byte(fmt.Sprintf("anchor-%d", i))})
			}
		}
	}
	var before [][2]uint8
	if role == "T1" {
		before = p.stateAfter("OP2")
	}
	for j, h := range p.hs {
		for k := 0; k < 2; k++ {
			var op uint8
			switch role {
			case "S":
				op = h.S0[k] // 0: nothing, 1/2: put
			case "OP1":
				op = h.Op1[k]
			case "OP2":
				op = h.Op2[k]
			case "T1":
				op = 1
				if before[j][k] == 1 {
					op = 2
				}
			case "T2":
				if k == 0 {
					op = 3
				}
			}
			switch op {
			case 1, 2:
				put(j, k, op)
			case 3:
				del(j, k)
			}
		}
	}
	return out
}

// shTpl resolves a block name of this plan.
func shTpl(name string) chainx.Tpl {
	f := strings.Split(strings.TrimPrefix(name, shPrefix), ":")
	if len(f) != 2 {
		panic("plan I: bad block name " + name)
	}
	role := f[1]
	p := shPackOf(f[0])
	return chainx.Tpl{Name: name, Build: func(w *chainx.World) (txs, error) {
		ops := p.ops(role)
		var out txs
		for c, list := range ops {
			ct := w.UA
			if c == 1 {
				ct = w.UB
			}
			for lo := 0; lo < len(list); lo += shTxOps {
				hi := min(lo+shTxOps, len(list))
				tx, err := w.URun(2+len(out)%2, ct, list[lo:hi])
				if err != nil {
					return nil, err
				}
				out = append(out, tx)
			}
		}
		return out, nil
	}}
}

// shVerify: every transaction of a plan I block must HALT on the reference (harness sanity).
func shVerify(n *chainx.Node, name string) error {
	if !strings.HasPrefix(name, shPrefix) {
		return nil
	}
	b, err := n.BC.GetBlock(n.BC.CurrentBlockHash())
	if err != nil {
		return err
	}
	for _, tx := range b.Transactions {
		if err := n.CheckHalt(tx.Hash()); err != nil {
			return fmt.Errorf("%s: %w", name, err)
		}
	}
	return nil
}

// history indices (1-based) of the roles.
const (
	shS   = 1
	shOP1 = 2
	shOP2 = 3
	shT1  = 4
	shT2  = shT1 + shIdle + 1
)

func shNames(p shPack) []string {
	names := []string{}
	for _, role := range []string{"S", "OP1", "OP2", "T1"} {
		names = append(names, shPrefix+p.name()+":"+role)
	}
	for i := 0; i < shIdle; i++ {
		names = append(names, "x-idle")
	}
	return append(names, shPrefix+p.name()+":T2")
}

// shPaths: the chains of the tier.
func shPaths(thorough bool) []xpath {
	var out []xpath
	rots := []int{0, 2}
	if thorough {
		rots = []int{0, 2, 1, 3}
	}
	for _, rot := range rots {
		for i := 0; i < shPackCount(); i++ {
			p := shGetPack(rot, i)
			vs := shVariants(!thorough && rot != 0)
			if thorough && rot == 0 {
				// the disk backends (they hand out copies of the stored records, the memory store its own slices)
				vs = append(vs, shVariants(true, "bolt", "level")...)
			}
			out = append(out, xpath{group: "I-shared-nodes", label: "I/" + p.name(), names: shNames(p), vs: vs})
		}
	}
	return out
}

// ---- variants ----------------------------------------------------------------------

func shModeCfg(mode string) (func(*config.Blockchain), bool) {
	switch mode {
	case "latest":
		return func(c *config.Blockchain) { c.Ledger.KeepOnlyLatestState = true }, false
	case "prune":
		return func(c *config.Blockchain) {
			c.Ledger.RemoveUntraceableBlocks = true
			c.Ledger.GarbageCollectionPeriod = 1
		}, true
	case "archival":
		return nil, false
	}
	panic("plan I: unknown mode " + mode)
}

// shVariant: backend, mode, flush subset f of the boundaries 0..T1 (bit i: flush after history block i; the
// idle boundaries are always flushed so that the collector runs), restarts after the blocks of the set rs
// (bit i: after history block i).
func shVariant(backend, mode string, f, rs uint) variant {
	cfg, gc := shModeCfg(mode)
	fl := f & (1<<uint(shT1+1) - 1)
	for i := shT1 + 1; i < shT2; i++ {
		fl |= 1 << uint(i)
	}
	// everything is compared with the reference after OP2, T1 and T2; at the other boundaries the state root,
	// the block and the execution results are
	full := uint(1)<<shOP2 | uint(1)<<shT1 | uint(1)<<shT2
	return variant{Name: fmt.Sprintf("%s/i-%s-f%02x-r%02x", backend, mode, f, rs), Backend: backend, Cfg: cfg, GC: gc, Flush: fl, Restart: rs, Share: true, Full: full}
}

// shVariantByName rebuilds a variant of this plan from its name (replay).
func shVariantByName(name string) (variant, bool) {
	bs := strings.SplitN(name, "/i-", 2)
	if len(bs) != 2 || (bs[0] != "mem" && bs[0] != "bolt" && bs[0] != "level") {
		return variant{}, false
	}
	parts := strings.Split(bs[1], "-")
	if len(parts) != 3 {
		return variant{}, false
	}
	var f, rs uint
	if _, err := fmt.Sscanf(parts[1], "f%x", &f); err != nil {
		return variant{}, false
	}
	if _, err := fmt.Sscanf(parts[2], "r%x", &rs); err != nil {
		return variant{}, false
	}
	return shVariant(bs[0], parts[0], f, rs), true
}

// shRestartSets: no restart, one restart after S / OP2, restarts after both (the sharpest first). The
// reduced list (second rotation of the quick tier) has the sets with a restart after OP2 only.
func shRestartSets(reduced bool) []uint {
	if reduced {
		return []uint{1 << shOP2, 1<<shS | 1<<shOP2}
	}
	return []uint{1 << shOP2, 1<<shS | 1<<shOP2, 0, 1 << shS}
}

func shVariants(reduced bool, backends ...string) []variant {
	if len(backends) == 0 {
		backends = []string{"mem"}
	}
	var vs []variant
	for _, be := range backends {
		for _, rs := range shRestartSets(reduced) {
			for f := uint(0); f < 1<<uint(shT1+1); f++ {
				if f&rs != 0 {
					continue // a restart flushes
				}
				for _, mode := range []string{"latest", "prune"} {
					vs = append(vs, shVariant(be, mode, f, rs))
				}
			}
		}
		all := uint(1<<uint(shT1+1)) - 1
		vs = append(vs, shVariant(be, "archival", 0, 1<<shOP2), shVariant(be, "archival", all, 0))
	}
	if f := os.Getenv("C01_SHVAR"); f != "" { // development aid: only the variants whose name contains f
		var keep []variant
		for _, v := range vs {
			if strings.Contains(v.Name, f) {
				keep = append(keep, v)
			}
		}
		return keep
	}
	return vs
}

// ---- the trie oracle ---------------------------------------------------------------

// shTrieCheck: at the boundaries after OP2, T1 and T2 the contract storage of UA and UB as the ledger serves
// it (want: the storage map of the observation just compared with the reference) must be what the latest
// state root commits to, read through the node's own trie store.
func shTrieCheck(n *chainx.Node, i int, o *chainx.Obs) []string {
	if i != shOP2 && i != shT1 && i != shT2 {
		return nil
	}
	sm := n.BC.GetStateModule()
	root := sm.CurrentLocalStateRoot()
	var bad []string
	for id := int32(1); id <= 2; id++ {
		pref := make([]byte, 4)
		binary.LittleEndian.PutUint32(pref, uint32(id))
		got := map[string]string{}
		// the traversal panics on a node it cannot load
		if err := chainx.Try(func() {
			sm.SeekStates(root, pref, func(k, v []byte) bool {
				got[hex.EncodeToString(k)] = hex.EncodeToString(v)
				return true
			})
		}); err != nil {
			return []string{fmt.Sprintf("reading the storage of contract %d at the current state root %s: %v", id, root.StringLE()[:12], err)}
		}
		want := 0
		ps := fmt.Sprintf("%d:", id)
		for k, v := range o.StorageMap() {
			if !strings.HasPrefix(k, ps) {
				continue
			}
			want++
			if g, ok := got[strings.TrimPrefix(k, ps)]; !ok || g != v {
				if len(bad) < 6 {
					bad = append(bad, fmt.Sprintf("storage[%s] = %s, through the trie at root %s: %q (present: %v)", k, v, root.StringLE()[:12], g, ok))
				}
			}
		}
		shTrieReads.Add(1)
		shTrieItems.Add(int64(len(got)))
		if os.Getenv("C01_SHDEBUG") != "" {
			fmt.Printf("SHDEBUG trie check at %d: contract %d: %d items in storage, %d through the trie\n", i, id, want, len(got))
		}
		if len(got) != want && len(bad) < 6 {
			bad = append(bad, fmt.Sprintf("contract %d: %d items in storage, %d through the trie", id, want, len(got)))
		}
	}
	sort.Strings(bad)
	return bad
}

// shDiagnose names the groups behind a failure of a plan I run: the group keys that hold a value after
// history block i (model state) but cannot be read at the node's current state root, and the group a leaf
// quoted by a reference counting panic ("[2 2 65|66 j]" = value A|B of group j) belongs to.
func shDiagnose(n *chainx.Node, packBlock string, i int, text string) (out []string) {
	if !strings.HasPrefix(packBlock, shPrefix) {
		return nil
	}
	p := shPackOf(strings.Split(strings.TrimPrefix(packBlock, shPrefix), ":")[0])
	describe := func(j int) string {
		return fmt.Sprintf("group %d of pack %s: kind %s, history %s (state after S / OP1 per key / OP2 per key; . nothing, a put A, b put B, d delete)", j, p.name(), p.kind(j), p.hs[j])
	}
	if k := strings.Index(text, "&{[2 2 "); k >= 0 {
		var v, j int
		if _, err := fmt.Sscanf(text[k:], "&{[2 2 %d %d]", &v, &j); err == nil && j < len(p.hs) {
			out = append(out, fmt.Sprintf("the leaf is value %c of %s", v, describe(j)))
		}
	}
	if n == nil || n.BC == nil {
		return out
	}
	role := "S"
	switch {
	case i >= shT2:
		role = "T2"
	case i >= shT1:
		role = "T1"
	case i >= shOP2:
		role = "OP2"
	case i >= shOP1:
		role = "OP1"
	}
	if i < shS {
		return out
	}
	_ = chainx.Try(func() {
		sm := n.BC.GetStateModule()
		root := sm.CurrentLocalStateRoot()
		for j, st := range p.stateAfter(role) {
			for k := 0; k < 2 && len(out) < 5; k++ {
				if st[k] == 0 {
					continue
				}
				c, key := p.key(j, k)
				full := make([]byte, 4, 4+len(key))
				binary.LittleEndian.PutUint32(full, uint32(c+1))
				if _, err := sm.GetState(root, append(full, key...)); err != nil {
					out = append(out, fmt.Sprintf("key %d (contract %d, %x) holds %c in storage after %s but is not readable through the trie (%v): %s", k+1, c+1, key, "-AB"[st[k]], role, err, describe(j)))
				}
			}
		}
	})
	return out
}

// ---- evidence ----------------------------------------------------------------------

// shStats: measured on the reference chains - group histories, how many of them ever have both keys on the
// same value (a leaf with two references), how deep the group leaves sit (nodes on the path of a proof).
func shStats(xscs []*scenario, built []bool) map[string]any {
	chains, groups, shared, rewrite, delAbsent, vruns := 0, 0, 0, 0, 0, 0
	kinds := map[string]int{}
	distinct := map[string]bool{}
	for i, sc := range xscs {
		if !built[i] || !strings.HasPrefix(sc.group, "I-") {
			continue
		}
		chains++
		vruns += len(sc.vs)
		p := shPackOf(strings.Split(strings.TrimPrefix(sc.tpls[0].Name, shPrefix), ":")[0])
		groups += len(p.hs)
		for j, h := range p.hs {
			kinds[p.kind(j)]++
			distinct[h.String()] = true
			sh := false
			s := h.S0
			for _, op := range [][2]uint8{h.Op1, h.Op2} {
				sh = sh || (s[0] != 0 && s[0] == s[1])
				for k := 0; k < 2; k++ {
					if op[k] == 3 && s[k] == 0 {
						delAbsent++
					}
					if op[k] != 0 && op[k] == s[k] {
						rewrite++
					}
				}
				s = [2]uint8{shApply(s[0], op[0]), shApply(s[1], op[1])}
			}
			sh = sh || (s[0] != 0 && s[0] == s[1])
			if sh {
				shared++
			}
		}
	}
	if chains == 0 {
		return nil
	}
	shMu.Lock()
	depths := map[string][2]int{}
	for k, v := range shDepths {
		depths[k] = v
	}
	shMu.Unlock()
	return map[string]any{
		"chains": chains, "variant_runs": vruns, "group_runs_per_kind": kinds, "group_runs": groups, "distinct_group_histories": len(distinct), "groups_per_chain": shG,
		"group_runs_with_a_shared_leaf": shared, "puts_of_the_value_already_held": rewrite, "deletes_of_absent_keys": delAbsent,
		"variants_per_chain": len(shVariants(false)), "variants_per_chain_reduced": len(shVariants(true)),
		"trie_reads_compared_with_storage": shTrieReads.Load(), "items_read_through_the_trie": shTrieItems.Load(),
		"leaf_path_nodes_min_max_per_kind (Collapse keeps 10 levels expanded)": depths,
	}
}

// shDepths: kind -> [min, max] number of nodes on the path from the root to a group leaf after block S
// (measured on the reference through GetStateProof).
var (
	shDepths    = map[string][2]int{}
	shMu        sync.Mutex
	shTrieReads atomic.Int64 // contract storages read through the trie (oracle evaluations)
	shTrieItems atomic.Int64 // items they returned
)

func shMeasureDepth(n *chainx.Node, name string) {
	if !strings.HasPrefix(name, shPrefix) || !strings.HasSuffix(name, ":S") {
		return
	}
	p := shPackOf(strings.Split(strings.TrimPrefix(name, shPrefix), ":")[0])
	sm := n.BC.GetStateModule()
	root := sm.CurrentLocalStateRoot()
	for j, h := range p.hs {
		for k := 0; k < 2; k++ {
			if h.S0[k] == 0 {
				continue
			}
			c, key := p.key(j, k)
			full := make([]byte, 4, 4+len(key))
			binary.LittleEndian.PutUint32(full, uint32(c+1))
			proof, err := sm.GetStateProof(root, append(full, key...))
			if err != nil {
				continue
			}
			shMu.Lock()
			d, ok := shDepths[p.kind(j)]
			if !ok {
				d = [2]int{len(proof), len(proof)}
			}
			shDepths[p.kind(j)] = [2]int{min(d[0], len(proof)), max(d[1], len(proof))}
			shMu.Unlock()
		}
	}
}
