// Plan H of C01: election inputs crossing a threshold, restart at every later height.
//
// NEO elects the committee from three inputs kept in storage: the voter turnout
// (prefixVotersCount: the NEO of all accounts that vote, also for a candidate that is
// not registered any more), the list of registered and not blocked candidates, and
// their votes (ties broken by key). The result is cached (newEpoch* values, recomputed
// at the end of an epoch only when the votesChanged flag is set) and every operation
// that moves one of the inputs has to raise the flag itself: vote / unvote / change of
// the vote, transfers from and to voters (partial and of the whole balance, which
// deletes the account record), unregistration (the record stays while it has votes and
// is dropped by the operation that takes the last vote away), registration through
// registerCandidate and through a GAS payment, Policy.blockAccount (Faun: revokes the
// vote of the blocked account). Whether an operation changes the RESULT depends on
// where the inputs stand relative to the thresholds:
//
//	turnout   >= 20% of the NEO supply (20 000 000 NEO), else the standby committee
//	candidates >= committee size, else the standby committee
//	order by votes, then by key (committee cut, validator cut, committee order)
//
// so a forgotten flag on one path shows only in histories that cross a threshold by
// exactly that operation while nothing else raises the flag in the same epoch. Plan H
// enumerates such histories: setups that put the turnout exactly at / one below / above
// the threshold (account 2 holds exactly 20 000 000 NEO), the candidate count at n / n+1
// (n-1 after the event), votes in a tie; then ONE event (or a pair: there and back
// again); idle blocks over two epoch boundaries; the probe block of plan G. Variants as
// in plan G: one restart after block k for every k from the block before the event on, a
// flush-all control, restart after every block.
//
// Block names of this plan are little programs ("t:" + operations joined by ","), so
// that a recorded case replays from its history alone:
//
//	fund.A.N    the validators' account (holder of the undistributed NEO) sends N NEO to account A
//	gas.A.N     ... sends N GAS to account A
//	vote.A.C    account A votes for candidate C (0: for nobody)
//	xfer.A.B.N  account A sends N NEO to account B (N = all: its whole balance as found in the state)
//	reg.C       registerCandidate of account C's key, unreg.C unregisterCandidate
//	regpay.C    registration by sending the register price in GAS to the NEO contract
//	block.A     Policy.blockAccount(account A) by the committee, unblock.A
//	setprice.N  NEO.setRegisterPrice(N GAS) by the committee, setgpb.N NEO.setGasPerBlock(N GAS): writers of
//	            NEO's cache that leave the election inputs alone (a copy of the cache must carry the flag on)
//
// Accounts 1..8 are the deterministic accounts of chainx (1: 30M NEO, 2: 20M, 3: 1000, all
// with GAS; 1 is a candidate, in the multi families 1..6 are); account 9 is the first
// standby committee member (its key is a member of the standby committee AND can be a
// registered candidate).
package c01

import (
	"encoding/hex"
	"fmt"
	"math/big"
	"strconv"
	"strings"

	"github.com/nspcc-dev/neo-go/pkg/core/native/nativehashes"
	"github.com/nspcc-dev/neo-go/pkg/core/native/nativeids"
	"github.com/nspcc-dev/neo-go/pkg/core/transaction"
	"github.com/nspcc-dev/neo-go/pkg/neotest"
	"github.com/nspcc-dev/neo-go/pkg/util"
	"github.com/nspcc-dev/neo-go/pkg/wallet"

	"verif/lib/chainx"
)

const (
	thrT      = 20_000_000 // 20% of the NEO supply
	thrPrefix = "t:"
)

func init() { chainx.RegisterKey(chainx.Acc(8)) }

// thrAccount resolves an account number of a block program.
func thrAccount(w *chainx.World, id int) *wallet.Account {
	if id == 9 {
		ms, ok := w.N.Committee.(neotest.MultiSigner)
		if !ok {
			panic("committee signer is not a multi-signer")
		}
		return ms.Single(0).Account()
	}
	return chainx.Acc(id)
}

func thrSigner(w *chainx.World, id int) neotest.Signer {
	return neotest.NewSingleSigner(thrAccount(w, id))
}

func thrCandidate(w *chainx.World, id int) bool {
	return w.N.BC.GetStorageItem(nativeids.NeoToken, append([]byte{33}, thrAccount(w, id).PublicKey().Bytes()...)) != nil
}

// thrCommitteeSigners: the sender (account 5, never blocked, never a voter in this plan), the standby
// committee and every committee that can be elected from the candidate records present in the state (any
// `size` of them), so that the transaction is valid whichever committee is in office when it executes.
func thrCommitteeSigners(w *chainx.World) []neotest.Signer {
	sg := []neotest.Signer{chainx.Signer(5), w.N.Committee}
	var cands []int
	for i := 1; i <= 8; i++ {
		if thrCandidate(w, i) {
			cands = append(cands, i)
		}
	}
	size := 1
	if w.N.Opts.Multi {
		size = 6
	}
	var rec func(from int, cur []int)
	rec = func(from int, cur []int) {
		if len(cur) == size {
			sg = append(sg, electedSigner(cur...))
			return
		}
		for i := from; i < len(cands); i++ {
			rec(i+1, append(append([]int{}, cur...), cands[i]))
		}
	}
	if len(cands) <= size+1 || size == 1 { // at most 8 committees
		rec(0, nil)
	}
	return sg
}

// thrOp builds the transaction of one operation on the current state of the reference.
func thrOp(w *chainx.World, op string) (*transaction.Transaction, error) {
	neo, gasH, pol := nativehashes.NeoToken, nativehashes.GasToken, nativehashes.PolicyContract
	f := strings.Split(op, ".")
	num := func(i int) int {
		if i >= len(f) {
			panic("operation " + op + ": missing field")
		}
		v, err := strconv.Atoi(f[i])
		if err != nil {
			panic("operation " + op + ": " + err.Error())
		}
		return v
	}
	h := func(id int) util.Uint160 { return thrAccount(w, id).ScriptHash() }
	pub := func(id int) []byte { return thrAccount(w, id).PublicKey().Bytes() }
	by := func(id int) []neotest.Signer { return []neotest.Signer{thrSigner(w, id)} }
	switch f[0] {
	case "fund":
		return w.N.MakeTx(chainx.CallScript(neo, "transfer", w.N.Validator.ScriptHash(), h(num(1)), int64(num(2)), nil), []neotest.Signer{w.N.Validator}, chainx.SysFee(xgas))
	case "gas":
		return w.N.MakeTx(chainx.CallScript(gasH, "transfer", w.N.Validator.ScriptHash(), h(num(1)), int64(num(2))*xgas, nil), []neotest.Signer{w.N.Validator}, chainx.SysFee(xgas))
	case "vote":
		var to any
		if c := num(2); c != 0 {
			to = pub(c)
		}
		return w.N.MakeTx(chainx.CallScript(neo, "vote", h(num(1)), to), by(num(1)), chainx.SysFee(xgas))
	case "xfer":
		var amount int64
		if f[3] == "all" {
			b, _ := w.N.BC.GetGoverningTokenBalance(h(num(1)))
			if b.Sign() <= 0 {
				return nil, fmt.Errorf("operation %s: nothing to send", op)
			}
			amount = b.Int64()
		} else {
			amount = int64(num(3))
		}
		return w.N.MakeTx(chainx.CallScript(neo, "transfer", h(num(1)), h(num(2)), amount, nil), by(num(1)), chainx.SysFee(xgas))
	case "reg":
		return w.N.MakeTx(chainx.CallScript(neo, "registerCandidate", pub(num(1))), by(num(1)), chainx.SysFee(thrRegisterPrice(w)+10*xgas))
	case "regpay":
		return w.N.MakeTx(chainx.CallScript(gasH, "transfer", h(num(1)), neo, thrRegisterPrice(w), pub(num(1))), by(num(1)), chainx.SysFee(2*xgas))
	case "unreg":
		return w.N.MakeTx(chainx.CallScript(neo, "unregisterCandidate", pub(num(1))), by(num(1)), chainx.SysFee(xgas))
	case "block":
		return w.N.MakeTx(chainx.CallScript(pol, "blockAccount", h(num(1))), thrCommitteeSigners(w), chainx.SysFee(3*xgas))
	case "setprice": // NEO.setRegisterPrice / setGasPerBlock: they take NEO's cache for writing without touching the election inputs
		return w.N.MakeTx(chainx.CallScript(neo, "setRegisterPrice", int64(num(1))*xgas), thrCommitteeSigners(w), chainx.SysFee(3*xgas))
	case "setgpb":
		return w.N.MakeTx(chainx.CallScript(neo, "setGasPerBlock", int64(num(1))*xgas), thrCommitteeSigners(w), chainx.SysFee(3*xgas))
	case "unblock":
		return w.N.MakeTx(chainx.CallScript(pol, "unblockAccount", h(num(1))), thrCommitteeSigners(w), chainx.SysFee(3*xgas))
	}
	panic("unknown operation " + op)
}

func thrRegisterPrice(w *chainx.World) int64 {
	var price int64 = 1000 * xgas
	if si := w.N.BC.GetStorageItem(nativeids.NeoToken, []byte{13}); si != nil {
		price = 0
		for i := len(si) - 1; i >= 0; i-- {
			price = price<<8 | int64(si[i])
		}
	}
	return price
}

// thrTpl turns a block program into a template.
func thrTpl(name string) chainx.Tpl {
	ops := strings.Split(strings.TrimPrefix(name, thrPrefix), ",")
	return chainx.Tpl{Name: name, Build: func(w *chainx.World) (out txs, err error) {
		err = chainx.Try(func() {
			for _, op := range ops {
				tx, e := thrOp(w, op)
				if e != nil {
					panic(chainx.Failure{Msg: e.Error()})
				}
				out = append(out, tx)
			}
		})
		return
	}}
}

// thrVerify: every operation of a block program must have done what its name says (HALT, and `true`
// where the method answers with a boolean) - a path whose operations are refused is not the history
// it claims to be (harness error, not a finding).
func thrVerify(n *chainx.Node, name string) error {
	if !strings.HasPrefix(name, thrPrefix) {
		return nil
	}
	ops := strings.Split(strings.TrimPrefix(name, thrPrefix), ",")
	b, err := n.BC.GetBlock(n.BC.CurrentBlockHash())
	if err != nil {
		return err
	}
	if len(b.Transactions) != len(ops) {
		return fmt.Errorf("%s: %d transactions in the block", name, len(b.Transactions))
	}
	for i, tx := range b.Transactions {
		a, err := n.BC.GetAppExecResults(tx.Hash(), 0x40)
		if err != nil || len(a) != 1 {
			return fmt.Errorf("%s: no execution result of %s", name, ops[i])
		}
		if a[0].VMState.String() != "HALT" {
			return fmt.Errorf("%s: %s: %s %s", name, ops[i], a[0].VMState, a[0].FaultException)
		}
		if len(a[0].Stack) == 1 && a[0].Stack[0].Type().String() == "Boolean" {
			if v, err := a[0].Stack[0].TryBool(); err != nil || !v {
				return fmt.Errorf("%s: %s answered false", name, ops[i])
			}
		}
	}
	return nil
}

// ---- paths -----------------------------------------------------------------------

func tb(ops ...string) string { return thrPrefix + strings.Join(ops, ",") }

type thrSetup struct {
	name   string
	blocks []string // consecutive blocks from height 4 on
}

type thrEvent struct {
	name   string
	blocks []string // consecutive blocks ("" = idle)
}

func ev1(ops ...string) thrEvent {
	return thrEvent{name: strings.Join(ops, ","), blocks: []string{tb(ops...)}}
}

// evs: a sequence of event blocks; "-" is an idle block.
func evs(blocks ...string) thrEvent {
	e := thrEvent{name: strings.Join(blocks, ";")}
	for _, b := range blocks {
		if b == "-" {
			e.blocks = append(e.blocks, "x-idle")
		} else {
			e.blocks = append(e.blocks, thrPrefix+b)
		}
	}
	return e
}

type thrCase struct {
	group  string
	setup  thrSetup
	events []thrEvent
}

// thrSingleCases: committee size 1 (n = 1), one-block epochs, every hardfork active; candidate 1 is registered
// by the preamble.
func thrSingleCases() []thrCase {
	at := thrSetup{"at", []string{tb("vote.2.1")}}                                    // turnout exactly 20 000 000: candidate 1 elected
	below := thrSetup{"below1", []string{tb("xfer.2.3.1"), tb("vote.2.1")}}           // 19 999 999: standby; account 3 holds 1001, no vote
	above := thrSetup{"above", []string{tb("vote.2.1", "vote.3.1")}}                  // 20 001 000
	two := thrSetup{"two", []string{tb("xfer.2.4.1000"), tb("vote.2.1", "vote.3.1")}} // exactly 20 000 000 from two voters; account 4 holds 1000, no vote
	u1 := thrSetup{"unreg1", []string{tb("reg.2"), tb("vote.2.1"), tb("unreg.1")}}    // X = candidate 1 unregistered WITH the votes the turnout consists of; candidate 2 elected
	u1b := thrSetup{"unreg1-2voters", []string{tb("reg.2"), tb("vote.2.1", "vote.3.1"), tb("unreg.1")}}
	u3 := thrSetup{"unreg3", []string{tb("reg.2", "reg.3"), tb("vote.2.3"), tb("unreg.3")}}                   // X = candidate 3; candidates 1 and 2 tie at zero votes
	u0 := thrSetup{"unreg1-none", []string{tb("vote.2.1"), tb("unreg.1")}}                                    // turnout at the threshold, NO registered candidate (n-1): standby
	c2 := thrSetup{"two-cands", []string{tb("reg.2"), tb("vote.2.1")}}                                        // n+1 candidates
	tie := thrSetup{"tie", []string{tb("reg.2", "fund.3.19999000"), tb("vote.2.1", "vote.3.2")}}              // 20M : 20M
	sb := thrSetup{"standby-cand", []string{tb("gas.9.1100"), tb("reg.9"), tb("xfer.2.3.1"), tb("vote.2.9")}} // a standby member is a candidate with 19 999 999 votes
	return []thrCase{
		{"H1-turnout", at, []thrEvent{
			ev1("vote.2.0"), ev1("xfer.2.3.1"), ev1("xfer.2.3.all"), ev1("xfer.2.1.1"), ev1("block.2"), ev1("vote.3.1"), ev1("xfer.3.2.1"),
			ev1("xfer.2.3.1", "xfer.3.2.1"), // down and up again inside one block
			evs("xfer.2.3.1", "-", "xfer.3.2.1"), evs("xfer.2.3.1", "xfer.3.2.1"), evs("vote.2.0", "-", "vote.2.1"),
			evs("xfer.2.3.all", "-", "xfer.3.2.all", "vote.2.1"), evs("block.2", "-", "unblock.2", "vote.2.1"),
			ev1("vote.2.0", "setprice.700"), ev1("xfer.2.3.1", "setgpb.3"), ev1("setprice.700", "vote.2.0"),
		}},
		{"H1-turnout", below, []thrEvent{
			ev1("xfer.3.2.1"), ev1("xfer.3.2.all"), ev1("vote.3.1"), ev1("fund.2.1"), ev1("vote.2.0"),
			evs("xfer.3.2.1", "-", "xfer.2.3.1"),
		}},
		{"H1-turnout", above, []thrEvent{
			ev1("vote.3.0"), ev1("xfer.3.4.all"), ev1("xfer.2.3.1"), ev1("xfer.2.4.1001"), ev1("vote.2.0"), ev1("block.3"),
			evs("vote.3.0", "-", "xfer.2.4.1"),
		}},
		{"H1-turnout", two, []thrEvent{
			ev1("vote.3.0"), ev1("xfer.3.4.1"), ev1("xfer.3.2.1"), ev1("xfer.3.4.all"), ev1("block.3"),
		}},
		{"H2-unregistered-with-votes", u1, []thrEvent{
			ev1("vote.2.0"), ev1("xfer.2.3.all"), ev1("xfer.2.3.1"), ev1("vote.2.2"), ev1("block.2"), ev1("reg.1"), ev1("regpay.1"), ev1("xfer.3.2.1"), ev1("unreg.2"), ev1("vote.3.2"),
			evs("vote.2.0", "-", "reg.1"), evs("xfer.2.3.all", "-", "xfer.3.2.all"),
		}},
		{"H2-unregistered-with-votes", u1b, []thrEvent{
			evs("vote.3.0", "-", "vote.2.0"), evs("vote.2.0", "-", "vote.3.0"), ev1("vote.2.0", "vote.3.0"), evs("xfer.3.2.all", "-", "xfer.2.3.all"),
		}},
		{"H2-unregistered-with-votes", u3, []thrEvent{
			ev1("vote.2.0"), ev1("xfer.2.3.all"), ev1("vote.2.2"), ev1("vote.2.1"),
		}},
		{"H3-candidate-count", at, []thrEvent{
			ev1("unreg.1"), ev1("reg.2"), ev1("regpay.2"), ev1("block.1"), evs("unreg.1", "-", "reg.1"), evs("unreg.1", "-", "regpay.1"), evs("block.1", "-", "unblock.1"),
		}},
		{"H3-candidate-count", u0, []thrEvent{
			ev1("reg.2"), ev1("regpay.2"), ev1("reg.1"), ev1("vote.2.0"), evs("reg.2", "-", "unreg.2"),
		}},
		{"H3-candidate-count", c2, []thrEvent{
			ev1("unreg.2"), ev1("block.1"), ev1("block.2"), ev1("unreg.1", "unreg.2"), evs("unreg.1", "unreg.2"),
		}},
		{"H4-ties", tie, []thrEvent{
			ev1("xfer.2.4.1"), ev1("xfer.3.4.1"), ev1("xfer.2.3.1"), ev1("xfer.3.2.1"), ev1("vote.3.1"), evs("xfer.2.4.1", "-", "xfer.3.4.1"),
		}},
		{"H5-standby-candidate", sb, []thrEvent{
			ev1("xfer.3.2.1"), ev1("vote.2.1"), ev1("unreg.9"), ev1("vote.2.0"), ev1("unreg.1"),
		}},
	}
}

type thrMultiCase struct {
	group  string
	setup  thrSetup // blocks at heights 4 and 5 (the first elected committee takes office at height 6)
	events []thrEvent
	phases []int // heights of the (first) event block: 6 = first block of an epoch, 11 = last
}

// thrMultiCases: committee size 6 (n = 6), 4 validators, epoch = 6 blocks; candidates 1..6 are registered by the
// preamble. faun: Policy.blockAccount revokes votes.
func thrMultiCases(faun, thorough bool) []thrMultiCase {
	ph := func(quick ...int) []int {
		if thorough {
			return []int{6, 7, 8, 9, 10, 11}
		}
		return quick
	}
	at := thrSetup{"at", []string{tb("vote.2.1")}}
	below := thrSetup{"below1", []string{tb("xfer.2.3.1"), tb("vote.2.1")}}
	seven := thrSetup{"seven", []string{tb("gas.7.1100"), tb("reg.7", "vote.2.1")}}                    // n+1 candidates
	sevenX := thrSetup{"seven-unreg1", []string{tb("gas.7.1100"), tb("reg.7", "vote.2.1", "unreg.1")}} // six registered + X = candidate 1 unregistered with the 20M votes
	tie := thrSetup{"tie", []string{tb("fund.4.1000", "vote.2.1"), tb("vote.3.5", "vote.4.6")}}        // 20M for 1; 5 and 6 tie at 1000; 2, 3, 4 tie at zero: validator cut inside a tie
	sb := thrSetup{"standby-cand", []string{tb("gas.9.1100", "xfer.2.3.1"), tb("reg.9", "vote.2.9")}}
	if !faun {
		return []thrMultiCase{
			{"H1-turnout", at, []thrEvent{ev1("vote.2.0"), ev1("xfer.2.3.1")}, ph(11)},
			{"H1-turnout", at, []thrEvent{ev1("xfer.2.3.all")}, ph(6)},
			{"H2-unregistered-with-votes", sevenX, []thrEvent{ev1("vote.2.0")}, ph(6)},
			{"H2-unregistered-with-votes", sevenX, []thrEvent{ev1("xfer.2.3.all")}, ph(11)},
			{"H3-candidate-count", at, []thrEvent{ev1("unreg.3")}, ph(11)},
		}
	}
	return []thrMultiCase{
		{"H1-turnout", at, []thrEvent{ev1("vote.2.0"), ev1("xfer.2.3.1"), ev1("xfer.2.3.all"), ev1("block.2")}, ph(6, 11)},
		{"H1-turnout", at, []thrEvent{evs("xfer.2.3.1", "-", "xfer.3.2.1"), evs("xfer.2.3.1", "-", "-", "-", "-", "-", "-", "xfer.3.2.1")}, ph(8)},
		{"H1-turnout", at, []thrEvent{evs("vote.2.0", "setprice.700"), ev1("xfer.2.3.1", "setgpb.3")}, ph(8)},
		{"H1-turnout", below, []thrEvent{ev1("xfer.3.2.1"), ev1("vote.3.4")}, ph(6, 11)},
		{"H2-unregistered-with-votes", sevenX, []thrEvent{ev1("vote.2.0"), ev1("xfer.2.3.all")}, ph(6, 11)},
		{"H2-unregistered-with-votes", sevenX, []thrEvent{ev1("xfer.2.3.1"), ev1("vote.2.2"), ev1("block.2"), ev1("reg.1"), ev1("regpay.1")}, ph(8)},
		{"H3-candidate-count", at, []thrEvent{ev1("unreg.3"), evs("unreg.3", "-", "-", "-", "-", "-", "-", "reg.3")}, ph(6, 11)},
		{"H3-candidate-count", seven, []thrEvent{ev1("unreg.7"), ev1("unreg.1"), evs("unreg.3", "-", "unreg.4"), ev1("block.3")}, ph(8)},
		{"H3-candidate-count", thrSetup{"at+gas7", []string{tb("gas.7.1100", "vote.2.1")}}, []thrEvent{ev1("reg.7"), ev1("regpay.7")}, ph(8)}, // n -> n+1 inside an epoch
		{"H4-ties", tie, []thrEvent{ev1("xfer.3.4.1"), ev1("xfer.4.3.1"), ev1("vote.3.2")}, ph(8)},
		{"H5-standby-candidate", sb, []thrEvent{ev1("xfer.3.2.1"), ev1("unreg.9")}, ph(8)},
	}
}

// thrPaths lists the paths of plan H for a family (epoch = 1: single, 6: the multi families).
func thrPaths(thorough bool, epoch int, faun bool) []xpath {
	var out []xpath
	if epoch == 1 {
		for _, c := range thrSingleCases() {
			for _, e := range c.events {
				names := append([]string{}, c.setup.blocks...)
				names = append(names, e.blocks...)
				names = append(names, "x-idle", "x-idle", "x-idle", "x-probe-final")
				out = append(out, xpath{group: c.group, label: fmt.Sprintf("%s/%s/%s", c.group[:2], c.setup.name, e.name), names: names, first: len(c.setup.blocks)})
			}
		}
		return out
	}
	for _, c := range thrMultiCases(faun, thorough) {
		for _, e := range c.events {
			for _, he := range c.phases {
				m := map[int]string{}
				for i, b := range c.setup.blocks {
					m[xP+1+i] = b
				}
				last := he
				for i, b := range e.blocks {
					if b != "x-idle" {
						m[he+i] = b
						last = he + i
					}
				}
				b2 := nextBoundary(nextBoundary(last, epoch), epoch)
				m[b2+1] = "x-probe-final"
				out = append(out, xpath{group: c.group, label: fmt.Sprintf("%s/%s/%s@%d", c.group[:2], c.setup.name, e.name, he), names: pathTo(b2+1, m), first: he - xP - 1})
			}
		}
	}
	return out
}

// ---- evidence ----------------------------------------------------------------------

// thrTurnout reads the voter turnout (NEO storage key 0x01) from a reference observation.
func thrTurnout(o *chainx.Obs) int64 {
	v, ok := o.StorageMap()[fmt.Sprintf("%d:01", nativeids.NeoToken)]
	if !ok || v == "" {
		return 0
	}
	b, err := hex.DecodeString(v)
	if err != nil {
		return -1
	}
	for i, j := 0, len(b)-1; i < j; i, j = i+1, j-1 { // little endian
		b[i], b[j] = b[j], b[i]
	}
	return new(big.Int).SetBytes(b).Int64()
}

func thrClass(turnout int64) string {
	switch {
	case turnout == 0:
		return "0"
	case turnout < thrT-1:
		return "below"
	case turnout == thrT-1:
		return "T-1"
	case turnout == thrT:
		return "T"
	case turnout == thrT+1:
		return "T+1"
	}
	return "above"
}

// thrStats summarises the reference paths of plan H: how the turnout stood before and after the (first) event
// block, how many candidates were registered, and whether the committee in office changed between standby
// and elected later on.
func thrStats(xscs []*scenario, built []bool) map[string]any {
	moves := map[string]int{}
	cands := map[string]int{}
	office := map[string]int{}
	traj := map[string]bool{}
	paths, programs := 0, map[string]bool{}
	for i, sc := range xscs {
		if !built[i] || !strings.HasPrefix(sc.group, "H") {
			continue
		}
		paths++
		h := sc.fixed[0]
		for d := 1; d <= len(h); d++ {
			if strings.HasPrefix(sc.tpls[h[d-1]].Name, thrPrefix) {
				programs[sc.tpls[h[d-1]].Name] = true
			}
		}
		ev := sc.vs[2].restartAt() + 1 // index (1-based) of the first event block: the first one-restart variant restarts right before it
		before, after := sc.tree[key(h[:ev-1])].obs, sc.tree[key(h[:ev])].obs
		moves[thrClass(thrTurnout(before))+"->"+thrClass(thrTurnout(after))]++
		n := 1
		if sc.fam.Multi {
			n = 6
		}
		cnt := func(o *chainx.Obs) string {
			c := 0
			if o.Enroll != "" {
				c = strings.Count(o.Enroll, ",") + 1
			}
			switch {
			case c < n:
				return "n-"
			case c == n:
				return "n"
			}
			return "n+"
		}
		cands[cnt(before)+"->"+cnt(after)]++
		standby := sc.preObs.Committee
		var t []string
		prev := ""
		for d := 1; d <= len(h); d++ {
			c := sc.tree[key(h[:d])].obs.Committee
			s := "elected"
			if c == standby {
				s = "standby"
			}
			if d >= max(ev-1, 1) && (s != prev || len(t) == 0) {
				t = append(t, s)
			}
			prev = s
			traj[sc.fam.Name+c] = true
		}
		office[strings.Join(t, ">")]++
	}
	if paths == 0 {
		return nil
	}
	return map[string]any{
		"paths":                         paths,
		"distinct_block_programs":       len(programs),
		"turnout_before_to_after_event": moves,
		"candidate_count_vs_committee_size_before_to_after_event": cands,
		"committee_in_office_from_event_on":                       office,
		"distinct_committees":                                     len(traj),
	}
}

// restartAt: the block after which a one-restart variant restarts.
func (v variant) restartAt() int {
	for k := 0; k < 64; k++ {
		if v.Restart == 1<<uint(k) {
			return k
		}
	}
	return 0
}
