// C02: a crash at any flush boundary leaves a consistent, resumable chain
// prefix. The node runs on a recording store; for EVERY prefix of the sequence
// of atomic batches it issued, a fresh store holding exactly that prefix is
// opened with a new Blockchain and compared with the reference replica
// (DESIGN.md section 4, C02). Scenarios: ordinary persistence, garbage
// collection, state reset (with both orders of its persister/GC race).
package c02

import (
	"fmt"
	"os"
	"strings"
	"sync"
	"testing"
	"time"

	"encoding/hex"

	"github.com/nspcc-dev/neo-go/pkg/config"
	"github.com/nspcc-dev/neo-go/pkg/core/state"
	"github.com/nspcc-dev/neo-go/pkg/core/storage"
	"github.com/nspcc-dev/neo-go/pkg/io"

	"verif/checks/c02/fh"
	"verif/lib/chainx"
	"verif/lib/vk"
)

type caseRec struct {
	Scenario string   `json:"scenario"` // persist | gc | reset
	Family   string   `json:"family"`
	Pad      int      `json:"pad"`
	History  []string `json:"history"`
	Flush    uint64   `json:"flush_mask"`
	InBlock  uint64   `json:"inblock_flush_mask,omitempty"`
	ResetTo  uint32   `json:"reset_to,omitempty"`
	Ahead    int      `json:"headers_ahead,omitempty"`
	Prune    bool     `json:"pruning_node,omitempty"`
	GCFirst  bool     `json:"gc_first,omitempty"`
	Batches  int      `json:"batches"`
	Crash    int      `json:"crash_after_batches"`
	What     string   `json:"what"`
	Diff     []string `json:"diff,omitempty"`
	// gcrun cases (ext_gc_test.go)
	GC        *gcParams `json:"gcrun,omitempty"`
	Class     string    `json:"class,omitempty"`
	Phase     string    `json:"phase,omitempty"`
	PagesKept bool      `json:"pages_kept,omitempty"`
}

type env struct {
	hs  [][]int
	r   *vk.Run
	sc  *chainx.Scenario
	cfg func(*config.Blockchain) // node-local options of the crashing node
	gc  bool
	// ahead > 0: headers run ahead of blocks, as on a synchronising node (ext_ahead_test.go)
	ahead int
}

func (e *env) opts(st storage.Store) chainx.Opts {
	o := e.sc.Fam.Opts()
	o.Cfg = e.cfg
	o.Store = st
	return o
}

// genesis observation of the family (height 0), computed once.
var (
	genMu  sync.Mutex
	genObs = map[string]*chainx.Obs{}
)

func (e *env) refObs(h uint32, obs []*chainx.Obs) (*chainx.Obs, error) {
	if h > 0 {
		return obs[h-1], nil
	}
	genMu.Lock()
	defer genMu.Unlock()
	if o, ok := genObs[e.sc.Fam.Name]; ok {
		return o, nil
	}
	n, err := chainx.New(e.sc.Fam.Opts())
	if err != nil {
		return nil, err
	}
	defer n.Close()
	o, err := n.Observe(e.sc.World.MaxID, e.sc.World.Hashes())
	if err != nil {
		return nil, err
	}
	genObs[e.sc.Fam.Name] = o
	return o, nil
}

// recoverAndCheck opens a node on batches[:i] and checks the crash-consistency
// oracle. maxHeight is the last height accepted before the crash. If wantHeight
// >= 0 the recovered height must be exactly that (reset scenarios).
func (e *env) recoverAndCheck(batches []chainx.Batch, i int, maxHeight uint32, wantHeight int, blocks [][]byte, obs []*chainx.Obs, finalDump []string, chk ...*resetChk) (string, []string) {
	st := chainx.NewRecStore(chainx.ApplyBatches(batches, i))
	n, err := chainx.New(e.opts(st))
	if err != nil {
		return "restart on the crashed database failed: " + err.Error(), nil
	}
	defer func() {
		if n != nil {
			n.Close()
		}
	}()
	h := n.Height()
	if h > maxHeight {
		return fmt.Sprintf("recovered height %d is above the last accepted block %d", h, maxHeight), nil
	}
	if wantHeight >= 0 && h != uint32(wantHeight) {
		return fmt.Sprintf("recovered height %d, expected %d after the resumed reset", h, wantHeight), nil
	}
	if hh := n.BC.HeaderHeight(); hh < h {
		return fmt.Sprintf("header height %d below block height %d", hh, h), nil
	}
	want, err := e.refObs(h, obs)
	if err != nil {
		return "harness: " + err.Error(), nil
	}
	got, err := n.Observe(e.sc.World.MaxID, e.sc.World.Hashes())
	if err != nil {
		return "recovered node cannot answer: " + err.Error(), nil
	}
	if d := want.Diff(got); len(d) != 0 {
		return fmt.Sprintf("recovered state at height %d differs from an uninterrupted node", h), d
	}
	if len(chk) > 0 && wantHeight >= 0 {
		// resumed (or completed) reset: the node answers like one that only synchronised to the target
		rxProbes.Inc()
		if d := chk[0].asSynced(n); len(d) != 0 {
			return "resumed reset answers differ from a node that only synchronised to the target", d
		}
	}
	if finalDump != nil {
		// resumed reset/jump must end in the same database content as an uninterrupted one
		if err := n.Persist(); err != nil {
			return "flush after resume failed: " + err.Error(), nil
		}
		d := chainx.Dump(st)
		if diff := diffDump(finalDump, d); len(diff) != 0 {
			return "database after the resumed reset differs from the uninterrupted reset", diff
		}
	}
	for k := int(h); k < len(blocks); k++ {
		if err := n.AddBytes(blocks[k]); err != nil {
			return fmt.Sprintf("recovered node (height %d) rejects block %d: %v", h, k+1, err), nil
		}
		got, err := n.Observe(e.sc.World.MaxID, e.sc.World.Hashes())
		if err != nil {
			return "recovered node cannot answer: " + err.Error(), nil
		}
		if d := obs[k].Diff(got); len(d) != 0 {
			return fmt.Sprintf("after recovering at %d and adding block %d the state differs", h, k+1), d
		}
	}
	// the recovered node must stay resumable: stop it gracefully and start it once more
	if int(h) < len(blocks) {
		m, err := n.Reopen()
		n = m
		if err != nil {
			return fmt.Sprintf("node recovered at height %d and fed the remaining blocks cannot be restarted again: %v", h, err), nil
		}
		got, err := n.Observe(e.sc.World.MaxID, e.sc.World.Hashes())
		if err != nil {
			return "restarted node cannot answer: " + err.Error(), nil
		}
		if d := obs[len(blocks)-1].Diff(got); len(d) != 0 {
			return fmt.Sprintf("after recovering at %d, adding the remaining blocks and a second restart the state differs", h), d
		}
	}
	return "", nil
}

// canon rewrites database entries whose byte encoding is not a function of
// their content: token transfer info serialises a Go map in iteration order.
func canon(lines []string) []string {
	out := make([]string, len(lines))
	for i, l := range lines {
		out[i] = l
		if !strings.HasPrefix(l, "74") {
			continue
		}
		kv := strings.SplitN(l, "=", 2)
		b, err := hex.DecodeString(kv[1])
		if err != nil {
			continue
		}
		ti := state.NewTokenTransferInfo()
		r := io.NewBinReaderFromBuf(b)
		ti.DecodeBinary(r)
		if r.Err == nil {
			out[i] = fmt.Sprintf("%s=%+v", kv[0], *ti) // fmt prints maps in key order
		}
	}
	return out
}

func diffDump(a, b []string) []string {
	a, b = canon(a), canon(b)
	am := map[string]bool{}
	for _, x := range a {
		am[x] = true
	}
	bm := map[string]bool{}
	for _, x := range b {
		bm[x] = true
	}
	var d []string
	for _, x := range a {
		if !bm[x] && len(d) < 6 {
			d = append(d, "only uninterrupted: "+trunc(x))
		}
	}
	for _, x := range b {
		if !am[x] && len(d) < 12 {
			d = append(d, "only resumed: "+trunc(x))
		}
	}
	return d
}

func trunc(s string) string {
	if len(s) > 100 {
		return s[:100] + "..."
	}
	return s
}

// runPersist executes history h with flush mask (bit k: flush after block k+1,
// counting preamble blocks) and checks every crash point.
func (e *env) runPersist(h []int, mask uint64, scen string, inblock ...uint64) (crashes int, rec *caseRec) {
	var inMask uint64
	if len(inblock) > 0 {
		inMask = inblock[0]
	}
	blocks, obs := e.sc.Blocks(h)
	mk := func(i, n int, what string, diff []string) *caseRec {
		return &caseRec{Scenario: scen, Family: e.sc.Fam.Name, Pad: e.sc.Pad, History: e.sc.Names(h), Flush: mask, InBlock: inMask, Ahead: e.ahead, Prune: e.gc, Batches: n, Crash: i, What: what, Diff: diff}
	}
	af := newAheadFeeder(e, blocks)
	rs := chainx.NewRecStore(storage.NewMemoryStore())
	var accepted []uint32 // height accepted when batch i was written
	var cur uint32
	var mu sync.Mutex
	rs.OnBatch = func(i int) {
		mu.Lock()
		for len(accepted) <= i {
			accepted = append(accepted, cur)
		}
		mu.Unlock()
	}
	n, err := chainx.New(e.opts(rs))
	if err != nil {
		return 0, mk(-1, 0, "start: "+err.Error(), nil)
	}
	var hookErr error
	for k, bb := range blocks {
		if inMask&(1<<uint(k)) != 0 {
			// a flush landing inside AddBlock, between its header part and the block itself
			n.BC.VerifSetPointHook(func(int) {
				if err := n.BC.VerifPersist(); err != nil {
					hookErr = err
				}
			})
		}
		err := af.before(n, k)
		if err == nil {
			err = n.AddBytes(bb)
		}
		n.BC.VerifSetPointHook(nil)
		if err == nil {
			err = hookErr
		}
		if err != nil {
			n.Close()
			return 0, mk(-1, 0, fmt.Sprintf("block %d rejected: %v", k+1, err), nil)
		}
		mu.Lock()
		cur = uint32(k + 1)
		mu.Unlock()
		if mask&(1<<uint(k)) != 0 {
			old := n.BC.VerifPersistedHeight()
			if err := n.Persist(); err != nil {
				n.Close()
				return 0, mk(-1, 0, "flush failed: "+err.Error(), nil)
			}
			if e.gc {
				n.BC.VerifTryRunGC(old)
			}
		}
	}
	n.Close() // graceful stop = one more flush
	batches := rs.Batches()
	if i, what := commitSplit(batches); what != "" {
		return 0, mk(i, len(batches), what, nil)
	}
	for i := 0; i <= len(batches); i++ {
		var maxH uint32
		if i > 0 {
			maxH = accepted[i-1]
		}
		crashes++
		if what, diff := e.recoverAndCheck(batches, i, maxH, -1, blocks, obs, nil); what != "" {
			return crashes, mk(i, len(batches), what, diff)
		}
	}
	return crashes, nil
}

// runReset builds the full history (flushed), then resets to height `to` on a
// non-running Blockchain and checks every crash point of the reset.
func (e *env) runReset(h []int, to uint32, gcFirst bool) (crashes int, rec *caseRec) {
	blocks, obs := e.sc.Blocks(h)
	ix, ixErr := e.index(blocks)
	noop := int(to) == len(blocks) && e.ahead == 0
	mk := func(i, n int, what string, diff []string) *caseRec {
		scen := "reset"
		if e.gc {
			scen = "reset-prune" // the same reset on a RemoveUntraceableBlocks node
		}
		if noop {
			scen = "reset-noop" // Reset(current height): completes without anything to do
		}
		return &caseRec{Scenario: scen, Family: e.sc.Fam.Name, Pad: e.sc.Pad, History: e.sc.Names(h), ResetTo: to, GCFirst: gcFirst, Ahead: e.ahead, Prune: e.gc, Batches: n, Crash: i, What: what, Diff: diff}
	}
	if ixErr != nil {
		return 0, mk(-1, 0, "harness: "+ixErr.Error(), nil)
	}
	ref := e.synced(h, blocks, ix)
	if ref.err != nil {
		return 0, mk(-1, 0, "harness: reference node: "+ref.err.Error(), nil)
	}
	chk := &resetChk{ref: ref, ix: ix, to: to}
	rs := chainx.NewRecStore(storage.NewMemoryStore())
	n, err := chainx.New(e.opts(rs))
	if err != nil {
		return 0, mk(-1, 0, "start: "+err.Error(), nil)
	}
	for k, bb := range blocks {
		if k >= len(blocks)-e.ahead {
			// the node knows only the headers of the last e.ahead blocks when it is reset
			if err := newAheadFeeder(e, blocks).headersUpTo(n, len(blocks)); err != nil {
				n.Close()
				return 0, mk(-1, 0, fmt.Sprintf("headers up to %d rejected: %v", len(blocks), err), nil)
			}
			break
		}
		if err := n.AddBytes(bb); err != nil {
			n.Close()
			return 0, mk(-1, 0, fmt.Sprintf("block %d rejected: %v", k+1, err), nil)
		}
	}
	n.Close()
	base := len(rs.Batches())
	if i, what := commitSplit(rs.Batches()); what != "" {
		return 0, mk(i, base, what, nil)
	}
	// The reset persists its stages from a background goroutine and then
	// deletes stale storage items directly from the database. Both orders of
	// (batch carrying the last stage marker, direct deletion) are possible in
	// production; the harness forces one of them.
	const lastStage = 0x80 | 0x20 // stateResetBit | transfersReset
	var gmu sync.Mutex
	cond := sync.NewCond(&gmu)
	lastSeen, gcDone := false, false
	isLast := func(b chainx.Batch) bool {
		v, ok := b.Put[string([]byte{byte(storage.SYSStateChangeStage)})]
		return ok && len(v) == 1 && v[0] == lastStage
	}
	deadline := time.Now().Add(4 * time.Second) // liveness guard of the gate only (the awaited batch may have been merged away)
	wait := func(p *bool) {
		for !*p && time.Now().Before(deadline) {
			t := time.AfterFunc(100*time.Millisecond, func() { gmu.Lock(); cond.Broadcast(); gmu.Unlock() })
			cond.Wait()
			t.Stop()
		}
	}
	rs.BeforePut = func(b chainx.Batch) {
		if !isLast(b) {
			return
		}
		gmu.Lock()
		if gcFirst {
			wait(&gcDone)
		}
		gmu.Unlock()
	}
	rs.OnBatch = func(i int) {
		bs := rs.Batches()
		if i < len(bs) && isLast(bs[i]) {
			gmu.Lock()
			lastSeen = true
			cond.Broadcast()
			gmu.Unlock()
		}
	}
	rs.BeforeGC = func(prefix []byte) {
		gmu.Lock()
		if !gcFirst {
			wait(&lastSeen)
		}
		gmu.Unlock()
	}
	rs.AfterGC = func(prefix []byte) {
		gmu.Lock()
		gcDone = true
		cond.Broadcast()
		gmu.Unlock()
	}
	o := e.opts(rs)
	o.NoRun = true
	m, err := chainx.New(o)
	if err != nil {
		return 0, mk(-1, 0, "reopen for reset: "+err.Error(), nil)
	}
	if strings.HasPrefix(e.sc.Tpls[0].Name, "xfer2x") {
		rxXferCuts.Add(fmt.Sprintf("%d->%d", ref.logLen[len(blocks)], ref.logLen[to]))
	}
	pg, str := pagesBefore(rs, to)
	rxPagesBefore.Add(pg)
	rxStraddle.Add(str)
	// warm the instance's look-up caches (header-hash pages) with the chain that is about to be cut
	for i := uint32(0); i <= uint32(len(blocks)); i++ {
		m.BC.GetHeaderHash(i)
	}
	if err := m.BC.Reset(to); err != nil {
		return 0, mk(-1, 0, fmt.Sprintf("Reset(%d) failed: %v", to, err), nil)
	}
	rs.BeforePut, rs.BeforeGC, rs.AfterGC, rs.OnBatch = nil, nil, nil, nil
	batches := rs.Batches()
	finalDump := chainx.Dump(rs)
	// completed reset, the instance that ran it (no restart): answers and database of a node that
	// only ever synchronised to `to`
	rxProbes.Inc()
	if d := chk.asSynced(m); len(d) != 0 {
		if noop && onlySyncPoint(d) {
			return 0, mk(0, 0, "no-op Reset leaves its state sync point behind (GetTokenLastUpdated reports it)", d)
		}
		return 0, mk(0, 0, "same instance after Reset answers differently from a node that only synchronised to the target", d)
	}
	rxDBs.Inc()
	if d := dbAsSynced(ref.dumps[to], chainx.DumpMap(rs), e.gc); len(d) != 0 {
		return 0, mk(0, 0, "database after Reset differs from a node that only synchronised to the target", d)
	}
	// completed reset: indistinguishable from a node that only synchronised to `to`
	var known *caseRec
	for i := base; i <= len(batches); i++ {
		want := -1
		var fd []string
		maxH := uint32(len(blocks))
		if i > base {
			// the reset has started (its first batch carries the stage marker):
			// restart must resume it and end exactly like the uninterrupted one
			want = int(to)
			fd = finalDump
		}
		crashes++
		if what, diff := e.recoverAndCheck(batches, i, maxH, want, blocks, obs, fd, chk); what != "" {
			if e.gc && strings.Contains(what, "rejects block") && strings.Contains(what, "apply MPT changes") {
				// open finding (reference counters are not rolled back by a reset of a pruning node): the
				// restart, the state at the target and the database content of THIS crash point were fine;
				// keep looking at the other crash points, any other failure takes precedence
				if known == nil {
					known = mk(i-base, len(batches)-base, what, diff)
				}
				continue
			}
			return crashes, mk(i-base, len(batches)-base, what, diff)
		}
	}
	if rec := e.resetContinue(m, rs, chk, to, gcFirst, blocks, obs, func(what string, diff []string) *caseRec {
		return mk(0, 0, what, diff)
	}); rec != nil {
		return crashes, rec
	}
	return crashes, known
}

func TestCheck(t *testing.T) {
	vk.UseT(t)
	r := vk.Start("C02", "fault_enumeration", 170*time.Second, 25*time.Minute)
	defer vk.CleanScratch()
	if r.Replay != "" {
		replay(r)
		return
	}
	quickT := []string{"vote1", "neo-transfer", "u-storage2", "fault-between", "destroy-ub"}
	thorT := append(append([]string{}, quickT...), "empty", "vote2+transfer", "policy-fee+tx", "caught-callee", "unregister1", "deploy-uc", "notary-deposit")
	names := vk.Pick(r, quickT, thorT)
	depth := 2
	if os.Getenv("C02_PAGES") != "" || (os.Getenv("C02_RESETBATCH") != "" && os.Getenv("VERIF_TIER") != "thorough") {
		depth = 1
	}
	type plan struct {
		e    *env
		kind string
	}
	var plans []plan
	mkEnv := func(f chainx.Family, pad int, cfg func(*config.Blockchain), gc bool) *env {
		sc, err := chainx.NewScenario(f, pad, chainx.TplByName(names...))
		if err != nil {
			fmt.Println("CHECK-ERROR: preamble:", f.Name, err)
			os.Exit(3)
		}
		hs := sc.BuildTree(depth, func(n int, f func(int)) { r.Parallel(n, f) })
		return &env{r: r, sc: sc, cfg: cfg, gc: gc, hs: hs}
	}
	fams := chainx.Families()
	if os.Getenv("C02_PAGES") != "" {
		// Built with the header-hash page size scaled from 2000 to 4 (overlay hdrbatch4), so that a
		// bounded history crosses page boundaries: long preamble, short alphabet, a single flush at
		// every boundary (the node dies right after it), recovery, remaining blocks, second restart.
		names = []string{"empty", "vote1"}
		depth = 1
		fams = []chainx.Family{fams[0], fams[1]}
		if r.Thorough() {
			fams = chainx.Families()
		}
		prunePages := func(c *config.Blockchain) {
			c.Ledger.RemoveUntraceableBlocks = true
			c.Ledger.GarbageCollectionPeriod = 1
		}
		for _, f := range fams {
			pad := vk.Pick(r, 10, 14)
			e := mkEnv(f, pad, nil, false)
			plans = append(plans, plan{e, "pages"})
			// headers ahead of blocks (a synchronising node): pages completed by headers alone, start-up
			// walking over headers that have no blocks yet; 2 = inside a page, 5 = more than a page
			for _, a := range vk.Pick(r, []int{2, 5}, []int{1, 2, 3, 5, 9}) {
				ea := *e
				ea.ahead = a
				plans = append(plans, plan{&ea, "pages"})
			}
			if !f.SRIH || r.Thorough() {
				// state reset across header-hash pages (every target height; DeleteHeaderHashesHead and the
				// re-initialisation of the header hashes only do something when pages exist), also with
				// headers ahead of the blocks when the reset starts
				plans = append(plans, plan{e, "reset-pages"})
				for _, a := range vk.Pick(r, []int{2}, []int{1, 2, 5}) {
					ea := *e
					ea.ahead = a
					plans = append(plans, plan{&ea, "reset-pages"})
				}
			}
			if !f.SRIH || r.Thorough() {
				// a pruning node: only with small pages old blocks, transactions and header-hash pages are
				// really deleted by the GC (it never deletes inside the current page)
				g := mkEnv(f, pad+8, prunePages, true)
				plans = append(plans, plan{g, "pages"})
				ga := *g
				ga.ahead = 2
				plans = append(plans, plan{&ga, "pages"})
			}
		}
		fams = nil
	}
	prune := func(c *config.Blockchain) {
		c.Ledger.RemoveUntraceableBlocks = true
		c.Ledger.GarbageCollectionPeriod = 1
	}
	for _, f := range fams {
		if !r.Thorough() && f.Name == "multi-srih" {
			continue
		}
		if os.Getenv("C02_RESETBATCH") != "" && !r.Thorough() && f.Name != "single" {
			// part "resetbatch" (overlay resetbatch2: the reset's intermediate persist batches scaled from
			// 200000 blocks/items to 2): reset plans only (C02_ONLY=reset), every target height
			continue
		}
		pad := 0
		if f.Multi {
			pad = 1 // the history then straddles the epoch boundary at height 6
		}
		e := mkEnv(f, pad, nil, false)
		plans = append(plans, plan{e, "persist"})
		if r.Thorough() || !f.SRIH {
			plans = append(plans, plan{e, "reset"}) // quick: the reset does not look at StateRootInHeader
			// the same resets on a RemoveUntraceableBlocks node: allowed while the chain is shorter than
			// MaxTraceableBlocks (6 / 8 here, the histories end at 5 / 6); the storage stage then reads the
			// target state through a trie store in GC mode
			pe := *e
			pe.cfg = prune
			pe.gc = true
			plans = append(plans, plan{&pe, "reset"})
		}
		if f.Name == "single" || r.Thorough() {
			// KeepOnlyLatestState: the trie keeps reference counters and deletes replaced nodes in the
			// block's own batch; a crash between batches must still leave a trie the node can continue with
			le := *e
			le.cfg = keepLatest
			plans = append(plans, plan{&le, "latest"})
		}
		if f.Name == "single" || (r.Thorough() && f.Name == "multi") {
			// GC needs height > MaxTraceableBlocks+1: longer preamble
			g := mkEnv(f, 4, prune, true)
			plans = append(plans, plan{g, "gc"})
		}
	}
	var xferNames []string
	if os.Getenv("C02_PAGES") == "" && os.Getenv("C02_RESETBATCH") == "" {
		// reset-xfer: resets cutting a NEP-17 transfer log at / around a log batch boundary (ext_reset_test.go)
		xe, xn, err := xferEnvs(r, chainx.Families()[0])
		if err != nil {
			fmt.Println("CHECK-ERROR: reset-xfer:", err)
			os.Exit(3)
		}
		xferNames = xn
		for _, e := range xe {
			plans = append(plans, plan{e, "reset"})
		}
	}
	if os.Getenv("C02_PAGES") == "" {
		// epoch plan: a committee-changing block followed by a tail of empty blocks that crosses the
		// next committee epoch boundary (multi family: 6 blocks), the node dying right after a single
		// flush at each boundary: what a restarted node recomputes at the epoch end (in-memory
		// election state) must equal what the uninterrupted reference computed.
		for _, f := range chainx.Families() {
			if f.Name != "multi" && !(r.Thorough() && f.Name == "multi-srih") {
				continue
			}
			enames := []string{"vote1", "unregister1", "empty"}
			sc, err := chainx.NewScenario(f, 3, chainx.TplByName(enames...)) // pad 3: the first history block is the first block of an epoch
			if err != nil {
				fmt.Println("CHECK-ERROR: preamble:", f.Name, err)
				os.Exit(3)
			}
			var hs [][]int
			for _, h := range sc.BuildTree(1, func(n int, f func(int)) { r.Parallel(n, f) }) {
				cur, ok := h, true
				for t := 0; t < 7 && ok; t++ {
					cur = append(append([]int{}, cur...), 2)
					ok = sc.Grow(cur) == nil
				}
				if ok {
					hs = append(hs, cur)
				}
			}
			if len(hs) == 0 {
				fmt.Println("CHECK-ERROR: epoch plan: no history built for", f.Name)
				os.Exit(3)
			}
			plans = append(plans, plan{&env{r: r, sc: sc, hs: hs}, "epoch"})
		}
	}
	var crashes, runs vk.Counter
	type job struct {
		p       plan
		h       []int
		mask    uint64
		inblock uint64
		to      uint32
		gcFirst bool
	}
	var jobs []job
	for _, p := range plans {
		if only := os.Getenv("C02_ONLY"); only != "" && only != p.kind {
			continue // development aid: run one plan kind
		}
		nPre := len(p.e.sc.Preamble)
		if len(p.e.hs) == 0 {
			continue
		}
		total := nPre + len(p.e.hs[0])
		all := uint64(1)<<uint(total) - 1
		var masks []uint64
		switch p.kind {
		case "persist":
			masks = []uint64{0, all, 0x5555555555555555 & all, 0xAAAAAAAAAAAAAAAA & all}
			for k := nPre - 1; k < total; k++ {
				masks = append(masks, 1<<uint(k)) // a single flush at each late boundary
			}
			if r.Thorough() {
				// every subset of the last depth+2 boundaries, earlier ones flushed
				lo := uint(total - depth - 2)
				for s := uint64(0); s < 1<<uint(depth+2); s++ {
					masks = append(masks, (uint64(1)<<lo-1)|s<<lo)
				}
			}
		case "epoch":
			masks = []uint64{0, all}
			for k := nPre - 1; k < total; k++ {
				masks = append(masks, 1<<uint(k)) // a single flush at each boundary from the last preamble block on
			}
		case "latest":
			masks = []uint64{all, 0, 0x5555555555555555 & all}
		case "gc":
			masks = []uint64{all, 0xAAAAAAAAAAAAAAAA&all | 1<<uint(total-1)}
		case "pages":
			masks = []uint64{all, 0}
			for k := 0; k < total; k++ {
				masks = append(masks, 1<<uint(k)) // a single flush at each boundary
			}
			for k := 0; k+1 < total; k++ {
				masks = append(masks, 3<<uint(k)) // two consecutive ones
			}
		}
		for hi, h := range p.e.hs {
			switch p.kind {
			case "reset", "reset-pages":
				for to := uint32(0); to <= uint32(total-p.e.ahead); to++ {
					noop := to == uint32(total) // nothing to reset (with headers ahead the tip itself is a real target: the headers go)
					if noop && !r.Thorough() && hi != 0 {
						break // quick: the no-op reset on the first history of the plan only
					}
					if to == 0 && !r.Thorough() && hi != 0 {
						continue // quick: back to the genesis block from the first history of the plan only
					}
					if !r.Thorough() && to != 0 && to < uint32(nPre)-1 && os.Getenv("C02_RESETBATCH") == "" && p.kind == "reset" {
						continue // quick: reset targets in and just below the history part
					}
					for _, gf := range []bool{false, true} {
						if noop && gf {
							continue // no batches, no race to order
						}
						jobs = append(jobs, job{p: p, h: h, to: to, gcFirst: gf})
					}
				}
			default:
				for _, m := range masks {
					jobs = append(jobs, job{p: p, h: h, mask: m})
				}
				if p.kind == "latest" {
					jobs = append(jobs, job{p: p, h: h, inblock: all})
					jobs = append(jobs, job{p: p, h: h, mask: all, inblock: all})
				}
				if p.kind == "persist" {
					// flushes landing INSIDE AddBlock (after the header part) of each history
					// block and of the last preamble block, alone and on top of boundary flushes
					for k := nPre - 1; k < total; k++ {
						jobs = append(jobs, job{p: p, h: h, inblock: 1 << uint(k)})
						jobs = append(jobs, job{p: p, h: h, mask: all, inblock: 1 << uint(k)})
					}
					jobs = append(jobs, job{p: p, h: h, inblock: all})
				}
			}
		}
	}
	sets := vk.NewSet()
	kinds := vk.NewSet()
	var gcst *gcStats
	if only := os.Getenv("C02_ONLY"); (only == "" || only == "gcrun") && os.Getenv("C02_RESETBATCH") == "" {
		// long pruning+GC histories with the Run loop's cadence (ext_gc_test.go); first, so that a
		// deadline cuts the older plans' tail rather than this family
		gcst = runGCPlans(r, sets)
	}
	late := make([]*caseRec, len(jobs))
	r.Parallel(len(jobs), func(i int) {
		j := jobs[i]
		var c int
		var rec *caseRec
		if j.p.kind == "reset" || j.p.kind == "reset-pages" {
			c, rec = j.p.e.runReset(j.h, j.to, j.gcFirst)
		} else {
			kind := j.p.kind
			if kind == "pages" {
				kind = "persist-pages"
			}
			c, rec = j.p.e.runPersist(j.h, j.mask, kind, j.inblock)
		}
		crashes.Add(c)
		runs.Inc()
		sets.Add(fmt.Sprintf("%s/%s/%v/%x/%x/%d/%v/a%d/%v", j.p.kind, j.p.e.sc.Fam.Name, j.h, j.mask, j.inblock, j.to, j.gcFirst, j.p.e.ahead, j.p.e.gc))
		kinds.Add(fmt.Sprintf("%s/ahead%d/gc=%v", j.p.kind, j.p.e.ahead, j.p.e.gc))
		if rec != nil && (rec.Scenario == "reset-prune" || rec.Scenario == "reset-noop") {
			// reported after the loop: one violation per failure class, first case in plan order
			r.Outcome(j.p.kind + strings.TrimPrefix(rec.Scenario, "reset") + ":violation")
			late[i] = rec
		} else if rec != nil {
			r.Outcome(j.p.kind + ":violation")
			what := rec.What
			if len(what) > 40 {
				what = what[:40]
			}
			r.Violation(fmt.Sprintf("%s:%s:%s:%s:f%x:to%d:gcfirst=%v:crash%d/%d", rec.Scenario, what, rec.Family, strings.Join(rec.History, ",")+fmt.Sprintf(":in%x", rec.InBlock)+aheadTag(rec.Ahead), rec.Flush, rec.ResetTo, rec.GCFirst, rec.Crash, rec.Batches), rec)
		} else {
			r.Outcome(j.p.kind + ":all crash points consistent")
			r.Sample(map[string]any{"scenario": j.p.kind, "family": j.p.e.sc.Fam.Name, "history": j.p.e.sc.Names(j.h), "flush_mask": j.mask, "reset_to": j.to, "gc_first": j.gcFirst, "crash_points": c})
		}
	})
	lateSeen := map[string]int{}
	for _, rec := range late {
		if rec == nil {
			continue
		}
		class := strings.Map(func(c rune) rune {
			if c >= '0' && c <= '9' {
				return -1
			}
			return c
		}, rec.What)
		if len(class) > 40 { // short: vk truncates replay file names at 80 characters
			class = class[:40]
		}
		lateSeen[class]++
		if lateSeen[class] == 1 {
			// no crash index in the key: the reset's background persister merges batches differently from run to run
			r.Violation(fmt.Sprintf("%s:%s:%s:%s:to%d:gcfirst=%v", rec.Scenario, class, rec.Family, strings.Join(rec.History, ","), rec.ResetTo, rec.GCFirst), rec)
		}
	}
	cov := map[string]any{}
	if len(lateSeen) > 0 {
		cov["reset_prune_cases_per_failure_class"] = lateSeen
	}
	if gcst != nil {
		mtbs, hists, hl, _ := gcPlan(r)
		crashes.Add(int(gcst.crashes.Get()))
		runs.Add(int(gcst.cases.Get()))
		cov["gcrun_cases"] = int(gcst.cases.Get())
		cov["gcrun_crash_points"] = int(gcst.crashes.Get())
		cov["gcrun_batches"] = int(gcst.batches.Get())
		cov["gcrun_seekgc_batches"] = int(gcst.gcBatches.Get())
		cov["gcrun_block_tx_aer_records_deleted"] = int(gcst.blockDel.Get())
		cov["gcrun_header_hash_pages_deleted"] = int(gcst.pageDel.Get())
		cov["gcrun_transfer_log_batches_deleted"] = int(gcst.xferDel.Get())
		cov["gcrun_mpt_nodes_deleted"] = int(gcst.mptDel.Get())
		cov["gcrun_backend_runs_compared"] = int(gcst.backendRuns.Get())
		cov["gcrun_failure_classes"] = gcst.classes.Len()
		if len(gcst.affected) > 0 {
			cov["gcrun_cases_per_failure_class"] = gcst.affected
		}
		cov["gcrun_alphabet"] = fmt.Sprintf("MaxTraceableBlocks %v x GarbageCollectionPeriod x flush cadence (see gcPlan) x histories %v of %d blocks, + block-between-flush-and-GC variants, + second-level crash cases", mtbs, hists, hl)
	}
	resetExtCoverage(cov)
	cov["resetx_oracles"] = "every reset case (targets 0..tip-1, + the no-op Reset(tip) once per plan): reference node of the same configuration fed blocks 1..h only; (1) question list (heights, current hashes, GetHeaderHash 0..tip+2, HasBlock/GetHeader/GetBlock/GetTransaction/GetAppExecResults by hash for every height of the history, GetStateRoot 0..tip+1, NEP-17 logs + GetTokenLastUpdated of 10 accounts) equal on the instance that ran Reset, on every node that resumed an interrupted reset, on the restarted node, after a second reset; (2) raw database equal except MPT nodes; (3) the resetting instance continues WITHOUT restart (flush per block / no flush), observations equal after every block, reopened database equal to a never-reset node's; (4) second Reset(h) of the continued chain; family reset-xfer: account 2's NEP-17 log cut at 127/128/129/130 entries (batch size 128)"
	cov["plan_variants"] = kinds.Len() // distinct (plan kind, headers ahead, pruning) combinations run
	for k, v := range map[string]any{
		"evaluations":         int(crashes.Get()),
		"distinct_nontrivial": sets.Len(),
		"rule":                "a case = (scenario kind, family, block history, flush schedule | reset target + race order); for each case EVERY prefix of the recorded batch log is recovered with a new Blockchain and compared with the reference replica, then fed the remaining blocks; evaluations = crash points recovered; distinct_nontrivial = distinct cases (each has >= 2 batches)",
		"runs":                int(runs.Get()),
		"commit_invariant":    "every batch of every persist / epoch / latest / gc / pages / gcrun log and of the pre-reset history: SYSCurrentBlock=N in a batch <=> local state root of N (record + height marker) in the same batch",
		"block_alphabet":      append(append([]string{}, names...), xferNames...),
		"history_depth":       depth,
		"scenarios":           "gcrun (pruning node driven like Blockchain.Run: persist + tryRunGC every k blocks, GarbageCollectionPeriod x MaxTraceableBlocks x cadence, long histories over several header-hash pages, every batch prefix a crash point, recovered node continues with the same cadence, is killed again, fed the rest and restarted gracefully; audit = state + everything traceable + transfer log), epoch (multi family: committee-changing block + 7 empty blocks across the epoch boundary, single flush at each boundary), persist (flush schedules at block boundaries AND inside AddBlock after its header part, hook H5), gc (RemoveUntraceableBlocks, GC after every flush), reset (every target height, both orders of the persister/direct-deletion race)",
	} {
		cov[k] = v
	}
	r.Finish(cov, []string{
		"one PutChangeSet / one SeekGC pass is atomic and durable (backend trusted, as the property states)",
		"batches of the reset's background persister may merge differently from run to run (coarser merges only remove crash points); the order of the last stage batch and the direct deletion is forced both ways",
		"state-sync jump crash points are explored in C20's state-sync part",
		"reset vs synchronised-only reference: MPT nodes are excluded from the raw database comparison (stateroot.ResetState documents that the trie nodes are left as they are; without reference counting they must be a superset of the reference's), contract storage is compared modulo the storage-prefix swap (version record likewise), TokenTransferInfo decoded (Go map order)",
		"gcrun: a RemoveUntraceableBlocks node must keep what docs/node-configuration.md promises: the last MaxTraceableBlocks blocks / transactions / execution results / state tries and their transfer log entries; older data may or may not be there",
	})
}

// commitSplit applies the direct invariant "a block commit is one batch" to every batch of a log of
// ordinary operation (no reset / jump batches): the batch that moves SYSCurrentBlock to N carries the
// local state root of N and vice versa (fh.CommitSplit). Returns the 1-based batch number and what is wrong.
func commitSplit(batches []chainx.Batch) (int, string) {
	for i, b := range batches {
		if what := fh.CommitSplit(b); what != "" {
			return i + 1, "block commit split over batches: " + what
		}
	}
	return 0, ""
}

func keepLatest(c *config.Blockchain) { c.Ledger.KeepOnlyLatestState = true }

func aheadTag(a int) string {
	if a == 0 {
		return "" // keys of the older scenarios stay as they were
	}
	return fmt.Sprintf(":ahead%d", a)
}

func replay(r *vk.Run) {
	var c caseRec
	if err := r.ReadReplay(&c); err != nil {
		fmt.Println("cannot read replay:", err)
		os.Exit(3)
	}
	if c.Scenario == "" && c.Family == "" {
		fmt.Println("replay: the artefact is not a case of this part (state-jump cases belong to part jump): nothing to replay here")
		r.Finish(map[string]any{"evaluations": 1, "distinct_nontrivial": 2, "rule": "replay (other part)"}, nil)
	}
	if c.Scenario == "flushrace" {
		fmt.Println("replay: the artefact belongs to the flushrace part: nothing to replay here")
		r.Finish(map[string]any{"evaluations": 1, "distinct_nontrivial": 2, "rule": "replay (other part)"}, nil)
	}
	if c.Scenario == "gcrun" && c.GC != nil {
		replayGC(r, &c)
		return
	}
	var fam chainx.Family
	for _, f := range chainx.Families() {
		if f.Name == c.Family {
			fam = f
		}
	}
	for i := 0; i < 5; i++ {
		sc, err := chainx.NewScenario(fam, c.Pad, tplsByName(c.History...))
		if err != nil {
			fmt.Println("replay: preamble:", err)
			os.Exit(3)
		}
		h := make([]int, len(c.History))
		for k := range h {
			h[k] = k
			if err := sc.Grow(h[:k+1]); err != nil {
				fmt.Println("replay: grow:", err)
				os.Exit(3)
			}
		}
		e := &env{r: r, sc: sc, ahead: c.Ahead}
		if c.Scenario == "latest" {
			e.cfg = keepLatest
		}
		if c.Scenario == "gc" || c.Prune {
			e.gc = true
			e.cfg = func(c *config.Blockchain) {
				c.Ledger.RemoveUntraceableBlocks = true
				c.Ledger.GarbageCollectionPeriod = 1
			}
		}
		var rec *caseRec
		if c.Scenario == "reset" || c.Scenario == "reset-prune" || c.Scenario == "reset-noop" {
			_, rec = e.runReset(h, c.ResetTo, c.GCFirst)
		} else {
			_, rec = e.runPersist(h, c.Flush, c.Scenario, c.InBlock)
		}
		if rec != nil {
			fmt.Printf("replay %d: REPRODUCED crash %d/%d: %s %v\n", i, rec.Crash, rec.Batches, rec.What, rec.Diff)
			r.Violation("replay:"+rec.What, rec)
		} else {
			fmt.Printf("replay %d: all crash points consistent\n", i)
		}
	}
	r.Finish(map[string]any{"evaluations": 5, "distinct_nontrivial": 2, "rule": "replay"}, nil)
}
