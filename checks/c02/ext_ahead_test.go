// C02 extension: headers ahead of blocks. A synchronising node fetches headers
// far ahead of the blocks; what is on disk then is a header height above the
// block height, header-hash pages written by headers alone, and a start-up that
// has to walk over headers without blocks. Used by the persist and reset
// scenarios of the pages part (small header-hash pages).
package c02

import (
	"github.com/nspcc-dev/neo-go/pkg/core/block"

	"verif/lib/chainx"
)

type aheadFeeder struct {
	e     *env
	hdrs  []*block.Header
	known int // headers of heights <= known were handed over
	err   error
}

func newAheadFeeder(e *env, blocks [][]byte) *aheadFeeder {
	af := &aheadFeeder{e: e}
	if e.ahead == 0 {
		return af
	}
	for _, bb := range blocks {
		b, err := chainx.DecodeBlock(bb, e.sc.Fam.SRIH)
		if err != nil {
			af.err = err
			return af
		}
		af.hdrs = append(af.hdrs, &b.Header)
	}
	return af
}

// headersUpTo hands the node all headers up to the given height.
func (af *aheadFeeder) headersUpTo(n *chainx.Node, height int) error {
	if af.err != nil {
		return af.err
	}
	height = min(height, len(af.hdrs))
	if hh := int(n.BC.HeaderHeight()); hh > af.known {
		af.known = hh
	}
	if height <= af.known {
		return nil
	}
	err := n.BC.AddHeaders(af.hdrs[af.known:height]...)
	af.known = height
	return err
}

// before is called before block index k (height k+1) is added: the headers of
// the next e.ahead heights are known by then.
func (af *aheadFeeder) before(n *chainx.Node, k int) error {
	if af.e.ahead == 0 {
		return nil
	}
	return af.headersUpTo(n, k+1+af.e.ahead)
}
