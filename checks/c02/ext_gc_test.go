// C02 extension "gcrun": background maintenance (block/header GC, MPT GC,
// header-hash page GC, transfer-log pruning) on a pruning node, driven the way
// Blockchain.Run drives it (persist + tryRunGC every k blocks), over histories
// long enough to leave several header-hash pages behind the GC target, for
// every GarbageCollectionPeriod x MaxTraceableBlocks x flush cadence of the
// stated alphabets. EVERY prefix of the batch log is a crash point; the
// recovered node continues with the same cadence (so its own GC passes and the
// flushes FOLLOWING them are part of the run), is killed once more without a
// graceful stop, fed the rest and restarted gracefully.
package c02

import (
	"crypto/sha256"
	"encoding/binary"
	"encoding/hex"
	"fmt"
	"math"
	"os"
	"path/filepath"
	"sort"
	"strings"
	"sync"

	"github.com/nspcc-dev/neo-go/pkg/config"
	"github.com/nspcc-dev/neo-go/pkg/core/native/nativehashes"
	"github.com/nspcc-dev/neo-go/pkg/core/state"
	"github.com/nspcc-dev/neo-go/pkg/core/storage"
	"github.com/nspcc-dev/neo-go/pkg/core/storage/dbconfig"
	"github.com/nspcc-dev/neo-go/pkg/core/transaction"
	"github.com/nspcc-dev/neo-go/pkg/neotest"
	"github.com/nspcc-dev/neo-go/pkg/smartcontract/trigger"
	"github.com/nspcc-dev/neo-go/pkg/util"

	"verif/lib/chainx"
	"verif/lib/vk"
)

// gcParams identifies one gcrun case.
type gcParams struct {
	Part    string `json:"part"` // main (page size 2000) | pages (page size 4)
	MTB     uint32 `json:"mtb"`
	GCP     uint32 `json:"gcp"`
	K       int    `json:"flush_every"`
	Off     int    `json:"flush_offset"`
	Between bool   `json:"block_between_flush_and_gc,omitempty"` // a block is accepted between persist() and tryRunGC()
	Idle    bool   `json:"idle_tick,omitempty"`                  // the timer fires once more before the next block: the deletions staged by the GC reach the database in a batch of their own
	During  bool   `json:"block_during_flush,omitempty"`         // a block is accepted while persist() is writing its batch (after the cache swap)
	SSI     int    `json:"state_sync_interval,omitempty"`        // > 0: StateRootInHeader + P2PStateExchangeExtensions family, GC target aligned to the sync points
	Hist    string `json:"hist"`
	Len     int    `json:"hist_len"`
	Second  bool   `json:"second_level,omitempty"` // crash points of the RECOVERED node's own batches as well
}

func (p gcParams) String() string {
	v := "plain"
	if p.Between {
		v = "between"
	}
	if p.During {
		v = "during"
	}
	if p.Idle {
		v = "idle-tick"
	}
	fam := fmt.Sprintf("mtb%d", p.MTB)
	if p.SSI > 0 {
		fam += fmt.Sprintf("-ssi%d", p.SSI)
	}
	return fmt.Sprintf("%s:%s:gcp%d:k%d+%d:%s:%s%d", p.Part, fam, p.GCP, p.K, p.Off, v, p.Hist, p.Len)
}

const gasUnit = 100000000

// bulkTpl: 130 GAS transfers acc1 -> acc2 in one transaction: both accounts'
// NEP-17 transfer logs overflow one log batch (128 entries), which is the only
// shape in which removeOldTransfers has something to drop.
func bulkTpl() chainx.Tpl {
	return chainx.Tpl{Name: "bulk-xfer", Build: func(w *chainx.World) ([]*transaction.Transaction, error) {
		var script []byte
		for i := 0; i < 130; i++ {
			script = append(script, chainx.CallScript(nativehashes.GasToken, "transfer", chainx.Acc(1).ScriptHash(), chainx.Acc(2).ScriptHash(), int64(1+i), nil)...)
			script = append(script, 0x45) // DROP
		}
		tx, err := w.N.MakeTx(script, []neotest.Signer{chainx.Signer(1)})
		if err != nil {
			return nil, err
		}
		return []*transaction.Transaction{tx}, nil
	}}
}

func gcHistNames(hist string, n int) []string {
	var out []string
	switch hist {
	case "idle":
		for i := 0; i < n; i++ {
			out = append(out, "empty")
		}
	case "mixed":
		cyc := []string{"gas-transfer", "u-storage", "neo-transfer", "u-storage2", "empty", "vote1", "gas-to-contract"}
		out = append(out, "bulk-xfer")
		for i := 1; i < n; i++ {
			out = append(out, cyc[(i-1)%len(cyc)])
		}
	case "mtbdrop":
		cyc := []string{"gas-transfer", "empty", "u-storage", "neo-transfer"}
		for i := 0; i < n; i++ {
			if i == 5 || i == 12 {
				out = append(out, "max-traceable")
			} else {
				out = append(out, cyc[i%len(cyc)])
			}
		}
	default:
		panic("no history " + hist)
	}
	return out
}

// gcScen is the reference side of a (MTB, history) pair.
type gcScen struct {
	fam    chainx.Family
	ssi    int
	sc     *chainx.Scenario
	hist   string
	h      []int
	blocks [][]byte
	obs    []*chainx.Obs
	hashes []util.Uint256   // block hash of height i+1
	txs    [][]util.Uint256 // transaction hashes of height i+1
	accs   []util.Uint160
	xfers  map[util.Uint160][]xfer // the archival node's full NEP-17 log, newest first
	mtbAt  []uint32                // MaxTraceableBlocks in force after height i+1
}

type xfer struct {
	s     string
	block uint32
}

func xferString(t *state.NEP17Transfer) string {
	return fmt.Sprintf("a%d %s %s b%d t%d %s", t.Asset, t.Counterparty.StringLE()[:8], t.Amount, t.Block, t.Timestamp, t.Tx.StringLE()[:8])
}

func gcFamily(mtb uint32, ssi int) chainx.Family {
	if ssi > 0 {
		return chainx.Family{Name: fmt.Sprintf("single-srih-mtb%d-ssi%d", mtb, ssi), MTB: mtb, SRIH: true, Extra: func(c *config.Blockchain) {
			c.P2PStateExchangeExtensions = true
			c.StateSyncInterval = ssi
		}}
	}
	return chainx.Family{Name: fmt.Sprintf("single-mtb%d", mtb), MTB: mtb}
}

func tplsFor(names []string) ([]chainx.Tpl, []int) {
	var tpls []chainx.Tpl
	idx := map[string]int{}
	var h []int
	for _, n := range names {
		k, ok := idx[n]
		if !ok {
			k = len(tpls)
			idx[n] = k
			if n == "bulk-xfer" {
				tpls = append(tpls, bulkTpl())
			} else {
				tpls = append(tpls, chainx.TplByName(n)...)
			}
		}
		h = append(h, k)
	}
	return tpls, h
}

func newGCScen(mtb uint32, ssi int, hist string, n int) (*gcScen, error) {
	names := gcHistNames(hist, n)
	tpls, h := tplsFor(names)
	fam := gcFamily(mtb, ssi)
	sc, err := chainx.NewScenario(fam, 0, tpls)
	if err != nil {
		return nil, fmt.Errorf("preamble %s: %w", fam.Name, err)
	}
	g := &gcScen{fam: fam, ssi: ssi, sc: sc, hist: hist, h: h}
	for k := 1; k <= len(h); k++ {
		if err := sc.Grow(h[:k]); err != nil {
			return nil, fmt.Errorf("%s/%s block %d: %w", fam.Name, hist, k, err)
		}
	}
	g.blocks, g.obs = sc.Blocks(h)
	for _, bb := range g.blocks {
		b, err := chainx.DecodeBlock(bb, fam.SRIH)
		if err != nil {
			return nil, err
		}
		g.hashes = append(g.hashes, b.Hash())
		var th []util.Uint256
		for _, tx := range b.Transactions {
			th = append(th, tx.Hash())
		}
		g.txs = append(g.txs, th)
	}
	for _, o := range g.obs {
		var m uint32
		if _, err := fmt.Sscanf(o.Policy[strings.Index(o.Policy, "mtb="):], "mtb=%d", &m); err != nil {
			return nil, fmt.Errorf("cannot read mtb from %q", o.Policy)
		}
		g.mtbAt = append(g.mtbAt, m)
	}
	// full transfer logs of an archival node
	ref, _, err := sc.RefNode(h)
	if err != nil {
		return nil, err
	}
	defer ref.Close()
	g.accs = []util.Uint160{chainx.Acc(1).ScriptHash(), chainx.Acc(2).ScriptHash(), chainx.Acc(3).ScriptHash(), ref.Validator.ScriptHash()}
	g.xfers = map[util.Uint160][]xfer{}
	for _, a := range g.accs {
		var l []xfer
		err := ref.BC.ForEachNEP17Transfer(a, math.MaxUint64, func(t *state.NEP17Transfer) (bool, error) {
			l = append(l, xfer{xferString(t), t.Block})
			return true, nil
		})
		if err != nil {
			return nil, fmt.Errorf("reference transfer log: %w", err)
		}
		g.xfers[a] = l
	}
	return g, nil
}

// keepPages is a store whose header-hash page GC deletes nothing. It is used
// only to look BEHIND a restart failure caused by a deleted header-hash page:
// the same crash point is evaluated again as if removeOldHeaderHashes had kept
// its pages (blocks, MPT nodes and transfer logs are still collected).
type keepPages struct{ storage.Store }

func (s keepPages) SeekGC(r storage.SeekRange, keep func(k, v []byte) (bool, bool)) error {
	if len(r.Prefix) == 1 && r.Prefix[0] == byte(storage.IXHeaderHashList) {
		return nil
	}
	return s.Store.SeekGC(r, keep)
}

func applyBatches(batches []chainx.Batch, n int, keep bool) *storage.MemoryStore {
	if !keep {
		return chainx.ApplyBatches(batches, n)
	}
	f := make([]chainx.Batch, 0, n)
	for _, b := range batches[:n] {
		if b.Kind == "gc" {
			nb := chainx.Batch{Kind: b.Kind, Put: map[string][]byte{}}
			for k, v := range b.Put {
				if len(k) > 0 && k[0] == byte(storage.IXHeaderHashList) {
					continue
				}
				nb.Put[k] = v
			}
			b = nb
		}
		f = append(f, b)
	}
	return chainx.ApplyBatches(f, len(f))
}

type gcFail struct {
	class string // stable class of the failure
	phase string // recover | feed | hard-restart | final-restart
	what  string
	diff  []string
}

func classifyStart(err error) string {
	s := err.Error()
	switch {
	case strings.Contains(s, "failed to retrieve header hash page"):
		return "hdrpage-lost"
	case strings.Contains(s, "could not get header"):
		return "header-lost"
	case strings.Contains(s, "MPT"):
		return "mpt-init"
	case strings.Contains(s, "natives cache"):
		return "natives-init"
	}
	return "start-other"
}

// cleanErr strips the testify decoration (stack of the harness) from a start-up error.
func cleanErr(err error) string {
	s := err.Error()
	if i := strings.Index(s, "Received unexpected error:"); i >= 0 {
		s = s[i+len("Received unexpected error:"):]
		if j := strings.Index(s, "Test:"); j >= 0 {
			s = s[:j]
		}
	}
	return strings.Join(strings.Fields(s), " ")
}

type gcRunner struct {
	g       *gcScen
	p       gcParams
	keep    bool // pages-kept mode (see keepPages)
	cfg     func(*config.Blockchain)
	pending func() // runs once inside the next PutChangeSet (variant "during")
}

func (x *gcRunner) hook(rs *chainx.RecStore) *chainx.RecStore {
	rs.BeforePut = func(chainx.Batch) {
		if f := x.pending; f != nil {
			x.pending = nil
			f()
		}
	}
	return rs
}

func (x *gcRunner) opts(st storage.Store) chainx.Opts {
	o := x.g.fam.Opts()
	o.Cfg = x.cfg
	o.Store = st
	return o
}

func (x *gcRunner) wrap(m storage.Store) *chainx.RecStore {
	if x.keep {
		return x.hook(chainx.NewRecStore(keepPages{m}))
	}
	return x.hook(chainx.NewRecStore(m))
}

// flushAt: the Run loop's timer fires after the block of this height.
func (p gcParams) flushAt(height int) bool { return (height-p.Off)%p.K == 0 && height >= p.Off }

// drive feeds blocks (from the node's height on) up to height `to` with the
// case's persist+GC cadence, comparing the observation after every block.
func (x *gcRunner) drive(n *chainx.Node, to int, onHeight func(uint32)) *gcFail {
	k := int(n.Height())
	for k < to {
		if f := x.add(n, k, onHeight); f != nil {
			return f
		}
		k++
		for x.p.flushAt(k) {
			// what Run does when its timer fires: persist, then the GC step
			k0 := k
			old := n.BC.VerifPersistedHeight()
			var df *gcFail
			if x.p.During && k < to { // AddBlock is concurrent with Run: a block lands while the flush is writing
				x.pending = func() { df = x.add(n, k, onHeight); k++ }
			}
			if err := n.Persist(); err != nil {
				return &gcFail{class: "flush-failed", what: "flush failed: " + err.Error()}
			}
			if f := x.pending; f != nil { // nothing was written: the block simply follows the flush
				x.pending = nil
				f()
			}
			if df != nil {
				return df
			}
			between := x.p.Between && k < to
			if between { // AddBlock is concurrent with Run: a block lands between the flush and the GC
				if f := x.add(n, k, onHeight); f != nil {
					return f
				}
				k++
			}
			n.BC.VerifTryRunGC(old)
			if x.p.Idle {
				old = n.BC.VerifPersistedHeight()
				if err := n.Persist(); err != nil {
					return &gcFail{class: "flush-failed", what: "idle flush failed: " + err.Error()}
				}
				n.BC.VerifTryRunGC(old)
			}
			if k == k0 { // no block arrived meanwhile: the timer has nothing more to do at this height
				break
			}
		}
	}
	return nil
}

func (x *gcRunner) add(n *chainx.Node, k int, onHeight func(uint32)) *gcFail {
	g := x.g
	if err := n.AddBytes(g.blocks[k]); err != nil {
		return &gcFail{class: "rejects-block", what: fmt.Sprintf("block %d rejected: %v", k+1, err)}
	}
	if onHeight != nil {
		onHeight(uint32(k + 1))
	}
	got, err := n.Observe(g.sc.World.MaxID, g.sc.World.Hashes())
	if err != nil {
		return &gcFail{class: "cannot-answer", what: fmt.Sprintf("node cannot answer after block %d: %v", k+1, err)}
	}
	if d := g.obs[k].Diff(got); len(d) != 0 {
		return &gcFail{class: "state-differs", what: fmt.Sprintf("state after block %d differs from the uninterrupted reference", k+1), diff: d}
	}
	return nil
}

// trieDigest walks the whole contract storage trie under root.
func trieDigest(n *chainx.Node, root util.Uint256) (string, int) {
	m := map[string]string{}
	n.BC.GetStateModule().SeekStates(root, nil, func(k, v []byte) bool {
		if len(k) >= 4 {
			m[fmt.Sprintf("%d:%x", int32(binary.LittleEndian.Uint32(k)), k[4:])] = hex.EncodeToString(v)
		}
		return true
	})
	keys := make([]string, 0, len(m))
	for k := range m {
		keys = append(keys, k)
	}
	sort.Strings(keys)
	h := sha256.New()
	for _, k := range keys {
		h.Write([]byte(k))
		h.Write([]byte{0})
		h.Write([]byte(m[k]))
		h.Write([]byte{1})
	}
	return hex.EncodeToString(h.Sum(nil))[:24], len(m)
}

// audit is the full oracle at the node's current height: state equal to the
// reference; the last MaxTraceableBlocks blocks, transactions, execution
// results, state roots and state tries (what docs/node-configuration.md
// promises a RemoveUntraceableBlocks node keeps) are all there and equal the
// reference's; the transfer log is a newest-first prefix of the archival log
// that covers every traceable block.
func (x *gcRunner) audit(n *chainx.Node, maxHeight uint32) *gcFail {
	g := x.g
	h := n.Height()
	if h > maxHeight {
		return &gcFail{class: "height-above", what: fmt.Sprintf("height %d is above the last accepted block %d", h, maxHeight)}
	}
	if hh := n.BC.HeaderHeight(); hh < h {
		return &gcFail{class: "header-below", what: fmt.Sprintf("header height %d below block height %d", hh, h)}
	}
	if h == 0 {
		return nil
	}
	got, err := n.Observe(g.sc.World.MaxID, g.sc.World.Hashes())
	if err != nil {
		return &gcFail{class: "cannot-answer", what: fmt.Sprintf("node at height %d cannot answer: %v", h, err)}
	}
	if d := g.obs[h-1].Diff(got); len(d) != 0 {
		return &gcFail{class: "state-differs", what: fmt.Sprintf("state at height %d differs from the uninterrupted reference", h), diff: d}
	}
	mtb := n.BC.GetMaxTraceableBlocks()
	// With P2PStateExchangeExtensions the GC target is additionally held back to the second latest
	// state synchronisation point minus MaxTraceableBlocks; only the unconditional part of the
	// promise (the last MaxTraceableBlocks heights) is demanded here, see the report.
	top := h
	lo := uint32(1)
	if top > mtb {
		lo = top - mtb + 1
	}
	for idx := lo; idx <= h; idx++ {
		want := g.hashes[idx-1]
		if hh := n.BC.GetHeaderHash(idx); hh != want {
			return &gcFail{class: "traceable-hash", what: fmt.Sprintf("height %d, MaxTraceableBlocks %d: header hash of traceable height %d is %s", h, mtb, idx, hh.StringLE())}
		}
		b, err := n.BC.GetBlock(want)
		if err != nil {
			return &gcFail{class: "traceable-block", what: fmt.Sprintf("height %d, MaxTraceableBlocks %d: traceable block %d is gone: %v", h, mtb, idx, err)}
		}
		if len(b.Transactions) != len(g.txs[idx-1]) {
			return &gcFail{class: "traceable-block", what: fmt.Sprintf("height %d: traceable block %d has %d transactions, expected %d", h, idx, len(b.Transactions), len(g.txs[idx-1]))}
		}
		if _, err := n.BC.GetAppExecResults(want, trigger.All); err != nil {
			return &gcFail{class: "traceable-aer", what: fmt.Sprintf("height %d: execution results of traceable block %d are gone: %v", h, idx, err)}
		}
		for _, th := range g.txs[idx-1] {
			if _, th2, err := n.BC.GetTransaction(th); err != nil || th2 != idx {
				return &gcFail{class: "traceable-tx", what: fmt.Sprintf("height %d: transaction of traceable block %d: height %d err %v", h, idx, th2, err)}
			}
			if _, err := n.BC.GetAppExecResults(th, trigger.All); err != nil {
				return &gcFail{class: "traceable-aer", what: fmt.Sprintf("height %d: execution result of a transaction of traceable block %d is gone: %v", h, idx, err)}
			}
		}
		sr, err := n.BC.GetStateRoot(idx)
		if err != nil {
			return &gcFail{class: "traceable-root", what: fmt.Sprintf("height %d: state root of traceable height %d is gone: %v", h, idx, err)}
		}
		if sr.Root.StringLE() != g.obs[idx-1].StateRoot {
			return &gcFail{class: "traceable-root", what: fmt.Sprintf("height %d: state root of height %d is %s, reference %s", h, idx, sr.Root.StringLE(), g.obs[idx-1].StateRoot)}
		}
		if dg, cnt := trieDigest(n, sr.Root); dg != g.obs[idx-1].Storage {
			return &gcFail{class: "traceable-trie", what: fmt.Sprintf("height %d, MaxTraceableBlocks %d: the state trie of traceable height %d walks to %d items (digest %s), reference %d items (digest %s)", h, mtb, idx, cnt, dg, g.obs[idx-1].StorageN, g.obs[idx-1].Storage)}
		}
	}
	for _, a := range g.accs {
		var want []xfer
		for _, t := range g.xfers[a] {
			if t.block <= h {
				want = append(want, t)
			}
		}
		i := 0
		var bad string
		err := n.BC.ForEachNEP17Transfer(a, math.MaxUint64, func(t *state.NEP17Transfer) (bool, error) {
			s := xferString(t)
			if i >= len(want) || want[i].s != s {
				bad = fmt.Sprintf("entry %d is %q", i, s)
				if i < len(want) {
					bad += fmt.Sprintf(", archival node has %q", want[i].s)
				}
				return false, nil
			}
			i++
			return true, nil
		})
		if err != nil {
			return &gcFail{class: "xferlog-error", what: fmt.Sprintf("height %d: transfer log of %s: %v", h, a.StringLE()[:8], err)}
		}
		if bad != "" {
			return &gcFail{class: "xferlog-order", what: fmt.Sprintf("height %d: transfer log of %s is not a newest-first prefix of the archival log: %s", h, a.StringLE()[:8], bad)}
		}
		if i < len(want) && want[i].block >= lo {
			return &gcFail{class: "xferlog-traceable", what: fmt.Sprintf("height %d, MaxTraceableBlocks %d: transfer log of %s ends after %d entries, the next one (%s) belongs to a traceable block", h, mtb, a.StringLE()[:8], i, want[i].s)}
		}
	}
	return nil
}

// recover evaluates crash point i of batches. Returns the failure (nil = fine)
// and the batches the recovered node wrote itself (for second-level crashes).
func (x *gcRunner) recover(batches []chainx.Batch, i int, maxHeight uint32) (*gcFail, []chainx.Batch) {
	g := x.g
	total := len(g.blocks)
	fail := func(phase string, f *gcFail) *gcFail { f.phase = phase; return f }
	st := x.wrap(applyBatches(batches, i, x.keep))
	n, err := chainx.New(x.opts(st))
	if err != nil {
		return fail("recover", &gcFail{class: classifyStart(err), what: "restart on the crashed database failed: " + cleanErr(err)}), nil
	}
	defer func() {
		if n != nil {
			n.Close()
		}
	}()
	if f := x.audit(n, maxHeight); f != nil {
		return fail("recover", f), nil
	}
	h := int(n.Height())
	var pre []chainx.Batch
	// continue like Run does; three blocks before the end the node is killed again
	mid := total - 3
	if h < mid {
		if f := x.drive(n, mid, nil); f != nil {
			return fail("feed", f), nil
		}
		if f := x.audit(n, uint32(mid)); f != nil {
			return fail("feed", f), nil
		}
		own := st.Batches()
		all := append(append([]chainx.Batch{}, batches[:i]...), own...)
		st2 := x.wrap(applyBatches(all, len(all), x.keep))
		m, err := chainx.New(x.opts(st2))
		n.Close()
		n = m
		if err != nil {
			n = nil
			return fail("hard-restart", &gcFail{class: classifyStart(err), what: fmt.Sprintf("node recovered at height %d, fed up to %d and killed again cannot be restarted: %s", h, mid, cleanErr(err))}), own
		}
		if f := x.audit(n, uint32(mid)); f != nil {
			return fail("hard-restart", f), own
		}
		st = st2
		pre = own
	}
	ownAll := func() []chainx.Batch { return append(append([]chainx.Batch{}, pre...), st.Batches()...) }
	own := ownAll()
	if int(n.Height()) < total {
		if f := x.drive(n, total, nil); f != nil {
			return fail("feed", f), own
		}
		if f := x.audit(n, uint32(total)); f != nil {
			return fail("feed", f), own
		}
		own = ownAll()
	}
	m, err := n.Reopen() // graceful stop (one more flush, staged GC deletions included) and start
	n = m
	if err != nil {
		n = nil
		return fail("final-restart", &gcFail{class: classifyStart(err), what: fmt.Sprintf("node recovered at height %d and fed all blocks cannot be restarted after a graceful stop: %s", h, cleanErr(err))}), own
	}
	if f := x.audit(n, uint32(total)); f != nil {
		return fail("final-restart", f), own
	}
	if int(n.Height()) != total {
		return fail("final-restart", &gcFail{class: "height-lost", what: fmt.Sprintf("gracefully stopped at height %d, restarted at %d", total, n.Height())}), own
	}
	return nil, own
}

// canonVal makes a stored value comparable across runs (TokenTransferInfo serialises a Go map).
func canonVal(k string, v []byte) string {
	if v == nil {
		return "<deleted>"
	}
	if len(k) > 0 && k[0] == byte(storage.STTokenTransferInfo) {
		if c := canon([]string{hex.EncodeToString([]byte(k)) + "=" + hex.EncodeToString(v)}); len(c) == 1 {
			return c[0]
		}
	}
	return hex.EncodeToString(v)
}

func diffLogs(a, b []chainx.Batch) string {
	for i := 0; i < len(a) && i < len(b); i++ {
		if a[i].Kind != b[i].Kind {
			return fmt.Sprintf("batch %d is a %s batch on the MemoryStore and a %s batch on the backend", i, a[i].Kind, b[i].Kind)
		}
		for k, v := range a[i].Put {
			w, ok := b[i].Put[k]
			if !ok {
				return fmt.Sprintf("batch %d (%s): key %x (%s) is written on the MemoryStore only", i, a[i].Kind, k, canonVal(k, v))
			}
			if canonVal(k, v) != canonVal(k, w) {
				return fmt.Sprintf("batch %d (%s): key %x: MemoryStore %s, backend %s", i, a[i].Kind, k, trunc(canonVal(k, v)), trunc(canonVal(k, w)))
			}
		}
		for k, w := range b[i].Put {
			if _, ok := a[i].Put[k]; !ok {
				return fmt.Sprintf("batch %d (%s): key %x (%s) is written on the backend only", i, a[i].Kind, k, canonVal(k, w))
			}
		}
	}
	if len(a) != len(b) {
		return fmt.Sprintf("%d batches on the MemoryStore, %d on the backend", len(a), len(b))
	}
	return ""
}

// onBackend repeats the uninterrupted run on a real database backend: the node must issue the
// same batches (SeekGC of BoltDB/LevelDB deletes what MemoryStore's deletes), pass the audit, and
// come up again after a graceful stop with the same database content as the MemoryStore node.
func (x *gcRunner) onBackend(name string, memLog []chainx.Batch, memDump []string) *gcFail {
	dir, cleanup := vk.Scratch("c02gc")
	defer cleanup()
	var inner storage.Store
	var err error
	switch name {
	case "bolt":
		inner, err = storage.NewBoltDBStore(dbconfig.BoltDBOptions{FilePath: filepath.Join(dir, "bolt.db")})
	case "level":
		inner, err = storage.NewLevelDBStore(dbconfig.LevelDBOptions{DataDirectoryPath: filepath.Join(dir, "level")})
	}
	if err != nil {
		return &gcFail{class: "harness-backend", phase: name, what: err.Error()}
	}
	rs := x.wrap(inner)
	defer rs.RealClose()
	n, err := chainx.New(x.opts(rs))
	if err != nil {
		return &gcFail{class: "harness-backend", phase: name, what: "start: " + cleanErr(err)}
	}
	defer func() {
		if n != nil {
			n.Close()
		}
	}()
	fail := func(f *gcFail) *gcFail { f.phase = name; f.what = "on " + name + ": " + f.what; return f }
	if f := x.drive(n, len(x.g.blocks), nil); f != nil {
		return fail(f)
	}
	if f := x.audit(n, uint32(len(x.g.blocks))); f != nil {
		return fail(f)
	}
	m, err := n.Reopen()
	n = m
	if err != nil {
		n = nil
		return fail(&gcFail{class: classifyStart(err), what: "restart after a graceful stop failed: " + cleanErr(err)})
	}
	if f := x.audit(n, uint32(len(x.g.blocks))); f != nil {
		return fail(f)
	}
	if d := diffLogs(memLog, rs.Batches()); d != "" {
		return fail(&gcFail{class: "backend-batches-differ", what: d})
	}
	if d := diffDump(memDump, chainx.Dump(rs)); len(d) != 0 {
		return fail(&gcFail{class: "backend-content-differs", what: "database content after the run differs from the MemoryStore node's", diff: d})
	}
	return nil
}

type gcResult struct {
	crashes  int
	batches  int
	gcBatch  int // SeekGC batches in the log
	blockDel int // block/header records deleted through ordinary batches
	pageDel  int // header-hash pages deleted
	xferDel  int // transfer log batches deleted
	mptDel   int // MPT nodes deleted by the GC
	recs     []*caseRec

	backendRuns int
}

// backends: cases whose uninterrupted run is repeated on BoltDB and LevelDB.
func (p gcParams) backends() bool { return p.Idle && p.K == 1 && p.Hist == "mixed" && !p.Second }

func (x *gcRunner) mk(f *gcFail, i, n int) *caseRec {
	p := x.p
	what := f.what
	if x.keep {
		what = "[header-hash pages kept] " + what
	}
	return &caseRec{Scenario: "gcrun", Family: x.g.fam.Name, History: []string{x.g.hist}, GC: &p, Batches: n, Crash: i, What: what, Diff: f.diff,
		Class: f.class, Phase: f.phase, PagesKept: x.keep}
}

// runGC executes one case and evaluates every crash point. One caseRec per
// distinct (class, phase, pages-kept) is returned, with the first crash point.
func runGC(g *gcScen, p gcParams) *gcResult {
	res := &gcResult{}
	cfg := func(c *config.Blockchain) {
		c.Ledger.RemoveUntraceableBlocks = true
		c.Ledger.GarbageCollectionPeriod = p.GCP
	}
	x := &gcRunner{g: g, p: p, cfg: cfg}
	rs := x.wrap(storage.NewMemoryStore())
	var accepted []uint32
	var cur uint32
	var mu sync.Mutex
	rs.OnBatch = func(i int) {
		mu.Lock()
		for len(accepted) <= i {
			accepted = append(accepted, cur)
		}
		mu.Unlock()
	}
	n, err := chainx.New(x.opts(rs))
	if err != nil {
		res.recs = append(res.recs, x.mk(&gcFail{class: "harness-start", phase: "run", what: "start: " + err.Error()}, -1, 0))
		return res
	}
	if f := x.drive(n, len(g.blocks), func(h uint32) { mu.Lock(); cur = h; mu.Unlock() }); f != nil {
		n.Close()
		f.phase = "run"
		res.recs = append(res.recs, x.mk(f, -1, 0))
		return res
	}
	if f := x.audit(n, uint32(len(g.blocks))); f != nil { // the uninterrupted pruning node itself
		n.Close()
		f.phase = "run"
		res.recs = append(res.recs, x.mk(f, -1, 0))
		return res
	}
	n.Close()
	batches := rs.Batches()
	res.batches = len(batches)
	if i, what := commitSplit(batches); what != "" {
		res.recs = append(res.recs, x.mk(&gcFail{class: "commit-split", phase: "run", what: what}, i, len(batches)))
		return res
	}
	if p.backends() {
		memDump := chainx.Dump(rs)
		for _, name := range []string{"bolt", "level"} {
			res.backendRuns++
			if f := x.onBackend(name, batches, memDump); f != nil {
				res.recs = append(res.recs, x.mk(f, -1, len(batches)))
			}
		}
	}
	for _, b := range batches {
		if b.Kind == "gc" {
			res.gcBatch++
		}
		for k, v := range b.Put {
			if v != nil || len(k) == 0 {
				continue
			}
			switch storage.KeyPrefix(k[0]) {
			case storage.DataExecutable:
				if b.Kind == "put" {
					res.blockDel++
				}
			case storage.IXHeaderHashList:
				res.pageDel++
			case storage.STNEP17Transfers, storage.STNEP11Transfers:
				res.xferDel++
			case storage.DataMPT:
				if b.Kind == "gc" {
					res.mptDel++
				}
			}
		}
	}
	seen := map[string]bool{}
	note := func(y *gcRunner, f *gcFail, i, nb int) {
		k := fmt.Sprintf("%s/%s/%v", f.class, f.phase, y.keep)
		if !seen[k] {
			seen[k] = true
			res.recs = append(res.recs, y.mk(f, i, nb))
		}
	}
	var eval func(y *gcRunner, bs []chainx.Batch, lo int, acc func(int) uint32, second bool)
	eval = func(y *gcRunner, bs []chainx.Batch, lo int, acc func(int) uint32, second bool) {
		for i := lo; i <= len(bs); i++ {
			res.crashes++
			f, own := y.recover(bs, i, acc(i))
			if f != nil {
				note(y, f, i, len(bs))
				if f.class == "hdrpage-lost" && !y.keep {
					// look behind the lost page: same crash point, pages kept
					z := &gcRunner{g: g, p: p, cfg: cfg, keep: true}
					res.crashes++
					if f2, _ := z.recover(bs, i, acc(i)); f2 != nil {
						note(z, f2, i, len(bs))
					}
				}
				continue
			}
			if second && len(own) > 0 {
				// crash points inside the RECOVERED node's own run (its batches follow bs[:i])
				all := append(append([]chainx.Batch{}, bs[:i]...), own...)
				eval(y, all, i+1, func(int) uint32 { return uint32(len(g.blocks)) }, false)
			}
		}
	}
	eval(x, batches, 0, func(i int) uint32 {
		if i == 0 {
			return 0
		}
		return accepted[i-1]
	}, p.Second)
	return res
}

// gcPlan enumerates the cases of the part.
func gcPlan(r *vk.Run) (mtbs []uint32, hists []string, histLen int, cases []gcParams) {
	part := "main"
	if os.Getenv("C02_PAGES") != "" {
		part = "pages"
	}
	var gcps []uint32
	var ks []int
	if part == "pages" {
		mtbs = vk.Pick(r, []uint32{1, 2, 3, 5}, []uint32{1, 2, 3, 4, 5})
		gcps = vk.Pick(r, []uint32{1, 2, 3, 5}, []uint32{1, 2, 3, 5, 7})
		ks = vk.Pick(r, []int{1, 2, 3}, []int{1, 2, 3, 4})
		hists = []string{"idle", "mixed", "mtbdrop"}
		histLen = vk.Pick(r, 22, 33)
	} else {
		// unscaled pages (2000): the block GC's "current page" guard always holds, the other three
		// collectors (MPT, transfer logs, header-hash pages: nothing to do) run for real
		mtbs = []uint32{1, 2, 3}
		gcps = vk.Pick(r, []uint32{1, 2, 3}, []uint32{1, 2, 3, 5})
		ks = vk.Pick(r, []int{1, 2}, []int{1, 2, 3})
		hists = []string{"mixed"}
		histLen = vk.Pick(r, 9, 13)
	}
	for _, hist := range hists {
		for _, m := range mtbs {
			if hist == "mtbdrop" && m != 3 && !(r.Thorough() && m >= 3) {
				continue // the history lowers MaxTraceableBlocks twice
			}
			if hist == "mixed" && part == "pages" && m > 3 && !r.Thorough() {
				continue
			}
			for _, g := range gcps {
				for _, k := range ks {
					if hist == "mtbdrop" && k > 2 && !r.Thorough() {
						continue
					}
					offs := []int{0}
					if r.Thorough() {
						offs = offs[:0]
						for o := 0; o < k; o++ {
							offs = append(offs, o)
						}
					}
					for _, o := range offs {
						c := gcParams{Part: part, MTB: m, GCP: g, K: k, Off: o, Hist: hist, Len: histLen}
						v := c
						v.Idle = true
						cases = append(cases, v) // the timer fires once more before the next block
						if (k > 1 && !r.Thorough()) || o != 0 {
							continue
						}
						if hist != "mtbdrop" || r.Thorough() {
							v = c
							v.During = true
							cases = append(cases, v) // a block lands while the flush is writing
						}
						if hist == "idle" || part == "main" || r.Thorough() {
							cases = append(cases, c) // staged deletions travel with the next blocks
							v = c
							v.Between = true
							cases = append(cases, v) // a block lands between the flush and the GC
						}
					}
				}
			}
		}
	}
	// StateRootInHeader + P2PStateExchangeExtensions: the GC target is additionally aligned to the
	// second latest state synchronisation point (StateSyncInterval scales it)
	for _, ssi := range vk.Pick(r, []int{2, 3}, []int{2, 3, 5}) {
		for _, m := range vk.Pick(r, []uint32{1, 2}, []uint32{1, 2, 3}) {
			for _, g := range vk.Pick(r, []uint32{1, 2}, []uint32{1, 2, 3}) {
				for _, k := range vk.Pick(r, []int{1}, []int{1, 2}) {
					cases = append(cases, gcParams{Part: part, MTB: m, GCP: g, K: k, SSI: ssi, Idle: true, Hist: "mixed", Len: histLen})
				}
			}
		}
	}
	if part == "pages" {
		// second-level crash points (the recovered node dies again at each of ITS batch boundaries)
		for _, m := range vk.Pick(r, []uint32{1, 3}, []uint32{1, 2, 3, 5}) {
			for _, g := range vk.Pick(r, []uint32{2}, []uint32{1, 2, 3}) {
				cases = append(cases, gcParams{Part: part, MTB: m, GCP: g, K: 2, Hist: "idle", Idle: true, Len: vk.Pick(r, 13, 17), Second: true})
			}
		}
	}
	return
}

type gcStats struct {
	cases, crashes, batches, gcBatches, blockDel, pageDel, xferDel, mptDel, backendRuns vk.Counter
	classes                                                                             *vk.Set
	affected                                                                            []string
}

func gcKey(rec *caseRec) string {
	k := "gcrun:" + rec.Class + ":" + rec.Phase
	if rec.PagesKept {
		k += ":pages-kept"
	}
	return fmt.Sprintf("%s:%s:crash%d/%d", k, rec.GC.String(), rec.Crash, rec.Batches)
}

// runGCPlans builds the reference scenarios and runs all gcrun cases.
func runGCPlans(r *vk.Run, sets *vk.Set) *gcStats {
	st := &gcStats{classes: vk.NewSet()}
	_, _, _, cases := gcPlan(r)
	if flt := os.Getenv("C02_GCRUN_FILTER"); flt != "" { // development aid: substring of the case name
		var c2 []gcParams
		for _, c := range cases {
			if strings.Contains(c.String(), flt) {
				c2 = append(c2, c)
			}
		}
		cases = c2
	}
	type sk struct {
		mtb  uint32
		ssi  int
		hist string
		n    int
	}
	scens := map[sk]*gcScen{}
	var keys []sk
	for _, c := range cases {
		k := sk{c.MTB, c.SSI, c.Hist, c.Len}
		if _, ok := scens[k]; !ok {
			scens[k] = nil
			keys = append(keys, k)
		}
	}
	var mu sync.Mutex
	r.Parallel(len(keys), func(i int) {
		g, err := newGCScen(keys[i].mtb, keys[i].ssi, keys[i].hist, keys[i].n)
		if err != nil {
			fmt.Println("CHECK-ERROR: gcrun scenario:", err)
			os.Exit(3)
		}
		mu.Lock()
		scens[keys[i]] = g
		mu.Unlock()
	})
	results := make([]*gcResult, len(cases))
	r.Parallel(len(cases), func(i int) {
		c := cases[i]
		g := scens[sk{c.MTB, c.SSI, c.Hist, c.Len}]
		if g == nil {
			return
		}
		res := runGC(g, c)
		results[i] = res
		st.cases.Inc()
		st.crashes.Add(res.crashes)
		st.batches.Add(res.batches)
		st.gcBatches.Add(res.gcBatch)
		st.blockDel.Add(res.blockDel)
		st.pageDel.Add(res.pageDel)
		st.xferDel.Add(res.xferDel)
		st.mptDel.Add(res.mptDel)
		st.backendRuns.Add(res.backendRuns)
		sets.Add("gcrun/" + c.String())
		if len(res.recs) == 0 {
			r.Outcome("gcrun:all crash points consistent")
			r.Sample(map[string]any{"scenario": "gcrun", "case": c, "batches": res.batches, "crash_points": res.crashes, "gc_batches": res.gcBatch, "block_records_deleted": res.blockDel, "pages_deleted": res.pageDel})
		}
		for _, rec := range res.recs {
			st.classes.Add(rec.Class + "/" + rec.Phase)
			r.Outcome("gcrun:" + rec.Class + "/" + rec.Phase)
		}
	})
	// One violation per (failure class, phase, pages-kept): the first case in plan order (simplest
	// first) that shows it, so that the key does not depend on the order in which workers finish.
	reported := map[string]int{}
	for _, res := range results {
		if res == nil {
			continue
		}
		for _, rec := range res.recs {
			k := fmt.Sprintf("%s/%s/%v", rec.Class, rec.Phase, rec.PagesKept)
			reported[k]++
			if reported[k] == 1 {
				r.Violation(gcKey(rec), rec)
			}
		}
	}
	for k, n := range reported {
		st.affected = append(st.affected, fmt.Sprintf("%s: %d cases", k, n))
	}
	sort.Strings(st.affected)
	return st
}

func replayGC(r *vk.Run, c *caseRec) {
	part := "main"
	if os.Getenv("C02_PAGES") != "" {
		part = "pages"
	}
	if c.GC.Part != part || os.Getenv("C02_RESETBATCH") != "" {
		fmt.Printf("replay: case of part %s, this is another part: skipped\n", c.GC.Part)
		r.Finish(map[string]any{"evaluations": 1, "distinct_nontrivial": 2, "rule": "replay (other part)"}, nil)
		return
	}
	g, err := newGCScen(c.GC.MTB, c.GC.SSI, c.GC.Hist, c.GC.Len)
	if err != nil {
		fmt.Println("replay: scenario:", err)
		os.Exit(3)
	}
	for i := 0; i < 5; i++ {
		res := runGC(g, *c.GC)
		hit := false
		for _, rec := range res.recs {
			if rec.Class == c.Class && rec.Phase == c.Phase && rec.PagesKept == c.PagesKept {
				hit = true
				fmt.Printf("replay %d: REPRODUCED crash %d/%d: %s %v\n", i, rec.Crash, rec.Batches, rec.What, rec.Diff)
				r.Violation("replay:"+gcKey(rec), rec)
			}
		}
		if !hit {
			fmt.Printf("replay %d: not reproduced (%d other findings)\n", i, len(res.recs))
		}
	}
	r.Finish(map[string]any{"evaluations": 5, "distinct_nontrivial": 2, "rule": "replay"}, nil)
}
