// C02 extension (round 4): "a completed reset to height h leaves the node
// indistinguishable from one that only ever synchronised to h".
//
// Every reset plan (parts main, pages, resetbatch) compares the reset node with
// a REFERENCE node of the same configuration that was fed blocks 1..h and
// nothing else:
//
//   - questions (probe): block / header height, current hashes, GetHeaderHash(i)
//     for every i in 0..old tip+2, header-hash pages, header / block /
//     transaction / execution result look-ups by hash for EVERY height of the
//     history (kept and removed ones), state roots by height, NEP-17 transfer
//     logs. Asked on the instance that ran Reset (no restart), on every node that
//     resumed an interrupted reset and on the node restarted after the
//     completed one;
//   - raw database: everything but the MPT nodes (stateroot.ResetState documents
//     that they are left alone; without reference counting they must be a
//     superset of the reference's), contract storage compared modulo the
//     storage-prefix swap the reset performs;
//   - continuation WITHOUT a restart: the Blockchain instance that ran Reset is
//     started and fed the blocks above h, its observations compared with the
//     reference replica's after every block; then stopped gracefully, reopened,
//     compared again;
//   - second reset: the continued node is reset to h once more (the storage
//     prefix toggles back) and compared with the reference again.
package c02

import (
	"encoding/hex"
	"fmt"
	"math"
	"sort"
	"strings"
	"sync"

	"github.com/nspcc-dev/neo-go/pkg/core/native/nativehashes"
	"github.com/nspcc-dev/neo-go/pkg/core/state"
	"github.com/nspcc-dev/neo-go/pkg/core/storage"
	"github.com/nspcc-dev/neo-go/pkg/core/transaction"
	"github.com/nspcc-dev/neo-go/pkg/neotest"
	"github.com/nspcc-dev/neo-go/pkg/smartcontract/trigger"
	"github.com/nspcc-dev/neo-go/pkg/util"

	"verif/lib/chainx"
	"verif/lib/vk"
)

// chainIx names everything a history put on the chain.
type chainIx struct {
	hashes []util.Uint256   // block hash of height i+1
	txs    [][]util.Uint256 // transaction hashes of height i+1
	accs   []util.Uint160
}

func (e *env) index(blocks [][]byte) (*chainIx, error) {
	ix := &chainIx{}
	for _, bb := range blocks {
		b, err := chainx.DecodeBlock(bb, e.sc.Fam.SRIH)
		if err != nil {
			return nil, err
		}
		ix.hashes = append(ix.hashes, b.Hash())
		var th []util.Uint256
		for _, tx := range b.Transactions {
			th = append(th, tx.Hash())
		}
		ix.txs = append(ix.txs, th)
	}
	for i := 1; i <= 6; i++ {
		ix.accs = append(ix.accs, chainx.Acc(i).ScriptHash())
	}
	ix.accs = append(ix.accs, e.sc.World.Hashes()...)
	return ix, nil
}

func short(h util.Uint256) string {
	if h.Equals(util.Uint256{}) {
		return "zero"
	}
	return h.StringLE()[:12]
}

// probe asks a live node everything the reset has to rewind. The answer is a
// list of "question=answer" lines; two nodes are indistinguishable (as far as
// this check looks) when the lists are equal.
func probe(n *chainx.Node, ix *chainIx) []string {
	bc := n.BC
	var out []string
	add := func(f string, a ...any) { out = append(out, fmt.Sprintf(f, a...)) }
	tip := uint32(len(ix.hashes))
	add("BlockHeight=%d", bc.BlockHeight())
	add("HeaderHeight=%d", bc.HeaderHeight())
	add("CurrentBlockHash=%s", short(bc.CurrentBlockHash()))
	add("CurrentHeaderHash=%s", short(bc.CurrentHeaderHash()))
	for i := uint32(0); i <= tip+2; i++ {
		add("GetHeaderHash(%d)=%s", i, short(bc.GetHeaderHash(i)))
	}
	val := n.Validator.ScriptHash()
	accs := append(append([]util.Uint160{}, ix.accs...), val)
	for k, hash := range ix.hashes {
		ht := k + 1
		add("HasBlock(#%d)=%v", ht, bc.HasBlock(hash))
		if hd, err := bc.GetHeader(hash); err != nil {
			add("GetHeader(#%d)=absent", ht)
		} else {
			add("GetHeader(#%d)=index %d %s", ht, hd.Index, short(hd.Hash()))
		}
		if b, err := bc.GetBlock(hash); err != nil {
			add("GetBlock(#%d)=absent", ht)
		} else {
			add("GetBlock(#%d)=index %d, %d txs", ht, b.Index, len(b.Transactions))
		}
		if a, err := bc.GetAppExecResults(hash, trigger.All); err != nil {
			add("GetAppExecResults(#%d)=absent", ht)
		} else {
			add("GetAppExecResults(#%d)=%d", ht, len(a))
		}
		for j, th := range ix.txs[k] {
			if _, at, err := bc.GetTransaction(th); err != nil {
				add("GetTransaction(#%d.%d)=absent", ht, j)
			} else {
				add("GetTransaction(#%d.%d)=height %d", ht, j, at)
			}
			if a, err := bc.GetAppExecResults(th, trigger.All); err != nil {
				add("GetAppExecResults(#%d.%d)=absent", ht, j)
			} else {
				add("GetAppExecResults(#%d.%d)=%d %s", ht, j, len(a), a[0].VMState)
			}
		}
	}
	for i := uint32(0); i <= tip+1; i++ {
		if sr, err := bc.GetStateRoot(i); err != nil {
			add("GetStateRoot(%d)=absent", i)
		} else {
			add("GetStateRoot(%d)=%s", i, short(sr.Root))
		}
	}
	for ai, a := range accs {
		var l []string
		err := bc.ForEachNEP17Transfer(a, math.MaxUint64, func(t *state.NEP17Transfer) (bool, error) {
			l = append(l, xferString(t))
			return true, nil
		})
		if err != nil {
			add("NEP17Transfers(acc%d)=error %v", ai, err)
			continue
		}
		add("NEP17Transfers(acc%d)=%d [%s]", ai, len(l), strings.Join(l, "; "))
		lu, err := bc.GetTokenLastUpdated(a)
		if err != nil {
			add("TokenLastUpdated(acc%d)=error %v", ai, err)
			continue
		}
		add("TokenLastUpdated(acc%d)=%v", ai, lu) // fmt prints maps in key order
	}
	return out
}

func diffProbe(want, got []string) []string {
	var d []string
	for i := 0; i < len(want) || i < len(got); i++ {
		var w, g string
		if i < len(want) {
			w = want[i]
		}
		if i < len(got) {
			g = got[i]
		}
		if w != g && len(d) < 10 {
			d = append(d, fmt.Sprintf("synchronised only to the target: %s | reset node: %s", trunc(w), trunc(g)))
		}
	}
	return d
}

// syncedRef is what a node that only ever synchronised to height h answers and
// has in its database, for every h of one history.
type syncedRef struct {
	once   sync.Once
	err    error
	probes [][]string          // index h (0 = a node that has only its genesis block)
	dumps  []map[string]string // index h, raw database (flushed)
	logLen []int               // index h, entries in account 2's NEP-17 log (family reset-xfer)
	used   int64               // cache clock (under syncedRefs.mu)
}

// References are kept in a small least-recently-used cache: the jobs of one history are neighbours
// in the job list, so a few dozen entries serve all workers; an evicted reference is simply rebuilt.
var syncedRefs = struct {
	mu   sync.Mutex
	m    map[string]*syncedRef
	tick int64
}{m: map[string]*syncedRef{}}

const syncedRefsCap = 64

func (e *env) synced(h []int, blocks [][]byte, ix *chainIx) *syncedRef {
	key := fmt.Sprintf("%p/%v/prune=%v", e.sc, h, e.gc)
	c := &syncedRefs
	c.mu.Lock()
	c.tick++
	ref := c.m[key]
	if ref == nil {
		ref = &syncedRef{}
		c.m[key] = ref
		if len(c.m) > syncedRefsCap {
			oldest, ok := "", false
			for k, r := range c.m {
				if k != key && (!ok || r.used < c.m[oldest].used) {
					oldest, ok = k, true
				}
			}
			delete(c.m, oldest)
		}
	}
	ref.used = c.tick
	c.mu.Unlock()
	ref.once.Do(func() {
		st := chainx.NewRecStore(storage.NewMemoryStore())
		st.NoLog = true
		ea := *e
		ea.ahead = 0
		n, err := chainx.New(ea.opts(st))
		if err != nil {
			ref.err = err
			return
		}
		defer n.Close()
		for k := -1; k < len(blocks); k++ {
			if k >= 0 {
				if err := n.AddBytes(blocks[k]); err != nil {
					ref.err = fmt.Errorf("reference node rejects block %d: %w", k+1, err)
					return
				}
			}
			cnt := 0
			_ = n.BC.ForEachNEP17Transfer(chainx.Acc(2).ScriptHash(), math.MaxUint64, func(*state.NEP17Transfer) (bool, error) { cnt++; return true, nil })
			ref.logLen = append(ref.logLen, cnt)
			pr := probe(n, ix)
			ref.probes = append(ref.probes, pr)
			rxProbeSets.Add(strings.Join(pr, "\n"))
			rxQuestions.Add(len(pr))
			if err := n.Persist(); err != nil {
				ref.err = err
				return
			}
			ref.dumps = append(ref.dumps, chainx.DumpMap(st))
		}
	})
	return ref
}

// canonDB maps a raw database to comparable "key=value" entries: MPT nodes are
// dropped (returned separately), contract storage is filed under one prefix
// whichever of the two the node uses at the moment, the version record loses
// its storage-prefix byte, token transfer info is decoded (Go map order).
func canonDB(db map[string]string) (rest map[string]string, mpt map[string]string, bothPrefixes bool) {
	rest, mpt = map[string]string{}, map[string]string{}
	var p70, p71 bool
	for k, v := range db {
		if len(k) == 0 {
			continue
		}
		switch storage.KeyPrefix(k[0]) {
		case storage.DataMPT:
			mpt[k] = v
		case storage.STStorage, storage.STTempStorage:
			if storage.KeyPrefix(k[0]) == storage.STStorage {
				p70 = true
			} else {
				p71 = true
			}
			rest["storage:"+hex.EncodeToString([]byte(k[1:]))] = hex.EncodeToString([]byte(v))
		case storage.SYSVersion:
			b := []byte(v)
			if i := strings.IndexByte(v, 0); i >= 0 && i+1 < len(b) {
				b[i+1] = 0
			}
			rest[hex.EncodeToString([]byte(k))] = hex.EncodeToString(b)
		case storage.STTokenTransferInfo:
			rest[hex.EncodeToString([]byte(k))] = canonVal(k, []byte(v))
		default:
			rest[hex.EncodeToString([]byte(k))] = hex.EncodeToString([]byte(v))
		}
	}
	return rest, mpt, p70 && p71
}

// dbAsSynced compares the database of a reset node with the reference's.
func dbAsSynced(ref, got map[string]string, refcounted bool) []string {
	rw, rm, _ := canonDB(ref)
	gw, gm, both := canonDB(got)
	var d []string
	if both {
		d = append(d, "contract storage items under BOTH storage prefixes")
	}
	keys := map[string]bool{}
	for k := range rw {
		keys[k] = true
	}
	for k := range gw {
		keys[k] = true
	}
	ks := make([]string, 0, len(keys))
	for k := range keys {
		ks = append(ks, k)
	}
	sort.Strings(ks)
	for _, k := range ks {
		a, ina := rw[k]
		b, inb := gw[k]
		if len(d) >= 10 {
			break
		}
		switch {
		case !inb:
			d = append(d, "only in the node synchronised to the target: "+trunc(k+"="+a))
		case !ina:
			d = append(d, "only in the reset node: "+trunc(k+"="+b))
		case a != b:
			i := 0
			for i < len(a) && i < len(b) && a[i] == b[i] {
				i++
			}
			win := func(x string) string { return x[max(0, i-40):min(len(x), i+60)] }
			d = append(d, fmt.Sprintf("differs: %s at offset %d: synchronised ...%s... reset ...%s...", trunc(k), i, win(a), win(b)))
		}
	}
	if !refcounted {
		// no reference counting: nodes are only ever added, the reset leaves them alone
		for k, v := range rm {
			if w, ok := gm[k]; (!ok || w != v) && len(d) < 12 {
				d = append(d, "MPT node of the target's history missing or different in the reset node: "+trunc(hex.EncodeToString([]byte(k))))
			}
		}
	}
	return d
}

// resetChk carries the reference of one reset case into recoverAndCheck.
type resetChk struct {
	ref *syncedRef
	ix  *chainIx
	to  uint32
}

// asSynced: does the live node answer like one that only synchronised to c.to?
func (c *resetChk) asSynced(n *chainx.Node) []string {
	return diffProbe(c.ref.probes[c.to], probe(n, c.ix))
}

// reset-extension counters (reported in the coverage map)
var (
	rxProbes, rxDBs, rxCont, rxContBlocks, rxSecond, rxKnownCont vk.Counter
	rxQuestions, rxStraddle, rxPagesBefore, rxSecondCrashes      vk.Counter
	rxProbeSets                                                  = vk.NewSet()
	rxXferCuts                                                   = &keySet{m: map[string]bool{}} // "entries at the tip->entries at the target" of account 2's log
)

type keySet struct {
	mu sync.Mutex
	m  map[string]bool
}

func (s *keySet) Add(k string) { s.mu.Lock(); s.m[k] = true; s.mu.Unlock() }
func (s *keySet) Len() int     { s.mu.Lock(); defer s.mu.Unlock(); return len(s.m) }
func (s *keySet) Keys() []string {
	s.mu.Lock()
	defer s.mu.Unlock()
	var out []string
	for k := range s.m {
		out = append(out, k)
	}
	sort.Strings(out)
	return out
}

// continueSameInstance starts the Blockchain that ran Reset (no restart in
// between) and feeds it the blocks above `to`; flush: flush after every block.
// Returns what went wrong ("" = nothing) and whether the failure is the listed
// open finding of pruning nodes.
func (e *env) continueSameInstance(m *chainx.Node, to uint32, blocks [][]byte, obs []*chainx.Obs, flush bool) (what string, diff []string) {
	done := make(chan struct{})
	go func() { m.BC.VerifRunNoTimer(); close(done) }()
	stop := func() { m.BC.Close(); <-done }
	for k := int(to); k < len(blocks); k++ {
		if err := m.AddBytes(blocks[k]); err != nil {
			stop()
			return fmt.Sprintf("no-restart continuation rejects block %d: %v", k+1, err), nil
		}
		rxContBlocks.Inc()
		got, err := m.Observe(e.sc.World.MaxID, e.sc.World.Hashes())
		if err != nil {
			stop()
			return fmt.Sprintf("no-restart continuation cannot answer after block %d: %v", k+1, err), nil
		}
		if d := obs[k].Diff(got); len(d) != 0 {
			stop()
			return fmt.Sprintf("no-restart continuation: state differs after block %d", k+1), d
		}
		if flush {
			if err := m.Persist(); err != nil {
				stop()
				return "no-restart continuation: flush failed: " + err.Error(), nil
			}
		}
	}
	stop() // graceful: one more flush
	return "", nil
}

// resetContinue is the tail of every reset case: the instance that ran the
// (uninterrupted) reset goes on WITHOUT a restart. The two jobs of a case
// (gcFirst false / true) take the two variants:
//
//	gcFirst=false: no flush while continuing; graceful stop; SECOND Reset(to) of the
//	               continued database (storage prefix toggles back), questions and database
//	               compared with the reference again; restart; remaining blocks.
//	gcFirst=true:  flush after every block; graceful stop; reopen: questions and database
//	               equal those of a node that synchronised to the tip without any reset.
func (e *env) resetContinue(m *chainx.Node, rs *chainx.RecStore, chk *resetChk, to uint32, gcFirst bool, blocks [][]byte, obs []*chainx.Obs, mk func(string, []string) *caseRec) *caseRec {
	tip := len(blocks)
	what, diff := e.continueSameInstance(m, to, blocks, obs, gcFirst)
	if what != "" {
		if e.gc && strings.Contains(what, "rejects block") && strings.Contains(what, "apply MPT changes") {
			// the listed open finding (reference counters not rolled back on a pruning node); the
			// restart path of the same case reports it
			rxKnownCont.Inc()
			e.r.Outcome("resetx:no-restart continuation stopped by the listed pruning finding")
			return nil
		}
		return mk(what, diff)
	}
	rxCont.Inc()
	if gcFirst {
		n, err := chainx.New(e.opts(rs))
		if err != nil {
			return mk("continued+stopped node cannot be started again: "+err.Error(), nil)
		}
		defer n.Close()
		rxProbes.Inc()
		if d := diffProbe(chk.ref.probes[tip], probe(n, chk.ix)); len(d) != 0 {
			return mk("continued+reopened node answers differently from a never-reset node at the tip", d)
		}
		rxDBs.Inc()
		if d := dbAsSynced(chk.ref.dumps[tip], chainx.DumpMap(rs), e.gc); len(d) != 0 {
			return mk("continued+reopened database differs from a never-reset node at the tip", d)
		}
		e.r.Outcome(fmt.Sprintf("resetx:continued without restart (flush per block, %d blocks), reopened = never-reset node", min(tip-int(to), 3)))
		return nil
	}
	// second reset of the continued chain
	o := e.opts(rs)
	o.NoRun = true
	m2, err := chainx.New(o)
	if err != nil {
		return mk("continued+stopped node cannot be opened for a second reset: "+err.Error(), nil)
	}
	for i := uint32(0); i <= uint32(tip); i++ {
		m2.BC.GetHeaderHash(i)
	}
	base2 := len(rs.Batches())
	if err := m2.BC.Reset(to); err != nil {
		return mk(fmt.Sprintf("second Reset(%d) after the continuation failed: %v", to, err), nil)
	}
	rxSecond.Inc()
	if e.r != nil && e.r.Thorough() {
		// thorough: every crash point of the second reset as well (its background persister runs
		// free here: coarser merges only remove crash points)
		b2 := rs.Batches()
		fd2 := chainx.Dump(rs)
		for i := base2 + 1; i <= len(b2); i++ {
			rxSecondCrashes.Inc()
			if what, diff := e.recoverAndCheck(b2, i, uint32(tip), int(to), blocks, obs, fd2, chk); what != "" {
				if e.gc && strings.Contains(what, "rejects block") && strings.Contains(what, "apply MPT changes") {
					continue
				}
				return mk(fmt.Sprintf("second reset, crash after %d of its batches: %s", i-base2, what), diff)
			}
		}
	}
	rxProbes.Inc()
	if d := chk.asSynced(m2); len(d) != 0 {
		return mk("second reset: same instance answers differently from a node that only synchronised to the target", d)
	}
	rxDBs.Inc()
	if d := dbAsSynced(chk.ref.dumps[to], chainx.DumpMap(rs), e.gc); len(d) != 0 {
		return mk("second reset: database differs from a node that only synchronised to the target", d)
	}
	n, err := chainx.New(e.opts(rs))
	if err != nil {
		return mk("restart after the second reset failed: "+err.Error(), nil)
	}
	defer n.Close()
	rxProbes.Inc()
	if d := chk.asSynced(n); len(d) != 0 {
		return mk("second reset, restarted: answers differ from a node that only synchronised to the target", d)
	}
	for k := int(to); k < tip; k++ {
		if err := n.AddBytes(blocks[k]); err != nil {
			return mk(fmt.Sprintf("node restarted after the second reset rejects block %d: %v", k+1, err), nil)
		}
	}
	got, err := n.Observe(e.sc.World.MaxID, e.sc.World.Hashes())
	if err != nil {
		return mk("node restarted after the second reset cannot answer: "+err.Error(), nil)
	}
	if d := obs[tip-1].Diff(got); len(d) != 0 {
		return mk("node restarted after the second reset and fed the remaining blocks: state differs", d)
	}
	e.r.Outcome(fmt.Sprintf("resetx:continued without restart (no flush, %d blocks), second reset = synced-only node", min(tip-int(to), 3)))
	return nil
}

// pagesBefore counts the header-hash pages of a database and those among them that hold hashes
// both of kept (<= to) and of removed (> to) heights.
func pagesBefore(st storage.Store, to uint32) (pages, straddling int) {
	st.Seek(storage.SeekRange{Prefix: []byte{byte(storage.IXHeaderHashList)}}, func(k, v []byte) bool {
		if len(k) != 5 {
			return true
		}
		pages++
		first := uint32(k[1])<<24 | uint32(k[2])<<16 | uint32(k[3])<<8 | uint32(k[4])
		// value: var-int count + 32 bytes per hash
		cnt := uint32(len(v) / 32)
		if cnt > 0 && first <= to && first+cnt-1 > to {
			straddling++
		}
		return true
	})
	return
}

func resetExtCoverage(cov map[string]any) {
	cov["resetx_question_lists_compared_with_synced_only_reference"] = int(rxProbes.Get())
	cov["resetx_databases_compared_with_synced_only_reference"] = int(rxDBs.Get())
	cov["resetx_reference_question_lists"] = int(rxQuestions.Get())
	cov["resetx_distinct_reference_answer_lists"] = rxProbeSets.Len()
	cov["resetx_continued_without_restart"] = int(rxCont.Get())
	cov["resetx_blocks_added_without_restart"] = int(rxContBlocks.Get())
	cov["resetx_second_resets"] = int(rxSecond.Get())
	cov["resetx_second_reset_crash_points"] = int(rxSecondCrashes.Get())
	cov["resetx_continuations_stopped_by_listed_pruning_finding"] = int(rxKnownCont.Get())
	cov["resetx_xfer_distinct_log_cuts_around_batch_size_128"] = rxXferCuts.Len()
	cov["resetx_xfer_log_cuts"] = strings.Join(rxXferCuts.Keys(), " ")
	cov["resetx_header_hash_pages_before_reset"] = int(rxPagesBefore.Get())
	cov["resetx_resets_cutting_a_stored_header_hash_page"] = int(rxStraddle.Get())
}

// ---- family reset-xfer: resets that cut a NEP-17 transfer log at / around a log batch boundary ----
//
// The transfer log of an account is stored in batches of state.TokenTransferBatchSize (128)
// entries plus a TokenTransferInfo record (next batch index, "start a new batch" flag, last
// update heights). resetTransfers truncates the batches and REBUILDS the info record entry by
// entry; the other histories never fill a batch. Here account 2 receives exactly as many GAS
// transfers as bring its log to 127, 128, 129, 130 entries after consecutive blocks, the chain
// is reset from every tip to every height in that range, and the rewound log / info record is
// compared with a node that only synchronised to the target (questions + raw database); the
// no-restart continuation then APPENDS to the rewound batches, and the continued database must
// equal a never-reset node's.

func xferTplName(n int) string { return fmt.Sprintf("xfer2x%d", n) }

func xferTpl(n int) chainx.Tpl {
	return chainx.Tpl{Name: xferTplName(n), Build: func(w *chainx.World) ([]*transaction.Transaction, error) {
		var script []byte
		for i := 0; i < n; i++ {
			script = append(script, chainx.CallScript(nativehashes.GasToken, "transfer", chainx.Acc(1).ScriptHash(), chainx.Acc(2).ScriptHash(), int64(1+i), nil)...)
			script = append(script, 0x45) // DROP
		}
		tx, err := w.N.MakeTx(script, []neotest.Signer{chainx.Signer(1)})
		if err != nil {
			return nil, err
		}
		return []*transaction.Transaction{tx}, nil
	}}
}

// tplsByName is chainx.TplByName extended with the parametrised templates of this check
// (used by replay: a recorded history is a list of template names).
func tplsByName(names ...string) []chainx.Tpl {
	var out []chainx.Tpl
	for _, nm := range names {
		var n int
		if _, err := fmt.Sscanf(nm, "xfer2x%d", &n); err == nil && n > 0 {
			out = append(out, xferTpl(n))
			continue
		}
		out = append(out, chainx.TplByName(nm)...)
	}
	return out
}

// logLenAfterPreamble counts the NEP-17 log entries account acc has after the preamble.
func logLenAfterPreamble(f chainx.Family, pad int, acc util.Uint160) (int, error) {
	sc, err := chainx.NewScenario(f, pad, nil)
	if err != nil {
		return 0, err
	}
	n, err := chainx.New(f.Opts())
	if err != nil {
		return 0, err
	}
	defer n.Close()
	for _, bb := range sc.Preamble {
		if err := n.AddBytes(bb); err != nil {
			return 0, err
		}
	}
	cnt := 0
	err = n.BC.ForEachNEP17Transfer(acc, math.MaxUint64, func(*state.NEP17Transfer) (bool, error) { cnt++; return true, nil })
	return cnt, err
}

// xferEnvs builds the reset-xfer environments: one per history length (the job builder wants
// equally long histories in a plan). seqs: template index sequences over the returned alphabet.
func xferEnvs(r *vk.Run, f chainx.Family) ([]*env, []string, error) {
	pre, err := logLenAfterPreamble(f, 0, chainx.Acc(2).ScriptHash())
	if err != nil {
		return nil, nil, err
	}
	const bs = state.TokenTransferBatchSize
	if pre >= bs-2 {
		return nil, nil, fmt.Errorf("account 2 has %d log entries after the preamble: no room below the batch size", pre)
	}
	// alphabet: 0 = fill to one below the batch size, 1 = one entry, 2 = fill to exactly the batch
	// size in one block, 3 = a whole batch in one block
	tpls := []chainx.Tpl{xferTpl(bs - 1 - pre), xferTpl(1), xferTpl(bs - pre), xferTpl(bs)}
	var names []string
	for _, t := range tpls {
		names = append(names, t.Name)
	}
	sc, err := chainx.NewScenario(f, 0, tpls)
	if err != nil {
		return nil, nil, err
	}
	seqs := [][]int{{0, 1, 1, 1}} // 127, 128, 129, 130 entries
	if r.Thorough() {
		seqs = append(seqs, []int{2, 3, 1}, []int{0, 3, 1, 1}) // 128, 256, 257 | 127, 255, 256, 257
	}
	byLen := map[int]*env{}
	var out []*env
	for _, s := range seqs {
		for l := 1; l <= len(s); l++ {
			if err := sc.Grow(s[:l]); err != nil {
				return nil, nil, fmt.Errorf("reset-xfer history %v: %w", s[:l], err)
			}
			if l < 2 {
				continue
			}
			e := byLen[l]
			if e == nil {
				e = &env{r: r, sc: sc}
				byLen[l] = e
				out = append(out, e)
			}
			dup := false
			for _, h := range e.hs {
				dup = dup || fmt.Sprint(h) == fmt.Sprint(s[:l])
			}
			if !dup {
				e.hs = append(e.hs, append([]int{}, s[:l]...))
			}
		}
	}
	return out, names, nil
}

// onlySyncPoint: every difference is GetTokenLastUpdated's entry of the state synchronisation point
// (key math.MinInt32), i.e. a SYSStateSyncPoint record the synchronised-only node does not have.
func onlySyncPoint(d []string) bool {
	for _, l := range d {
		if !strings.Contains(l, "TokenLastUpdated(") || !strings.Contains(l, fmt.Sprintf("map[%d:", math.MinInt32)) {
			return false
		}
	}
	return len(d) > 0
}
