// Package fh is the harness of the C02 part `flushrace` (and of its -race twin
// `flushracerace`): the flusher against block processing.
//
// Blockchain.storeBlock commits a block with bc.dao.PersistPrivate(aerCache,
// cache) while Blockchain.persist (the 1s timer of Run, the GC step after it)
// runs on ANOTHER goroutine without the ledger lock. The main part of C02 takes
// its crash points from batch logs of deterministic sequential runs, so the
// interleaving of the flusher with a block commit is never produced there.
// Here the real core.Blockchain (built with the overlay `flushrace`: write
// locks of memcached_store.go / memory_store.go and the mutexes of
// blockchain.go / headerhashes.go are scheduling points) runs under the
// cooperative scheduler: logical thread "add" hands the next one or two blocks
// to AddBlock, flusher threads call VerifPersist (optionally followed by
// VerifTryRunGC, as Run does) - all interleavings up to a preemption bound.
// Every complete schedule yields a recorded batch log; the C02 oracle is
// applied to every prefix of every DISTINCT log (parent process, recover.go).
package fh

import (
	"crypto/sha256"
	"encoding/binary"
	"encoding/hex"
	"fmt"
	"sort"
	"strings"
	"sync"
	"sync/atomic"

	"github.com/nspcc-dev/neo-go/pkg/config"
	"github.com/nspcc-dev/neo-go/pkg/core/block"
	"github.com/nspcc-dev/neo-go/pkg/core/state"
	"github.com/nspcc-dev/neo-go/pkg/core/storage"
	"github.com/nspcc-dev/neo-go/pkg/io"

	"verif/lib/chainx"
	"verif/lib/sched"
	"verif/shim/vsyncw"
)

// ---- fixtures --------------------------------------------------------------------

// FixSpec names one source chain: protocol family, node-local mode of the
// crashing node, preamble padding and the templates of the blocks handed over.
type FixSpec struct {
	Name   string
	Family string   // chainx family name
	Mode   string   // "" | "prune" (RemoveUntraceableBlocks, GarbageCollectionPeriod 1) | "latest" (KeepOnlyLatestState)
	Pad    int      // empty preamble blocks after the standard three
	Blocks []string // templates of blocks H0+1, H0+2
}

// Fixture is a built FixSpec.
type Fixture struct {
	Spec   FixSpec
	Fam    chainx.Family
	Sc     *chainx.Scenario
	H0     uint32
	Snap   map[string][]byte // flushed store of a node (with the node-local mode) at height H0
	Wire   [][]byte          // wire bytes of ALL blocks, index i = height i+1
	Obs    []*chainx.Obs     // reference observation after each block, index i = height i+1
	GenObs *chainx.Obs       // reference observation of the genesis state
}

type fixEntry struct {
	once sync.Once
	f    *Fixture
}

var (
	fixMu sync.Mutex
	fixes = map[string]*fixEntry{}
)

func cfgOf(mode string) func(*config.Blockchain) {
	switch mode {
	case "prune":
		return func(c *config.Blockchain) {
			c.Ledger.RemoveUntraceableBlocks = true
			c.Ledger.GarbageCollectionPeriod = 1
		}
	case "latest":
		return func(c *config.Blockchain) { c.Ledger.KeepOnlyLatestState = true }
	}
	return nil
}

// Opts are the options of the crashing node (and of every node recovered from its database).
func (f *Fixture) Opts(st storage.Store) chainx.Opts {
	o := f.Fam.Opts()
	o.Cfg = cfgOf(f.Spec.Mode)
	o.Store = st
	return o
}

// Fix returns (building it once per process) the fixture of a spec. The first
// call for a spec must happen outside of a controlled execution.
func Fix(s FixSpec) *Fixture {
	fixMu.Lock()
	e := fixes[s.Name]
	if e == nil {
		e = &fixEntry{}
		fixes[s.Name] = e
	}
	fixMu.Unlock()
	e.once.Do(func() {
		if sched.Cur() != nil {
			panic("c02 flushrace: fixture " + s.Name + " must be built before the controlled execution starts")
		}
		f, err := buildFixture(s)
		if err != nil {
			panic("c02 flushrace fixture " + s.Name + ": " + err.Error())
		}
		e.f = f
	})
	return e.f
}

// Fixture returns the built fixture of the scenario.
func (sc *Scenario) Fixture() *Fixture { return Fix(sc.Fix) }

func buildFixture(s FixSpec) (*Fixture, error) {
	f := &Fixture{Spec: s}
	for _, fam := range chainx.Families() {
		if fam.Name == s.Family {
			f.Fam = fam
		}
	}
	if f.Fam.Name == "" {
		return nil, fmt.Errorf("unknown family %q", s.Family)
	}
	// distinct templates in order of first use; the history is their index sequence
	var names []string
	var h []int
	for _, b := range s.Blocks {
		k := -1
		for i, n := range names {
			if n == b {
				k = i
			}
		}
		if k < 0 {
			names = append(names, b)
			k = len(names) - 1
		}
		h = append(h, k)
	}
	tpls := chainx.TplByName(names...)
	if len(tpls) != len(names) {
		return nil, fmt.Errorf("unknown template in %v", names)
	}
	sc, err := chainx.NewScenario(f.Fam, s.Pad, tpls)
	if err != nil {
		return nil, err
	}
	for i := 1; i <= len(h); i++ {
		if err := sc.Grow(h[:i]); err != nil {
			return nil, fmt.Errorf("history %v: %w", s.Blocks[:i], err)
		}
	}
	f.Sc = sc
	f.Wire, f.Obs = sc.Blocks(h)
	f.H0 = uint32(len(sc.Preamble))
	// the database of a node in the crashing node's mode, gracefully stopped at H0
	st := chainx.NewRecStore(storage.NewMemoryStore()) // survives the node's Close
	st.NoLog = true
	n, err := chainx.New(f.Opts(st))
	if err != nil {
		return nil, err
	}
	for k := 0; k < int(f.H0); k++ {
		if err := n.AddBytes(f.Wire[k]); err != nil {
			n.Close()
			return nil, fmt.Errorf("snapshot node rejects preamble block %d: %w", k+1, err)
		}
	}
	n.Close()
	f.Snap = map[string][]byte{}
	for k, v := range chainx.DumpMap(st) {
		f.Snap[k] = []byte(v)
	}
	g, err := chainx.New(f.Fam.Opts())
	if err != nil {
		return nil, err
	}
	defer g.Close()
	if f.GenObs, err = g.Observe(sc.World.MaxID, sc.World.Hashes()); err != nil {
		return nil, err
	}
	return f, nil
}

// Ref returns the reference observation at height h.
func (f *Fixture) Ref(h uint32) *chainx.Obs {
	if h == 0 {
		return f.GenObs
	}
	return f.Obs[h-1]
}

// ---- scenarios -------------------------------------------------------------------

// Scenario is one configuration: a fixture and what the threads do.
type Scenario struct {
	Name     string
	Fix      FixSpec
	Adds     int        // thread "add" hands blocks H0+1..H0+Adds to AddBlock
	Flushers [][]string // per flusher thread its steps: "p" = VerifPersist, "pg" = persisted height, VerifPersist, VerifTryRunGC (one timer tick of Run)
	Large    bool       // thorough tier only
}

var fixSpecs = []FixSpec{
	{Name: "single", Family: "single", Blocks: []string{"neo-transfer", "u-storage2"}},
	{Name: "srih", Family: "single-srih", Blocks: []string{"u-storage2", "neo-transfer"}},
	{Name: "latest", Family: "single", Mode: "latest", Blocks: []string{"u-storage2", "u-storage2"}},
	// pruning node above MaxTraceableBlocks (6): GC really deletes
	{Name: "prune", Family: "single", Mode: "prune", Pad: 7, Blocks: []string{"neo-transfer", "u-storage2"}},
	{Name: "multi", Family: "multi", Pad: 1, Blocks: []string{"vote1", "neo-transfer"}},
}

func fixSpec(name string) FixSpec {
	for _, s := range fixSpecs {
		if s.Name == name {
			return s
		}
	}
	panic("no fixture " + name)
}

// Scenarios returns the configurations, simplest first.
func Scenarios(thorough bool) []*Scenario {
	type plan struct {
		name     string
		adds     int
		flushers [][]string
		large    bool
	}
	p := func(s ...string) []string { return s }
	plans := []plan{
		{"a1-p1", 1, [][]string{p("p")}, false},
		{"a2-p2", 2, [][]string{p("p", "p")}, false},
		{"a2-p1-p1", 2, [][]string{p("p"), p("p")}, false},
		{"a2-p3", 2, [][]string{p("p", "p", "p")}, true},
		{"a2-p2-p1", 2, [][]string{p("p", "p"), p("p")}, true},
	}
	gcPlans := []plan{
		{"a2-p1", 2, [][]string{p("p")}, false},
		{"a2-pg2", 2, [][]string{p("pg", "pg")}, false},
		{"a2-pg1-p1", 2, [][]string{p("pg"), p("p")}, true},
	}
	var out []*Scenario
	for _, fx := range fixSpecs {
		ps := plans
		if fx.Mode == "prune" {
			ps = gcPlans
		}
		for i, pl := range ps {
			large := pl.large
			// quick: every plan on the plain single family, the first two on the others
			if fx.Name != "single" && fx.Mode != "prune" && i >= 2 {
				large = true
			}
			if fx.Name == "multi" {
				large = true
			}
			if large && !thorough {
				continue
			}
			out = append(out, &Scenario{Name: fx.Name + "/" + pl.name, Fix: fx, Adds: pl.adds, Flushers: pl.flushers, Large: large})
		}
	}
	return out
}

// ---- batch logs ------------------------------------------------------------------

// Out is what one run of a scenario produced.
type Out struct {
	Batches []chainx.Batch
	Started []uint32 // Started[i]: highest block handed to AddBlock when batch i was written
	Final   int      // batches[Final:] were written by the graceful stop
	Hash    string   // identity of the log (content of every batch + Started + Final)
	Desc    string   // readable shape of the log
	Fails   []sched.Fail
}

// Last is the result of the most recent run in this process (the parent reads
// it after replaying a schedule).
var Last *Out

var ttiPrefix = byte(storage.STTokenTransferInfo)

// canonVal: token transfer info serialises a Go map in iteration order; its
// decoded form is hashed instead of the bytes.
func canonVal(k string, v []byte) []byte {
	if len(k) == 0 || k[0] != ttiPrefix || v == nil {
		return v
	}
	ti := state.NewTokenTransferInfo()
	r := io.NewBinReaderFromBuf(v)
	ti.DecodeBinary(r)
	if r.Err != nil {
		return v
	}
	return []byte(fmt.Sprintf("%+v", *ti)) // fmt prints maps in key order
}

func batchHash(b chainx.Batch) [32]byte {
	ks := make([]string, 0, len(b.Put))
	for k := range b.Put {
		ks = append(ks, k)
	}
	sort.Strings(ks)
	h := sha256.New()
	h.Write([]byte(b.Kind))
	var l [4]byte
	for _, k := range ks {
		v := canonVal(k, b.Put[k])
		binary.LittleEndian.PutUint32(l[:], uint32(len(k)))
		h.Write(l[:])
		h.Write([]byte(k))
		if v == nil {
			h.Write([]byte{0})
		} else {
			binary.LittleEndian.PutUint32(l[:], uint32(len(v)))
			h.Write([]byte{1})
			h.Write(l[:])
			h.Write(v)
		}
	}
	var out [32]byte
	copy(out[:], h.Sum(nil))
	return out
}

// PrefixIDs returns, for i = 0..len(batches), an identity of the database
// content "snapshot + batches[:i]" (chain hash over the batch hashes).
func PrefixIDs(batches []chainx.Batch) []string {
	ids := make([]string, 0, len(batches)+1)
	cur := sha256.Sum256(nil)
	ids = append(ids, hex.EncodeToString(cur[:8]))
	for _, b := range batches {
		bh := batchHash(b)
		cur = sha256.Sum256(append(cur[:], bh[:]...))
		ids = append(ids, hex.EncodeToString(cur[:8]))
	}
	return ids
}

type batchInfo struct {
	kind             string
	n                int
	hdr, blk, local  int64 // index carried by SYSCurrentHeader / SYSCurrentBlock / the local state root height key (-1: absent)
	roots            []uint32
	stor, mpt, other int
	dels             int
}

func inspect(b chainx.Batch) batchInfo {
	bi := batchInfo{kind: b.Kind, n: len(b.Put), hdr: -1, blk: -1, local: -1}
	for k, v := range b.Put {
		if v == nil {
			bi.dels++
		}
		switch {
		case len(k) == 1 && k[0] == byte(storage.SYSCurrentHeader) && len(v) == 36:
			bi.hdr = int64(binary.LittleEndian.Uint32(v[32:]))
		case len(k) == 1 && k[0] == byte(storage.SYSCurrentBlock) && len(v) == 36:
			bi.blk = int64(binary.LittleEndian.Uint32(v[32:]))
		case len(k) == 2 && k[0] == byte(storage.DataMPTAux) && k[1] == 0x02 && len(v) == 4:
			bi.local = int64(binary.LittleEndian.Uint32(v))
		case len(k) == 5 && k[0] == byte(storage.DataMPTAux) && v != nil:
			bi.roots = append(bi.roots, binary.BigEndian.Uint32([]byte(k[1:])))
		case len(k) > 0 && (k[0] == byte(storage.STStorage) || k[0] == byte(storage.STTempStorage)):
			bi.stor++
		case len(k) > 0 && k[0] == byte(storage.DataMPT):
			bi.mpt++
		default:
			bi.other++
		}
	}
	sort.Slice(bi.roots, func(i, j int) bool { return bi.roots[i] < bi.roots[j] })
	return bi
}

func (bi batchInfo) String(h0 uint32) string {
	rel := func(x int64) string {
		if x < 0 {
			return "-"
		}
		return fmt.Sprintf("%+d", x-int64(h0))
	}
	var rs []string
	for _, r := range bi.roots {
		rs = append(rs, fmt.Sprintf("%+d", int64(r)-int64(h0)))
	}
	return fmt.Sprintf("%s[n=%d del=%d hdr=%s blk=%s local=%s roots=%s stor=%d mpt=%d]", bi.kind, bi.n, bi.dels, rel(bi.hdr), rel(bi.blk), rel(bi.local), strings.Join(rs, ","), bi.stor, bi.mpt)
}

// CommitSplit checks the direct invariant "a block commit is one batch" on one
// batch of ordinary operation (not of a state reset / state jump): the batch
// that moves the current block pointer to N carries the local state root of N
// (record and height marker), and the batch that moves the local state height
// to N carries the block pointer N. Returns "" or what is missing.
func CommitSplit(b chainx.Batch) string {
	if b.Kind != "put" {
		return ""
	}
	bi := inspect(b)
	if bi.blk >= 0 {
		has := false
		for _, r := range bi.roots {
			has = has || int64(r) == bi.blk
		}
		if !has {
			return fmt.Sprintf("the batch sets SYSCurrentBlock to %d but does not carry the local state root record of %d", bi.blk, bi.blk)
		}
		if bi.local != bi.blk {
			return fmt.Sprintf("the batch sets SYSCurrentBlock to %d but the local state height marker it carries is %d (-1 = absent)", bi.blk, bi.local)
		}
	}
	if bi.local >= 0 && bi.blk != bi.local {
		return fmt.Sprintf("the batch moves the local state height to %d but the block pointer it carries is %d (-1 = absent)", bi.local, bi.blk)
	}
	return ""
}

func finishOut(f *Fixture, o *Out) {
	h := sha256.New()
	var parts []string
	for i, b := range o.Batches {
		bh := batchHash(b)
		h.Write(bh[:])
		var s uint32
		if i < len(o.Started) {
			s = o.Started[i]
		}
		binary.Write(h, binary.LittleEndian, s)
		d := inspect(b).String(f.H0)
		if i >= o.Final {
			d = "stop:" + d
		}
		parts = append(parts, fmt.Sprintf("%s@%+d", d, int64(s)-int64(f.H0)))
	}
	binary.Write(h, binary.LittleEndian, uint32(o.Final))
	o.Hash = hex.EncodeToString(h.Sum(nil))[:20]
	o.Desc = strings.Join(parts, " ")
}

// ---- one run ---------------------------------------------------------------------

// Run executes the scenario once; r == nil: free-running (real goroutines).
func Run(sc *Scenario, r *sched.Run) *Out {
	f := Fix(sc.Fix)
	out := &Out{}
	var mu sync.Mutex // protects out.Fails / started in the free-running mode
	fail := func(key, msg string) {
		mu.Lock()
		defer mu.Unlock()
		for _, x := range out.Fails {
			if x.Key == key {
				return
			}
		}
		out.Fails = append(out.Fails, sched.Fail{Key: key, Msg: msg})
	}
	logf := func(format string, a ...any) {
		if r != nil {
			r.Logf(format, a...)
		}
	}
	vsyncw.RegisterThread() // the main thread of the execution (no-op when free-running)
	rs := chainx.NewRecStore(chainx.ApplyBatches([]chainx.Batch{{Kind: "put", Put: f.Snap}}, 1))
	var startedH atomic.Uint32
	startedH.Store(f.H0)
	var started []uint32
	rs.OnBatch = func(i int) {
		mu.Lock()
		for len(started) <= i {
			started = append(started, startedH.Load())
		}
		mu.Unlock()
		logf("    database: batch %d written", i)
	}
	n, err := chainx.New(f.Opts(rs))
	if err != nil {
		panic("c02 flushrace: cannot open the node on the snapshot: " + err.Error())
	}
	bc := n.BC
	if bc.BlockHeight() != f.H0 {
		panic(fmt.Sprintf("c02 flushrace: node opened at height %d, snapshot is of height %d", bc.BlockHeight(), f.H0))
	}
	var blocks []*block.Block
	for k := 0; k < sc.Adds; k++ {
		b, err := chainx.DecodeBlock(f.Wire[int(f.H0)+k], f.Fam.SRIH)
		if err != nil {
			panic(err)
		}
		blocks = append(blocks, b)
	}
	if r != nil {
		// one more switch point inside AddBlock: header stored, block not yet processed
		bc.VerifSetPointHook(func(int) { r.Yield(1000) })
	}
	var wg sync.WaitGroup
	spawn := func(name string, fn func()) {
		if r != nil {
			r.Go(name, func() {
				vsyncw.RegisterThread()
				fn()
			})
			return
		}
		wg.Add(1)
		go func() {
			defer wg.Done()
			fn()
		}()
	}
	collect := func(graceful bool) {
		bc.VerifSetPointHook(nil)
		final := len(rs.Batches())
		if graceful {
			if err := chainx.Try(n.Close); err != nil {
				fail("stop-failed:"+sc.Name, err.Error())
			}
		}
		mu.Lock()
		out.Batches = rs.Batches()
		out.Started = append([]uint32{}, started...)
		mu.Unlock()
		for len(out.Started) < len(out.Batches) {
			out.Started = append(out.Started, startedH.Load())
		}
		out.Final = final
		finishOut(f, out)
		for i, b := range out.Batches {
			if what := CommitSplit(b); what != "" {
				bi := inspect(b)
				fail(fmt.Sprintf("flushrace-commit-split:%s:block%+d", sc.Name, max(bi.blk, bi.local)-int64(f.H0)),
					fmt.Sprintf("batch %d of %d: %s; log: %s", i+1, len(out.Batches), what, out.Desc))
			}
		}
	}
	if r != nil {
		r.OnEnd(func(end sched.EndKind) {
			switch end {
			case sched.EndFinished:
			case sched.EndDeadlock, sched.EndQuiescent, sched.EndHorizon:
				fail("flushrace-deadlock:"+sc.Name, "no thread can move and not all have finished ("+end.String()+")")
			case sched.EndPanic:
				msg := r.PanicMsg()
				first := msg
				if i := strings.Index(first, "\n"); i > 0 {
					first = first[:i]
				}
				if i := strings.Index(first, "panic: "); i >= 0 {
					first = first[i+7:]
				}
				if len(first) > 100 {
					first = first[:100]
				}
				fail("flushrace-panic:"+sc.Name+":"+first, msg)
			}
			// a thread unwound inside the ledger leaves it half-way: such an instance is dropped without a shutdown
			collect(end == sched.EndFinished)
			Last = out
			for _, x := range out.Fails {
				r.Fail(x.Key, x.Msg)
			}
			r.SetObs(out.Desc)
			if end == sched.EndFinished {
				r.Note("log:"+out.Hash, out.Desc)
			}
		})
	}
	spawn("add", func() {
		for k, b := range blocks {
			startedH.Store(b.Index)
			logf("add: AddBlock(%d) ...", b.Index)
			err := bc.AddBlock(b)
			logf("add: AddBlock(%d) -> %v (height %d)", b.Index, err, bc.BlockHeight())
			if err != nil {
				fail(fmt.Sprintf("flushrace-add-error:%s:block+%d", sc.Name, k+1), fmt.Sprintf("AddBlock(%d) of a valid next block returned %v", b.Index, err))
				return
			}
			if h := bc.BlockHeight(); h != b.Index {
				fail(fmt.Sprintf("flushrace-height:%s:block+%d", sc.Name, k+1), fmt.Sprintf("AddBlock(%d) returned nil, height is %d", b.Index, h))
			}
		}
	})
	for i, steps := range sc.Flushers {
		tn := fmt.Sprintf("flush%d", i+1)
		steps := steps
		spawn(tn, func() {
			for k, s := range steps {
				old := bc.VerifPersistedHeight()
				logf("%s: persist (persisted height %d) ...", tn, old)
				if err := bc.VerifPersist(); err != nil {
					fail(fmt.Sprintf("flushrace-persist-error:%s:%s:%d", sc.Name, tn, k+1), fmt.Sprintf("persist returned %v", err))
					return
				}
				logf("%s: persist done (persisted height %d)", tn, bc.VerifPersistedHeight())
				if s == "pg" {
					bc.VerifTryRunGC(old)
					logf("%s: GC step done", tn)
				}
			}
		})
	}
	if r != nil {
		r.WaitIdle()
		r.NoBranch()
		return out // the end hook completes it
	}
	wg.Wait()
	collect(true)
	return out
}
