package fh

import (
	"fmt"

	"verif/lib/chainx"
)

// Recover opens a new Blockchain on "snapshot + batches[:i]" (the database a
// crash right after batch i leaves) and applies the C02 oracle: start-up
// succeeds, block height <= maxHeight (the highest block handed to AddBlock
// when batch i was written), header height >= block height, the full
// observation at the recovered height equals the reference replica's at that
// height, the remaining blocks are accepted with the reference observations,
// and the node can be stopped and started once more. Returns "" or the failure.
func (f *Fixture) Recover(batches []chainx.Batch, i int, maxHeight uint32) (string, []string) {
	all := append([]chainx.Batch{{Kind: "put", Put: f.Snap}}, batches[:i]...)
	st := chainx.NewRecStore(chainx.ApplyBatches(all, len(all)))
	n, err := chainx.New(f.Opts(st))
	if err != nil {
		return "restart on the crashed database failed: " + err.Error(), nil
	}
	defer func() {
		if n != nil {
			n.Close()
		}
	}()
	maxID, hashes := f.Sc.World.MaxID, f.Sc.World.Hashes()
	h := n.Height()
	if h > maxHeight {
		return fmt.Sprintf("recovered height %d is above the last block handed to the node (%d)", h, maxHeight), nil
	}
	if h < f.H0 {
		return fmt.Sprintf("recovered height %d is below the height %d the database already had before the run", h, f.H0), nil
	}
	if hh := n.BC.HeaderHeight(); hh < h {
		return fmt.Sprintf("header height %d below block height %d", hh, h), nil
	}
	got, err := n.Observe(maxID, hashes)
	if err != nil {
		return "recovered node cannot answer: " + err.Error(), nil
	}
	if d := f.Ref(h).Diff(got); len(d) != 0 {
		return fmt.Sprintf("recovered state at height %+d differs from an uninterrupted node", int64(h)-int64(f.H0)), d
	}
	for k := int(h); k < len(f.Wire); k++ {
		if err := n.AddBytes(f.Wire[k]); err != nil {
			return fmt.Sprintf("recovered node (height %+d) rejects block %+d: %v", int64(h)-int64(f.H0), k+1-int(f.H0), err), nil
		}
		got, err := n.Observe(maxID, hashes)
		if err != nil {
			return "recovered node cannot answer: " + err.Error(), nil
		}
		if d := f.Obs[k].Diff(got); len(d) != 0 {
			return fmt.Sprintf("after recovering at %+d and adding block %+d the state differs", int64(h)-int64(f.H0), k+1-int(f.H0)), d
		}
	}
	m, err := n.Reopen()
	n = m
	if err != nil {
		return fmt.Sprintf("node recovered at height %+d and fed the remaining blocks cannot be restarted again: %v", int64(h)-int64(f.H0), err), nil
	}
	got, err = n.Observe(maxID, hashes)
	if err != nil {
		return "restarted node cannot answer: " + err.Error(), nil
	}
	if d := f.Obs[len(f.Wire)-1].Diff(got); len(d) != 0 {
		return fmt.Sprintf("after recovering at %+d, adding the remaining blocks and a second restart the state differs", int64(h)-int64(f.H0)), d
	}
	return "", nil
}
