// C02, part flushrace: the flusher (Blockchain.persist, optionally followed by
// the GC step, on its own goroutine as in Blockchain.Run) against block
// processing (AddBlock -> storeBlock -> dao.PersistPrivate), on the real
// core.Blockchain under the cooperative scheduler (overlay `flushrace`), all
// interleavings up to a preemption bound. Every complete schedule yields a
// recorded batch log; identical logs are merged and the C02 crash oracle is
// applied to every prefix of every distinct log (harness: checks/c02/fh).
package flushrace

import (
	"encoding/json"
	"fmt"
	"os"
	"runtime"
	"sort"
	"strings"
	"sync"
	"testing"
	"time"

	"verif/checks/c02/fh"
	"verif/lib/sched"
	"verif/lib/vk"
)

func configs(scs []*fh.Scenario, thorough bool) []*sched.Config {
	var cfgs []*sched.Config
	for _, sc := range scs {
		sc := sc
		c := &sched.Config{Name: sc.Name, Body: func(r *sched.Run) { fh.Run(sc, r) }}
		if thorough && !sc.Large {
			c.MaxBound = 3
		}
		cfgs = append(cfgs, c)
	}
	return cfgs
}

// detail is the replay artefact of this part.
type detail struct {
	Scenario string   `json:"scenario"` // always "flushrace" (the other parts of C02 skip such artefacts)
	Config   string   `json:"config"`
	Bound    int      `json:"bound"`
	Choices  []uint16 `json:"choices"`
	Crash    int      `json:"crash_after_batches"` // -1: the failure shows in the run itself
	Batches  int      `json:"batches"`
	MaxH     uint32   `json:"last_block_handed_over,omitempty"`
	Key      string   `json:"key"`
	What     string   `json:"what"`
	Diff     []string `json:"diff,omitempty"`
	Log      string   `json:"batch_log,omitempty"`
	LogHash  string   `json:"batch_log_id,omitempty"`
	Count    int64    `json:"schedules_with_this_log,omitempty"`
	Trace    []string `json:"trace,omitempty"`
}

func checkError(format string, a ...any) {
	fmt.Printf("CHECK-ERROR (engine, not a property violation): "+format+"\n", a...)
	vk.CleanScratch()
	os.Exit(3)
}

func scenarioOf(scs []*fh.Scenario, name string) *fh.Scenario {
	for _, s := range scs {
		if s.Name == name {
			return s
		}
	}
	return nil
}

func TestCheck(t *testing.T) {
	vk.UseT(t)
	thorough := os.Getenv("VERIF_TIER") == "thorough"
	scs := fh.Scenarios(thorough)
	cfgs := configs(scs, thorough)
	if sched.IsWorker() {
		// fixtures are built outside of any controlled execution: only the one this job needs
		var job struct {
			Config string `json:"config"`
		}
		if b, err := os.ReadFile(os.Getenv("VERIF_SCHED_JOB")); err == nil && json.Unmarshal(b, &job) == nil {
			if sc := scenarioOf(scs, job.Config); sc != nil {
				fh.Fix(sc.Fix)
			}
		}
		sched.WorkerMain(cfgs)
	}
	r := vk.Start("C02", "fault_enumeration", 70*time.Second, 12*time.Minute)
	defer vk.CleanScratch()
	if r.Replay != "" {
		replay(r, fh.Scenarios(true), configs(fh.Scenarios(true), true))
		return
	}
	// all fixtures (the parent replays and recovers)
	var specs []fh.FixSpec
	seen := map[string]bool{}
	for _, sc := range scs {
		if !seen[sc.Fix.Name] {
			seen[sc.Fix.Name] = true
			specs = append(specs, sc.Fix)
		}
	}
	r.Parallel(len(specs), func(i int) { fh.Fix(specs[i]) })
	dir, _ := vk.Scratch("flushrace")
	e := &sched.Explorer{Configs: cfgs, Procs: runtime.NumCPU(), JobMillis: vk.Pick(r, 2500, 6000), Dir: dir, Expired: r.Expired}
	const reqBound = 2 // every config; thorough: the configs of the quick tier one bound deeper
	boundOf := func(c *sched.Config) int {
		if c.MaxBound > 0 {
			return c.MaxBound
		}
		return 2
	}
	reported := map[string]bool{}
	anyNew := false
	report := func(st map[string]*sched.Stats) {
		for _, c := range cfgs {
			s := st[c.Name]
			if s == nil {
				continue
			}
			for _, k := range s.SortedFailKeys() {
				if reported[k] {
					continue
				}
				reported[k] = true
				f := s.Fails[k]
				var events []string
				for i := 0; i < 5; i++ {
					res := sched.Replay(c, f.Choices)
					ok := false
					for _, g := range res.Fails {
						ok = ok || g.Key == k
					}
					if !ok {
						checkError("violation %s did not reproduce on in-process replay %d of schedule %v (end %s %s)", k, i, f.Choices, res.End, res.Err)
					}
					events = res.Events
				}
				if len(events) > 300 {
					events = events[:300]
				}
				if r.Violation(k, detail{Scenario: "flushrace", Config: c.Name, Bound: f.Bound, Choices: f.Choices, Crash: -1, Key: k, What: f.Msg, Log: f.Obs, Count: f.Count, Trace: events}) {
					anyNew = true
				}
			}
		}
	}
	var last map[string]*sched.Stats
	completed, deeper := -1, 0
	var totalExecs, totalPoints int64
	var perBound []map[string]any
	for b := 0; b <= 3; b++ {
		var names []string
		for _, c := range cfgs {
			if boundOf(c) >= b {
				names = append(names, c.Name)
			}
		}
		if len(names) == 0 {
			break
		}
		t0 := time.Now()
		st, complete, err := e.RunBound(names, b)
		if err != nil {
			checkError("%v", err)
		}
		var ex, pts int64
		logs, maxPts := 0, 0
		ends := map[string]int64{}
		for _, n := range names {
			s := st[n]
			ex += s.Execs
			pts += s.Points
			maxPts = max(maxPts, s.MaxPoints)
			for k, v := range s.Ends {
				ends[k] += v
			}
			for k := range s.Notes {
				if strings.HasPrefix(k, "log:") {
					logs++
				}
			}
		}
		totalExecs += ex
		totalPoints += pts
		fmt.Printf("bound %d: %s configs=%d schedules=%d points=%d (max %d per schedule) distinct_batch_logs=%d ends=%v wall=%.1fs\n",
			b, map[bool]string{true: "complete", false: "INCOMPLETE (deadline)"}[complete], len(names), ex, pts, maxPts, logs, ends, time.Since(t0).Seconds())
		perBound = append(perBound, map[string]any{"bound": b, "complete": complete, "configs": len(names), "schedules": ex, "points": pts, "distinct_batch_logs": logs})
		report(st)
		if !complete {
			r.Capped()
			if last == nil {
				last = st
			}
			break
		}
		if last == nil {
			last = st
		} else {
			for n, x := range st {
				last[n] = x
			}
		}
		if b <= reqBound {
			completed = b
		} else {
			deeper = len(names)
		}
		if anyNew {
			break
		}
	}
	// determinism: first and last schedule of every config, twice each, in this process
	det := 0
	for _, c := range cfgs {
		s := last[c.Name]
		if s == nil {
			continue
		}
		for _, rec := range []*sched.SchedRec{s.First, s.Last} {
			if rec == nil {
				continue
			}
			if msg := sched.CheckDeterminism(c, rec, 2); msg != "" {
				checkError("nondeterminism not captured: %s", msg)
			}
			det += 2
		}
	}
	// distinct batch logs: regenerate each from its shortest schedule, collect the distinct crash states
	type crash struct {
		cfg     *sched.Config
		sc      *fh.Scenario
		out     *fh.Out
		i       int
		choices []uint16
		bound   int
		count   int64
	}
	var jobs []crash
	crashSeen := map[string]bool{}
	nLogs, nLogs2, allPrefixes := 0, 0, 0
	var table []string
	for _, c := range cfgs {
		s := last[c.Name]
		if s == nil {
			continue
		}
		sc := scenarioOf(scs, c.Name)
		var keys []string
		for k := range s.Notes {
			if strings.HasPrefix(k, "log:") {
				keys = append(keys, k)
			}
		}
		sort.Strings(keys)
		own := 0
		for _, k := range keys {
			if r.Expired() {
				break
			}
			nt := s.Notes[k]
			res := sched.Replay(c, nt.Choices)
			out := fh.Last
			if res.End != sched.EndFinished || out == nil || "log:"+out.Hash != k {
				got := "?"
				if out != nil {
					got = out.Hash + " " + out.Desc
				}
				checkError("nondeterminism not captured: config %s schedule %v gave batch log %s in a worker and %s (end %s %s) when replayed", c.Name, nt.Choices, k, got, res.End, res.Err)
			}
			nLogs++
			if len(out.Batches) >= 2 {
				nLogs2++
			}
			ids := fh.PrefixIDs(out.Batches)
			for i := 0; i <= len(out.Batches); i++ {
				allPrefixes++
				maxH := sc.Fixture().H0
				if i > 0 {
					maxH = out.Started[i-1]
				}
				id := fmt.Sprintf("%s/%s/%d", sc.Fix.Name, ids[i], maxH)
				if crashSeen[id] {
					continue
				}
				crashSeen[id] = true
				own++
				jobs = append(jobs, crash{c, sc, out, i, nt.Choices, nt.Bound, nt.Count})
			}
			r.Outcome("log-shape:" + shape(out.Desc))
		}
		avg := int64(0)
		if s.Execs > 0 {
			avg = s.Points / s.Execs
		}
		table = append(table, fmt.Sprintf("%s: schedules=%d points/schedule=%d..%d(avg %d) threads=%d distinct_batch_logs=%d new_crash_states=%d ends=%v", c.Name, s.Execs, s.MinPoints, s.MaxPoints, avg, s.MaxThreads, len(keys), own, s.Ends))
	}
	for _, l := range table {
		fmt.Println("  " + l)
	}
	var recovered vk.Counter
	var vmu sync.Mutex
	type failRec struct {
		job int
		key string
	}
	failing := map[string][]failRec{}
	results := make([]*detail, len(jobs))
	r.Parallel(len(jobs), func(k int) {
		j := jobs[k]
		f := j.sc.Fixture()
		maxH := f.H0
		if j.i > 0 {
			maxH = j.out.Started[j.i-1]
		}
		what, diff := f.Recover(j.out.Batches, j.i, maxH)
		recovered.Inc()
		if what == "" {
			r.Outcome("crash point consistent")
			r.Sample(map[string]any{"config": j.cfg.Name, "batch_log": j.out.Desc, "crash_after_batches": j.i, "schedules_with_this_log": j.count})
			return
		}
		r.Outcome("violation")
		w := what
		if i := strings.Index(w, ": "); i > 0 {
			w = w[:i]
		}
		if len(w) > 60 {
			w = w[:60]
		}
		class := w + ":" + j.cfg.Name
		key := fmt.Sprintf("flushrace:%s:crash%d/%d:log%s", class, j.i, len(j.out.Batches), j.out.Hash[:8])
		vmu.Lock()
		failing[class] = append(failing[class], failRec{k, key})
		vmu.Unlock()
		results[k] = &detail{Scenario: "flushrace", Config: j.cfg.Name, Bound: j.bound, Choices: j.choices, Crash: j.i, Batches: len(j.out.Batches), MaxH: maxH, Key: key, What: what, Diff: diff, Log: j.out.Desc, LogHash: j.out.Hash, Count: j.count}
	})
	// one violation per (failure, config): the first failing crash state in plan order
	var classes []string
	for c := range failing {
		classes = append(classes, c)
	}
	sort.Strings(classes)
	perClass := map[string]int{}
	for _, c := range classes {
		fs := failing[c]
		sort.Slice(fs, func(a, b int) bool { return fs[a].job < fs[b].job })
		perClass[c] = len(fs)
		d := results[fs[0].job]
		if res := sched.Replay(jobs[fs[0].job].cfg, d.Choices); res != nil {
			d.Trace = res.Events
			if len(d.Trace) > 300 {
				d.Trace = d.Trace[:300]
			}
		}
		r.Violation(fs[0].key, d)
	}
	var names []string
	for _, c := range cfgs {
		names = append(names, c.Name)
	}
	cov := map[string]any{
		"evaluations":                          int(recovered.Get()),
		"distinct_nontrivial":                  nLogs2,
		"rule":                                 "flushrace: a case = one distinct recorded batch log of a (fixture, thread plan) configuration, found by exploring ALL schedules of thread add (AddBlock of the next one or two blocks) against the flusher threads (VerifPersist, optionally + VerifTryRunGC) up to the preemption bound on the real core.Blockchain; for each distinct log EVERY prefix is recovered with a new Blockchain and compared with the reference replica, fed the remaining blocks and restarted (prefixes giving the same database content under the same height bound are recovered once); evaluations = crash states recovered; distinct_nontrivial = distinct logs with >= 2 batches; in every schedule additionally: every batch moving the block pointer carries that block's local state root and vice versa",
		"flushrace_schedules":                  int(totalExecs),
		"flushrace_scheduling_points":          int(totalPoints),
		"flushrace_distinct_batch_logs":        nLogs,
		"flushrace_batch_log_prefixes":         allPrefixes,
		"flushrace_distinct_crash_states":      len(jobs),
		"flushrace_crash_states_recovered":     int(recovered.Get()),
		"flushrace_configs":                    len(cfgs),
		"flushrace_failing_crash_states":       perClass,
		"flushrace_config_names":               names,
		"flushrace_completed_preemption_bound": completed,
		"flushrace_requested_preemption_bound": reqBound,
		"flushrace_configs_one_bound_deeper":   deeper,
		"flushrace_per_bound":                  perBound,
		"flushrace_per_config_at_last_bound":   table,
		"flushrace_determinism_replays":        det,
		"flushrace_worker_jobs":                int(e.Jobs),
		"flushrace_switch_points":              "write-lock operations of pkg/core/storage memcached_store.go + memory_store.go (MemCachedStore.mut, plock, the MemoryStore backend), Mutex/RWMutex/Cond operations of pkg/core blockchain.go + headerhashes.go, header-added hook inside AddBlock",
	}
	if completed < reqBound && !anyNew {
		cov["exhaustive"] = false
	}
	r.Finish(cov, []string{
		"flushrace: context switches are explored at the write-lock operations of the storage layer, at the mutex/rwmutex/cond operations of blockchain.go and headerhashes.go and at the header-added hook inside AddBlock; read locks of the storage layer are not switch points (storeBlock's free-running AER goroutine takes them), code between two points runs without interruption; read/write interleavings inside the storage layer are C09's concurrent part, data races the -race twin of this part",
		"flushrace: storeBlock's AER writer goroutine and the event dispatcher are free-running real goroutines (they meet the block-adding thread only on real channels and read shared stores under real read locks)",
		"flushrace: 'last accepted block' of a crash point = highest block handed to AddBlock when the batch was written (the call may not have returned yet)",
	})
}

// shape drops the numbers of keys from a log description (outcome classes).
func shape(desc string) string {
	var out []string
	for _, b := range strings.Fields(desc) {
		kind := b
		if i := strings.Index(b, "["); i >= 0 {
			kind = b[:i]
		}
		get := func(name string) string {
			i := strings.Index(b, name+"=")
			if i < 0 {
				return ""
			}
			rest := b[i+len(name)+1:]
			if j := strings.IndexAny(rest, " ]"); j >= 0 {
				rest = rest[:j]
			}
			return rest
		}
		out = append(out, fmt.Sprintf("%s(h%s,b%s)", kind, get("hdr"), get("blk")))
	}
	s := strings.Join(out, " ")
	if len(s) > 150 {
		s = s[:150]
	}
	return s
}

func replay(r *vk.Run, scs []*fh.Scenario, cfgs []*sched.Config) {
	var d detail
	if err := r.ReadReplay(&d); err != nil {
		fmt.Println("cannot read replay:", err)
		os.Exit(3)
	}
	c := sched.Find(cfgs, d.Config)
	if d.Scenario != "flushrace" || c == nil {
		fmt.Printf("replay: the artefact is not a schedule of the flushrace part (scenario %q config %q): nothing to replay here\n", d.Scenario, d.Config)
		r.Finish(map[string]any{"evaluations": 1, "distinct_nontrivial": 2, "rule": "replay (other part)"}, nil)
	}
	sc := scenarioOf(scs, d.Config)
	f := fh.Fix(sc.Fix)
	for i := 0; i < 5; i++ {
		res := sched.Replay(c, d.Choices)
		if res.End == sched.EndError {
			checkError("replay: %s", res.Err)
		}
		out := fh.Last
		if d.Crash < 0 {
			var ks []string
			for _, x := range res.Fails {
				ks = append(ks, x.Key)
				if i == 0 {
					r.Violation(x.Key, detail{Scenario: "flushrace", Config: c.Name, Choices: d.Choices, Crash: -1, Key: x.Key, What: x.Msg, Log: res.Obs, Trace: res.Events})
				}
			}
			fmt.Printf("replay %d: config=%s decisions=%d points=%d end=%s violations=%v\n  log: %s\n", i+1, c.Name, len(res.Trace), res.Points, res.End, ks, res.Obs)
			continue
		}
		if out == nil || d.Crash > len(out.Batches) {
			fmt.Printf("replay %d: the schedule gave a log of another length (%v)\n", i+1, out != nil)
			continue
		}
		maxH := f.H0
		if d.Crash > 0 {
			maxH = out.Started[d.Crash-1]
		}
		what, diff := f.Recover(out.Batches, d.Crash, maxH)
		if what != "" {
			fmt.Printf("replay %d: REPRODUCED crash %d/%d: %s %v\n  log: %s\n", i+1, d.Crash, len(out.Batches), what, diff, out.Desc)
			if i == 0 {
				r.Violation("replay:"+d.Key, detail{Scenario: "flushrace", Config: c.Name, Choices: d.Choices, Crash: d.Crash, Batches: len(out.Batches), Key: d.Key, What: what, Diff: diff, Log: out.Desc, LogHash: out.Hash, Trace: res.Events})
			}
		} else {
			fmt.Printf("replay %d: crash point %d/%d consistent\n  log: %s\n", i+1, d.Crash, len(out.Batches), out.Desc)
		}
	}
	r.Finish(map[string]any{"evaluations": 5, "distinct_nontrivial": 2, "rule": "replay"}, nil)
}
