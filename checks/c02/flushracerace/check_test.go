// C02, flushrace data-race twin: the harness bodies of checks/c02/flushrace
// (a thread handing the next blocks to AddBlock, flusher threads calling
// VerifPersist / VerifTryRunGC) run free (real goroutines) on the UNMODIFIED
// pkg/core, pkg/core/dao and pkg/core/storage under -race. A race report, a
// failed call or a batch that splits a block commit is a violation.
package flushracerace

import (
	"sync"
	"testing"
	"time"

	"verif/checks/c02/fh"
	"verif/lib/sched"
	"verif/lib/vk"
)

func child(deadline time.Time) *sched.RaceSummary {
	s := &sched.RaceSummary{PerConfig: map[string]int{}, Fails: map[string]string{}, Notes: map[string]int{}}
	logs := map[string]bool{}
	var mu sync.Mutex
	scs := fh.Scenarios(false)
	for _, sc := range scs {
		fh.Fix(sc.Fix)
	}
	var wg sync.WaitGroup
	sem := make(chan struct{}, 8)
	// round-robin over the scenarios so that a deadline cuts all of them evenly
	const rounds = 40
loop:
	for i := 0; i < rounds; i++ {
		for _, sc := range scs {
			if time.Now().After(deadline) {
				s.Capped = true
				break loop
			}
			sem <- struct{}{}
			wg.Add(1)
			go func() {
				defer func() { <-sem; wg.Done() }()
				out := fh.Run(sc, nil)
				mu.Lock()
				defer mu.Unlock()
				s.Iterations++
				s.PerConfig[sc.Name]++
				logs[sc.Name+" "+out.Hash] = true
				for _, f := range out.Fails {
					if _, ok := s.Fails[f.Key]; !ok {
						s.Fails[f.Key] = f.Msg
					}
				}
			}()
		}
	}
	wg.Wait()
	s.Distinct = len(logs)
	return s
}

func TestCheck(t *testing.T) {
	vk.UseT(t)
	sched.RaceChild(child)
	r := vk.Start("C02", "fault_enumeration", 60*time.Second, 5*time.Minute)
	sched.RunRaceParent(r, vk.Pick(r, 12, 90),
		"flushrace data-race pass: the flushrace harness bodies (AddBlock of the next blocks against VerifPersist / VerifTryRunGC threads) free-running on the unmodified pkg/core + dao + storage under the Go race detector; a race report, a failed call or a batch splitting a block commit is a violation",
		[]string{"the flushrace race pass is a sample of free-running schedules (the exhaustive part is the scheduler part)"})
}
