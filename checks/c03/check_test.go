// C03: the state root of every height commits exactly to contract storage.
//
// Every block history of a bounded tree (all K^B sequences over a storage-heavy
// block alphabet, on top of a fixed preamble) is executed on a fresh replica.
// After every block the flat contract storage of the live node is dumped
// (map_h, read through Blockchain.SeekStorage: the representation that is not
// the trie) and a set of read-only invocations is run and recorded. At the end
// of the history, for every height h, the trie named by root_h is questioned
// through the stateroot module / mpt package and compared with map_h:
// O1 range searches, O2 point reads, O3 proofs, O4 historic invocations.
package c03

import (
	"fmt"
	"os"
	"runtime/pprof"
	"slices"
	"sort"
	"strings"
	"sync"
	"testing"
	"time"

	"github.com/nspcc-dev/neo-go/pkg/config"
	"github.com/nspcc-dev/neo-go/pkg/core"
	"github.com/nspcc-dev/neo-go/pkg/core/mpt"
	"github.com/nspcc-dev/neo-go/pkg/core/stateroot"
	"github.com/nspcc-dev/neo-go/pkg/core/storage"

	"verif/lib/chainx"
	"verif/lib/vk"
)

// nodeVariant is a node-local configuration of the replica under test.
type nodeVariant struct {
	Name    string
	Flush   bool // flush the write cache after every block
	GC      bool // RemoveUntraceableBlocks + a GC step after every flush
	Latest  bool // KeepOnlyLatestState
	Restart bool // the node is restarted before the last block of the history and again before the reads
}

func (v nodeVariant) cfg(c *config.Blockchain) {
	if v.GC {
		c.Ledger.RemoveUntraceableBlocks = true
		c.Ledger.GarbageCollectionPeriod = 1
	}
	if v.Latest {
		c.Ledger.KeepOnlyLatestState = true
	}
}

var (
	vArchival      = nodeVariant{Name: "archival"}
	vArchivalFlush = nodeVariant{Name: "archival-flush", Flush: true}
	vGC            = nodeVariant{Name: "prune-gc", Flush: true, GC: true}
	vLatest        = nodeVariant{Name: "latest", Flush: true, Latest: true}
	vLatestGC      = nodeVariant{Name: "latest-gc", Flush: true, Latest: true, GC: true}
	// restarts: the state module is re-initialised from the flushed store (Init),
	// the in-memory trie is rebuilt from a hash node
	vArchivalRestart = nodeVariant{Name: "archival-restart", Flush: true, Restart: true}
	vGCRestart       = nodeVariant{Name: "prune-gc-restart", Flush: true, GC: true, Restart: true}
	// GC mode without any flush: everything, inactive records included, sits in the write cache
	vGCCached = nodeVariant{Name: "prune-gc-cached", GC: true}
)

var allVariants = []nodeVariant{vArchival, vArchivalFlush, vGC, vLatest, vLatestGC, vArchivalRestart, vGCRestart, vGCCached}

func variantByName(n string) nodeVariant {
	for _, v := range allVariants {
		if v.Name == n {
			return v
		}
	}
	panic("c03: no variant " + n)
}

type famSpec struct {
	chainx.Family
	Pad    int
	Pruned bool // additionally run the pruned node variants
	Tail   int  // empty blocks appended after the history (so that history roots fall out of the retention window)
	Depth  int  // history depth (0 = the tier's)
	Focus  bool // shape plans: the exhaustive O1 pass enumerates the prefixes / starts of UA's and UB's keys only
}

func families(thorough bool) []famSpec {
	f := []famSpec{
		{Family: chainx.Family{Name: "single", MTB: 6}},
		{Family: chainx.Family{Name: "single-srih", SRIH: true, MTB: 6}},
		{Family: chainx.Family{Name: "single-mtb2", MTB: 2}, Pruned: true, Tail: 2},
	}
	if thorough {
		f = append(f, famSpec{Family: chainx.Family{Name: "multi", Multi: true, MTB: 8}, Pad: 1, Depth: 2})
	}
	return f
}

// variantsOf returns the node variants history number i of a family runs on.
func variantsOf(f famSpec, i int, thorough bool) []nodeVariant {
	a := []nodeVariant{vArchival, vArchivalFlush, vArchival, vArchivalRestart}[i%4]
	if f.Pruned {
		if thorough {
			return []nodeVariant{a, vGC, vLatest, vLatestGC, vGCRestart}
		}
		return []nodeVariant{a, vGC, vLatest, []nodeVariant{vLatestGC, vGCRestart}[i%2]}
	}
	return []nodeVariant{a}
}

type caseRec struct {
	Kind    string   `json:"kind,omitempty"` // "" = history run; else the extension family (ext_*_test.go)
	Family  string   `json:"family"`
	Pad     int      `json:"pad"`
	History []string `json:"history"`
	Variant string   `json:"variant"`
	Height  uint32   `json:"height"`
	Focus   bool     `json:"focus,omitempty"`
	Top     uint32   `json:"top,omitempty"`  // extension families: the chain is grown to this height
	Spec    string   `json:"spec,omitempty"` // family synced: sync point, data mode, delivery order, restarts
	Oracle  string   `json:"oracle"`
	Class   string   `json:"class"`
	Call    string   `json:"call"`
	Got     string   `json:"got"`
	Want    string   `json:"want"`
}

type counters struct {
	histRuns, blocks, heights, keys, finds, seeks, storeSeeks, gets, proofsOK, proofsRefused, crossProofs,
	histInv, histInvHalt, liveInv, deepRoots, nonRetained, extRuns, winStates, winInv, rpcStates, rpcCalls, rpcInvEqual, rpcSessions, rejected, inflightPoints, currentReads, resets vk.Counter
	minKeys, maxKeys int64
	mu               sync.Mutex
}

type ctx struct {
	r        *vk.Run
	c        counters
	roots    *vk.Set
	states   *vk.Set
	deepSeen sync.Map // family/root -> digest of map_h
	rpcSeen  sync.Map // family/root -> the rpc family did its exhaustive pass
	deepAll  bool     // replay: no dedup
	cont     contCounters
	synced   syncedCounters
}

// run is one history on one replica.
type run struct {
	cx       *ctx
	fam      famSpec
	v        nodeVariant
	names    []string
	n        *chainx.Node
	w        *chainx.World
	sm       core.StateRoot
	mod      *stateroot.Module
	ids      []int32
	snaps    []*snap
	universe []string
	deepKeys []string              // keys whose prefixes / suffixes the exhaustive O1 pass enumerates
	proofs   []map[string][][]byte // per snap: key -> proof
	reported map[string]bool
	nfail    map[string]int
	outcomes map[string]struct{}
	loc      struct{ finds, seeks, storeSeeks, gets, proofsOK, proofsRefused, crossProofs, histInv, histInvHalt int }
	viol     []*caseRec
	kind     string // extension family the run belongs to ("" = plain history run)
	top      uint32
	sc       *chainx.Scenario
	// heights below this one get the whole-trie range reads only (family reset-cont: the preamble
	// heights no reset touched, which a designated case of every group questions in full)
	lightBelow uint32
	// family synced: the replica holds no state below this height (it jumped there)
	minRetained uint32
	// trie mode of the TrieStore the exhaustive O1 pass builds (as GetTestHistoricVM chooses it for the replica's configuration)
	deepMode mpt.TrieMode
	spec     string
}

// out notes an outcome class seen in this history run (flushed once per run:
// the evidence counts runs exhibiting the class, and the shared counter is not
// hammered from the inner loops).
func (c *run) out(class string) { c.outcomes[class] = struct{}{} }

// fail records a violation; at most one per (oracle, class) and history run.
func (c *run) fail(oracle, class string, s *snap, call, got, want string) {
	if c.reported[oracle+":"+class] {
		return
	}
	c.reported[oracle+":"+class] = true
	c.nfail[oracle]++
	if len(got) > 600 {
		got = got[:600] + "..."
	}
	if len(want) > 600 {
		want = want[:600] + "..."
	}
	c.viol = append(c.viol, &caseRec{Kind: c.kind, Top: c.top, Spec: c.spec, Family: c.fam.Name, Pad: c.fam.Pad, History: c.names, Variant: c.v.Name, Focus: c.fam.Focus, Height: s.H, Oracle: oracle, Class: class, Call: call, Got: got, Want: want})
}

func (r *caseRec) key() string {
	if r.Spec != "" {
		return fmt.Sprintf("%s:%s:%s:%s:%s:%s:%s:h%d:%s", r.Oracle, r.Class, r.Kind, r.Family, r.Variant, strings.Join(r.History, ","), r.Spec, r.Height, r.Call)
	}
	if r.Kind != "" {
		return fmt.Sprintf("%s:%s:%s:%s:%s:%s:h%d:%s", r.Oracle, r.Class, r.Kind, r.Family, r.Variant, strings.Join(r.History, ","), r.Height, r.Call)
	}
	return fmt.Sprintf("%s:%s:%s:%s:%s:h%d:%s", r.Oracle, r.Class, r.Family, r.Variant, strings.Join(r.History, ","), r.Height, r.Call)
}

// newRun starts a fresh replica of variant v for history h of sc.
func (cx *ctx) newRun(sc *chainx.Scenario, fam famSpec, v nodeVariant, h []int) (*run, error) {
	opts := fam.Family.Opts()
	opts.Cfg = v.cfg
	n, err := chainx.New(opts)
	if err != nil {
		return nil, err
	}
	return cx.runOn(sc, fam, v, sc.Names(h), n)
}

// runOn makes a run of an existing replica.
func (cx *ctx) runOn(sc *chainx.Scenario, fam famSpec, v nodeVariant, names []string, n *chainx.Node) (*run, error) {
	c := &run{cx: cx, fam: fam, v: v, names: names, n: n, w: sc.World.Attach(n), sc: sc, reported: map[string]bool{}, nfail: map[string]int{}, outcomes: map[string]struct{}{}}
	c.sm, c.mod = module(n)
	if c.mod == nil {
		n.Close()
		return nil, fmt.Errorf("state module is not *stateroot.Module")
	}
	// all ids that may ever hold storage: natives (some are deployed by a
	// hardfork later than genesis) and deployed contracts
	for id := int32(-16); id <= c.w.MaxID+2; id++ {
		if id != 0 {
			c.ids = append(c.ids, id)
		}
	}
	return c, nil
}

// snapNow reads map_H and runs the read-only invocations on the live node.
func (c *run) snapNow() (*snap, error) {
	n := c.n
	height := n.Height()
	sr, err := n.BC.GetStateRoot(height)
	if err != nil {
		return nil, fmt.Errorf("state root of the current height %d: %w", height, err)
	}
	s := newSnap(height, sr.Root, dump(n, c.ids))
	for _, q := range scripts(c.w, height, n.Committee.ScriptHash()) {
		res, halt, err := invoke(n, q.Script, nil)
		if err != nil {
			return nil, fmt.Errorf("live invocation %s at %d: %w", q.Name, height, err)
		}
		s.Live = append(s.Live, invRes{Name: q.Name, Script: q.Script, Res: res, Halt: halt})
		c.cx.c.liveInv.Inc()
	}
	return s, nil
}

// take records what the live node shows at its current height.
func (c *run) take() error {
	s, err := c.snapNow()
	if err != nil {
		return err
	}
	c.snaps = append(c.snaps, s)
	return nil
}

// flush does what the variant does after every block.
func (c *run) flush() error {
	if c.v.Flush {
		old := c.n.BC.VerifPersistedHeight()
		if err := c.n.Persist(); err != nil {
			return fmt.Errorf("flush: %w", err)
		}
		if c.v.GC {
			c.n.BC.VerifTryRunGC(old)
		}
	}
	return nil
}

// finish hands the run's local counters to the shared ones.
func (c *run) finish() {
	cx := c.cx
	for o := range c.outcomes {
		cx.r.Outcome(o)
	}
	cx.c.finds.Add(c.loc.finds)
	cx.c.seeks.Add(c.loc.seeks)
	cx.c.storeSeeks.Add(c.loc.storeSeeks)
	cx.c.gets.Add(c.loc.gets)
	cx.c.proofsOK.Add(c.loc.proofsOK)
	cx.c.proofsRefused.Add(c.loc.proofsRefused)
	cx.c.crossProofs.Add(c.loc.crossProofs)
	cx.c.histInv.Add(c.loc.histInv)
	cx.c.histInvHalt.Add(c.loc.histInvHalt)
}

// runHistory executes history h of sc on a fresh replica of variant v and
// evaluates the oracles. err != nil is a harness problem, not a violation.
func (cx *ctx) runHistory(sc *chainx.Scenario, fam famSpec, v nodeVariant, h []int) (viol []*caseRec, err error) {
	c, err := cx.newRun(sc, fam, v, h)
	if err != nil {
		return nil, err
	}
	defer func() { c.n.Close() }()
	if err := c.take(); err != nil {
		return nil, err
	}
	blocks, _ := sc.Blocks(h)
	for i := 0; i < len(blocks)+fam.Tail; i++ {
		if i < len(blocks) {
			if err := c.n.AddBytes(blocks[i]); err != nil {
				return nil, fmt.Errorf("block %d rejected: %w", i+1, err)
			}
		} else if _, err := c.n.AddBlock(); err != nil {
			return nil, fmt.Errorf("tail block %d rejected: %w", i+1-len(blocks), err)
		}
		cx.c.blocks.Inc()
		if err := c.flush(); err != nil {
			return nil, err
		}
		if v.Restart && i == len(blocks)-2 {
			// a restart in the middle of the history: the module is re-initialised from the store
			if err := c.restart(); err != nil {
				return nil, err
			}
		}
		if err := c.take(); err != nil {
			return nil, err
		}
	}
	if v.Restart {
		if err := c.restart(); err != nil {
			return nil, err
		}
	}
	c.evaluate()
	c.finish()
	return c.viol, nil
}

// restart closes the replica (graceful shutdown flushes) and starts a new one on the same store.
func (c *run) restart() error {
	m, err := c.n.Reopen()
	if err != nil {
		return fmt.Errorf("restart: %w", err)
	}
	c.n = m
	c.w = c.w.Attach(m)
	c.sm, c.mod = module(m)
	if c.mod == nil {
		return fmt.Errorf("state module is not *stateroot.Module")
	}
	return nil
}

// retainedFrom is the lowest height whose state the variant still has to serve.
func (c *run) retainedFrom() uint32 {
	H := c.n.Height()
	switch {
	case c.v.Latest:
		return H
	case c.v.GC:
		mtb := c.n.BC.GetMaxTraceableBlocks()
		if H > mtb {
			return max(H-mtb, c.minRetained)
		}
	}
	return c.minRetained
}

// buildUniverse computes the key universe: every key present at some height + absent probes.
func (c *run) buildUniverse() {
	other := []int32{1, 2, 3, 9, -5}
	set := map[string]struct{}{}
	for _, s := range c.snaps {
		for _, k := range s.Keys {
			set[k] = struct{}{}
		}
	}
	var present []string
	for k := range set {
		present = append(present, k)
	}
	for _, k := range present {
		for _, p := range probes(k, other) {
			set[p] = struct{}{}
		}
	}
	for _, id := range append([]int32{9}, c.ids...) {
		set[trieKey(id, nil)] = struct{}{}
		for _, k := range uKeys {
			if id > 0 {
				set[trieKey(id, k)] = struct{}{}
			}
		}
	}
	set[""] = struct{}{}
	for k := range set {
		if len(k) <= mpt.MaxKeyLength {
			c.universe = append(c.universe, k)
		}
	}
	sort.Strings(c.universe)
	c.deepKeys = c.universe
	if c.fam.Focus {
		// ids of the U instances: 1..3 (+ the unused 9 of the probes)
		c.deepKeys = nil
		for _, k := range c.universe {
			if len(k) < 4 || (k[1] == 0 && k[2] == 0 && k[3] == 0) {
				c.deepKeys = append(c.deepKeys, k)
			}
		}
	}
}

func (c *run) evaluate() {
	cx := c.cx
	c.buildUniverse()
	from := c.retainedFrom()
	c.proofs = make([]map[string][][]byte, len(c.snaps))
	for i, s := range c.snaps {
		retained := s.H >= from
		cx.c.heights.Inc()
		cx.c.keys.Add(len(s.Keys))
		cx.c.mu.Lock()
		if cx.c.minKeys == 0 || int64(len(s.Keys)) < cx.c.minKeys {
			cx.c.minKeys = int64(len(s.Keys))
		}
		if int64(len(s.Keys)) > cx.c.maxKeys {
			cx.c.maxKeys = int64(len(s.Keys))
		}
		cx.c.mu.Unlock()
		cx.roots.Add(c.fam.Name + "/" + s.Root.StringLE())
		cx.states.Add(fmt.Sprintf("%s/%s/%d/%s", c.fam.Name, c.v.Name, s.H, s.Root.StringLE()))
		if !retained {
			cx.c.nonRetained.Inc()
		}
		c.light(s, retained)
		if s.H < c.lightBelow {
			continue
		}
		c.points(i, s, retained)
		c.historic(s, retained)
		if retained && !c.v.GC && !c.v.Latest {
			dg := digest(s)
			key := fmt.Sprintf("%s/%v/%s", c.fam.Name, c.fam.Focus, s.Root.StringLE())
			prev, seen := cx.deepSeen.LoadOrStore(key, dg)
			if seen && prev.(string) != dg {
				c.fail("same-root-different-storage", "-", s, "root "+s.Root.StringLE(), dg, prev.(string))
			}
			if !seen || cx.deepAll {
				cx.c.deepRoots.Inc()
				c.deep(s)
			}
		}
	}
	c.crossHeight(from)
}

func digest(s *snap) string {
	var sb strings.Builder
	for _, k := range s.Keys {
		sb.WriteString(k)
		sb.WriteByte(0)
		sb.WriteString(s.M[k])
		sb.WriteByte(1)
	}
	return fmt.Sprintf("%d/%x", len(s.Keys), mptHash(sb.String()))
}

// ---- O1 ---------------------------------------------------------------------------------

const all = 1 << 20

func startClass(start []byte) string {
	switch {
	case start == nil:
		return "nil-start"
	case len(start) == 0:
		return "empty-start"
	}
	return "start"
}

func seekClass(start []byte, backwards bool) string {
	c := "no-start"
	if len(start) > 0 {
		c = "start"
	}
	if backwards {
		return c + "-backwards"
	}
	return c + "-forwards"
}

func startName(start []byte) string {
	if start == nil {
		return "nil"
	}
	return fmt.Sprintf("%x", start)
}

// find checks one FindStates call.
func (c *run) find(s *snap, prefix, start []byte, max int, retained bool) {
	want := s.expectFind(prefix, start, max)
	var (
		got []storage.KeyValue
		err error
	)
	c.loc.finds++
	pan := guard(func() { got, err = c.sm.FindStates(s.Root, prefix, start, max) })
	call := fmt.Sprintf("FindStates(prefix=%x,start=%s,max=%d)", prefix, startName(start), max)
	if pan != nil {
		if retained {
			c.fail("O1-find", startClass(start), s, call, fmt.Sprintf("panic: %v", pan), kvsString(want))
		} else {
			c.out("nonretained:find:panic")
		}
		return
	}
	if err != nil {
		if !retained {
			c.out("nonretained:find:error")
			return
		}
		if isNotFound(err) && len(want) == 0 {
			c.out("find:empty->ErrNotFound")
			return
		}
		c.fail("O1-find", startClass(start), s, call, "error: "+err.Error(), kvsString(want))
		return
	}
	if !sameKVs(toKVs(got), want) {
		c.fail("O1-find", startClass(start), s, call, kvsString(toKVs(got)), kvsString(want))
		return
	}
	if !retained {
		c.out("nonretained:find:equal")
	} else if len(want) == 0 {
		c.out("find:empty->no-error")
	}
}

// seek checks one SeekStates call stopped after stop results (0 = never).
func (c *run) seek(s *snap, prefix []byte, stop int, retained bool) {
	max := all
	if stop > 0 {
		max = stop
	}
	want := s.expectFind(prefix, nil, max)
	for i := range want {
		want[i].K = want[i].K[len(prefix):]
	}
	var got []kv
	c.loc.seeks++
	pan := guard(func() {
		c.sm.SeekStates(s.Root, prefix, func(k, v []byte) bool {
			got = append(got, kv{string(k), string(v)})
			return stop == 0 || len(got) < stop
		})
	})
	call := fmt.Sprintf("SeekStates(prefix=%x,stop=%d)", prefix, stop)
	if !retained {
		// no error channel: a listing may end early, but what it delivers must be right
		if !isPrefixKVs(got, want) {
			c.fail("O1-seek-nonretained", "-", s, call, kvsString(got), kvsString(want))
			return
		}
		switch {
		case pan != nil:
			c.out("nonretained:seek:panic")
		case len(got) < len(want):
			c.out("nonretained:seek:short")
		default:
			c.out("nonretained:seek:equal")
		}
		return
	}
	if pan != nil {
		c.fail("O1-seek", "-", s, call, fmt.Sprintf("panic: %v", pan), kvsString(want))
		return
	}
	if !sameKVs(got, want) {
		c.fail("O1-seek", "-", s, call, kvsString(got), kvsString(want))
	}
}

// storeSeek checks mpt.TrieStore.Seek (what historic invocations read through).
func (c *run) storeSeek(s *snap, ts *mpt.TrieStore, prefix, start []byte, backwards bool) {
	want := s.expectSeek(prefix, start, backwards)
	var got []kv
	c.loc.storeSeeks++
	pfx := append([]byte{byte(storage.STStorage)}, prefix...)
	pan := guard(func() {
		ts.Seek(storage.SeekRange{Prefix: pfx, Start: start, Backwards: backwards}, func(k, v []byte) bool {
			got = append(got, kv{string(k[1:]), string(v)})
			return true
		})
	})
	call := fmt.Sprintf("TrieStore.Seek(prefix=%x,start=%x,backwards=%v)", prefix, start, backwards)
	if pan != nil {
		c.fail("O1-store-seek", seekClass(start, backwards), s, call, fmt.Sprintf("panic: %v", pan), kvsString(want))
		return
	}
	if !sameKVs(got, want) {
		c.fail("O1-store-seek", seekClass(start, backwards), s, call, kvsString(got), kvsString(want))
	}
}

func idPrefix(id int32) []byte { return []byte(trieKey(id, nil)) }

// light is the part of O1 done for every height of every history.
func (c *run) light(s *snap, retained bool) {
	c.find(s, nil, nil, all, retained)
	c.find(s, []byte{}, []byte{}, all, retained)
	for _, id := range append([]int32{9}, c.ids...) {
		p := idPrefix(id)
		c.seek(s, p, 0, retained)
		c.find(s, p, nil, all, retained)
		c.find(s, p, []byte{}, 2, retained)
	}
}

// deep is the exhaustive part of O1: every prefix of every key of the universe
// (from empty to the full key), every start, maxNum in {1,2,all}.
func (c *run) deep(s *snap) {
	seen := map[string]struct{}{}
	mode := c.deepMode
	for _, k := range c.deepKeys {
		for l := 0; l <= len(k); l++ {
			p := k[:l]
			if _, ok := seen[p]; ok {
				continue
			}
			seen[p] = struct{}{}
			if c.nfail["O1-find"]+c.nfail["O1-seek"]+c.nfail["O1-store-seek"] >= 6 {
				return
			}
			prefix := []byte(p)
			lo := sort.SearchStrings(c.deepKeys, p)
			var starts [][]byte
			starts = append(starts, nil, []byte{})
			for i := lo; i < len(c.deepKeys) && strings.HasPrefix(c.deepKeys[i], p); i++ {
				if len(c.deepKeys[i]) > l {
					starts = append(starts, []byte(c.deepKeys[i][l:]))
				}
			}
			for _, st := range starts {
				for _, max := range []int{1, 2, all} {
					c.find(s, prefix, st, max, true)
				}
			}
			if l >= 4 {
				for _, stop := range []int{1, 2, 0} {
					c.seek(s, prefix, stop, true)
				}
			}
			ts := mpt.NewTrieStore(s.Root, mode, storage.NewMemCachedStore(c.mod.Store))
			for _, st := range starts[1:] {
				c.storeSeek(s, ts, prefix, st, false)
				c.storeSeek(s, ts, prefix, st, true)
			}
		}
	}
}

// ---- O2, O3 ---------------------------------------------------------------------------

func valStr(v string, ok bool) string {
	if !ok {
		return "<absent>"
	}
	if len(v) > 40 {
		return fmt.Sprintf("%x~(%d)", v[:40], len(v))
	}
	return fmt.Sprintf("%x", v)
}

// verifyMust: a proof may fail to verify or verify to exactly what map_h holds.
func (c *run) verifyMust(s *snap, k string, proof [][]byte, what string) (ok bool) {
	c.loc.crossProofs++
	var (
		val []byte
		res bool
	)
	pan := guard(func() { val, res = mpt.VerifyProof(s.Root, []byte(k), proof) })
	call := fmt.Sprintf("VerifyProof(key=%x,%s)", k, what)
	if pan != nil {
		c.fail("O3-verify", "-", s, call, fmt.Sprintf("panic: %v", pan), "no panic")
		return false
	}
	if !res {
		return false
	}
	want, present := s.M[k]
	if !present || want != string(val) {
		c.fail("O3-verify", "-", s, call, "verified to "+valStr(string(val), true), valStr(want, present))
	}
	return true
}

func (c *run) points(idx int, s *snap, retained bool) {
	c.proofs[idx] = map[string][][]byte{}
	other := []int32{1, 2, 3, 9, -5}
	for _, k := range c.universe {
		if len(k) == 0 {
			continue // Get/GetProof of the empty path is not a storage key
		}
		want, present := s.M[k]
		// O2
		var (
			val []byte
			err error
		)
		c.loc.gets++
		pan := guard(func() { val, err = c.sm.GetState(s.Root, []byte(k)) })
		call := fmt.Sprintf("GetState(key=%x)", k)
		switch {
		case pan != nil:
			if retained {
				c.fail("O2-get", "-", s, call, fmt.Sprintf("panic: %v", pan), valStr(want, present))
			} else {
				c.out("nonretained:get:panic")
			}
		case err != nil:
			if retained && (present || !isNotFound(err)) {
				c.fail("O2-get", "-", s, call, "error: "+err.Error(), valStr(want, present))
			} else if !retained {
				c.out("nonretained:get:error")
			}
		default:
			if !present || string(val) != want {
				c.fail("O2-get", "-", s, call, valStr(string(val), true), valStr(want, present))
			} else if !retained {
				c.out("nonretained:get:equal")
			}
		}
		// O3
		var proof [][]byte
		pan = guard(func() { proof, err = c.sm.GetStateProof(s.Root, []byte(k)) })
		call = fmt.Sprintf("GetStateProof(key=%x)", k)
		switch {
		case pan != nil:
			if retained {
				c.fail("O3-proof", "-", s, call, fmt.Sprintf("panic: %v", pan), valStr(want, present))
			} else {
				c.out("nonretained:proof:panic")
			}
		case err != nil:
			if retained && (present || !isNotFound(err)) {
				c.fail("O3-proof", "-", s, call, "error: "+err.Error(), valStr(want, present))
			} else if !retained {
				c.out("nonretained:proof:error")
			}
			if !present {
				c.loc.proofsRefused++
				// whatever partial path came back must not verify for the absent key
				c.verifyMust(s, k, proof, "partial path returned with the error")
			}
		default:
			if !present {
				c.fail("O3-proof", "-", s, call, fmt.Sprintf("a proof of %d nodes", len(proof)), "an error: the key is absent")
				c.verifyMust(s, k, proof, "proof produced for an absent key")
				break
			}
			if !c.verifyMust(s, k, proof, "own proof") {
				c.fail("O3-verify", "-", s, fmt.Sprintf("VerifyProof(key=%x,own proof)", k), "does not verify", valStr(want, true))
				break
			}
			c.loc.proofsOK++
			c.proofs[idx][k] = proof
			// the proof of k fed for other keys
			for _, o := range probes(k, other) {
				if len(o) > 0 && len(o) <= mpt.MaxKeyLength {
					c.verifyMust(s, o, proof, fmt.Sprintf("proof of %x", k))
				}
			}
		}
	}
	// neighbours in key order: the other key's proof, the union, a swapped leaf
	pr := c.proofs[idx]
	var prev string
	for _, k := range s.Keys {
		if pr[k] == nil {
			continue
		}
		if prev != "" {
			a, b := pr[prev], pr[k]
			c.verifyMust(s, k, a, fmt.Sprintf("proof of %x", prev))
			c.verifyMust(s, prev, b, fmt.Sprintf("proof of %x", k))
			u := append(append([][]byte{}, a...), b...)
			if !c.verifyMust(s, k, u, "union with the previous key's proof") || !c.verifyMust(s, prev, u, "union with the next key's proof") {
				c.fail("O3-verify", "-", s, fmt.Sprintf("VerifyProof(key=%x,union of two proofs)", k), "does not verify", "verifies")
			}
			sw := append(append([][]byte{}, b[:len(b)-1]...), a[len(a)-1])
			c.verifyMust(s, k, sw, fmt.Sprintf("own path with the leaf of %x", prev))
		}
		prev = k
	}
}

// crossHeight feeds the proof of k taken at height h' to root_h.
func (c *run) crossHeight(from uint32) {
	for i, s := range c.snaps {
		for j, t := range c.snaps {
			if i == j || s.Root == t.Root {
				continue
			}
			for k, p := range c.proofs[j] {
				c.verifyMust(s, k, p, fmt.Sprintf("proof taken at height %d", t.H))
			}
		}
	}
}

// ---- O4 -----------------------------------------------------------------------------------

func (c *run) historic(s *snap, retained bool) {
	next := s.H + 1 // GetTestHistoricVM takes the height of the block that would be processed on top of state h
	// pruning replicas (RemoveUntraceableBlocks): docs/rpc.md speaks of "limitations
	// on available data"; the property quantifies over all heights still retained,
	// so inside the retention window a historic call has to work and to agree
	// (family "window" found two defects there, repaired in /repo 9f272cc); below
	// the window a refusal is fine, a HALT with other data is not.
	for _, q := range s.Live {
		if c.nfail["O4-historic"]+c.nfail["O4-historic-nonretained"] >= 3 {
			return
		}
		var (
			res  string
			halt bool
			err  error
		)
		pan := guard(func() { res, halt, err = invoke(c.n, q.Script, &next) })
		call := "historic:" + q.Name
		switch {
		case pan != nil:
			if retained {
				msg := fmt.Sprint(pan)
				c.fail("O4-historic-panic", msg[:min(len(msg), 60)], s, call, "panic: "+msg, q.Res)
				return // the same panic for every script of this height
			} else {
				c.out("nonretained:historic:panic")
			}
		case err != nil:
			switch {
			case c.v.Latest:
				c.out("historic:unsupported-with-KeepOnlyLatestState")
			case retained:
				c.fail("O4-historic", q.Name, s, call, "error: "+err.Error(), q.Res)
			default:
				c.out("nonretained:historic:refused")
			}
		case res == q.Res:
			c.loc.histInv++
			if halt {
				c.loc.histInvHalt++
			}
			if !retained {
				c.out("nonretained:historic:equal")
			}
		default:
			if !retained && !halt {
				// the invocation visibly failed on a state that is not kept
				c.out("nonretained:historic:fault")
				continue
			}
			o := "O4-historic"
			if !retained {
				o = "O4-historic-nonretained"
			}
			c.fail(o, q.Name, s, call, res, q.Res)
		}
	}
}

// ---- driver ---------------------------------------------------------------------------------

type job struct {
	sc  *chainx.Scenario
	fam famSpec
	v   nodeVariant
	h   []int
	ext *extJob // an extension family's case (ext_*_test.go) instead of a history run
}

// extJob is one case of an extension family.
type extJob struct {
	name string
	run  func() ([]*caseRec, error)
}

func TestCheck(t *testing.T) {
	vk.UseT(t)
	r := vk.Start("C03", "model_checking", 170*time.Second, 24*time.Minute)
	cx := &ctx{r: r, roots: vk.NewSet(), states: vk.NewSet()}
	cx.cont.relations = vk.NewSet()
	cx.synced.tries = vk.NewSet()
	if r.Replay != "" {
		replay(cx)
		return
	}
	// plans: quick = A: the quick alphabet at depth 2, S: the quick shape
	// alphabet (one storage operation per block) at depth 2 on family single;
	// both tiers: D: the deep-trie alphabet (depth 2 / 3) on the family with the pruning replicas;
	// thorough = A: the full alphabet at depth 2, B: the quick alphabet at depth
	// 3 (multi: A only), S: the chain shapes at depth 3 on single and all shapes
	// at depth 2 on the other single families
	type plan struct {
		name  string
		names []string
		depth int
		focus bool
		fams  string // "" = all, else space-separated family names
	}
	plans := []plan{{name: "A", names: tplNames(r.Thorough()), depth: 2}}
	if r.Thorough() {
		plans = append(plans, plan{name: "B", names: tplNames(false), depth: 3},
			plan{name: "S3", names: shapeNames("chain"), depth: 3, focus: true, fams: "single"},
			plan{name: "S2", names: shapeNames("all"), depth: 2, focus: true, fams: "single-srih single-mtb2"},
			plan{name: "D", names: deepNames(), depth: 3, focus: true, fams: "single-srih single-mtb2"})
	} else {
		plans = append(plans, plan{name: "S", names: shapeNames("quick"), depth: 2, focus: true, fams: "single"},
			plan{name: "D", names: deepNames(), depth: 2, focus: true, fams: "single-mtb2"})
	}
	fams := families(r.Thorough())
	var perFam [][]job
	hist := 0
	notApplicable := 0
	if os.Getenv("C03_DEV_ONLY") == "ext" { // development aid: the extension families only
		plans = nil
	}
	for _, f := range fams {
		for _, pl := range plans {
			if f.Depth != 0 && pl.depth > f.Depth {
				continue
			}
			if pl.fams != "" && !slices.Contains(strings.Fields(pl.fams), f.Name) {
				continue
			}
			f := f
			// the exhaustive O1 pass over the prefixes of the (long, fixed-shape)
			// native keys is done on the families single and multi; elsewhere and
			// in the shape plans it enumerates the U instances' keys
			f.Focus = pl.focus || (f.Name != "single" && f.Name != "multi")
			sc, err := chainx.NewScenario(f.Family, f.Pad, tplByName(pl.names...))
			if err != nil {
				fmt.Println("CHECK-ERROR: cannot build the preamble of", f.Name, err)
				os.Exit(3)
			}
			sc.OnTx = func(tpl, st string) { r.Outcome("tx:" + tpl + ":" + st) }
			hs := sc.BuildTree(pl.depth, func(n int, fn func(int)) { r.Parallel(n, fn) })
			total := 1
			for i := 0; i < pl.depth; i++ {
				total *= len(pl.names)
			}
			notApplicable += total - len(hs)
			var fj []job
			for i, h := range hs {
				hist++
				for _, v := range variantsOf(f, i, r.Thorough()) {
					fj = append(fj, job{sc: sc, fam: f, v: v, h: h})
				}
			}
			perFam = append(perFam, fj)
		}
	}
	// interleave the families so that a run stopped by the deadline has seen all of them;
	// the (few) cases of the extension families go first
	var jobs []job
	for _, e := range extJobs(cx) {
		if f := os.Getenv("C03_DEV_EXT"); f != "" && !strings.HasPrefix(e.name, f) { // development aid: one extension family
			continue
		}
		jobs = append(jobs, job{ext: e})
	}
	for i := 0; ; i++ {
		more := false
		for _, fj := range perFam {
			if i < len(fj) {
				jobs = append(jobs, fj[i])
				more = true
			}
		}
		if !more {
			break
		}
	}
	stopProf := func() {}
	if pf := os.Getenv("C03_DEV_PROF"); pf != "" { // development aid: CPU profile of the job loop
		if f, err := os.Create(pf); err == nil {
			pprof.StartCPUProfile(f)
			stopProf = func() { pprof.StopCPUProfile(); f.Close() }
		}
	}
	r.Parallel(len(jobs), func(i int) {
		j := jobs[i]
		if j.ext != nil {
			viol, err := j.ext.run()
			if err != nil {
				fmt.Println("CHECK-ERROR:", j.ext.name, err)
				r.Outcome("harness-error")
				r.Capped()
				return
			}
			cx.c.extRuns.Inc()
			if len(viol) == 0 {
				r.Outcome("ext-agrees:" + strings.SplitN(j.ext.name, ":", 2)[0])
			}
			for _, v := range viol {
				r.Outcome("violation:" + v.Oracle)
				r.Violation(v.key(), v)
			}
			return
		}
		viol, err := cx.runHistory(j.sc, j.fam, j.v, j.h)
		if err != nil {
			fmt.Println("CHECK-ERROR:", j.fam.Name, j.v.Name, j.sc.Names(j.h), err)
			r.Outcome("harness-error")
			r.Capped()
			return
		}
		cx.c.histRuns.Inc()
		if len(viol) == 0 {
			r.Outcome("history-agrees:" + j.v.Name)
			r.Sample(map[string]any{"family": j.fam.Name, "variant": j.v.Name, "history": j.sc.Names(j.h)})
		}
		for _, v := range viol {
			r.Outcome("violation:" + v.Oracle)
			r.Violation(v.key(), v)
		}
	})
	var planDesc []string
	for _, pl := range plans {
		planDesc = append(planDesc, fmt.Sprintf("%s: %d templates, depth %d, families %q: %s", pl.name, len(pl.names), pl.depth, pl.fams, strings.Join(pl.names, " ")))
	}
	var famNames []string
	for _, f := range fams {
		famNames = append(famNames, f.Name)
	}
	stopProf()
	c := &cx.c
	avg := int64(0)
	if c.heights.Get() > 0 {
		avg = c.keys.Get() / c.heights.Get()
	}
	r.Finish(map[string]any{
		"states":                                 cx.states.Len(),
		"transitions":                            int(c.blocks.Get()),
		"traces_validated_against_impl":          int(c.histRuns.Get() + c.extRuns.Get()),
		"extension_families":                     extCoverage(cx),
		"synced_cases":                           int(cx.synced.cases.Get()),
		"synced_state_jumps":                     int(cx.synced.jumps.Get()),
		"synced_distinct_tries":                  cx.synced.tries.Len(),
		"synced_cases_shared_inner_nodes":        int(cx.synced.sharedCases.Get()),
		"synced_mpt_nodes_handed_over":           int(cx.synced.nodesHandedOver.Get()),
		"synced_heights_compared_with_reference": int(cx.synced.refHeights.Get()),
		"histories":                              hist,
		"histories_not_applicable":               notApplicable,
		"plans":                                  planDesc,
		"block_alphabet":                         tplNames(r.Thorough()),
		"families":                               famNames,
		"distinct_state_roots":                   cx.roots.Len(),
		"heights_checked":                        int(c.heights.Get()),
		"heights_not_retained":                   int(c.nonRetained.Get()),
		"keys_per_height_min_avg_max":            []int64{c.minKeys, avg, c.maxKeys},
		"roots_with_exhaustive_O1":               int(c.deepRoots.Get()),
		"findstates_calls":                       int(c.finds.Get()),
		"seekstates_calls":                       int(c.seeks.Get()),
		"triestore_seek_calls":                   int(c.storeSeeks.Get()),
		"getstate_calls":                         int(c.gets.Get()),
		"proofs_verified_to_value":               int(c.proofsOK.Get()),
		"proofs_refused_for_absent_keys":         int(c.proofsRefused.Get()),
		"foreign_proof_verifications":            int(c.crossProofs.Get()),
		"live_invocations_recorded":              int(c.liveInv.Get()),
		"historic_invocations_equal":             int(c.histInv.Get()),
		"historic_invocations_halted":            int(c.histInvHalt.Get()),
		"rule":                                   "every history = preamble + depth blocks of the plan's alphabet (all K^depth) per family and plan; state = (family, node variant, height, state root); exhaustive O1 once per distinct (family, root), the other oracles at every height of every history",
	}, []string{
		"map_h is read from the live node through Blockchain.SeekStorage over ids -16..-1 and 1..6 (the flat storage, not the trie)",
		"FindStates/SeekStates/TrieStore.Seek range semantics are taken from their doc comments (ordered map: forwards = keys >= prefix+start ascending, backwards = keys <= prefix+start descending); for an empty FindStates result both ErrNotFound and an empty list are accepted",
		"pruned variants (RemoveUntraceableBlocks+GC after every flush, KeepOnlyLatestState) are held to O1-O3 for heights >= height-MaxTraceableBlocks (latest: the top height); below that an error / panic / early end of a listing or data equal to map_h is accepted, different data is not; historic invocations: with RemoveUntraceableBlocks they must agree for every retained height (docs/rpc.md only warns of limitations on available data) and below the window may be refused or FAULT but must not HALT with other data; with KeepOnlyLatestState they are unsupported",
		"historic invocations are compared on VM state, stack, gas consumed and fault message; scripts do not read time",
		"family synced: the source serves only valid data (its own headers, trie nodes / items of the sync point, blocks); a replica that refuses it, panics or does not jump is reported (O7-sync-process) because no state exists to question; the synced replica is compared with an archival replica of the same protocol family that executed every block (state root, flat storage, live invocation results at the sync point and at every later height); heights below the sync point are not questioned; a restart right after the jump announces the network height of the first start (Module.Init refuses a synced-but-not-caught-up replica when the network is two intervals ahead: C20's ground)",
		"family reset-cont: a replica that was reset (Blockchain.Reset on a stopped node) and went on - as the same instance or after a restart - is additionally compared, at every height of its final chain, with a reference replica that was given the surviving blocks only (state root, flat storage, live invocation results; the reference must accept every block and the reset replica must accept every block valid on the surviving chain); a pruning replica refusing the first block after a reset is the open finding of C02 (reset-prune) and ends the case at the reset height",
	})
}

func replay(cx *ctx) {
	r := cx.r
	var c caseRec
	if err := r.ReadReplay(&c); err != nil {
		fmt.Println("cannot read replay:", err)
		os.Exit(3)
	}
	cx.deepAll = true
	if c.Kind != "" {
		runs := 0
		for i := 0; i < 5; i++ {
			viol, err := replayExt(cx, &c)
			if err != nil {
				fmt.Println("replay: harness error:", err)
				os.Exit(3)
			}
			runs++
			if len(viol) == 0 {
				fmt.Printf("replay %d: all oracles hold\n", i)
			}
			for _, v := range viol {
				fmt.Printf("replay %d: REPRODUCED %s/%s at height %d: %s got %s want %s\n", i, v.Oracle, v.Class, v.Height, v.Call, v.Got, v.Want)
				r.Violation(v.key(), v)
			}
		}
		r.Finish(map[string]any{"states": max(cx.states.Len(), 1), "transitions": max(int(cx.c.blocks.Get()), 1), "traces_validated_against_impl": runs}, nil)
		return
	}
	var fam *famSpec
	for _, f := range families(true) {
		if f.Name == c.Family {
			f := f
			fam = &f
		}
	}
	if fam == nil {
		fmt.Println("replay: unknown family", c.Family)
		os.Exit(3)
	}
	fam.Pad = c.Pad
	fam.Focus = c.Focus
	tpls := tplByName(c.History...)
	h := make([]int, len(tpls))
	for i := range h {
		h[i] = i
	}
	runs := 0
	for i := 0; i < 5; i++ {
		sc, err := chainx.NewScenario(fam.Family, fam.Pad, tpls)
		if err != nil {
			fmt.Println("replay: preamble:", err)
			os.Exit(3)
		}
		for d := 1; d <= len(h); d++ {
			if err := sc.Grow(h[:d]); err != nil {
				fmt.Println("replay: history cannot be built:", err)
				os.Exit(3)
			}
		}
		viol, err := cx.runHistory(sc, *fam, variantByName(c.Variant), h)
		if err != nil {
			fmt.Println("replay: harness error:", err)
			os.Exit(3)
		}
		runs++
		if len(viol) == 0 {
			fmt.Printf("replay %d: all oracles hold\n", i)
		}
		for _, v := range viol {
			fmt.Printf("replay %d: REPRODUCED %s at height %d: %s got %s want %s\n", i, v.Oracle, v.Height, v.Call, v.Got, v.Want)
			r.Violation(v.key(), v)
		}
	}
	r.Finish(map[string]any{"states": cx.states.Len(), "transitions": int(cx.c.blocks.Get()), "traces_validated_against_impl": runs}, nil)
}
