package c03

import (
	"fmt"
	"os"
	"testing"

	"github.com/nspcc-dev/neo-go/pkg/core/mpt"
	"github.com/nspcc-dev/neo-go/pkg/core/native/nativehashes"
	"github.com/nspcc-dev/neo-go/pkg/core/native/noderoles"
	"github.com/nspcc-dev/neo-go/pkg/core/storage"

	"verif/lib/chainx"
)

func TestDev(t *testing.T) {
	if os.Getenv("C03_DEV") == "" {
		t.Skip()
	}
	f := families(false)[0]
	sc, err := chainx.NewScenario(f.Family, 0, tplByName("designate", "gas-transfer"))
	if err != nil {
		t.Fatal(err)
	}
	for _, h := range [][]int{{0}, {0, 1}} {
		if err := sc.Grow(h); err != nil {
			t.Fatal(err)
		}
	}
	n, _, err := sc.RefNode([]int{0, 1})
	if err != nil {
		t.Fatal(err)
	}
	defer n.Close()
	_, mod := module(n)
	for h := uint32(3); h <= 5; h++ {
		sr, _ := n.BC.GetStateRoot(h)
		fmt.Println("height", h)
		mod.SeekStates(sr.Root, idPrefix(-8), func(k, v []byte) bool { fmt.Printf("  designate key %x = %x\n", k, v); return true })
		for idx := int64(4); idx <= 7; idx++ {
			next := h + 1
			res, _, err := invoke(n, chainx.CallScript(nativehashes.RoleManagement, "getDesignatedByRole", int64(noderoles.Oracle), idx), &next)
			fmt.Println("  historic idx", idx, res, err)
			ts := mpt.NewTrieStore(sr.Root, mpt.ModeAll, storage.NewMemCachedStore(mod.Store))
			ts.Seek(storage.SeekRange{Prefix: append([]byte{byte(storage.STStorage)}, append(idPrefix(-8), byte(noderoles.Oracle))...), Start: []byte{0, 0, 0, byte(idx)}, Backwards: true}, func(k, v []byte) bool {
				fmt.Printf("    bw seek from %d: %x\n", idx, k)
				return true
			})
		}
	}
}
