package c03

// Extension family "reset-cont": a state reset after which the chain GOES ON.
//
// The family "reset" restarts the replica between Blockchain.Reset and the next
// block, so the state module is always re-initialised from the database
// (stateroot.Module.Init builds a fresh trie from the stored root). Here the
// node that performed the reset also accepts the following blocks - the same
// core.Blockchain instance, nothing re-reads the database in between: whatever
// Reset left in memory (the block-processing trie of the state module, native
// caches, header hashes) is what the next blocks are applied to. If that trie is
// still the one of the discarded tip, every later root commits to (tip storage +
// new changes) while contract storage is (storage at h + new changes).
//
// A case is a PROGRAM over one replica (tokens, also the replay format):
//
//	<template>   the next block is built from the template on the replica's own state
//	=            the next block is the block the latest reset discarded at that
//	             height, byte for byte (valid: the chain below it is unchanged)
//	R<h>s        Reset(h) on a stopped node, the SAME instance is started and goes on
//	R<h>r        Reset(h), then a process restart (new instance on the store)
//	X            plain restart
//
// Plans (preamble = 3 blocks, history [a, b] = heights 4, 5):
//
//	new    a b R<t>m  = until the cast of the preamble exists again  c d
//	same   a b R<t>m  = for every discarded height                   c
//	twice  a b R<t1>m1 (=...) c  R<t2>m2 (=...) d e     with t2 <= t1
//	then-restart  a b R<t>s (=...) c X d
//
// for t = EVERY height below the tip (0..4), m in {s, r}, replacement blocks
// that are disjoint from what the discarded blocks wrote, overlap it, repeat it
// or delete it (alphabet contRepl), on archival replicas that flush after every
// block or never, with and without StateRootInHeader, and - inside the window
// in which Reset is allowed - on pruning replicas.
//
// Bounds. quick: plan new = every (t, b, c) with m = s and a quarter of the
// (b, c) pairs with m = r, a and d rotating; same = every (t, m, b); twice =
// every (t1, t2 <= t1, m1, m2) with rotating blocks; then-restart and the
// pruning replicas = every t (and m) with rotating blocks; (family, variant)
// rotates. thorough: every (a, b, c) in plan new, every (a, b) in plan same, 8
// block rotations in twice / then-restart, both complementary (family,
// variant) pairs outside plan new.
//
// Oracles: after every reset the reads of the current root (current()); at the
// end the full O1-O4 pass over EVERY height of the final chain, the rebuilt
// heights included (trie content == flat storage in both directions, proofs,
// historic invocations); and O6: a reference replica that was only ever given
// the surviving blocks (never reset, never restarted) accepts them and shows
// the same state root, the same flat storage and the same live invocation
// results at every height; the reset replica still reports the recorded root
// for every height of the final chain.

import (
	"bytes"
	"fmt"
	"regexp"
	"strconv"
	"strings"
	"sync"

	"verif/lib/chainx"
	"verif/lib/vk"
)

type contSpec struct {
	Fam  string
	V    nodeVariant
	Prog []string
	// Full: the heights below the lowest reset target (preamble heights, the same
	// in every case) get all oracles; otherwise the whole-trie range reads only.
	// The first case of every (variant, sequence of reset modes, lowest target) group is Full.
	Full bool
}

type contCounters struct {
	resetsSame, resetsRestart, originalsReplayed, newBlocks, refHeights, refLive, refusedPruning vk.Counter
	relations                                                                                    *vk.Set
	plans                                                                                        sync.Map // plan -> *vk.Counter
}

var (
	contHist = resetAlphabet
	// replacement blocks: a key nobody else writes (disjoint), the blocks of the
	// history themselves (overlap / identical content), deletes of everything UA
	// may hold, UB's keys (destroyed by a discarded block or not), nothing at all
	contRepl = []string{"ua-put-ac-1", "put-ext", "del-recreate", "del-all-ua", "destroy-ub", "deploy-uc", "ub-same", "empty"}
	contTok  = regexp.MustCompile(`^R(\d+)([sr])$`)
)

const (
	contCast = 3 // height from which the cast of the preamble (UA, UB, seeded keys) exists
	contTip  = 5 // preamble + [a, b]
)

func contReset(t int, m string) string { return fmt.Sprintf("R%d%s", t, m) }

// fill: after a reset to t the discarded blocks are re-fed until the cast exists.
func contFill(t int) []string {
	var out []string
	for h := t; h < contCast; h++ {
		out = append(out, "=")
	}
	return out
}

func contSpecs(thorough bool) []contSpec {
	var out []contSpec
	fams := []string{"single", "single-srih"}
	vs := []nodeVariant{vArchivalFlush, vArchival}
	emitted := 0
	add := func(prog []string, both bool) {
		// (family, variant) rotates with the emission order, mixed so that it is not
		// tied to the position in one of the alphabets (sizes 2, 4, 8)
		k := emitted + emitted/8 + emitted/32
		l := emitted/2 + emitted/16 + emitted/64
		emitted++
		out = append(out, contSpec{Fam: fams[k%2], V: vs[l%2], Prog: prog})
		if thorough && both { // the complementary (family, variant) pair as well
			out = append(out, contSpec{Fam: fams[(k+1)%2], V: vs[(l+1)%2], Prog: prog})
		}
	}
	modes := []string{"s", "r"}
	nh, nr := len(contHist), len(contRepl)
	// plan "new"
	i := 0
	for t := contTip - 1; t >= 0; t-- {
		for _, m := range modes {
			for bi, b := range contHist {
				for ci, c := range contRepl {
					as := contHist
					if !thorough {
						as = []string{contHist[(bi+ci+t)%nh]}
						if m == "r" && (bi+ci+t)%4 != 0 {
							continue // quick: the restart mode (what family "reset" does at the tip) takes a quarter of the (b, c) pairs
						}
					}
					for _, a := range as {
						d := contRepl[(bi+2*ci+t+3)%nr]
						prog := append([]string{a, b, contReset(t, m)}, contFill(t)...)
						add(append(prog, c, d), false)
						i++
					}
				}
			}
		}
	}
	// plan "same": all discarded blocks come back
	i = 1
	for t := contTip - 1; t >= 0; t-- {
		for _, m := range modes {
			for bi, b := range contHist {
				as := contHist
				if !thorough {
					as = []string{contHist[(bi+t+1)%nh]}
				}
				for _, a := range as {
					prog := []string{a, b, contReset(t, m)}
					for h := t; h < contTip; h++ {
						prog = append(prog, "=")
					}
					add(append(prog, contRepl[(bi+t)%nr]), true)
					i++
				}
			}
		}
	}
	// plan "twice": reset, go on, reset again to the same height or deeper, go on
	i = 2
	for t1 := contTip - 1; t1 >= 1; t1-- {
		for t2 := t1; t2 >= 0; t2-- {
			for _, m1 := range []string{"r", "s"} {
				for _, m2 := range modes {
					rot := 1
					if thorough {
						rot = 8
					}
					for k := 0; k < rot; k++ {
						j := i + 3*k
						a, b := contHist[j%nh], contHist[(j/2+k)%nh]
						c, d, e := contRepl[(j+k)%nr], contRepl[(j/3+5*k+1)%nr], contRepl[(j/5+3*k+2)%nr]
						prog := append([]string{a, b, contReset(t1, m1)}, contFill(t1)...)
						prog = append(prog, c, contReset(t2, m2))
						prog = append(prog, contFill(t2)...)
						add(append(prog, d, e), true)
						i++
					}
				}
			}
		}
	}
	// plan "then-restart": the instance that did the reset accepts a block, is restarted and accepts another one
	i = 3
	for t := contTip - 1; t >= 0; t-- {
		rot := 2
		if thorough {
			rot = 8
		}
		for k := 0; k < rot; k++ {
			a, b := contHist[(i+k)%nh], contHist[(i/2+k)%nh]
			prog := append([]string{a, b, contReset(t, "s")}, contFill(t)...)
			add(append(prog, contRepl[(i+5*k)%nr], "X", contRepl[(i/2+3*k+1)%nr]), true)
			i++
		}
	}
	// pruning replicas: Reset is allowed while the chain is below MaxTraceableBlocks (6)
	i = 0
	for t := contTip - 1; t >= 0; t-- {
		for _, m := range modes {
			ks := 1
			if thorough {
				ks = 4
			}
			for k := 0; k < ks; k++ {
				a, b, c := contHist[(i+k)%nh], contHist[(i/2+k+1)%nh], contRepl[(i+3*k)%nr]
				prog := append([]string{a, b, contReset(t, m)}, contFill(t)...)
				out = append(out, contSpec{Fam: fams[i%2], V: vGC, Prog: append(prog, c, "empty")})
				i++
			}
		}
	}
	// the rotations may name a program twice
	dup := map[string]bool{}
	uniq := out[:0]
	for _, w := range out {
		k := w.Fam + "|" + w.V.Name + "|" + strings.Join(w.Prog, ",")
		if !dup[k] {
			dup[k] = true
			uniq = append(uniq, w)
		}
	}
	out = uniq
	seen := map[string]bool{}
	for i := range out {
		k, low := out[i].V.Name, contTip
		for _, t := range out[i].Prog {
			if m := contTok.FindStringSubmatch(t); m != nil {
				h, _ := strconv.Atoi(m[1])
				low = min(low, h)
				k += "|" + m[2]
			} else if t == "X" {
				k += "|X"
			}
		}
		k += fmt.Sprint("|", low)
		out[i].Full = !seen[k]
		seen[k] = true
	}
	return out
}

func contPlan(prog []string) string {
	resets, eq := 0, 0
	for _, t := range prog {
		if contTok.MatchString(t) {
			resets++
		} else if t == "=" {
			eq++
		}
	}
	switch {
	case resets >= 2:
		return "twice"
	case prog[len(prog)-2] == "X":
		return "then-restart"
	case eq >= 1 && prog[len(prog)-2] == "=":
		return "same"
	}
	return "new"
}

func contJobs(cx *ctx) []*extJob {
	var out []*extJob
	for _, w := range contSpecs(cx.r.Thorough()) {
		w := w
		out = append(out, &extJob{
			name: fmt.Sprintf("reset-cont:%s:%s:%s", w.Fam, w.V.Name, strings.Join(w.Prog, ",")),
			run:  func() ([]*caseRec, error) { return cx.runCont(w) },
		})
	}
	return out
}

// the preamble of a family, built once
var (
	contScMu sync.Mutex
	contSc   = map[string]*chainx.Scenario{}
)

func contScenario(fam famSpec) (*chainx.Scenario, error) {
	contScMu.Lock()
	defer contScMu.Unlock()
	if sc, ok := contSc[fam.Name]; ok {
		return sc, nil
	}
	sc, err := chainx.NewScenario(fam.Family, fam.Pad, nil)
	if err != nil {
		return nil, fmt.Errorf("preamble: %w", err)
	}
	contSc[fam.Name] = sc
	return sc, nil
}

// userKey: a trie key of a deployed contract (positive id).
func userKey(k string) bool { return len(k) >= 4 && k[3] == 0 }

// changed returns the user keys whose presence or value differs between two snaps.
func changed(a, b *snap, into map[string]struct{}) {
	for k, v := range a.M {
		if w, ok := b.M[k]; userKey(k) && (!ok || w != v) {
			into[k] = struct{}{}
		}
	}
	for k := range b.M {
		if _, ok := a.M[k]; userKey(k) && !ok {
			into[k] = struct{}{}
		}
	}
}

func (cx *ctx) runCont(w contSpec) ([]*caseRec, error) {
	fam, ok := rpcFamily(w.Fam)
	if !ok {
		return nil, fmt.Errorf("reset-cont: no family %s", w.Fam)
	}
	fam.Focus = true
	sc, err := contScenario(fam)
	if err != nil {
		return nil, err
	}
	c, err := cx.newRun(sc, fam, w.V, nil)
	if err != nil {
		return nil, err
	}
	defer func() {
		if c.n != nil {
			c.n.Close()
		}
	}()
	cc := &cx.cont
	c.kind = "reset-cont"
	c.names = w.Prog
	if err := c.take(); err != nil {
		return nil, err
	}
	var (
		chain, orig [][]byte // wire bytes of the current chain / of the chain the latest reset cut (index = height-1)
		lowest      = ^uint32(0)
		refused     bool
		resets      int
		// what the discarded blocks / the blocks accepted after a reset changed in the contracts' storage
		discarded, created, rebuilt = map[string]struct{}{}, map[string]struct{}{}, map[string]struct{}{}
	)
	add := func(bb []byte) error {
		if err := c.n.AddBytes(bb); err != nil {
			return err
		}
		chain = append(chain, bb)
		cx.c.blocks.Inc()
		if err := c.flush(); err != nil {
			return err
		}
		if err := c.take(); err != nil {
			return err
		}
		if resets > 0 {
			changed(c.snaps[len(c.snaps)-2], c.snaps[len(c.snaps)-1], rebuilt)
		}
		return nil
	}
	for _, bb := range sc.Preamble {
		if err := add(bb); err != nil {
			return nil, fmt.Errorf("preamble block rejected: %w", err)
		}
	}
	for pi, tok := range w.Prog {
		if refused {
			break
		}
		if tok == "X" {
			if err := c.restart(); err != nil {
				return nil, err
			}
			continue
		}
		if m := contTok.FindStringSubmatch(tok); m != nil {
			t, _ := strconv.Atoi(m[1])
			if uint32(t) >= c.n.Height() {
				return nil, fmt.Errorf("reset-cont: %s at height %d", tok, c.n.Height())
			}
			tip := c.snaps[len(c.snaps)-1]
			for h := t; h < len(c.snaps)-1; h++ {
				changed(c.snaps[h], c.snaps[h+1], discarded)
			}
			for k := range tip.M {
				if _, ok := c.snaps[t].M[k]; userKey(k) && !ok {
					created[k] = struct{}{}
				}
			}
			if resets > 0 {
				// this tip was built after a reset and is discarded now: its only questioning
				c.current(fmt.Sprintf("before-reset-%d", resets+1))
			}
			n, err := c.n.ResetTo(uint32(t), m[2] == "s")
			if err != nil {
				return nil, fmt.Errorf("reset-cont: %w", err)
			}
			c.n = n
			c.w = c.w.Attach(n)
			c.sm, c.mod = module(n)
			if c.mod == nil {
				return nil, fmt.Errorf("state module is not *stateroot.Module")
			}
			if n.Height() != uint32(t) {
				return nil, fmt.Errorf("reset-cont: height %d after Reset(%d)", n.Height(), t)
			}
			resets++
			cx.c.resets.Inc()
			if m[2] == "s" {
				cc.resetsSame.Inc()
			} else {
				cc.resetsRestart.Inc()
			}
			lowest = min(lowest, uint32(t))
			orig = chain
			chain = append([][]byte{}, chain[:t]...)
			c.snaps = c.snaps[:t+1]
			c.current(fmt.Sprintf("after-reset-%d", resets))
			continue
		}
		var bb []byte
		if tok == "=" {
			k := len(chain)
			if k >= len(orig) {
				return nil, fmt.Errorf("reset-cont: no discarded block of height %d", k+1)
			}
			for i := range chain {
				if !bytes.Equal(chain[i], orig[i]) {
					return nil, fmt.Errorf("reset-cont: '=' at height %d on a chain that differs at height %d", k+1, i+1)
				}
			}
			bb = orig[k]
			cc.originalsReplayed.Inc()
		} else {
			txs, err := tplByName(tok)[0].Build(c.w)
			if err != nil {
				cx.r.Outcome("reset-cont:template-not-applicable")
				txs = nil
			}
			b, err := c.n.NewBlock(txs...)
			if err != nil {
				return nil, fmt.Errorf("reset-cont: block %s cannot be built: %w", tok, err)
			}
			if bb, err = chainx.BlockBytes(b); err != nil {
				return nil, err
			}
			if resets > 0 {
				cc.newBlocks.Inc()
			}
		}
		if err := add(bb); err != nil {
			if resets == 0 {
				return nil, fmt.Errorf("block %s rejected: %w", tok, err)
			}
			if w.V.GC {
				// open finding of C02 (reset-prune): the reference counters of the target
				// state are not rolled back, the pruning replica cannot apply the next
				// batch. No new height exists; the heights below are questioned.
				cx.r.Outcome("reset-cont:pruning-replica-refuses-the-next-block")
				cc.refusedPruning.Inc()
				c.current("after-refused-block")
				refused = true
				break
			}
			s := c.snaps[len(c.snaps)-1]
			c.fail("O6-ref", "valid-block-refused-after-reset", s, fmt.Sprintf("AddBlock(%s, program position %d)", tok, pi), "error: "+err.Error(), "accepted")
			refused = true
		}
	}
	if !w.Full && resets > 0 {
		c.lightBelow = lowest
	}
	c.evaluate()
	// every height of the final chain is still reported with the root recorded for it
	for _, s := range c.snaps {
		sr, err := c.n.BC.GetStateRoot(s.H)
		if err != nil || sr.Root != s.Root {
			c.fail("O6-root-record", "-", s, "GetStateRoot", fmt.Sprintf("%v %v", sr, err), s.Root.StringLE())
		}
	}
	if err := c.compareRef(chain, lowest); err != nil {
		return nil, err
	}
	if resets > 0 {
		rel := contRelation(discarded, created, rebuilt, c.snaps[len(c.snaps)-1])
		cc.relations.Add(rel)
		c.out("reset-cont:relation:" + rel)
	}
	pl, _ := cc.plans.LoadOrStore(contPlan(w.Prog), &vk.Counter{})
	pl.(*vk.Counter).Inc()
	c.finish()
	return c.viol, nil
}

// contRelation classifies how the blocks accepted after the resets relate to
// the discarded ones (contracts' keys only; natives overlap in every block).
func contRelation(discarded, created, rebuilt map[string]struct{}, final *snap) string {
	if len(rebuilt) == 0 {
		if len(discarded) == 0 {
			return "nothing-discarded,nothing-written"
		}
		return "nothing-written"
	}
	if len(discarded) == 0 {
		return "nothing-discarded"
	}
	both, only := 0, 0
	for k := range rebuilt {
		if _, ok := discarded[k]; ok {
			both++
		} else {
			only++
		}
	}
	rel := "overlap"
	switch {
	case both == 0:
		rel = "disjoint"
	case only == 0 && both == len(discarded):
		rel = "same-keys"
	case only == 0:
		rel = "subset"
	}
	// keys that existed only in the discarded blocks: back / still absent at the end
	back, gone := 0, 0
	for k := range created {
		if _, ok := final.M[k]; ok {
			back++
		} else {
			gone++
		}
	}
	switch {
	case len(created) == 0:
		rel += ",none-created"
	case back == 0:
		rel += ",created-keys-stay-absent"
	case gone == 0:
		rel += ",created-keys-all-back"
	default:
		rel += ",created-keys-partly-back"
	}
	return rel
}

// compareRef replays the surviving chain on a reference replica (archival,
// memory store, never reset, never restarted) and compares every height.
func (c *run) compareRef(chain [][]byte, liveFrom uint32) error {
	ref, err := chainx.New(c.fam.Family.Opts())
	if err != nil {
		return fmt.Errorf("reference replica: %w", err)
	}
	defer ref.Close()
	w := c.sc.World.Attach(ref)
	cc := &c.cx.cont
	for i, bb := range chain {
		h := uint32(i + 1)
		if int(h) >= len(c.snaps) {
			break
		}
		s := c.snaps[h]
		if err := ref.AddBytes(bb); err != nil {
			c.fail("O6-ref", "reference-refuses-the-block", s, "reference.AddBlock", "error: "+err.Error(), "accepted")
			return nil
		}
		cc.refHeights.Inc()
		sr, err := ref.BC.GetStateRoot(h)
		if err != nil {
			return fmt.Errorf("reference replica: state root %d: %w", h, err)
		}
		rs := newSnap(h, sr.Root, dump(ref, c.ids))
		if rs.Root != s.Root {
			c.fail("O6-ref", "root", s, "state root vs reference", s.Root.StringLE(), rs.Root.StringLE())
		}
		if dg := digest(rs); dg != digest(s) {
			c.fail("O6-ref", "storage", s, "SeekStorage(all ids) vs reference", digest(s)+" "+mapDiff(s, rs), dg)
		}
		if h <= liveFrom {
			continue
		}
		if c.nfail["O6-ref"] > 0 {
			continue
		}
		qs := scripts(w, h, ref.Committee.ScriptHash())
		if len(qs) != len(s.Live) {
			return fmt.Errorf("reference replica: %d scripts at height %d, %d recorded", len(qs), h, len(s.Live))
		}
		for j, q := range qs {
			res, _, err := invoke(ref, q.Script, nil)
			if err != nil {
				return fmt.Errorf("reference invocation %s at %d: %w", q.Name, h, err)
			}
			cc.refLive.Inc()
			if res != s.Live[j].Res {
				c.fail("O6-ref-live", q.Name, s, "live:"+q.Name+" vs reference", s.Live[j].Res, res)
			}
		}
	}
	return nil
}

// mapDiff names up to three keys in which two snaps differ.
func mapDiff(got, want *snap) string {
	var out []string
	for _, k := range got.Keys {
		if w, ok := want.M[k]; !ok {
			out = append(out, fmt.Sprintf("extra %x", k))
		} else if w != got.M[k] {
			out = append(out, fmt.Sprintf("differs %x", k))
		}
	}
	for _, k := range want.Keys {
		if _, ok := got.M[k]; !ok {
			out = append(out, fmt.Sprintf("missing %x", k))
		}
	}
	if len(out) > 3 {
		out = append(out[:3], fmt.Sprintf("...(%d)", len(out)))
	}
	return "[" + strings.Join(out, " ") + "]"
}

func contCoverage(cx *ctx) map[string]any {
	cc := &cx.cont
	specs := contSpecs(cx.r.Thorough())
	plans := map[string]int{}
	cc.plans.Range(func(k, v any) bool { plans[k.(string)] = int(v.(*vk.Counter).Get()); return true })
	targets, modes := map[string]struct{}{}, map[string]int{}
	for _, s := range specs {
		for _, t := range s.Prog {
			if m := contTok.FindStringSubmatch(t); m != nil {
				targets[m[1]] = struct{}{}
				modes[m[2]]++
			}
		}
	}
	return map[string]any{
		"cases":                          len(specs),
		"cases_all_oracles_below_target": contFull(specs),
		"cases_run_per_plan":             plans,
		"history_alphabet":               contHist,
		"replacement_alphabet":           contRepl,
		"reset_targets":                  len(targets),
		"resets_same_instance_goes_on":   int(cc.resetsSame.Get()),
		"resets_then_restart":            int(cc.resetsRestart.Get()),
		"discarded_blocks_fed_again":     int(cc.originalsReplayed.Get()),
		"new_blocks_after_a_reset":       int(cc.newBlocks.Get()),
		"heights_compared_with_ref":      int(cc.refHeights.Get()),
		"live_invocations_equal_to_ref":  int(cc.refLive.Get()),
		"pruning_replica_refused_blocks": int(cc.refusedPruning.Get()),
		"distinct_relations_discarded_vs_new_blocks": cc.relations.Len(),
	}
}

func contFull(specs []contSpec) int {
	n := 0
	for _, s := range specs {
		if s.Full {
			n++
		}
	}
	return n
}
