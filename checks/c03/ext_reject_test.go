package c03

// Extension family "reject": the reads of the CURRENT root while / after the
// next block was executed but did not become the chain's state.
//
// StateRootInHeader family. The replica replays the history up to height N
// (recording map_h and the live invocations at every height), then learns two
// headers in advance - the header of the valid block b (N+1) and the header of
// a successor b2' that is correctly signed but names a wrong PrevStateRoot -
// and is given b. b is verified, executed, its storage changes are applied to
// the block-processing trie (stateroot.Module.AddMPTBatch) and only then the
// block is refused (local state root != PrevStateRoot of the known header N+2).
// The chain's state is still that of height N, so
//
//   - the flat storage and the live invocations must still be those of height N,
//   - every read of root_N (and of all earlier roots): GetState, FindStates,
//     SeekStates, TrieStore.Seek, GetStateProof + VerifyProof, historic
//     invocations must still equal map_N - none of them may be served from the
//     in-memory trie that has seen the refused block's batch.
//
// b is then delivered a second time (refused again) and everything is asked again.
//
// The same family installs hook H5 (Blockchain.VerifSetPointHook) for the whole
// replay: at the point inside AddBlock where the next block's header is already
// stored but the block is not processed yet - a moment a concurrent reader can
// see - the reads of the current root are made on the block-processing goroutine.

import (
	"fmt"
	"strings"

	"github.com/nspcc-dev/neo-go/pkg/core"
	"github.com/nspcc-dev/neo-go/pkg/core/block"

	"verif/lib/chainx"
)

type rejectSpec struct {
	Fam   string
	V     nodeVariant
	Names []string // the last block of the history is the one that gets refused
}

func rejectSpecs(thorough bool) []rejectSpec {
	var out []rejectSpec
	last := []string{"put-ext", "del-recreate", "destroy-ub", "deploy-uc", "gas-transfer"}
	first := []string{"put-ext"}
	if thorough {
		last = append(last, "write-fault", "ub-same", "designate", "values", "del-all-ua")
		first = append(first, "del-recreate", "destroy-ub", "deploy-uc")
	}
	i := 0
	for _, a := range first {
		for _, b := range last {
			vs := []nodeVariant{vArchival, vArchivalFlush}
			if !thorough {
				vs = vs[i%2 : i%2+1]
			}
			for _, v := range vs {
				out = append(out, rejectSpec{Fam: "single-srih", V: v, Names: []string{a, b}})
			}
			i++
		}
	}
	return out
}

func rejectJobs(cx *ctx) []*extJob {
	var out []*extJob
	for _, w := range rejectSpecs(cx.r.Thorough()) {
		w := w
		out = append(out, &extJob{
			name: fmt.Sprintf("reject:%s:%s:%s", w.Fam, w.V.Name, strings.Join(w.Names, ",")),
			run:  func() ([]*caseRec, error) { return cx.runReject(w) },
		})
	}
	return out
}

// reblock re-creates b from its wire form (drops the cached hash).
func reblock(b *block.Block, srih bool) (*block.Block, error) {
	bb, err := chainx.BlockBytes(b)
	if err != nil {
		return nil, err
	}
	return chainx.DecodeBlock(bb, srih)
}

func (cx *ctx) runReject(w rejectSpec) ([]*caseRec, error) {
	fam, ok := rpcFamily(w.Fam)
	if !ok || !fam.SRIH {
		return nil, fmt.Errorf("reject: no StateRootInHeader family %s", w.Fam)
	}
	sc, h, err := scenarioOf(fam, w.Names)
	if err != nil {
		return nil, err
	}
	// b2': the successor of the last block, built on the reference replica
	ref, _, err := sc.RefNode(h)
	if err != nil {
		return nil, err
	}
	b2, err := ref.NewBlock()
	var magic uint32
	if err == nil {
		magic = uint32(ref.BC.GetConfig().Magic)
		b2.PrevStateRoot[0] ^= 1
		if b2, err = reblock(b2, true); err == nil {
			vals, e := ref.BC.GetNextBlockValidators()
			if e != nil {
				err = e
			} else {
				err = chainx.SignBlock(b2, vals, magic)
			}
		}
	}
	ref.Close()
	if err != nil {
		return nil, fmt.Errorf("reject: successor header: %w", err)
	}

	c, err := cx.newRun(sc, fam, w.V, h)
	if err != nil {
		return nil, err
	}
	defer func() { c.n.Close() }()
	c.kind = "reject"
	// H5: reads of the current root at the point "header of the next block stored, block not processed"
	points := 0
	c.n.BC.VerifSetPointHook(func(p int) {
		if p != core.VerifPointHeaderAdded || len(c.snaps) == 0 {
			return
		}
		points++
		c.current("in-flight")
	})
	defer c.n.BC.VerifSetPointHook(nil)
	if err := c.take(); err != nil {
		return nil, err
	}
	blocks, _ := sc.Blocks(h)
	for i := 0; i < len(blocks)-1; i++ {
		if err := c.n.AddBytes(blocks[i]); err != nil {
			return nil, fmt.Errorf("block %d rejected: %w", i+1, err)
		}
		cx.c.blocks.Inc()
		if err := c.flush(); err != nil {
			return nil, err
		}
		if err := c.take(); err != nil {
			return nil, err
		}
	}
	cx.c.inflightPoints.Add(points)
	N := c.n.Height()
	b, err := chainx.DecodeBlock(blocks[len(blocks)-1], true)
	if err != nil {
		return nil, err
	}
	if err := c.n.BC.AddHeaders(&b.Header, &b2.Header); err != nil {
		return nil, fmt.Errorf("reject: headers in advance refused: %w", err)
	}
	for round := 1; round <= 2; round++ {
		bb, err := chainx.DecodeBlock(blocks[len(blocks)-1], true)
		if err != nil {
			return nil, err
		}
		err = c.n.BC.AddBlock(bb)
		if err == nil || !strings.Contains(err.Error(), "PrevStateRoot mismatch") {
			return nil, fmt.Errorf("reject: the block was not refused after execution: %v", err)
		}
		if c.n.Height() != N {
			return nil, fmt.Errorf("reject: height moved to %d", c.n.Height())
		}
		cx.c.blocks.Inc()
		cx.c.rejected.Inc()
		if err := c.flush(); err != nil {
			return nil, err
		}
		c.current(fmt.Sprintf("after-refusal-%d", round))
	}
	c.evaluate()
	c.finish()
	return c.viol, nil
}

// current questions the state of the current height through every read path
// and compares with the newest snapshot.
func (c *run) current(moment string) {
	s := c.snaps[len(c.snaps)-1]
	c.cx.c.currentReads.Inc()
	if h := c.n.Height(); h != s.H {
		c.fail("O5-current", moment, s, "height", fmt.Sprint(h), fmt.Sprint(s.H))
		return
	}
	// the flat storage
	now := newSnap(s.H, s.Root, dump(c.n, c.ids))
	if digest(now) != digest(s) {
		c.fail("O5-current", moment, s, moment+":SeekStorage(all ids)", digest(now), digest(s))
	}
	if sr, err := c.n.BC.GetStateRoot(s.H); err != nil || sr.Root != s.Root {
		c.fail("O5-current", moment, s, moment+":GetStateRoot", fmt.Sprintf("%v %v", sr, err), s.Root.StringLE())
	}
	if r := c.mod.CurrentLocalStateRoot(); r != s.Root {
		c.fail("O5-current", moment, s, moment+":CurrentLocalStateRoot", r.StringLE(), s.Root.StringLE())
	}
	// live invocations
	for _, q := range s.Live {
		var (
			res string
			err error
		)
		pan := guard(func() { res, _, err = invoke(c.n, q.Script, nil) })
		switch {
		case pan != nil:
			c.fail("O5-current-live", moment, s, moment+":live:"+q.Name, fmt.Sprintf("panic: %v", pan), q.Res)
		case err != nil:
			c.fail("O5-current-live", moment, s, moment+":live:"+q.Name, "error: "+err.Error(), q.Res)
		case res != q.Res:
			c.fail("O5-current-live", moment, s, moment+":live:"+q.Name, res, q.Res)
		}
	}
	// the trie of the current root: range reads, point reads of every present key
	// and of its neighbours, proofs, historic invocations
	before := len(c.viol)
	c.light(s, true)
	for _, k := range s.Keys {
		for _, p := range append([]string{k}, probes(k, nil)...) {
			if len(p) == 0 || len(p) > 68 {
				continue
			}
			want, present := s.M[p]
			var (
				val []byte
				err error
			)
			c.loc.gets++
			pan := guard(func() { val, err = c.sm.GetState(s.Root, []byte(p)) })
			call := fmt.Sprintf("%s:GetState(key=%x)", moment, p)
			switch {
			case pan != nil:
				c.fail("O2-get", moment, s, call, fmt.Sprintf("panic: %v", pan), valStr(want, present))
			case err != nil:
				if present || !isNotFound(err) {
					c.fail("O2-get", moment, s, call, "error: "+err.Error(), valStr(want, present))
				}
			case !present || string(val) != want:
				c.fail("O2-get", moment, s, call, valStr(string(val), true), valStr(want, present))
			}
			if !present {
				continue
			}
			var proof [][]byte
			pan = guard(func() { proof, err = c.sm.GetStateProof(s.Root, []byte(p)) })
			call = fmt.Sprintf("%s:GetStateProof(key=%x)", moment, p)
			switch {
			case pan != nil:
				c.fail("O3-proof", moment, s, call, fmt.Sprintf("panic: %v", pan), valStr(want, true))
			case err != nil:
				c.fail("O3-proof", moment, s, call, "error: "+err.Error(), valStr(want, true))
			default:
				if !c.verifyMust(s, p, proof, moment+":own proof") {
					c.fail("O3-verify", moment, s, call, "does not verify", valStr(want, true))
				}
			}
		}
	}
	c.historic(s, true)
	// the violations of the shared oracles name the moment in their call
	for _, v := range c.viol[before:] {
		if !strings.HasPrefix(v.Call, moment) {
			v.Call = moment + ":" + v.Call
		}
	}
}
