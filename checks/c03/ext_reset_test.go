package c03

// Extension family "reset": history, rollback, other history. The replica
// replays preamble + [a, b], is stopped, its state is reset to the height before
// b (Blockchain.Reset: stateroot.Module.ResetState re-points the module to the
// older root, removes the newer root records and leaves the trie nodes alone),
// is started again and gets ANOTHER block at the height b had. Then every
// height is questioned as usual: the roots below the reset point must still
// name exactly map_h, the replaced height must name the new map (not the one
// of the removed block, whose nodes are still in the store), and historic
// invocations must follow.

import (
	"fmt"
	"strings"

	"verif/lib/chainx"
)

type resetSpec struct {
	Fam   string
	V     nodeVariant
	Names []string // a, b, c: b is rolled back and replaced by c
}

var resetAlphabet = []string{"put-ext", "del-recreate", "destroy-ub", "deploy-uc"}

func resetSpecs(thorough bool) []resetSpec {
	var out []resetSpec
	i := 0
	for _, a := range resetAlphabet {
		for _, b := range resetAlphabet {
			for _, c := range resetAlphabet {
				if !thorough && c != resetAlphabet[(i+1)%len(resetAlphabet)] {
					continue // quick: one replacement per (a, b), rotating
				}
				// the pruning replica of family single (MaxTraceableBlocks 6) is still below
				// the height from which a reset is refused with RemoveUntraceableBlocks
				vs := []nodeVariant{vArchivalFlush, vGC}
				if !thorough {
					vs = vs[i%2 : i%2+1]
				}
				for _, v := range vs {
					out = append(out, resetSpec{Fam: []string{"single", "single-srih"}[i%2], V: v, Names: []string{a, b, c}})
				}
			}
			i++
		}
	}
	return out
}

func resetJobs(cx *ctx) []*extJob {
	var out []*extJob
	for _, w := range resetSpecs(cx.r.Thorough()) {
		w := w
		out = append(out, &extJob{
			name: fmt.Sprintf("reset:%s:%s:%s", w.Fam, w.V.Name, strings.Join(w.Names, ",")),
			run:  func() ([]*caseRec, error) { return cx.runReset(w) },
		})
	}
	return out
}

func (cx *ctx) runReset(w resetSpec) ([]*caseRec, error) {
	fam, ok := rpcFamily(w.Fam)
	if !ok || len(w.Names) != 3 {
		return nil, fmt.Errorf("reset: bad case %v", w)
	}
	fam.Focus = true
	sc, h, err := scenarioOf(fam, w.Names[:2])
	if err != nil {
		return nil, err
	}
	c, err := cx.newRun(sc, fam, w.V, h)
	if err != nil {
		return nil, err
	}
	defer func() { c.n.Close() }()
	c.kind = "reset"
	c.names = w.Names
	if err := c.take(); err != nil {
		return nil, err
	}
	blocks, _ := sc.Blocks(h)
	for i := range blocks {
		if err := c.n.AddBytes(blocks[i]); err != nil {
			return nil, fmt.Errorf("block %d rejected: %w", i+1, err)
		}
		cx.c.blocks.Inc()
		if err := c.flush(); err != nil {
			return nil, err
		}
		if err := c.take(); err != nil {
			return nil, err
		}
	}
	removed := c.snaps[len(c.snaps)-1]
	to := removed.H - 1
	// stop, reset on a node that is not running, start again
	c.n.Close()
	o := c.n.Opts
	o.Store = c.n.Store
	o.NoRun = true
	m, err := chainx.New(o)
	if err != nil {
		return nil, fmt.Errorf("reset: reopen: %w", err)
	}
	if err := m.BC.Reset(to); err != nil {
		return nil, fmt.Errorf("reset: Reset(%d): %w", to, err)
	}
	o.NoRun = false
	n, err := chainx.New(o)
	if err != nil {
		return nil, fmt.Errorf("reset: restart after the reset: %w", err)
	}
	c.n = n
	c.w = c.w.Attach(n)
	c.sm, c.mod = module(n)
	if c.mod == nil {
		return nil, fmt.Errorf("state module is not *stateroot.Module")
	}
	if n.Height() != to {
		return nil, fmt.Errorf("reset: height %d after Reset(%d)", n.Height(), to)
	}
	cx.c.resets.Inc()
	c.snaps = c.snaps[:len(c.snaps)-1]
	c.current("after-reset")
	// the replacement block, built on the replica itself
	tpl := tplByName(w.Names[2])[0]
	txs, err := tpl.Build(c.w)
	if err != nil {
		cx.r.Outcome("reset:replacement-not-applicable")
		txs = nil
	}
	if _, err := n.AddBlock(txs...); err != nil {
		if !w.V.GC {
			return nil, fmt.Errorf("reset: replacement block rejected: %w", err)
		}
		// reported to the lead: after a reset the trie of the target height consists of
		// inactive records, which the block-processing trie of a pruning replica (GC
		// flag) does not see ("error while trying to apply MPT changes: key not found").
		// No new height exists, so C03 has nothing more to ask than the heights below.
		cx.r.Outcome("reset:pruning-replica-refuses-the-next-block")
		c.current("after-refused-replacement")
	} else {
		cx.c.blocks.Inc()
		if err := c.flush(); err != nil {
			return nil, err
		}
		if err := c.take(); err != nil {
			return nil, err
		}
		if now := c.snaps[len(c.snaps)-1]; now.Root == removed.Root {
			c.out("reset:replacement-has-the-removed-root")
		} else {
			c.out("reset:replacement-differs")
		}
	}
	c.evaluate()
	c.finish()
	return c.viol, nil
}
