package c03

// Extension family "rpc": the property's read paths as a client sees them. A
// real rpcsrv.Server sits on the replica and is driven in-process through the
// internal client (no sockets). After a history every height's root is
// questioned through
//
//	getstate, getproof + verifyproof, findstates (every prefix, start key, count;
//	  truncation flag, first/last proof)
//	getstoragehistoric / findstoragehistoric (by contract id and by hash, every
//	  page start), getstorage / findstorage at the top height
//	invokescripthistoric by height, by block hash and by state root
//	an iterator session backed by the MPT (SessionBackedByMPT) against the same
//	  session served from the flat storage
//
// and compared with map_h / with what the live node answered at height h. The
// server's page limits are set to 3 (findstates) and 2 (findstorage) so that
// the small storages of the U instances cross them.

import (
	"bytes"
	"context"
	"fmt"
	"sort"
	"strings"
	"time"

	"github.com/google/uuid"
	"github.com/nspcc-dev/neo-go/pkg/config"
	"github.com/nspcc-dev/neo-go/pkg/core/mpt"
	"github.com/nspcc-dev/neo-go/pkg/core/native"
	"github.com/nspcc-dev/neo-go/pkg/core/native/nativehashes"
	"github.com/nspcc-dev/neo-go/pkg/core/state"
	"github.com/nspcc-dev/neo-go/pkg/core/transaction"
	"github.com/nspcc-dev/neo-go/pkg/encoding/fixedn"
	"github.com/nspcc-dev/neo-go/pkg/neorpc/result"
	"github.com/nspcc-dev/neo-go/pkg/network"
	"github.com/nspcc-dev/neo-go/pkg/rpcclient"
	"github.com/nspcc-dev/neo-go/pkg/services/rpcsrv"
	"github.com/nspcc-dev/neo-go/pkg/smartcontract"
	"github.com/nspcc-dev/neo-go/pkg/util"
	"github.com/nspcc-dev/neo-go/pkg/vm/stackitem"
	"go.uber.org/zap"

	"verif/lib/chainx"
)

const (
	rpcMaxFind        = 3
	rpcMaxFindStorage = 2
)

type rpcEnd struct {
	srv    *rpcsrv.Server
	c      *rpcclient.Internal
	cancel context.CancelFunc
}

func newRPC(n *chainx.Node, sessionsByMPT bool) (r *rpcEnd, err error) {
	defer func() {
		if p := recover(); p != nil {
			r, err = nil, fmt.Errorf("rpc server: %v", p)
		}
	}()
	cfg := config.Config{ProtocolConfiguration: n.BC.GetConfig().ProtocolConfiguration}
	rc := &cfg.ApplicationConfiguration.RPC
	rc.Enabled = true
	rc.MaxGasInvoke = fixedn.Fixed8FromInt64(invokeGas / 1_0000_0000)
	rc.MaxFindResultItems = rpcMaxFind
	rc.MaxFindStorageResultItems = rpcMaxFindStorage
	rc.MaxIteratorResultItems = 100
	rc.SessionEnabled = true
	rc.SessionBackedByMPT = sessionsByMPT
	rc.SessionPoolSize = 20
	rc.SessionLifetime = time.Hour
	sc, err := network.NewServerConfig(cfg)
	if err != nil {
		return nil, err
	}
	ns, err := network.NewServer(sc, n.BC, n.BC.GetStateSyncModule(), zap.NewNop())
	if err != nil {
		return nil, err
	}
	errCh := make(chan error, 4)
	srv := rpcsrv.New(n.BC, *rc, ns, nil, zap.NewNop(), errCh)
	srv.Start()
	ctx, cancel := context.WithCancel(context.Background())
	c, err := rpcclient.NewInternal(ctx, srv.RegisterLocal)
	if err == nil {
		err = c.Init()
	}
	if err != nil {
		cancel()
		srv.Shutdown()
		return nil, err
	}
	return &rpcEnd{srv: srv, c: c, cancel: cancel}, nil
}

func (r *rpcEnd) close() {
	if r == nil {
		return
	}
	r.c.Close()
	r.cancel()
	r.srv.Shutdown()
}

// ---- the cases --------------------------------------------------------------------------

type rpcSpec struct {
	Fam   string
	V     nodeVariant
	Names []string
}

func rpcFamily(name string) (famSpec, bool) {
	for _, f := range families(true) {
		if f.Name == name {
			return f, true
		}
	}
	return famSpec{}, false
}

// rpcAlphabet: storage operations that matter at this level - keys extending
// each other, delete + re-create, EMPTY values, a destroyed contract (its hash
// stops resolving, its id keeps no keys), a contract that appears later.
var rpcAlphabet = []string{"put-ext", "del-recreate", "values", "destroy-ub", "deploy-uc"}

func rpcSpecs(thorough bool) []rpcSpec {
	var out []rpcSpec
	i := 0
	add := func(fam string, names []string, vs ...nodeVariant) {
		for _, v := range vs {
			out = append(out, rpcSpec{Fam: fam, V: v, Names: names})
		}
	}
	for _, a := range rpcAlphabet {
		for _, b := range rpcAlphabet {
			names := []string{a, b}
			if thorough {
				add("single", names, vArchival)
				add("single-srih", names, vArchivalRestart)
				add("single-mtb2", names, vGC, vLatest, vLatestGC, vGCRestart)
			} else {
				// every history on an archival replica (alternating protocol family and
				// flush policy) and on one pruning replica
				switch i % 3 {
				case 0:
					add("single", names, vArchival)
				case 1:
					add("single-srih", names, vArchivalFlush)
				default:
					add("single-mtb2", names, vArchivalRestart)
				}
				add("single-mtb2", names, []nodeVariant{vGC, vLatest, vGCRestart, vLatestGC}[i%4])
			}
			i++
		}
	}
	return out
}

func rpcJobs(cx *ctx) []*extJob {
	var out []*extJob
	for _, w := range rpcSpecs(cx.r.Thorough()) {
		w := w
		out = append(out, &extJob{
			name: fmt.Sprintf("rpc:%s:%s:%s", w.Fam, w.V.Name, strings.Join(w.Names, ",")),
			run:  func() ([]*caseRec, error) { return cx.runRPC(w) },
		})
	}
	return out
}

func (cx *ctx) runRPC(w rpcSpec) ([]*caseRec, error) {
	fam, ok := rpcFamily(w.Fam)
	if !ok {
		return nil, fmt.Errorf("no family %s", w.Fam)
	}
	sc, h, err := scenarioOf(fam, w.Names)
	if err != nil {
		if strings.Contains(err.Error(), "history cannot be built") {
			cx.r.Outcome("rpc:history-not-applicable")
			return nil, nil
		}
		return nil, err
	}
	c, err := cx.newRun(sc, fam, w.V, h)
	if err != nil {
		return nil, err
	}
	defer func() { c.n.Close() }()
	c.kind = "rpc"
	if err := c.take(); err != nil {
		return nil, err
	}
	blocks, _ := sc.Blocks(h)
	for i := 0; i < len(blocks)+fam.Tail; i++ {
		if i < len(blocks) {
			if err := c.n.AddBytes(blocks[i]); err != nil {
				return nil, fmt.Errorf("block %d rejected: %w", i+1, err)
			}
		} else if _, err := c.n.AddBlock(); err != nil {
			return nil, fmt.Errorf("tail block rejected: %w", err)
		}
		cx.c.blocks.Inc()
		if err := c.flush(); err != nil {
			return nil, err
		}
		if err := c.take(); err != nil {
			return nil, err
		}
	}
	if w.V.Restart {
		if err := c.restart(); err != nil {
			return nil, err
		}
	}
	c.buildUniverse()
	if err := c.rpcEvaluate(); err != nil {
		return nil, err
	}
	c.finish()
	return c.viol, nil
}

// ---- evaluation ---------------------------------------------------------------------------

type rpcContract struct {
	Name string
	Hash util.Uint160
}

func mgmtKey(h util.Uint160) string {
	return trieKey(-1, native.MakeContractKey(h))
}

// contractAt resolves a contract hash in map_h the way the server has to: through
// the management contract's storage at that height.
func contractAt(s *snap, h util.Uint160) (id int32, exists bool, err error) {
	v, ok := s.M[mgmtKey(h)]
	if !ok {
		return 0, false, nil
	}
	cs := new(state.Contract)
	if err := stackitem.DeserializeConvertible([]byte(v), cs); err != nil {
		return 0, false, err
	}
	return cs.ID, true, nil
}

func (c *run) rpcCount(n int) { c.cx.c.rpcCalls.Add(n) }

func (c *run) rpcEvaluate() error {
	end, err := newRPC(c.n, false)
	if err != nil {
		return err
	}
	defer end.close()
	cl := end.c
	cast := []rpcContract{{"UA", c.w.UA.Hash}, {"UB", c.w.UB.Hash}, {"UC", c.w.UC.Hash}, {"GAS", nativehashes.GasToken}, {"Management", nativehashes.ContractManagement}}
	from := c.retainedFrom()
	H := c.n.Height()
	for _, s := range c.snaps {
		retained := s.H >= from
		// exhaustive enumeration once per distinct (family, root) over the archival
		// replicas, always on the pruning ones
		full := true
		if !c.v.GC && !c.v.Latest && !c.cx.deepAll {
			_, seen := c.cx.rpcSeen.LoadOrStore(c.fam.Name+"/"+s.Root.StringLE(), true)
			full = !seen
		}
		c.cx.c.rpcStates.Inc()
		for _, ct := range cast {
			id, exists, err := contractAt(s, ct.Hash)
			if err != nil {
				return fmt.Errorf("contract state of %s in map_%d: %w", ct.Name, s.H, err)
			}
			if !exists {
				c.rpcUnknown(cl, s, ct, retained)
				continue
			}
			c.rpcPoints(cl, s, ct, id, retained, full)
			c.rpcFinds(cl, s, ct, id, retained, full)
			c.rpcPages(cl, s, ct, id, retained, full, false)
			if s.H == H {
				c.rpcPages(cl, s, ct, id, true, true, true)
			}
		}
		if !c.v.Latest && retained {
			c.rpcInvoke(cl, s)
			c.rpcVerify(cl, s)
		}
	}
	if !c.v.Latest {
		c.rpcSession(cl)
	}
	return nil
}

// keysOf returns the keys (without the id) of the universe that belong to id.
func (c *run) keysOf(id int32) []string {
	p := trieKey(id, nil)
	lo := sort.SearchStrings(c.universe, p)
	var out []string
	for i := lo; i < len(c.universe) && strings.HasPrefix(c.universe[i], p); i++ {
		out = append(out, c.universe[i][4:])
	}
	return out
}

// refusal classifies an error answer for a state that may be refused.
func (c *run) refusal(what string, retained bool, err error) bool {
	if retained {
		return false
	}
	c.out("rpc:nonretained:" + what + ":error")
	return true
}

// rpcUnknown: the hash does not name a contract at this height.
func (c *run) rpcUnknown(cl *rpcclient.Internal, s *snap, ct rpcContract, retained bool) {
	c.out("rpc:contract-absent:" + ct.Name)
	key := []byte("a")
	c.rpcCount(5)
	check := func(what string, err error, got string) {
		if err != nil {
			return
		}
		if !retained {
			// a state that is not kept may answer anything but data
			c.fail("R-"+what+"-nonretained", "absent-contract", s, fmt.Sprintf("%s(%s,%x)", what, ct.Name, key), got, "an error: no such contract at this height")
			return
		}
		c.fail("R-"+what, "absent-contract", s, fmt.Sprintf("%s(%s,%x)", what, ct.Name, key), got, "an error: no such contract at this height")
	}
	var err error
	var v []byte
	if pan := guard(func() { v, err = cl.GetState(s.Root, ct.Hash, key) }); pan != nil {
		err = fmt.Errorf("panic: %v", pan)
	}
	check("getstate", err, valStr(string(v), true))
	var pr *result.ProofWithKey
	if pan := guard(func() { pr, err = cl.GetProof(s.Root, ct.Hash, key) }); pan != nil {
		err = fmt.Errorf("panic: %v", pan)
	}
	check("getproof", err, fmt.Sprint(pr))
	var fs result.FindStates
	if pan := guard(func() { fs, err = cl.FindStates(s.Root, ct.Hash, nil, nil, nil) }); pan != nil {
		err = fmt.Errorf("panic: %v", pan)
	}
	check("findstates", err, fmt.Sprintf("%d results", len(fs.Results)))
	if pan := guard(func() { v, err = cl.GetStorageByHashHistoric(s.Root, ct.Hash, key) }); pan != nil {
		err = fmt.Errorf("panic: %v", pan)
	}
	check("getstoragehistoric", err, valStr(string(v), true))
	var fst result.FindStorage
	if pan := guard(func() { fst, err = cl.FindStorageByHashHistoric(s.Root, ct.Hash, nil, nil) }); pan != nil {
		err = fmt.Errorf("panic: %v", pan)
	}
	check("findstoragehistoric", err, fmt.Sprintf("%d results", len(fst.Results)))
}

// rpcPoints: getstate, getproof + verifyproof, getstoragehistoric (by id and by
// hash) for every key of the contract in the universe; at the top height also
// getstorage.
func (c *run) rpcPoints(cl *rpcclient.Internal, s *snap, ct rpcContract, id int32, retained, full bool) {
	keys := c.keysOf(id)
	top := s.H == c.n.Height()
	for ki, k := range keys {
		if !full && ki%4 != int(s.H)%4 {
			continue // seen root: a rotating quarter of the keys
		}
		tk := trieKey(id, []byte(k))
		if len(tk) > mpt.MaxKeyLength {
			continue
		}
		want, present := s.M[tk]
		type ans struct {
			v   []byte
			err error
		}
		point := func(what string, f func() ([]byte, error)) {
			var a ans
			c.rpcCount(1)
			if pan := guard(func() { a.v, a.err = f() }); pan != nil {
				a.err = fmt.Errorf("panic: %v", pan)
				if retained {
					c.fail("R-"+what, "panic", s, fmt.Sprintf("%s(%s,key=%x)", what, ct.Name, k), a.err.Error(), valStr(want, present))
					return
				}
			}
			call := fmt.Sprintf("%s(%s,key=%x)", what, ct.Name, k)
			switch {
			case a.err != nil:
				if c.refusal(what, retained, a.err) {
					return
				}
				if present {
					c.fail("R-"+what, "present-key", s, call, "error: "+a.err.Error(), valStr(want, true))
				}
			case !present:
				o := "R-" + what
				if !retained {
					o += "-nonretained"
				}
				c.fail(o, "absent-key", s, call, valStr(string(a.v), true), "<absent>")
			case string(a.v) != want:
				o := "R-" + what
				if !retained {
					o += "-nonretained"
				}
				c.fail(o, "present-key", s, call, valStr(string(a.v), true), valStr(want, true))
			default:
				if want == "" {
					c.out("rpc:" + what + ":empty-value")
				}
			}
		}
		point("getstate", func() ([]byte, error) { return cl.GetState(s.Root, ct.Hash, []byte(k)) })
		point("getstoragehistoric-by-id", func() ([]byte, error) { return cl.GetStorageByIDHistoric(s.Root, id, []byte(k)) })
		point("getstoragehistoric-by-hash", func() ([]byte, error) { return cl.GetStorageByHashHistoric(s.Root, ct.Hash, []byte(k)) })
		if top {
			prev := retained
			retained = true
			point("getstorage-by-id", func() ([]byte, error) { return cl.GetStorageByID(id, []byte(k)) })
			point("getstorage-by-hash", func() ([]byte, error) { return cl.GetStorageByHash(ct.Hash, []byte(k)) })
			retained = prev
		}
		if c.v.Latest {
			continue // getproof / verifyproof are switched off with KeepOnlyLatestState
		}
		point("getproof+verifyproof", func() ([]byte, error) {
			pr, err := cl.GetProof(s.Root, ct.Hash, []byte(k))
			if err != nil {
				return nil, err
			}
			if string(pr.Key) != tk {
				return nil, fmt.Errorf("proof names key %x, asked for %x", pr.Key, tk)
			}
			v, err := cl.VerifyProof(s.Root, pr)
			if err != nil {
				return nil, fmt.Errorf("verifyproof refuses the proof getproof gave: %w", err)
			}
			return v, nil
		})
	}
}

// rpcFinds: findstates over the prefixes of the contract's keys x start keys x counts.
func (c *run) rpcFinds(cl *rpcclient.Internal, s *snap, ct rpcContract, id int32, retained, full bool) {
	keys := c.keysOf(id)
	seen := map[string]bool{}
	var prefixes []string
	for _, k := range keys {
		for l := 0; l <= len(k) && l <= 3; l++ {
			if !seen[k[:l]] {
				seen[k[:l]] = true
				prefixes = append(prefixes, k[:l])
			}
		}
	}
	one, two, five := 1, 2, 5
	for pi, p := range prefixes {
		if !full && pi%4 != int(s.H)%4 {
			continue
		}
		var starts [][]byte
		starts = append(starts, nil)
		for _, k := range keys {
			if strings.HasPrefix(k, p) && len(k) > 0 {
				starts = append(starts, []byte(k))
			}
		}
		for _, st := range starts {
			for _, cnt := range []*int{nil, &one, &two, &five} {
				if st != nil && cnt == &five {
					continue
				}
				c.rpcFind(cl, s, ct, id, []byte(p), st, cnt, retained)
			}
		}
	}
}

func (c *run) rpcFind(cl *rpcclient.Internal, s *snap, ct rpcContract, id int32, prefix, start []byte, cnt *int, retained bool) {
	limit := rpcMaxFind
	cs := "default"
	if cnt != nil {
		limit = min(*cnt, rpcMaxFind)
		cs = fmt.Sprint(*cnt)
	}
	pKey := []byte(trieKey(id, prefix))
	var from []byte // suffix after the prefix; nil = from the beginning, the item equal to the prefix included
	if len(start) > 0 {
		from = start[len(prefix):]
		if from == nil {
			from = []byte{}
		}
	}
	want := s.expectFind(pKey, from, limit+1)
	trunc := len(want) == limit+1
	if trunc {
		want = want[:limit]
	}
	var (
		got result.FindStates
		err error
	)
	c.rpcCount(1)
	call := fmt.Sprintf("findstates(%s,prefix=%x,start=%s,count=%s)", ct.Name, prefix, startName(start), cs)
	o := "R-findstates"
	if !retained {
		o += "-nonretained"
	}
	if pan := guard(func() { got, err = cl.FindStates(s.Root, ct.Hash, prefix, start, cnt) }); pan != nil {
		if retained {
			c.fail(o, "panic", s, call, fmt.Sprintf("panic: %v", pan), kvsString(want))
		}
		return
	}
	if err != nil {
		if c.refusal("findstates", retained, err) {
			return
		}
		c.fail(o, "error", s, call, "error: "+err.Error(), kvsString(want))
		return
	}
	gotKVs := make([]kv, len(got.Results))
	for i, e := range got.Results {
		gotKVs[i] = kv{trieKey(id, e.Key), string(e.Value)}
	}
	if !sameKVs(gotKVs, want) {
		c.fail(o, startClass(start)+"-results", s, call, kvsString(gotKVs), kvsString(want))
		return
	}
	if got.Truncated != trunc {
		c.fail(o, "truncated-flag", s, call, fmt.Sprintf("truncated=%v with %s", got.Truncated, kvsString(gotKVs)), fmt.Sprintf("truncated=%v", trunc))
		return
	}
	if trunc {
		c.out("rpc:findstates:truncated")
	}
	// first / last proofs
	proofOK := func(which string, p *result.ProofWithKey, e kv) {
		if p == nil {
			c.fail(o, which+"-proof", s, call, "no "+which+" proof", "a proof of "+hx(e.K))
			return
		}
		if string(p.Key) != e.K {
			c.fail(o, which+"-proof", s, call, fmt.Sprintf("proof of key %x", p.Key), "a proof of "+hx(e.K))
			return
		}
		v, ok := mpt.VerifyProof(s.Root, p.Key, p.Proof)
		if !ok || string(v) != e.V {
			c.fail(o, which+"-proof", s, call, fmt.Sprintf("verifies=%v to %s", ok, valStr(string(v), ok)), valStr(e.V, true))
		}
	}
	switch {
	case len(want) == 0:
		if got.FirstProof != nil || got.LastProof != nil {
			c.fail(o, "first-proof", s, call, "a proof with an empty result", "no proofs")
		}
	case len(want) == 1:
		proofOK("first", got.FirstProof, want[0])
		if got.LastProof != nil {
			// documented: the last proof is given for more than one result only
			c.out("rpc:findstates:last-proof-with-one-result")
		}
	default:
		proofOK("first", got.FirstProof, want[0])
		proofOK("last", got.LastProof, want[len(want)-1])
	}
}

// rpcPages: findstoragehistoric (live: findstorage) by id and by hash over the
// prefixes, every start index; following Next from 0 must list everything once.
func (c *run) rpcPages(cl *rpcclient.Internal, s *snap, ct rpcContract, id int32, retained, full, live bool) {
	keys := c.keysOf(id)
	seen := map[string]bool{}
	var prefixes []string
	for _, k := range keys {
		for l := 0; l <= len(k) && l <= 2; l++ {
			if !seen[k[:l]] {
				seen[k[:l]] = true
				prefixes = append(prefixes, k[:l])
			}
		}
	}
	what := "findstoragehistoric"
	if live {
		what = "findstorage"
	}
	o := "R-" + what
	if !retained {
		o += "-nonretained"
	}
	for pi, p := range prefixes {
		if !full && pi%4 != int(s.H)%4 {
			continue
		}
		all := s.expectFind([]byte(trieKey(id, []byte(p))), nil, 1<<20)
		for _, byHash := range []bool{false, true} {
			page := func(start int) (res result.FindStorage, err error) {
				c.rpcCount(1)
				st := &start
				pan := guard(func() {
					switch {
					case live && byHash:
						res, err = cl.FindStorageByHash(ct.Hash, []byte(p), st)
					case live:
						res, err = cl.FindStorageByID(id, []byte(p), st)
					case byHash:
						res, err = cl.FindStorageByHashHistoric(s.Root, ct.Hash, []byte(p), st)
					default:
						res, err = cl.FindStorageByIDHistoric(s.Root, id, []byte(p), st)
					}
				})
				if pan != nil {
					err = fmt.Errorf("panic: %v", pan)
				}
				return
			}
			by := "id"
			if byHash {
				by = "hash"
			}
			conv := func(r result.FindStorage) []kv {
				out := make([]kv, len(r.Results))
				for i, e := range r.Results {
					out[i] = kv{trieKey(id, e.Key), string(e.Value)}
				}
				return out
			}
			// every start index
			for start := 0; start <= len(all)+1; start++ {
				call := fmt.Sprintf("%s(%s by %s,prefix=%x,start=%d)", what, ct.Name, by, p, start)
				res, err := page(start)
				if err != nil {
					if strings.HasPrefix(err.Error(), "panic") && retained {
						c.fail(o, "panic", s, call, err.Error(), "a page")
						return
					}
					if c.refusal(what, retained, err) {
						return
					}
					c.fail(o, "error", s, call, "error: "+err.Error(), "a page")
					return
				}
				var want []kv
				if start < len(all) {
					want = all[start:min(start+rpcMaxFindStorage, len(all))]
				}
				if got := conv(res); !retained {
					// no error channel below SeekStates: a listing of a state that is not
					// kept may end early, but what it delivers must be right
					if !isPrefixKVs(got, want) {
						c.fail(o, "page", s, call, kvsString(got), kvsString(want))
						return
					}
					if len(got) < len(want) {
						c.out("rpc:nonretained:" + what + ":short")
						return
					}
					continue
				} else if !sameKVs(got, want) {
					c.fail(o, "page", s, call, kvsString(got), kvsString(want))
					return
				}
				if wt := start+rpcMaxFindStorage < len(all); res.Truncated != wt {
					c.fail(o, "truncated-flag", s, call, fmt.Sprintf("truncated=%v", res.Truncated), fmt.Sprintf("truncated=%v (%d items, page of %d from %d)", wt, len(all), rpcMaxFindStorage, start))
					return
				}
			}
			if !retained {
				continue
			}
			// a client following Next
			var (
				listed []kv
				next   int
			)
			for steps := 0; steps <= len(all)+2; steps++ {
				res, err := page(next)
				if err != nil {
					break
				}
				listed = append(listed, conv(res)...)
				if !res.Truncated {
					break
				}
				if res.Next <= next {
					c.fail(o, "next", s, fmt.Sprintf("%s(%s by %s,prefix=%x) following next", what, ct.Name, by, p), fmt.Sprintf("next=%d after start=%d", res.Next, next), "progress")
					return
				}
				next = res.Next
			}
			if !sameKVs(listed, all) {
				c.fail(o, "next", s, fmt.Sprintf("%s(%s by %s,prefix=%x) following next", what, ct.Name, by, p), kvsString(listed), kvsString(all))
				return
			}
			if len(all) > rpcMaxFindStorage {
				c.out("rpc:" + what + ":paged")
			}
		}
	}
}

func invokeString(r *result.Invoke) string {
	var sb strings.Builder
	for _, it := range r.Stack {
		sb.WriteString(chainx.ItemString(it))
	}
	return fmt.Sprintf("%s gas=%d fault=%q stack=%s", r.State, r.GasConsumed, r.FaultException, sb.String())
}

// rpcInvoke: invokescripthistoric addressed by height, block hash and state root.
func (c *run) rpcInvoke(cl *rpcclient.Internal, s *snap) {
	signers := []transaction.Signer{{Account: chainx.Acc(1).ScriptHash(), Scopes: transaction.CalledByEntry}}
	bh := c.n.BC.GetHeaderHash(s.H)
	for qi, q := range s.Live {
		// the three ways of naming the state rotate over the scripts
		var (
			res *result.Invoke
			err error
			how string
		)
		c.rpcCount(1)
		pan := guard(func() {
			switch (qi + int(s.H)) % 3 {
			case 0:
				how = "height"
				res, err = cl.InvokeScriptAtHeight(s.H, q.Script, signers)
			case 1:
				how = "blockhash"
				res, err = cl.InvokeScriptWithState(bh, q.Script, signers)
			default:
				how = "stateroot"
				res, err = cl.InvokeScriptWithState(s.Root, q.Script, signers)
			}
		})
		call := fmt.Sprintf("invokescripthistoric(by %s):%s", how, q.Name)
		switch {
		case pan != nil:
			c.fail("R-invokehistoric", "panic", s, call, fmt.Sprintf("panic: %v", pan), q.Res)
			return
		case err != nil:
			c.fail("R-invokehistoric", "by-"+how, s, call, "error: "+err.Error(), q.Res)
		case invokeString(res) != q.Res:
			c.fail("R-invokehistoric", "by-"+how, s, call, invokeString(res), q.Res)
		default:
			c.cx.c.rpcInvEqual.Inc()
		}
	}
}

// rpcVerify: invokecontractverifyhistoric of the U instances (verify accepts
// everything): HALT with true where the contract exists in map_h, an error where
// it does not (not yet deployed / destroyed).
func (c *run) rpcVerify(cl *rpcclient.Internal, s *snap) {
	for _, ct := range []rpcContract{{"UA", c.w.UA.Hash}, {"UB", c.w.UB.Hash}, {"UC", c.w.UC.Hash}} {
		_, exists, err := contractAt(s, ct.Hash)
		if err != nil {
			continue
		}
		var res *result.Invoke
		c.rpcCount(1)
		pan := guard(func() {
			if s.H%2 == 0 {
				res, err = cl.InvokeContractVerifyAtHeight(s.H, ct.Hash, []smartcontract.Parameter{}, nil)
			} else {
				res, err = cl.InvokeContractVerifyWithState(s.Root, ct.Hash, []smartcontract.Parameter{}, nil)
			}
		})
		call := "invokecontractverifyhistoric(" + ct.Name + ")"
		want := "an error: no such contract at this height"
		if exists {
			want = `HALT [{"type":"Boolean","value":true}]`
		}
		got := ""
		switch {
		case pan != nil:
			got = fmt.Sprintf("panic: %v", pan)
		case err != nil:
			got = "error: " + err.Error()
			if !exists {
				got = want
			}
		default:
			var sb strings.Builder
			for _, it := range res.Stack {
				sb.WriteString(chainx.ItemString(it))
			}
			got = res.State + " [" + sb.String() + "]"
		}
		if got != want {
			c.fail("R-verifyhistoric", ct.Name, s, call, got, want)
		} else if exists {
			c.cx.c.rpcInvEqual.Inc()
		} else {
			c.out("rpc:verifyhistoric:absent-contract-refused")
		}
	}
}

// rpcSession: iterators handed out by an invocation; with SessionBackedByMPT
// the server re-runs the script on the trie of the current root and the session
// reads from it.
func (c *run) rpcSession(cl *rpcclient.Internal) {
	mptEnd, err := newRPC(c.n, true)
	if err != nil {
		c.out("rpc:session:no-second-server")
		return
	}
	defer mptEnd.close()
	s := c.snaps[len(c.snaps)-1]
	type it struct {
		name   string
		hash   util.Uint160
		method string
	}
	for _, q := range []it{{"management.getContractHashes", nativehashes.ContractManagement, "getContractHashes"}, {"neo.getAllCandidates", nativehashes.NeoToken, "getAllCandidates"}} {
		script := chainx.CallScript(q.hash, q.method)
		list := func(cl *rpcclient.Internal) (out string, err error) {
			pan := guard(func() {
				var res *result.Invoke
				res, err = cl.InvokeScript(script, nil)
				if err != nil {
					return
				}
				if res.State != "HALT" || len(res.Stack) != 1 {
					err = fmt.Errorf("state %s, %d items, %s", res.State, len(res.Stack), res.FaultException)
					return
				}
				iter, ok := res.Stack[0].Value().(result.Iterator)
				if !ok || iter.ID == nil {
					err = fmt.Errorf("no session iterator on the stack: %T", res.Stack[0].Value())
					return
				}
				defer cl.TerminateSession(res.Session)
				var sb strings.Builder
				for {
					var items []stackitem.Item
					items, err = cl.TraverseIterator(res.Session, *iter.ID, 2)
					if err != nil {
						return
					}
					for _, e := range items {
						sb.WriteString(chainx.ItemString(e))
						sb.WriteByte(' ')
					}
					if len(items) < 2 {
						break
					}
				}
				out = sb.String()
			})
			if pan != nil {
				err = fmt.Errorf("panic: %v", pan)
			}
			return
		}
		c.rpcCount(2)
		flat, err := list(cl)
		if err != nil {
			c.out("rpc:session:flat-error")
			continue
		}
		viaMPT, err := list(mptEnd.c)
		call := "session(SessionBackedByMPT):" + q.name
		if err != nil {
			c.fail("R-session", q.name, s, call, "error: "+err.Error(), flat)
			continue
		}
		if viaMPT != flat {
			c.fail("R-session", q.name, s, call, viaMPT, flat)
			continue
		}
		c.cx.c.rpcSessions.Inc()
		if strings.Count(flat, " ") > 2 {
			c.out("rpc:session:several-pages")
		}
	}
}

var _ = uuid.Nil
var _ = bytes.Equal
