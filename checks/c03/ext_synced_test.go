package c03

// Extension family "synced": the state root / contract storage agreement on a
// replica whose state was not computed by executing blocks but RESTORED by
// state synchronisation (pkg/core/statesync).
//
// A source chain (preamble + a program of block templates, built on an archival
// reference replica that executes everything and is snapshotted at every
// height) is served to a FRESH replica with RemoveUntraceableBlocks and the
// state exchange extensions: headers, then the state data of the sync point P
// (MPT mode: the trie nodes of root_P, handed over in a parameterised ORDER and
// BATCHING; items mode: the key/value list of root_P in batches), then the
// blocks up to P. The module jumps to P. From there on the replica is an
// ordinary replica of the check: at P - a height it never executed - its flat
// contract storage (Blockchain.SeekStorage, written by Billet.RestoreHashNode /
// AddContractStorageItems under the temporary prefix and swapped in by the
// jump) is dumped and the read-only invocations are run; both must equal what
// the reference replica showed at P, and the trie named by root_P on the
// synced replica must hold exactly that map (O1 range reads, O2 point reads,
// O3 proofs, O4 historic invocations). Then the blocks after P are executed
// by the synced replica and every later height is compared the same way (the
// reference counters the restore left behind decide whether a later block that
// changes ONE copy of a shared subtree removes nodes the other copy needs).
// Restarts: in the middle of the state data (the pool of missing nodes is
// rebuilt from the half-restored billet), right after the jump, at the end.
//
// Source chains make SHARED SUBTREES, i.e. inner trie nodes reachable along
// several paths, because the restore handles a node once per path it is
// awaited under:
//
//	twin     UB gets exactly UA's storage (contract ids 1 and 2: the two
//	         subtries hang under one branch node, both paths are awaited when
//	         the shared extension node arrives, in every order), the copies
//	         then diverge and converge again
//	triple   the same with UC as a third copy (three paths)
//	shapes   inside UA: keys differing in one nibble with equal tails and
//	         values (10AA/10AB vs 20AA/20AB: children of one branch), cousins
//	         (111ABC vs 211ABC: children of different branches - whether both
//	         paths are awaited at arrival depends on the ORDER), the same
//	         subtree at different depths (30AABB/30AACC vs 4000AABB/4000AACC)
//	plus ordinary histories of the block alphabet.
//
// Orders (MPT mode; the set of awaited hashes is read from the module after
// every call): fifo / lifo over the harness's own request queue (breadth-first
// / depth-first, one node per call), level (all awaited nodes in one call,
// pre-order / reversed), whole (the entire trie in pre-order in ONE call, as a
// peer answers the request of the root), thorough: lo / hi (by hash), pairs,
// whole-rev (the entire trie, children first, again and again).
// Items mode: all items in one batch / one by one / in threes.

import (
	"bytes"
	"fmt"
	"sort"
	"strconv"
	"strings"
	"sync"

	"github.com/nspcc-dev/neo-go/pkg/config"
	"github.com/nspcc-dev/neo-go/pkg/core/block"
	"github.com/nspcc-dev/neo-go/pkg/core/mpt"
	"github.com/nspcc-dev/neo-go/pkg/core/state"
	"github.com/nspcc-dev/neo-go/pkg/core/statesync"
	"github.com/nspcc-dev/neo-go/pkg/core/storage"
	"github.com/nspcc-dev/neo-go/pkg/core/transaction"
	"github.com/nspcc-dev/neo-go/pkg/io"
	"github.com/nspcc-dev/neo-go/pkg/util"

	"verif/lib/chainx"
	"verif/lib/vk"
)

// ---- templates of the family ------------------------------------------------------------

var (
	nibV1, nibW1 = []byte("v1"), []byte("w1")
	nibV3, nibW3 = []byte("v3"), bytes.Repeat([]byte{0x33}, 40)
)

func syncedTemplates() []chainx.Tpl {
	prog := func(name string, signer int, who int, ops ...[]any) chainx.Tpl {
		return chainx.Tpl{Name: name, Build: func(w *chainx.World) ([]*transaction.Transaction, error) {
			var p []any
			for _, o := range ops {
				p = append(p, o)
			}
			switch who {
			case 1:
				return one(w.URun(signer, w.UA, p))
			case 2:
				return one(w.URun(signer, w.UB, p))
			}
			if w.N.BC.GetContractState(w.UC.Hash) == nil {
				return nil, fmt.Errorf("UC is not deployed")
			}
			return one(w.N.CallTx(sg(2), w.UC.Hash, "run", p))
		}}
	}
	const ua, ub, uc = 1, 2, 3
	twin := [][]any{put([]byte("a"), []byte("1")), put([]byte("ab"), []byte("2")), put([]byte("b"), []byte("1"))}
	return []chainx.Tpl{
		// UB / UC get what the preamble gave UA
		prog("ub-twin", 1, ub, twin...),
		prog("uc-twin", 2, uc, twin...),
		prog("ub-put-ac-1", 2, ub, put([]byte("ac"), []byte("1"))),
		prog("ub-del-ab", 3, ub, del([]byte("ab"))),
		prog("uc-del-ab", 2, uc, del([]byte("ab"))),
		// shared subtrees inside one contract
		prog("ua-shapes", 1, ua,
			put([]byte{0x10, 0xAA}, nibV1), put([]byte{0x10, 0xAB}, nibW1), put([]byte{0x20, 0xAA}, nibV1), put([]byte{0x20, 0xAB}, nibW1),
			put([]byte{0x11, 0x1A, 0xBC}, []byte("7")), put([]byte{0x11, 0x20, 0x00}, []byte("8")), put([]byte{0x21, 0x1A, 0xBC}, []byte("7")), put([]byte{0x21, 0x30, 0x00}, []byte("9")),
			put([]byte{0x30, 0xAA, 0xBB}, nibV3), put([]byte{0x30, 0xAA, 0xCC}, nibW3), put([]byte{0x40, 0x00, 0xAA, 0xBB}, nibV3), put([]byte{0x40, 0x00, 0xAA, 0xCC}, nibW3),
		),
		// one copy of every shared subtree changes
		prog("ua-shapes-mod", 2, ua,
			put([]byte{0x10, 0xAB}, []byte("x")), del([]byte{0x21, 0x1A, 0xBC}), put([]byte{0x40, 0x00, 0xAA, 0xCC}, []byte{}),
		),
		// ... and is made equal to the other copy again
		prog("ua-shapes-fix", 3, ua,
			put([]byte{0x10, 0xAB}, nibW1), put([]byte{0x21, 0x1A, 0xBC}, []byte("7")), put([]byte{0x40, 0x00, 0xAA, 0xCC}, nibW3),
		),
		// the other copy goes away altogether
		prog("ua-shapes-del", 1, ua,
			del([]byte{0x20, 0xAA}), del([]byte{0x20, 0xAB}), del([]byte{0x11, 0x1A, 0xBC}), del([]byte{0x30, 0xAA, 0xBB}), del([]byte{0x30, 0xAA, 0xCC}),
		),
	}
}

// ---- the cases ------------------------------------------------------------------------------

type syncedSpec struct {
	MTB     uint32
	Prog    []string
	P       uint32
	Mode    string // mpt | items
	Order   string
	V       nodeVariant
	Restart string // subset of "data" (between state data and blocks), "mid" (once, half way through the state data), "every" (after every call of the state data stage), "jump", "end" joined by "+"
	Hdr     int    // header delivery: 0 = all in one call, 1 = up to P+1, then the rest (not needed, tried), 2 = one by one
}

const (
	syncedInterval = 2
	syncedMaxViol  = 5 // violations reported per case (one broken restore fails every oracle)
)

var (
	vSyncedGC       = nodeVariant{Name: "synced-gc", Flush: true, GC: true}
	vSyncedLatestGC = nodeVariant{Name: "synced-latest-gc", Flush: true, GC: true, Latest: true}
	vSyncedCached   = nodeVariant{Name: "synced-gc-cached", GC: true}
	syncedVariants  = []nodeVariant{vSyncedGC, vSyncedLatestGC, vSyncedCached}
)

func syncedFamily(mtb uint32) famSpec {
	return famSpec{Focus: true, Family: chainx.Family{Name: fmt.Sprintf("sync-i%d-mtb%d", syncedInterval, mtb), SRIH: true, MTB: mtb, Extra: func(c *config.Blockchain) {
		c.P2PStateExchangeExtensions = true
		c.StateSyncInterval = syncedInterval
	}}}
}

var syncedSources = map[string][]string{
	"twin":     {"ub-twin", "ua-put-ac-1", "ub-put-ac-1", "ua-del-ab", "ub-del-ab"},
	"triple":   {"deploy-uc", "ub-twin", "uc-twin", "ua-del-ab", "uc-del-ab"},
	"shapes":   {"ua-shapes", "ua-shapes-mod", "ua-shapes-fix", "ua-shapes-mod", "ua-shapes-del"},
	"alphabet": {"put-ext", "ub-same", "del-recreate", "destroy-ub", "deploy-uc"},
	"values":   {"values", "designate", "del-all-ua", "write-fault", "gas-transfer"},
	"deep":     {"ua-put-deep", "ub-twin", "ua-mod-deep", "ua-del-deep", "ub-same"},
	"late":     {"ua-shapes", "ub-twin", "deploy-uc", "uc-twin", "ua-shapes-mod", "ub-del-ab", "ua-shapes-fix"},
}

func (w syncedSpec) spec() string {
	return fmt.Sprintf("P=%d;mode=%s;order=%s;restart=%s;hdr=%d", w.P, w.Mode, w.Order, w.Restart, w.Hdr)
}

func parseSyncedSpec(fam string, variant string, prog []string, spec string) (syncedSpec, error) {
	w := syncedSpec{Prog: prog}
	var iv int
	if _, err := fmt.Sscanf(fam, "sync-i%d-mtb%d", &iv, &w.MTB); err != nil || iv != syncedInterval {
		return w, fmt.Errorf("synced: bad family %q", fam)
	}
	found := false
	for _, v := range syncedVariants {
		if v.Name == variant {
			w.V, found = v, true
		}
	}
	if !found {
		return w, fmt.Errorf("synced: bad variant %q", variant)
	}
	for _, f := range strings.Split(spec, ";") {
		kv := strings.SplitN(f, "=", 2)
		if len(kv) != 2 {
			return w, fmt.Errorf("synced: bad spec %q", spec)
		}
		switch kv[0] {
		case "P":
			p, err := strconv.Atoi(kv[1])
			if err != nil {
				return w, err
			}
			w.P = uint32(p)
		case "mode":
			w.Mode = kv[1]
		case "order":
			w.Order = kv[1]
		case "restart":
			w.Restart = kv[1]
		case "hdr":
			w.Hdr, _ = strconv.Atoi(kv[1])
		}
	}
	return w, nil
}

func syncedSpecs(thorough bool) []syncedSpec {
	var out []syncedSpec
	restarts := []string{"", "jump", "mid", "end", "mid+data+jump+end", "data"}
	i := 0
	add := func(mtb uint32, src string, P uint32, mode, order string, vs []nodeVariant, rs []string) {
		for _, v := range vs {
			for _, rst := range rs {
				out = append(out, syncedSpec{MTB: mtb, Prog: syncedSources[src], P: P, Mode: mode, Order: order, V: v, Restart: rst, Hdr: i % 3})
				i++
			}
		}
	}
	if !thorough {
		orders := []string{"fifo", "lifo", "level", "level-desc", "whole"}
		for _, src := range []string{"twin", "triple", "shapes", "alphabet", "values"} {
			for _, P := range []uint32{4, 6} {
				for _, o := range orders {
					// variant and restart pattern rotate (5 orders x 2 points: every order meets both variants)
					add(6, src, P, "mpt", o, []nodeVariant{[]nodeVariant{vSyncedGC, vSyncedLatestGC}[i%2]}, []string{restarts[(i/2)%len(restarts)]})
				}
				for _, o := range []string{"all", "ones"} {
					add(6, src, P, "items", o, []nodeVariant{[]nodeVariant{vSyncedLatestGC, vSyncedGC}[i%2]}, []string{restarts[(i/2)%len(restarts)]})
				}
			}
		}
		// keys nested six levels deep and of the maximal length (long extension nodes, a branch per byte)
		add(6, "deep", 4, "mpt", "lifo", []nodeVariant{vSyncedGC}, []string{"mid"})
		add(6, "deep", 6, "mpt", "fifo", []nodeVariant{vSyncedLatestGC}, []string{"data"})
		add(6, "deep", 6, "items", "threes", []nodeVariant{vSyncedGC}, []string{""})
		// a restart after EVERY call of the state data stage: the pool of awaited nodes / the item
		// checkpoint is rebuilt from the database in every intermediate state of the order
		for _, src := range []string{"twin", "shapes"} {
			for _, o := range []string{"fifo", "lifo"} {
				add(6, src, 4, "mpt", o, []nodeVariant{[]nodeVariant{vSyncedGC, vSyncedLatestGC}[i%2]}, []string{"every"})
			}
		}
		add(6, "triple", 6, "mpt", "level", []nodeVariant{vSyncedLatestGC}, []string{"every+jump"})
		add(6, "twin", 4, "items", "threes", []nodeVariant{vSyncedGC}, []string{"every+end"})
		// MaxTraceableBlocks 2: the garbage collector really prunes behind the synced replica
		for _, src := range []string{"twin", "shapes", "late"} {
			for _, P := range []uint32{4, 6} {
				add(2, src, P, "mpt", []string{"fifo", "level"}[i%2], []nodeVariant{[]nodeVariant{vSyncedGC, vSyncedLatestGC, vSyncedCached}[i%3]}, []string{restarts[i%len(restarts)]})
			}
		}
		return out
	}
	orders := []string{"fifo", "lifo", "level", "level-desc", "whole", "lo", "hi", "pairs", "whole-rev"}
	for _, src := range []string{"twin", "triple", "shapes", "alphabet", "values", "deep"} {
		for _, P := range []uint32{4, 6} {
			for _, o := range orders {
				add(6, src, P, "mpt", o, []nodeVariant{vSyncedGC, vSyncedLatestGC}, []string{"", "mid+data+jump+end"})
				add(6, src, P, "mpt", o, []nodeVariant{vSyncedCached}, []string{restarts[i%len(restarts)]})
			}
			for _, o := range []string{"all", "ones", "threes"} {
				add(6, src, P, "items", o, []nodeVariant{vSyncedGC, vSyncedLatestGC}, []string{"", "mid+data+jump+end"})
			}
			for _, o := range []string{"fifo", "lifo", "level", "lo", "hi", "pairs"} {
				add(6, src, P, "mpt", o, []nodeVariant{[]nodeVariant{vSyncedGC, vSyncedLatestGC}[i%2]}, []string{"every"})
			}
			add(6, src, P, "items", "threes", []nodeVariant{[]nodeVariant{vSyncedGC, vSyncedLatestGC}[i%2]}, []string{"every"})
		}
	}
	for _, src := range []string{"twin", "triple", "shapes", "late", "alphabet"} {
		for _, P := range []uint32{4, 6, 8} {
			if int(P)+1 > 3+len(syncedSources[src]) {
				continue
			}
			for _, o := range []string{"fifo", "lifo", "level", "whole"} {
				add(2, src, P, "mpt", o, syncedVariants, []string{restarts[i%len(restarts)]})
			}
			add(2, src, P, "items", "threes", []nodeVariant{vSyncedGC, vSyncedLatestGC}, []string{restarts[i%len(restarts)]})
		}
	}
	return out
}

func syncedJobs(cx *ctx) []*extJob {
	var out []*extJob
	for _, w := range syncedSpecs(cx.r.Thorough()) {
		w := w
		out = append(out, &extJob{
			name: fmt.Sprintf("synced:%s:%s:%s:%s", syncedFamily(w.MTB).Name, w.V.Name, strings.Join(w.Prog, ","), w.spec()),
			run:  func() ([]*caseRec, error) { return cx.runSynced(w) },
		})
	}
	return out
}

// ---- the source chain -------------------------------------------------------------------------

// syncTrie is the state trie of the source at a sync point, as a peer serves it.
type syncTrie struct {
	Root  util.Uint256
	Nodes map[util.Uint256][]byte
	List  []util.Uint256       // pre-order, distinct
	Pre   map[util.Uint256]int // position in List
	Kids  map[util.Uint256][]util.Uint256
	// inner (branch / extension) nodes the traversal meets more than once, and
	// those of them that sit more than once below ONE parent
	sharedInner, sharedInnerSameParent int
	items                              []storage.KeyValue
}

type syncSrc struct {
	fam    famSpec
	sc     *chainx.Scenario
	blocks [][]byte // index = height-1
	tip    uint32
	snaps  []*snap // index = height: what the reference replica showed
	tries  map[uint32]*syncTrie
	err    error
	once   sync.Once
}

var (
	syncSrcMu sync.Mutex
	syncSrcs  = map[string]*syncSrc{}
)

func decodeMPTNode(b []byte) (mpt.Node, error) {
	var n mpt.NodeObject
	r := io.NewBinReaderFromBuf(b)
	n.DecodeBinary(r)
	if r.Err != nil {
		return nil, r.Err
	}
	return n.Node, nil
}

func (cx *ctx) syncedSource(mtb uint32, prog []string) (*syncSrc, error) {
	fam := syncedFamily(mtb)
	key := fam.Name + "|" + strings.Join(prog, ",")
	syncSrcMu.Lock()
	s, ok := syncSrcs[key]
	if !ok {
		s = &syncSrc{fam: fam}
		syncSrcs[key] = s
	}
	syncSrcMu.Unlock()
	s.once.Do(func() { s.err = cx.buildSyncedSource(s, prog) })
	return s, s.err
}

func (cx *ctx) buildSyncedSource(s *syncSrc, prog []string) error {
	sc, err := contScenario(s.fam)
	if err != nil {
		return err
	}
	s.sc = sc
	c, err := cx.newRun(sc, s.fam, vArchival, nil)
	if err != nil {
		return err
	}
	defer func() { c.n.Close() }()
	if err := c.take(); err != nil {
		return err
	}
	add := func(bb []byte) error {
		if err := c.n.AddBytes(bb); err != nil {
			return err
		}
		s.blocks = append(s.blocks, bb)
		cx.c.blocks.Inc()
		return c.take()
	}
	for _, bb := range sc.Preamble {
		if err := add(bb); err != nil {
			return fmt.Errorf("synced source: preamble block rejected: %w", err)
		}
	}
	for _, tok := range prog {
		txs, err := tplByName(tok)[0].Build(c.w)
		if err != nil {
			return fmt.Errorf("synced source: template %s cannot be built: %w", tok, err)
		}
		b, err := c.n.NewBlock(txs...)
		if err != nil {
			return fmt.Errorf("synced source: block %s cannot be built: %w", tok, err)
		}
		bb, err := chainx.BlockBytes(b)
		if err != nil {
			return err
		}
		if err := add(bb); err != nil {
			return fmt.Errorf("synced source: block %s rejected: %w", tok, err)
		}
		for _, tx := range b.Transactions {
			st := "HALT"
			if err := c.n.CheckHalt(tx.Hash()); err != nil {
				st = "FAULT"
			}
			cx.r.Outcome("synced:source-tx:" + tok + ":" + st)
		}
	}
	s.snaps = c.snaps
	s.tip = uint32(len(s.blocks))
	s.tries = map[uint32]*syncTrie{}
	mod := c.n.BC.GetStateSyncModule()
	for P := uint32(2 * syncedInterval); P+1 <= s.tip; P += syncedInterval {
		hdr, err := c.n.BC.GetHeader(c.n.BC.GetHeaderHash(P + 1))
		if err != nil {
			return err
		}
		if hdr.PrevStateRoot != s.snaps[P].Root {
			return fmt.Errorf("synced source: header %d names root %s, the state module %s", P+1, hdr.PrevStateRoot.StringLE(), s.snaps[P].Root.StringLE())
		}
		t := &syncTrie{Root: hdr.PrevStateRoot, Nodes: map[util.Uint256][]byte{}, Pre: map[util.Uint256]int{}, Kids: map[util.Uint256][]util.Uint256{}}
		visits := map[util.Uint256]int{}
		err = mod.Traverse(t.Root, func(n mpt.Node, b []byte) bool {
			h := n.Hash()
			visits[h]++
			if _, ok := t.Pre[h]; !ok {
				t.Pre[h] = len(t.List)
				t.List = append(t.List, h)
				t.Nodes[h] = append([]byte{}, b...)
			}
			return false
		})
		if err != nil {
			return fmt.Errorf("synced source: traversal of the trie at %d: %w", P, err)
		}
		for h, b := range t.Nodes {
			n, err := decodeMPTNode(b)
			if err != nil {
				return err
			}
			same := false
			var ks []util.Uint256
			for k, paths := range mpt.GetChildrenPaths(nil, n) {
				ks = append(ks, k)
				if len(paths) > 1 {
					if kb, ok := t.Nodes[k]; ok {
						if kn, err := decodeMPTNode(kb); err == nil && len(mpt.GetChildrenPaths(nil, kn)) > 0 {
							same = true
						}
					}
				}
			}
			sort.Slice(ks, func(i, j int) bool { return t.Pre[ks[i]] < t.Pre[ks[j]] })
			t.Kids[h] = ks
			if same {
				t.sharedInnerSameParent++
			}
		}
		for h, c := range visits {
			if c > 1 && len(t.Kids[h]) > 0 {
				t.sharedInner++
			}
		}
		c.sm.SeekStates(t.Root, nil, func(k, v []byte) bool {
			t.items = append(t.items, storage.KeyValue{Key: append([]byte{}, k...), Value: append([]byte{}, v...)})
			return true
		})
		if len(t.items) != len(s.snaps[P].Keys) {
			return fmt.Errorf("synced source: %d items under the root of %d, %d in the flat storage", len(t.items), P, len(s.snaps[P].Keys))
		}
		s.tries[P] = t
	}
	return nil
}

func (s *syncSrc) block(h uint32) (*block.Block, error) {
	return chainx.DecodeBlock(s.blocks[h-1], true)
}

func (s *syncSrc) headers(from, to uint32) ([]*block.Header, error) {
	var out []*block.Header
	for h := from; h <= to; h++ {
		b, err := s.block(h)
		if err != nil {
			return nil, err
		}
		out = append(out, &b.Header)
	}
	return out, nil
}

// ---- one case -----------------------------------------------------------------------------------

type syncedCounters struct {
	cases, jumps, nodeCalls, nodesHandedOver, itemBatches, deepTries, midRestarts, dataRestarts, jumpRestarts, endRestarts, refHeights, refLive, sharedCases, sharedSameParentCases, laterBlocks vk.Counter
	tries                                                                                                                                                                                        *vk.Set
}

func syncedGuard(f func() error) (err error, pan any) {
	defer func() {
		if r := recover(); r != nil {
			pan = r
		}
	}()
	return f(), nil
}

type syncedNode struct {
	w    syncedSpec
	src  *syncSrc
	n    *chainx.Node
	m    *statesync.Module
	init uint32
}

func (sn *syncedNode) opts() chainx.Opts {
	o := sn.src.fam.Family.Opts()
	v, mode := sn.w.V, sn.w.Mode
	o.Cfg = func(c *config.Blockchain) {
		v.cfg(c)
		c.Ledger.RemoveUntraceableBlocks = true
		c.Ledger.GarbageCollectionPeriod = 1
		if mode == "items" {
			c.P2PStateExchangeExtensions = false
			c.NeoFSStateSyncExtensions = true
			c.NeoFSStateFetcher.Enabled = true
			c.NeoFSBlockFetcher.Enabled = true
		}
	}
	return o
}

// open starts (or restarts) the replica on its store and initialises the state sync module as the server does.
func (sn *syncedNode) open(st storage.Store) error {
	o := sn.opts()
	o.Store = st
	var (
		n   *chainx.Node
		err error
	)
	_, pan := syncedGuard(func() error { n, err = chainx.NewWithLogger(o, chainx.FatalPanicLogger()); return nil })
	if pan != nil {
		return fmt.Errorf("panic: %v", pan)
	}
	if err != nil {
		return err
	}
	sn.n = n
	sn.m = n.BC.GetStateSyncModule()
	err, pan = syncedGuard(func() error { return sn.m.Init(sn.init) })
	if pan != nil {
		return fmt.Errorf("Module.Init(%d): panic: %v", sn.init, pan)
	}
	if err != nil {
		return fmt.Errorf("Module.Init(%d): %w", sn.init, err)
	}
	return nil
}

func (sn *syncedNode) reopen() error {
	st := sn.n.Store
	if _, pan := syncedGuard(func() error { sn.n.Close(); return nil }); pan != nil {
		return fmt.Errorf("Close: panic: %v", pan)
	}
	return sn.open(st)
}

func (sn *syncedNode) unknown(t *syncTrie) ([]util.Uint256, error) {
	u := sn.m.GetUnknownMPTNodesBatch(1 << 20)
	for _, h := range u {
		if _, ok := t.Nodes[h]; !ok {
			return nil, fmt.Errorf("the module awaits node %s, which is not part of the source's trie", h.StringBE())
		}
	}
	sort.Slice(u, func(i, j int) bool { return t.Pre[u[i]] < t.Pre[u[j]] })
	return u, nil
}

// syncProblem is a failure of the synchronisation itself (valid data refused, panic, no progress).
type syncProblem struct{ stage, what string }

// deliverMPT hands the trie nodes over in the case's order until the module needs no more state data.
func (sn *syncedNode) deliverMPT(cx *ctx, t *syncTrie, mid bool) *syncProblem {
	var (
		queue    []util.Uint256
		queued   = map[util.Uint256]bool{}
		handed   = map[util.Uint256]bool{}
		calls    int
		wholeRun bool
		every    = strings.Contains(sn.w.Restart, "every")
	)
	for iter := 0; sn.m.NeedStorageData(); iter++ {
		if iter > 4*len(t.List)+8 {
			return &syncProblem{"mpt", "no end of the node exchange"}
		}
		u, err := sn.unknown(t)
		if err != nil {
			return &syncProblem{"mpt", err.Error()}
		}
		if len(u) == 0 {
			return &syncProblem{"mpt", "no node is awaited but the module still needs state data"}
		}
		for _, h := range u {
			if !queued[h] {
				queued[h] = true
				queue = append(queue, h)
			}
		}
		inU := map[util.Uint256]bool{}
		for _, h := range u {
			inU[h] = true
		}
		var pend []util.Uint256 // the queue restricted to what is still awaited
		for _, h := range queue {
			if inU[h] {
				pend = append(pend, h)
			}
		}
		var batch []util.Uint256
		switch sn.w.Order {
		case "fifo":
			batch = pend[:1]
		case "lifo":
			batch = pend[len(pend)-1:]
		case "pairs":
			batch = pend[:min(2, len(pend))]
		case "lo", "hi":
			best := u[0]
			for _, h := range u[1:] {
				if c := h.Compare(best); (sn.w.Order == "lo" && c < 0) || (sn.w.Order == "hi" && c > 0) {
					best = h
				}
			}
			batch = []util.Uint256{best}
		case "level":
			batch = u
		case "level-desc":
			for i := len(u) - 1; i >= 0; i-- {
				batch = append(batch, u[i])
			}
		case "whole":
			if !wholeRun {
				// ... and once more (a second peer's answer in the same message: nodes nobody awaits)
				batch = append(append([]util.Uint256{}, t.List...), t.List...)
				wholeRun = true
			} else {
				batch = u
			}
		case "whole-rev":
			for i := len(t.List) - 1; i >= 0; i-- {
				batch = append(batch, t.List[i])
			}
		default:
			return &syncProblem{"harness", "unknown order " + sn.w.Order}
		}
		var bb [][]byte
		for _, h := range batch {
			bb = append(bb, t.Nodes[h])
			handed[h] = true
		}
		calls++
		cx.synced.nodeCalls.Inc()
		cx.synced.nodesHandedOver.Add(len(bb))
		err, pan := syncedGuard(func() error { return sn.m.AddMPTNodes(bb) })
		if pan != nil {
			return &syncProblem{"mpt", fmt.Sprintf("AddMPTNodes(%d nodes, call %d): panic: %v", len(bb), calls, pan)}
		}
		if err != nil {
			return &syncProblem{"mpt", fmt.Sprintf("AddMPTNodes(%d nodes, call %d): %v", len(bb), calls, err)}
		}
		if sn.m.NeedStorageData() {
			left := map[util.Uint256]bool{}
			for _, h := range sn.m.GetUnknownMPTNodesBatch(1 << 20) {
				left[h] = true
			}
			for _, h := range batch {
				if inU[h] && left[h] {
					return &syncProblem{"mpt", fmt.Sprintf("node %s was handed over (call %d) and is still awaited", h.StringBE(), calls)}
				}
			}
		}
		if (every || (mid && len(handed) >= len(t.List)/2)) && sn.m.NeedStorageData() {
			mid = false
			cx.synced.midRestarts.Inc()
			if err := sn.reopen(); err != nil {
				return &syncProblem{"mid-restart", err.Error()}
			}
			if !sn.m.NeedStorageData() {
				return &syncProblem{"mid-restart", "after a restart in the middle of the node exchange the module does not need state data"}
			}
		}
	}
	return nil
}

// deliverItems hands the key/value pairs of the sync point over in batches.
func (sn *syncedNode) deliverItems(cx *ctx, t *syncTrie, mid bool) *syncProblem {
	size := map[string]int{"all": len(t.items), "ones": 1, "threes": 3}[sn.w.Order]
	if size == 0 {
		return &syncProblem{"harness", "unknown batching " + sn.w.Order}
	}
	announce := func() *syncProblem {
		err, pan := syncedGuard(func() error { return sn.m.InitContractStorageSync(state.MPTRoot{Index: sn.w.P, Root: t.Root}) })
		if pan != nil || err != nil {
			return &syncProblem{"items", fmt.Sprintf("InitContractStorageSync: %v %v", err, pan)}
		}
		return nil
	}
	if p := announce(); p != nil {
		return p
	}
	pos := 0
	every := strings.Contains(sn.w.Restart, "every")
	for iter := 0; sn.m.NeedStorageData(); iter++ {
		if pos >= len(t.items) {
			return &syncProblem{"items", "all items were handed over in key order and the module still needs state data"}
		}
		to := min(pos+size, len(t.items))
		batch := t.items[pos:to]
		cx.synced.itemBatches.Inc()
		err, pan := syncedGuard(func() error { return sn.m.AddContractStorageItems(batch) })
		if pan != nil || err != nil {
			return &syncProblem{"items", fmt.Sprintf("AddContractStorageItems(items %d..%d): %v %v", pos, to, err, pan)}
		}
		pos = to
		if (every || (mid && pos >= len(t.items)/2)) && sn.m.NeedStorageData() {
			mid = false
			cx.synced.midRestarts.Inc()
			if err := sn.reopen(); err != nil {
				return &syncProblem{"mid-restart", err.Error()}
			}
			if !sn.m.NeedStorageData() {
				return &syncProblem{"mid-restart", "after a restart in the middle of the item exchange the module does not need state data"}
			}
			if p := announce(); p != nil {
				return p
			}
			lk := sn.m.GetLastStoredKey()
			if !bytes.Equal(lk, t.items[pos-1].Key) {
				return &syncProblem{"mid-restart", fmt.Sprintf("last stored key %x after the restart, %x was handed over last", lk, t.items[pos-1].Key)}
			}
		}
	}
	return nil
}

func (cx *ctx) runSynced(w syncedSpec) ([]*caseRec, error) {
	src, err := cx.syncedSource(w.MTB, w.Prog)
	if err != nil {
		return nil, err
	}
	t := src.tries[w.P]
	if t == nil {
		return nil, fmt.Errorf("synced: no sync point %d on a chain of %d blocks", w.P, src.tip)
	}
	sy := &cx.synced
	sy.cases.Inc()
	sy.tries.Add(fmt.Sprintf("%s/%s", src.fam.Name, t.Root.StringLE()))
	if t.sharedInner > 0 {
		sy.sharedCases.Inc()
	}
	if t.sharedInnerSameParent > 0 {
		sy.sharedSameParentCases.Inc()
	}
	sn := &syncedNode{w: w, src: src, init: w.P + 1}
	if err := sn.open(nil); err != nil {
		return nil, fmt.Errorf("synced: fresh replica: %w", err)
	}
	// from here on the replica is a run of the check; c.n follows the restarts
	c, err := cx.runOn(src.sc, src.fam, w.V, w.Prog, sn.n)
	if err != nil {
		return nil, err
	}
	defer func() {
		if sn.n != nil && sn.n.BC != nil {
			syncedGuard(func() error { sn.n.Close(); return nil })
		}
	}()
	c.kind, c.spec, c.minRetained = "synced", w.spec(), w.P
	rebind := func() error {
		c.n = sn.n
		c.w = c.w.Attach(sn.n)
		c.sm, c.mod = module(sn.n)
		if c.mod == nil {
			return fmt.Errorf("state module is not *stateroot.Module")
		}
		return nil
	}
	at := src.snaps[w.P]
	problem := func(p *syncProblem) ([]*caseRec, error) {
		if p.stage == "harness" {
			return nil, fmt.Errorf("synced: %s", p.what)
		}
		c.fail("O7-sync-process", p.stage, at, "state synchronisation to "+fmt.Sprint(w.P), p.what, "the valid data of the source is accepted and the replica jumps to the sync point")
		c.finish()
		return c.viol, nil
	}
	if !sn.m.IsActive() || !sn.m.NeedHeaders() {
		return nil, fmt.Errorf("synced: the module of a fresh replica is not waiting for headers (Init(%d))", sn.init)
	}
	// headers
	var cuts []uint32
	switch w.Hdr {
	case 0:
		cuts = []uint32{src.tip}
	case 1:
		cuts = []uint32{w.P, src.tip}
	default:
		for h := uint32(1); h <= src.tip; h++ {
			cuts = append(cuts, h)
		}
	}
	from := uint32(1)
	for _, to := range cuts {
		if !sn.m.NeedHeaders() {
			break
		}
		hs, err := src.headers(from, to)
		if err != nil {
			return nil, err
		}
		err, pan := syncedGuard(func() error { return sn.m.AddHeaders(hs...) })
		if pan != nil || err != nil {
			return problem(&syncProblem{"headers", fmt.Sprintf("AddHeaders(%d..%d): %v %v", from, to, err, pan)})
		}
		from = to + 1
	}
	if !sn.m.NeedStorageData() {
		return problem(&syncProblem{"headers", "all headers are stored and the module does not ask for state data"})
	}
	if sp := sn.m.GetStateSyncPoint(); sp != w.P {
		return nil, fmt.Errorf("synced: sync point %d, expected %d", sp, w.P)
	}
	mid := strings.Contains(w.Restart, "mid")
	var p *syncProblem
	if w.Mode == "mpt" {
		p = sn.deliverMPT(cx, t, mid)
	} else {
		p = sn.deliverItems(cx, t, mid)
	}
	if p != nil {
		return problem(p)
	}
	if strings.Contains(w.Restart, "data") {
		// between the state data and the blocks: the module finds the complete trie in the database
		sy.dataRestarts.Inc()
		if err := sn.reopen(); err != nil {
			return problem(&syncProblem{"data-restart", err.Error()})
		}
		if !sn.m.IsActive() || sn.m.NeedStorageData() || !sn.m.NeedBlocks() {
			return problem(&syncProblem{"data-restart", "after a restart between state data and blocks the module is not waiting for blocks"})
		}
	}
	// blocks
	for i := 0; sn.m.IsActive() && sn.m.NeedBlocks(); i++ {
		if i > int(src.tip) {
			return problem(&syncProblem{"blocks", "no end of the block exchange"})
		}
		var next uint32
		err, pan := syncedGuard(func() error {
			next = sn.m.BlockHeight() + 1
			b, err := src.block(next)
			if err != nil {
				return err
			}
			return sn.m.AddBlock(b)
		})
		if pan != nil || err != nil {
			return problem(&syncProblem{"blocks", fmt.Sprintf("Module.AddBlock(%d): %v %v", next, err, pan)})
		}
	}
	if sn.m.IsActive() || sn.n.Height() != w.P {
		return problem(&syncProblem{"jump", fmt.Sprintf("after the last block the module is active=%v and the replica at height %d", sn.m.IsActive(), sn.n.Height())})
	}
	sy.jumps.Inc()
	if err := rebind(); err != nil {
		return nil, err
	}
	// the replica at P: a height it never executed
	moment := func(m string) error {
		err, pan := syncedGuard(c.take)
		if pan != nil {
			c.fail("O7-synced-node", "cannot-answer", at, m+":SeekStorage + live invocations", fmt.Sprintf("panic: %v", pan), "answers")
			return fmt.Errorf("stop")
		}
		if err != nil {
			c.fail("O7-synced-node", "cannot-answer", at, m+":SeekStorage + live invocations", "error: "+err.Error(), "answers")
			return fmt.Errorf("stop")
		}
		s := c.snaps[len(c.snaps)-1]
		c.compareSynced(src.snaps[s.H], s, m)
		return nil
	}
	restart := func(m string, init uint32) error {
		sn.init = init
		if err := sn.reopen(); err != nil {
			s := c.snaps[len(c.snaps)-1]
			c.fail("O7-synced-node", "restart-fails", s, m, "error: "+err.Error(), "the synchronised replica starts again")
			return fmt.Errorf("stop")
		}
		if sn.m.IsActive() {
			s := c.snaps[len(c.snaps)-1]
			c.fail("O7-synced-node", "sync-active-after-restart", s, m, "the state sync module is active again", "inactive")
			return fmt.Errorf("stop")
		}
		return rebind()
	}
	stop := func() ([]*caseRec, error) {
		c.finish()
		return c.viol[:min(len(c.viol), syncedMaxViol)], nil
	}
	if moment("after-jump") != nil {
		return stop()
	}
	c.current("after-jump")
	if strings.Contains(w.Restart, "jump") {
		sy.jumpRestarts.Inc()
		// the network is where it was when the synchronisation started (a restart with the network
		// 2 intervals ahead of a replica that has not caught up is refused by Module.Init: C20's ground)
		if restart("restart-after-jump", w.P+1) != nil {
			return stop()
		}
		c.snaps = c.snaps[:len(c.snaps)-1]
		if moment("after-jump-restart") != nil {
			return stop()
		}
		c.current("after-jump-restart")
	}
	// the blocks after P are executed
	for h := w.P + 1; h <= src.tip; h++ {
		err, pan := syncedGuard(func() error { return c.n.AddBytes(src.blocks[h-1]) })
		if pan != nil || err != nil {
			s := c.snaps[len(c.snaps)-1]
			c.fail("O7-synced-node", "valid-block-refused", s, fmt.Sprintf("AddBlock(%d)", h), fmt.Sprintf("%v %v", err, pan), "accepted")
			if pan != nil {
				return stop() // a lock of the subject may be held
			}
			break
		}
		cx.c.blocks.Inc()
		sy.laterBlocks.Inc()
		if err := c.flush(); err != nil {
			return nil, err
		}
		if moment(fmt.Sprintf("after-block-%d", h)) != nil {
			return stop()
		}
		if w.V.Latest && h < src.tip {
			// the final pass questions the top height only on this variant
			c.current(fmt.Sprintf("after-block-%d", h))
		}
	}
	if strings.Contains(w.Restart, "end") {
		sy.endRestarts.Inc()
		if restart("restart-at-the-end", src.tip) != nil {
			return stop()
		}
		c.snaps = c.snaps[:len(c.snaps)-1]
		if moment("after-final-restart") != nil {
			return stop()
		}
	}
	c.evaluate()
	// the exhaustive O1 pass (every prefix, every start, TrieStore seeks in both directions) over the
	// RESTORED trie, once per distinct trie and restore mode; the trie store is built the way
	// GetTestHistoricVM builds it on a replica with RemoveUntraceableBlocks
	if s := c.snaps[0]; s.H == w.P && s.H >= c.retainedFrom() && len(c.viol) == 0 {
		if _, seen := cx.deepSeen.LoadOrStore(fmt.Sprintf("synced/%s/%s/%s", src.fam.Name, w.Mode, s.Root.StringLE()), ""); !seen || cx.deepAll {
			c.deepMode = mpt.ModeLatest
			cx.c.deepRoots.Inc()
			sy.deepTries.Inc()
			c.deep(s)
		}
	}
	for _, s := range c.snaps {
		sr, err := c.n.BC.GetStateRoot(s.H)
		if s.H >= c.retainedFrom() && (err != nil || sr.Root != s.Root) {
			c.fail("O6-root-record", "-", s, "GetStateRoot", fmt.Sprintf("%v %v", sr, err), s.Root.StringLE())
		}
	}
	if len(c.viol) == 0 {
		c.out(fmt.Sprintf("synced:agrees:%s:%s:shared-inner=%v:restart=%s", w.Mode, w.Order, t.sharedInner > 0, w.Restart))
	}
	return stop()
}

// compareSynced: the synced replica against the reference replica that executed everything.
func (c *run) compareSynced(ref, s *snap, moment string) {
	sy := &c.cx.synced
	sy.refHeights.Inc()
	if ref.Root != s.Root {
		c.fail("O7-ref", "root", s, moment+":state root vs reference", s.Root.StringLE(), ref.Root.StringLE())
	}
	if dg := digest(ref); dg != digest(s) {
		c.fail("O7-ref", "storage", s, moment+":SeekStorage(all ids) vs reference", digest(s)+" "+mapDiff(s, ref), dg)
	}
	if c.nfail["O7-ref"] > 0 {
		return // the invocations read that storage
	}
	if len(ref.Live) != len(s.Live) {
		c.fail("O7-ref", "live", s, moment+":live invocations", fmt.Sprint(len(s.Live)), fmt.Sprint(len(ref.Live)))
		return
	}
	for j, q := range ref.Live {
		sy.refLive.Inc()
		if q.Res != s.Live[j].Res {
			c.fail("O7-ref-live", q.Name, s, moment+":live:"+q.Name+" vs reference", s.Live[j].Res, q.Res)
		}
	}
}

func syncedCoverage(cx *ctx) map[string]any {
	sy := &cx.synced
	specs := syncedSpecs(cx.r.Thorough())
	orders, modes, restarts, srcs := map[string]int{}, map[string]int{}, map[string]int{}, map[string]struct{}{}
	for _, w := range specs {
		orders[w.Mode+"/"+w.Order]++
		modes[w.V.Name]++
		restarts[w.Restart]++
		srcs[fmt.Sprintf("%d/%s", w.MTB, strings.Join(w.Prog, ","))] = struct{}{}
	}
	return map[string]any{
		"cases":                 len(specs),
		"cases_run":             int(sy.cases.Get()),
		"source_chains":         len(srcs),
		"distinct_synced_tries": sy.tries.Len(),
		"cases_with_inner_nodes_on_several_paths": int(sy.sharedCases.Get()),
		"cases_with_inner_twins_below_one_parent": int(sy.sharedSameParentCases.Get()),
		"orders_and_batchings":                    orders,
		"node_variants":                           modes,
		"restart_patterns":                        restarts,
		"state_jumps":                             int(sy.jumps.Get()),
		"addmptnodes_calls":                       int(sy.nodeCalls.Get()),
		"mpt_nodes_handed_over":                   int(sy.nodesHandedOver.Get()),
		"item_batches":                            int(sy.itemBatches.Get()),
		"restarts_mid_exchange":                   int(sy.midRestarts.Get()),
		"restored_tries_with_exhaustive_O1":       int(sy.deepTries.Get()),
		"restarts_between_data_and_blocks":        int(sy.dataRestarts.Get()),
		"restarts_after_jump":                     int(sy.jumpRestarts.Get()),
		"restarts_at_the_end":                     int(sy.endRestarts.Get()),
		"blocks_executed_after_the_jump":          int(sy.laterBlocks.Get()),
		"heights_compared_with_reference":         int(sy.refHeights.Get()),
		"live_invocations_equal_reference":        int(sy.refLive.Get()),
	}
}
