package c03

// Registry of the extension families (ext_*_test.go): cases that are not plain
// "history, then question every height" runs.

import "fmt"

func extJobs(cx *ctx) []*extJob {
	var out []*extJob
	out = append(out, windowJobs(cx)...)
	out = append(out, rejectJobs(cx)...)
	out = append(out, resetJobs(cx)...)
	out = append(out, contJobs(cx)...)
	out = append(out, syncedJobs(cx)...)
	out = append(out, rpcJobs(cx)...)
	return out
}

// replayExt re-runs the case of an extension family a replay file names.
func replayExt(cx *ctx, c *caseRec) ([]*caseRec, error) {
	switch c.Kind {
	case "window":
		return cx.runWindow(windowSpec{Fam: c.Family, V: variantByName(c.Variant), Names: c.History, Top: c.Top})
	case "reject":
		return cx.runReject(rejectSpec{Fam: c.Family, V: variantByName(c.Variant), Names: c.History})
	case "reset":
		return cx.runReset(resetSpec{Fam: c.Family, V: variantByName(c.Variant), Names: c.History})
	case "reset-cont":
		return cx.runCont(contSpec{Fam: c.Family, V: variantByName(c.Variant), Prog: c.History, Full: true})
	case "synced":
		w, err := parseSyncedSpec(c.Family, c.Variant, c.History, c.Spec)
		if err != nil {
			return nil, err
		}
		return cx.runSynced(w)
	case "rpc":
		return cx.runRPC(rpcSpec{Fam: c.Family, V: variantByName(c.Variant), Names: c.History})
	}
	return nil, fmt.Errorf("unknown extension family %q", c.Kind)
}

// extCoverage are the measured counters of the extension families.
func extCoverage(cx *ctx) map[string]any {
	c := &cx.c
	return map[string]any{
		"window": map[string]any{
			"cases": len(windowSpecs(cx.r.Thorough())),
			"states_chain_height_x_moment_x_retained_height": int(c.winStates.Get()),
			"historic_invocations":                           int(c.winInv.Get()),
		},
		"reject": map[string]any{
			"cases":                          len(rejectSpecs(cx.r.Thorough())),
			"blocks_refused_after_execution": int(c.rejected.Get()),
			"in_flight_points_H5":            int(c.inflightPoints.Get()),
			"current_root_read_passes":       int(c.currentReads.Get()),
		},
		"reset": map[string]any{
			"cases":            len(resetSpecs(cx.r.Thorough())),
			"alphabet":         resetAlphabet,
			"resets_performed": int(c.resets.Get()),
		},
		"reset-cont": contCoverage(cx),
		"synced":     syncedCoverage(cx),
		"rpc": map[string]any{
			"cases":                      len(rpcSpecs(cx.r.Thorough())),
			"alphabet":                   rpcAlphabet,
			"states_replica_x_height":    int(c.rpcStates.Get()),
			"rpc_calls":                  int(c.rpcCalls.Get()),
			"historic_invocations_equal": int(c.rpcInvEqual.Get()),
			"mpt_backed_sessions_equal":  int(c.rpcSessions.Get()),
			"page_limits":                map[string]int{"findstates": rpcMaxFind, "findstorage": rpcMaxFindStorage},
		},
	}
}
