package c03

// Extension family "window": historic invocations against EVERY retained
// height at EVERY chain height of a growing chain, on archival and on pruning
// (RemoveUntraceableBlocks + GC) replicas, with MaxTraceableBlocks above, at
// and below the chain height, before and after the flush + GC step.
//
// The plain history runs question the past only once, at the end of the
// history, and (docs/rpc.md calls historic calls on a GC node "undefined")
// accept any refusal from a pruning replica. Here the property's quantifier is
// taken literally - "for all heights still retained" - so a refusal or a
// different answer for a height inside the retention window is reported, in
// classes of its own:
//
//	refused-as-outdated   GetTestHistoricVM says the state "is outdated and
//	                      removed" for a height inside the window
//	refused-nonlatest     any other refusal / panic for a retained height below the top
//	refused-latest        the same for the top height itself
//	differs               the invocation ran and gave another answer
import (
	"fmt"
	"strings"

	"verif/lib/chainx"
)

type windowSpec struct {
	Fam   string // window family (protocol MaxTraceableBlocks)
	V     nodeVariant
	Names []string // history on top of the preamble
	Top   uint32   // the chain is grown with empty blocks to this height
}

func windowFamilies() []famSpec {
	return []famSpec{
		{Family: chainx.Family{Name: "single-mtb2", MTB: 2}},
		{Family: chainx.Family{Name: "single-mtb3", MTB: 3}},
		{Family: chainx.Family{Name: "single", MTB: 6}},
		{Family: chainx.Family{Name: "single-mtb12", MTB: 12}},
	}
}

func windowFamily(name string) (famSpec, bool) {
	for _, f := range windowFamilies() {
		if f.Name == name {
			return f, true
		}
	}
	return famSpec{}, false
}

func windowSpecs(thorough bool) []windowSpec {
	var out []windowSpec
	// storage of U instances; Policy values the invocations' prices depend on (the
	// historic native caches must be those of the state's height); NEO's election caches
	hist := [][]string{{"put-ext", "del-recreate"}, {"exec-fee", "policy-storage-price"}, {"vote1", "block-account3"}}
	fams := []string{"single-mtb2", "single"}
	if thorough {
		hist = append(hist, []string{"destroy-ub", "deploy-uc"}, []string{"designate", "ub-same"}, []string{"values", "del-all-ua"})
		fams = []string{"single-mtb2", "single-mtb3", "single", "single-mtb12"}
	}
	for _, fn := range fams {
		f, _ := windowFamily(fn)
		for _, h := range hist {
			for _, v := range []nodeVariant{vArchivalFlush, vGC, vGCCached} {
				if v.Name == vArchivalFlush.Name && fn != "single" {
					continue // the archival control needs one protocol family only
				}
				out = append(out, windowSpec{Fam: fn, V: v, Names: h, Top: max(f.MTB+2, 6)})
			}
		}
	}
	return out
}

// scenarioOf builds the linear scenario preamble + names.
func scenarioOf(fam famSpec, names []string) (*chainx.Scenario, []int, error) {
	tpls := tplByName(names...)
	sc, err := chainx.NewScenario(fam.Family, fam.Pad, tpls)
	if err != nil {
		return nil, nil, fmt.Errorf("preamble: %w", err)
	}
	h := make([]int, len(tpls))
	for i := range h {
		h[i] = i
	}
	for d := 1; d <= len(h); d++ {
		if err := sc.Grow(h[:d]); err != nil {
			return nil, nil, fmt.Errorf("history cannot be built: %w", err)
		}
	}
	return sc, h, nil
}

func (cx *ctx) runWindow(w windowSpec) ([]*caseRec, error) {
	fam, ok := windowFamily(w.Fam)
	if !ok {
		return nil, fmt.Errorf("no window family %s", w.Fam)
	}
	sc, h, err := scenarioOf(fam, w.Names)
	if err != nil {
		return nil, err
	}
	c, err := cx.newRun(sc, fam, w.V, h)
	if err != nil {
		return nil, err
	}
	defer func() { c.n.Close() }()
	c.kind, c.top = "window", w.Top
	if err := c.take(); err != nil {
		return nil, err
	}
	blocks, _ := sc.Blocks(h)
	for i := 0; c.n.Height() < w.Top; i++ {
		if i < len(blocks) {
			if err := c.n.AddBytes(blocks[i]); err != nil {
				return nil, fmt.Errorf("block %d rejected: %w", i+1, err)
			}
		} else if _, err := c.n.AddBlock(); err != nil {
			return nil, fmt.Errorf("tail block rejected: %w", err)
		}
		cx.c.blocks.Inc()
		if err := c.take(); err != nil {
			return nil, err
		}
		c.window("cached")
		if w.V.Flush {
			if err := c.flush(); err != nil {
				return nil, err
			}
			c.window("flushed")
		}
	}
	c.finish()
	return c.viol, nil
}

// window runs, at the current chain height, the recorded invocations of every
// retained height against that height's state.
func (c *run) window(moment string) {
	H := c.n.Height()
	from := c.retainedFrom()
	mtb := c.n.BC.GetMaxTraceableBlocks()
	rel := "above-mtb"
	switch {
	case H < mtb:
		rel = "below-mtb"
	case H == mtb:
		rel = "at-mtb"
	}
	for _, s := range c.snaps {
		if s.H < from {
			continue
		}
		next := s.H + 1
		c.cx.c.winStates.Inc()
		for _, q := range s.Live {
			var (
				res  string
				halt bool
				err  error
			)
			pan := guard(func() { res, halt, err = invoke(c.n, q.Script, &next) })
			c.cx.c.winInv.Inc()
			call := fmt.Sprintf("chain@%d:%s:historic:%s", H, moment, q.Name)
			pos := "latest"
			if s.H < H {
				pos = "nonlatest"
			}
			switch {
			case pan != nil:
				c.out("window:" + c.v.Name + ":" + rel + ":" + pos + ":panic")
				c.fail("O4-window", "refused-"+pos, s, call, fmt.Sprintf("panic: %v", pan), q.Res)
			case err != nil && strings.Contains(err.Error(), "is outdated and removed"):
				c.out("window:" + c.v.Name + ":" + rel + ":" + pos + ":refused-as-outdated")
				c.fail("O4-window", "refused-as-outdated", s, call, "error: "+err.Error(), q.Res)
			case err != nil:
				c.out("window:" + c.v.Name + ":" + rel + ":" + pos + ":refused")
				c.fail("O4-window", "refused-"+pos, s, call, "error: "+err.Error(), q.Res)
			case res != q.Res:
				c.out("window:" + c.v.Name + ":" + rel + ":" + pos + ":differs")
				c.fail("O4-window", "differs", s, call, res, q.Res)
			default:
				c.out("window:" + c.v.Name + ":" + rel + ":" + pos + ":equal")
				c.loc.histInv++
				if halt {
					c.loc.histInvHalt++
				}
			}
		}
	}
}

func windowJobs(cx *ctx) []*extJob {
	var out []*extJob
	for _, w := range windowSpecs(cx.r.Thorough()) {
		w := w
		out = append(out, &extJob{
			name: fmt.Sprintf("window:%s:%s:%s", w.Fam, w.V.Name, strings.Join(w.Names, ",")),
			run:  func() ([]*caseRec, error) { return cx.runWindow(w) },
		})
	}
	return out
}
