package c03

import (
	"bytes"
	"crypto/sha256"
	"encoding/binary"
	"encoding/hex"
	"errors"
	"fmt"
	"sort"
	"strings"

	"github.com/nspcc-dev/neo-go/pkg/core"
	"github.com/nspcc-dev/neo-go/pkg/core/interop"
	"github.com/nspcc-dev/neo-go/pkg/core/mpt"
	"github.com/nspcc-dev/neo-go/pkg/core/native/nativehashes"
	"github.com/nspcc-dev/neo-go/pkg/core/native/noderoles"
	"github.com/nspcc-dev/neo-go/pkg/core/stateroot"
	"github.com/nspcc-dev/neo-go/pkg/core/storage"
	"github.com/nspcc-dev/neo-go/pkg/core/transaction"
	"github.com/nspcc-dev/neo-go/pkg/smartcontract/callflag"
	"github.com/nspcc-dev/neo-go/pkg/smartcontract/trigger"
	"github.com/nspcc-dev/neo-go/pkg/util"

	"verif/lib/chainx"
)

// ---- the other representation: flat contract storage of the live node -----------

// trieKey is how a storage item (contract id, key) is addressed in the trie:
// the id as 4 bytes little-endian followed by the key.
func trieKey(id int32, key []byte) string {
	var p [4]byte
	binary.LittleEndian.PutUint32(p[:], uint32(id))
	return string(p[:]) + string(key)
}

// dump reads the whole contract storage of ids from the live node.
func dump(n *chainx.Node, ids []int32) map[string]string {
	out := map[string]string{}
	for _, id := range ids {
		n.BC.SeekStorage(id, nil, func(k, v []byte) bool {
			out[trieKey(id, k)] = string(v)
			return true
		})
	}
	return out
}

// snap is what the live node showed when it was at height H.
type snap struct {
	H    uint32
	Root util.Uint256
	M    map[string]string // trie key -> value
	Keys []string          // sorted keys of M
	Live []invRes          // read-only invocations run then
}

type invRes struct {
	Name   string
	Script []byte
	Res    string
	Halt   bool
}

func newSnap(h uint32, root util.Uint256, m map[string]string) *snap {
	s := &snap{H: h, Root: root, M: m}
	for k := range m {
		s.Keys = append(s.Keys, k)
	}
	sort.Strings(s.Keys)
	return s
}

// rangeOf returns the index range of the keys having the prefix.
func (s *snap) rangeOf(p string) (int, int) {
	lo := sort.SearchStrings(s.Keys, p)
	hi := lo + sort.Search(len(s.Keys)-lo, func(i int) bool { return !strings.HasPrefix(s.Keys[lo+i], p) })
	return lo, hi
}

type kv struct{ K, V string }

// expectFind is the reference of FindStates as its doc comment states it:
// pairs whose key has the prefix, starting from prefix+start, the item at
// prefix+start itself excluded when start is not nil (so an empty start
// excludes the item equal to the prefix and a nil start includes it), at most
// max of them, in key order.
func (s *snap) expectFind(prefix, start []byte, max int) []kv {
	p := string(prefix)
	lo, hi := s.rangeOf(p)
	i := lo
	if start != nil {
		from := p + string(start)
		i = sort.SearchStrings(s.Keys, from)
		if i < hi && s.Keys[i] == from {
			i++
		}
	}
	var out []kv
	for ; i < hi && len(out) < max; i++ {
		out = append(out, kv{s.Keys[i], s.M[s.Keys[i]]})
	}
	return out
}

// expectSeek is the reference of a Store.Seek restricted to contract storage
// (storage.SeekRange doc, ordered-map semantics): keys with the prefix, from
// prefix+start inclusive ascending, or the keys <= prefix+start descending
// when backwards; an empty start means all keys with the prefix.
func (s *snap) expectSeek(prefix, start []byte, backwards bool) (res []kv) {
	p := string(prefix)
	lo, hi := s.rangeOf(p)
	from := p + string(start)
	if !backwards {
		i := lo
		if len(start) > 0 {
			i = sort.SearchStrings(s.Keys, from)
		}
		for ; i < hi; i++ {
			res = append(res, kv{s.Keys[i], s.M[s.Keys[i]]})
		}
		return res
	}
	for i := hi - 1; i >= lo; i-- {
		k := s.Keys[i]
		if len(start) > 0 && k > from {
			continue
		}
		res = append(res, kv{k, s.M[k]})
	}
	return res
}

func hx(s string) string { return hex.EncodeToString([]byte(s)) }

func kvsString(l []kv) string {
	var sb strings.Builder
	for i, e := range l {
		if i > 0 {
			sb.WriteByte(' ')
		}
		if i >= 12 {
			fmt.Fprintf(&sb, "...(%d)", len(l))
			break
		}
		v := hx(e.V)
		if len(v) > 24 {
			v = v[:24] + "~"
		}
		sb.WriteString(hx(e.K) + "=" + v)
	}
	return "[" + sb.String() + "]"
}

func sameKVs(a, b []kv) bool {
	if len(a) != len(b) {
		return false
	}
	for i := range a {
		if a[i] != b[i] {
			return false
		}
	}
	return true
}

func isPrefixKVs(p, l []kv) bool {
	if len(p) > len(l) {
		return false
	}
	return sameKVs(p, l[:len(p)])
}

// ---- the key universe -------------------------------------------------------------

// probes are the absent (or accidentally present) neighbours of a trie key.
func probes(k string, otherIDs []int32) []string {
	out := []string{k + "\x00"}
	if len(k) > 0 {
		out = append(out, k[:len(k)-1])
		last := k[len(k)-1]
		if last != 0xff {
			out = append(out, k[:len(k)-1]+string([]byte{last + 1}))
		}
		if last != 0 {
			out = append(out, k[:len(k)-1]+string([]byte{last - 1}))
		}
	}
	// the same key under other contract ids (for native keys one other id only)
	if len(k) >= 4 {
		if k[3] == 0xff && len(otherIDs) > 1 {
			otherIDs = otherIDs[:1]
		}
		for _, id := range otherIDs {
			o := trieKey(id, []byte(k[4:]))
			if o != k {
				out = append(out, o)
			}
		}
	}
	return out
}

// ---- read-only invocations (O4) -------------------------------------------------------

type nscript struct {
	Name   string
	Script []byte
}

// scripts builds the read-only invocations for a node at height h.
func scripts(w *chainx.World, h uint32, committee util.Uint160) []nscript {
	var out []nscript
	add := func(name string, hash util.Uint160, method string, args ...any) {
		out = append(out, nscript{name, chainx.CallScript(hash, method, args...)})
	}
	us := []struct {
		n string
		h util.Uint160
	}{{"UA", w.UA.Hash}, {"UB", w.UB.Hash}, {"UC", w.UC.Hash}}
	findPrefixes := [][]byte{{}, []byte("a"), []byte("ab"), []byte("b"), {0}, {0xff}, []byte("f"), []byte("zz")}
	for _, u := range us {
		var get []any
		for _, k := range uKeys {
			get = append(get, []any{chainx.OpGet, k})
		}
		add(u.n+".get-all", u.h, "runSafe", get)
		for _, opts := range []int{0, 3, 4, 128, 129} {
			var prog []any
			for _, p := range findPrefixes {
				prog = append(prog, []any{chainx.OpFind, p, opts})
			}
			add(fmt.Sprintf("%s.find-opts%d", u.n, opts), u.h, "runSafe", prog)
		}
		// the remaining option combinations in one invocation: keys only, prefix
		// removed, backwards with the prefix removed / with values only
		var mix []any
		for _, opts := range []int{1, 2, 130, 132} {
			for _, p := range [][]byte{{}, []byte("a"), []byte("ab"), []byte("d")} {
				mix = append(mix, []any{chainx.OpFind, p, opts})
			}
		}
		add(u.n+".find-opts-mix", u.h, "runSafe", mix)
		// reads on top of uncommitted writes of the same invocation: the
		// historic path has to merge them with what the trie holds
		add(u.n+".write-then-read", u.h, "run", []any{
			put([]byte("ab"), []byte("X")), del([]byte("a")), put([]byte{'a', 1}, []byte("n")), del([]byte{0xff}),
			[]any{chainx.OpGet, []byte("a")}, []any{chainx.OpGet, []byte("ab")}, []any{chainx.OpGet, []byte("b")},
			[]any{chainx.OpFind, []byte("a"), 0}, []any{chainx.OpFind, []byte("a"), 128}, []any{chainx.OpFind, []byte{}, 2},
		})
	}
	// native getters, several calls per invocation (each historic invocation
	// re-initialises the native caches from the trie, which is the expensive part)
	neo, gas, pol, mgmt := nativehashes.NeoToken, nativehashes.GasToken, nativehashes.PolicyContract, nativehashes.ContractManagement
	var grp []byte
	call := func(hash util.Uint160, method string, args ...any) {
		grp = append(grp, chainx.CallScript(hash, method, args...)...)
	}
	flush := func(name string) {
		out = append(out, nscript{name, grp})
		grp = nil
	}
	for i := 1; i <= 3; i++ {
		call(gas, "balanceOf", chainx.Acc(i).ScriptHash())
	}
	call(gas, "balanceOf", committee)
	call(gas, "balanceOf", w.UA.Hash)
	call(gas, "totalSupply")
	flush("gas.balanceOf(acc1..3,committee,UA)+totalSupply")
	for i := 1; i <= 3; i++ {
		a := chainx.Acc(i).ScriptHash()
		call(neo, "balanceOf", a)
		call(neo, "getAccountState", a)
		call(neo, "unclaimedGas", a, int64(h+1))
	}
	flush("neo.balanceOf+getAccountState+unclaimedGas(acc1..3)")
	call(neo, "totalSupply")
	call(neo, "getCandidates")
	call(neo, "getCommittee")
	call(neo, "getNextBlockValidators")
	call(neo, "getGasPerBlock")
	call(neo, "getRegisterPrice")
	call(neo, "getCandidateVote", chainx.Acc(1).PublicKey().Bytes())
	flush("neo.candidates+committee+validators+prices")
	call(pol, "getFeePerByte")
	call(pol, "getExecFeeFactor")
	call(pol, "getStoragePrice")
	call(pol, "isBlocked", chainx.Acc(3).ScriptHash())
	call(nativehashes.LedgerContract, "currentIndex")
	call(nativehashes.LedgerContract, "currentHash")
	flush("policy.getters+ledger.current")
	for _, u := range us {
		call(mgmt, "getContract", u.h)
		call(mgmt, "hasMethod", u.h, "run", 1)
	}
	call(mgmt, "getMinimumDeploymentFee")
	flush("management.getContract+hasMethod(UA,UB,UC)")
	// historic designations are looked up with a backwards seek from the index
	for idx := int64(1); idx <= int64(h+1); idx++ {
		call(nativehashes.RoleManagement, "getDesignatedByRole", int64(noderoles.Oracle), idx)
	}
	call(nativehashes.RoleManagement, "getDesignatedByRole", int64(noderoles.P2PNotary), int64(h+1))
	flush("roles.getDesignatedByRole(oracle,1..next)")
	add("roles.getDesignatedByRole(oracle,next+1)", nativehashes.RoleManagement, "getDesignatedByRole", int64(noderoles.Oracle), int64(h+2))
	return out
}

const invokeGas = 50_0000_0000

// invoke runs script in a test VM of the live state (nextH == nil) or of the
// historic state before block *nextH, the way the RPC server's invokescript /
// invokescripthistoric do.
func invoke(n *chainx.Node, script []byte, nextH *uint32) (res string, halt bool, vmErr error) {
	tx := transaction.New(script, 0)
	tx.Signers = []transaction.Signer{{Account: chainx.Acc(1).ScriptHash(), Scopes: transaction.CalledByEntry}}
	tx.Scripts = []transaction.Witness{{}}
	var (
		ic  *interop.Context
		err error
	)
	if nextH == nil {
		ic, err = n.BC.GetTestVM(trigger.Application, tx, nil)
	} else {
		ic, err = n.BC.GetTestHistoricVM(trigger.Application, tx, *nextH)
	}
	if err != nil {
		return "", false, err
	}
	defer ic.Finalize()
	ic.VM.SetGasLimit(invokeGas)
	ic.VM.LoadScriptWithFlags(script, callflag.All)
	fault := ""
	if e := ic.VM.Run(); e != nil {
		fault = e.Error()
	}
	var sb strings.Builder
	for _, it := range ic.VM.Estack().ToArray() {
		sb.WriteString(chainx.ItemString(it))
	}
	st := ic.VM.State().String()
	return fmt.Sprintf("%s gas=%d fault=%q stack=%s", st, ic.VM.GasConsumed(), fault, sb.String()), st == "HALT", nil
}

// ---- panics ---------------------------------------------------------------------------

func guard(f func()) (pan any) {
	defer func() {
		if r := recover(); r != nil {
			pan = r
		}
	}()
	f()
	return nil
}

// ---- the module under test ------------------------------------------------------------

func module(n *chainx.Node) (core.StateRoot, *stateroot.Module) {
	sm := n.BC.GetStateModule()
	m, _ := sm.(*stateroot.Module)
	return sm, m
}

func toKVs(l []storage.KeyValue) []kv {
	out := make([]kv, len(l))
	for i, e := range l {
		out[i] = kv{string(e.Key), string(e.Value)}
	}
	return out
}

var errNotFound = mpt.ErrNotFound

func isNotFound(err error) bool { return errors.Is(err, errNotFound) }

var _ = bytes.Equal

func mptHash(s string) []byte {
	h := sha256.Sum256([]byte(s))
	return h[:8]
}
