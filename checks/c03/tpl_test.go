package c03

import (
	"bytes"

	"github.com/nspcc-dev/neo-go/pkg/core/native/nativehashes"
	"github.com/nspcc-dev/neo-go/pkg/core/native/noderoles"
	"github.com/nspcc-dev/neo-go/pkg/core/transaction"
	"github.com/nspcc-dev/neo-go/pkg/neotest"

	"verif/lib/chainx"
)

// The storage key universe of the U instances: keys that are prefixes and
// extensions of each other, the empty key, 0x00 / 0xff bytes at the end and
// alone, keys only a faulting / destroyed context writes.
var uKeys = [][]byte{
	{}, []byte("a"), []byte("ab"), []byte("abc"), []byte("b"),
	{0x00}, {0xff}, {'a', 0x00}, {'a', 0xff},
	[]byte("f1"), []byte("f2"), []byte("f3"), []byte("d"), []byte("k"), []byte("zz"),
	[]byte("ac"), []byte("pq"), []byte("pqr"),
}

func put(k, v []byte) []any { return []any{chainx.OpPut, k, v} }
func del(k []byte) []any    { return []any{chainx.OpDel, k} }

func sg(i int) []neotest.Signer { return []neotest.Signer{chainx.Signer(i)} }

func one(tx *transaction.Transaction, err error) ([]*transaction.Transaction, error) {
	if err != nil {
		return nil, err
	}
	return []*transaction.Transaction{tx}, nil
}

// ownTemplates is the storage-heavy part of the block alphabet. The preamble
// left UA with a=1, ab=2, b=1 and UB empty.
func ownTemplates() []chainx.Tpl {
	return []chainx.Tpl{
		// new keys extending / prefixing existing ones, the empty key, 0x00/0xff
		// bytes, an overwrite with the same value and one with another value
		{Name: "put-ext", Build: func(w *chainx.World) ([]*transaction.Transaction, error) {
			return one(w.URun(1, w.UA, []any{
				put([]byte{}, []byte("e")), put([]byte("abc"), []byte("1")), put([]byte{'a', 0}, []byte("1")),
				put([]byte{0}, []byte("2")), put([]byte{0xff}, []byte("1")), put([]byte{'a', 0xff}, []byte("2")),
				put([]byte("a"), []byte("1")), put([]byte("ab"), []byte("3")),
			}))
		}},
		// delete, delete + re-create in one tx, delete of an absent key,
		// re-create by a later tx of the same block
		{Name: "del-recreate", Build: func(w *chainx.World) ([]*transaction.Transaction, error) {
			a, err := w.URun(2, w.UA, []any{
				del([]byte("a")), del([]byte("ab")), put([]byte("ab"), []byte("2")), del([]byte("zz")),
				del([]byte{}), del([]byte("b")), del([]byte{'a', 0}),
			})
			if err != nil {
				return nil, err
			}
			b, err := w.URun(3, w.UA, []any{put([]byte("b"), []byte("2")), put([]byte("abc"), []byte("2"))})
			if err != nil {
				return nil, err
			}
			return []*transaction.Transaction{a, b}, nil
		}},
		// good tx, tx that writes / deletes and then faults, good tx
		{Name: "write-fault", Build: func(w *chainx.World) ([]*transaction.Transaction, error) {
			a, err := w.URun(1, w.UA, []any{put([]byte("f1"), []byte("1"))})
			if err != nil {
				return nil, err
			}
			b, err := w.URun(2, w.UA, []any{
				put([]byte("f2"), []byte("1")), del([]byte("a")), del([]byte("b")), put([]byte{}, []byte("x")),
				put([]byte("ab"), []byte("9")), []any{chainx.OpAbort},
			})
			if err != nil {
				return nil, err
			}
			c, err := w.URun(3, w.UA, []any{put([]byte("f3"), []byte("1")), del([]byte("abc"))})
			if err != nil {
				return nil, err
			}
			return []*transaction.Transaction{a, b, c}, nil
		}},
		// the second instance writes the same keys with the same values (shared
		// leaves, another id), directly and as a callee of UA
		{Name: "ub-same", Build: func(w *chainx.World) ([]*transaction.Transaction, error) {
			a, err := w.URun(1, w.UB, []any{
				put([]byte("a"), []byte("1")), put([]byte("ab"), []byte("2")), put([]byte("b"), []byte("1")),
				put([]byte{}, []byte("e")), put([]byte("abc"), []byte("1")),
			})
			if err != nil {
				return nil, err
			}
			b, err := w.URun(2, w.UA, []any{
				[]any{chainx.OpRun, w.UB.Hash.BytesBE(), 15, []any{put([]byte{0xff}, []byte("1")), del([]byte("b"))}},
				put([]byte{0xff}, []byte("1")),
			})
			if err != nil {
				return nil, err
			}
			return []*transaction.Transaction{a, b}, nil
		}},
		// UB writes and destroys itself: its whole prefix disappears
		{Name: "destroy-ub", Build: func(w *chainx.World) ([]*transaction.Transaction, error) {
			return one(w.URun(1, w.UB, []any{
				put([]byte("d"), []byte("1")), put([]byte("a"), []byte("5")),
				[]any{chainx.OpCall, nativehashes.ContractManagement.BytesBE(), "destroy", 15, []any{}},
			}))
		}},
		// a new contract appears (management storage, new id); if it exists it
		// writes the keys the other instances use
		{Name: "deploy-uc", Build: func(w *chainx.World) ([]*transaction.Transaction, error) {
			if w.N.BC.GetContractState(w.UC.Hash) != nil {
				return one(w.N.CallTx(sg(2), w.UC.Hash, "run", []any{
					put([]byte("a"), []byte("1")), put([]byte("ab"), []byte("2")), put([]byte("k"), []byte("1")), del([]byte("b")),
				}))
			}
			return one(w.N.DeployTx(w.UC, chainx.Signer(2), nil))
		}},
		// every key UA may hold is deleted: the contract's subtrie collapses
		{Name: "del-all-ua", Build: func(w *chainx.World) ([]*transaction.Transaction, error) {
			var prog []any
			for _, k := range uKeys {
				prog = append(prog, del(k))
			}
			return one(w.URun(3, w.UA, prog))
		}},
		// value shapes: empty value, long value, value equal to another key's value
		{Name: "values", Build: func(w *chainx.World) ([]*transaction.Transaction, error) {
			return one(w.URun(1, w.UA, []any{
				put([]byte("a"), []byte{}), put([]byte("ab"), bytes.Repeat([]byte{0xab}, 300)),
				put([]byte("zz"), []byte("1")), put([]byte{'a', 0xff}, bytes.Repeat([]byte{0xab}, 300)),
			}))
		}},
	}
}

// designate: role storage keyed by big-endian height; alternating node lists.
func designateTpl() chainx.Tpl {
	return chainx.Tpl{Name: "designate", Build: func(w *chainx.World) ([]*transaction.Transaction, error) {
		nodes := []any{chainx.Acc(3).PublicKey().Bytes()}
		if w.N.Height()%2 == 1 {
			nodes = append(nodes, chainx.Acc(4).PublicKey().Bytes())
		}
		return one(w.N.CallTx([]neotest.Signer{w.N.Committee}, nativehashes.RoleManagement, "designateAsRole", int64(noderoles.Oracle), nodes))
	}}
}

// ---- storage shapes: one operation per block -------------------------------------
//
// A block of this part of the alphabet does ONE put or delete, so that a
// history is a sequence of single storage operations landing in DIFFERENT
// blocks: keys forming a prefix chain (a, ab, abc) with a sibling (ac; b is
// there from the preamble), values {empty, 1 byte, 300 bytes}, every order
// (short key first / long key first), the prefix key untouched by the later
// block, empty overwritten by non-empty and back, delete of the long key
// leaving the (empty-valued) short one, delete and re-creation. UA starts with
// a=1, ab=2, b=1 (chain present, "ab" a leaf); UB starts empty (pq becomes the
// only key of a contract, then pqr extends it).
var shapeValues = []struct {
	n string
	v []byte
}{{"empty", []byte{}}, {"1", []byte("1")}, {"long", bytes.Repeat([]byte{0xcd}, 300)}}

func shapeTemplates() []chainx.Tpl {
	var out []chainx.Tpl
	op := func(name string, ub bool, prog []any) {
		out = append(out, chainx.Tpl{Name: name, Build: func(w *chainx.World) ([]*transaction.Transaction, error) {
			c := w.UA
			if ub {
				c = w.UB
			}
			return one(w.URun(1, c, prog))
		}})
	}
	for _, k := range []string{"a", "ab", "abc", "ac"} {
		for _, v := range shapeValues {
			op("ua-put-"+k+"-"+v.n, false, []any{put([]byte(k), v.v)})
		}
		op("ua-del-"+k, false, []any{del([]byte(k))})
	}
	for _, k := range []string{"pq", "pqr"} {
		for _, v := range shapeValues[:2] {
			op("ub-put-"+k+"-"+v.n, true, []any{put([]byte(k), v.v)})
		}
		op("ub-del-"+k, true, []any{del([]byte(k))})
	}
	return out
}

// shapeNames selects the shape alphabet: "quick" (10), "chain" (12: the chain
// a/ab/abc with all three values + deletes) or "all" (22).
func shapeNames(sel string) []string {
	switch sel {
	case "quick":
		return []string{"ua-put-a-empty", "ua-put-a-1", "ua-put-ab-empty", "ua-put-ab-1", "ua-put-abc-empty", "ua-put-abc-1",
			"ua-put-ab-long", "ua-del-a", "ua-del-ab", "ua-del-abc"}
	case "chain":
		var out []string
		for _, k := range []string{"a", "ab", "abc"} {
			for _, v := range shapeValues {
				out = append(out, "ua-put-"+k+"-"+v.n)
			}
			out = append(out, "ua-del-"+k)
		}
		return out
	}
	var out []string
	for _, t := range shapeTemplates() {
		out = append(out, t.Name)
	}
	return out
}

// ---- deep tries ----------------------------------------------------------------------
//
// Keys nested six levels deep (every prefix is a key itself: two trie nodes per
// byte) and a key of the maximal length: the in-memory trie of a node that
// flushes after every block is collapsed to hash nodes below depth 10
// (storeBlock: mpt.Collapse(10)), so the NEXT block's batch meets hash nodes
// (putBatchIntoHash, nodes re-read from the store) exactly where these keys live.
var (
	deepKey  = []byte("dddddd")
	maxKey   = bytes.Repeat([]byte{'m'}, 64) // storage.MaxStorageKeyLen
	deepKeys = func() [][]byte {
		var out [][]byte
		for l := 1; l <= len(deepKey); l++ {
			out = append(out, deepKey[:l])
		}
		return out
	}()
)

func deepTemplates() []chainx.Tpl {
	return []chainx.Tpl{
		{Name: "ua-put-deep", Build: func(w *chainx.World) ([]*transaction.Transaction, error) {
			var prog []any
			for i, k := range deepKeys {
				prog = append(prog, put(k, []byte{byte('0' + i)}))
			}
			prog = append(prog, put(maxKey, []byte("max")), put(maxKey[:63], []byte{}))
			return one(w.URun(1, w.UA, prog))
		}},
		// the deepest key changes, a middle one goes away, a deeper one and a sibling appear
		{Name: "ua-mod-deep", Build: func(w *chainx.World) ([]*transaction.Transaction, error) {
			return one(w.URun(2, w.UA, []any{
				put(deepKey, []byte("Z")), del(deepKey[:3]), put(append(append([]byte{}, deepKey...), 'd'), []byte("7")),
				put(append(append([]byte{}, deepKey[:5]...), 'x'), []byte("s")), del(maxKey), put(maxKey[:63], []byte("e")),
			}))
		}},
		// everything below "d" goes away bottom-up except the top key
		{Name: "ua-del-deep", Build: func(w *chainx.World) ([]*transaction.Transaction, error) {
			var prog []any
			for i := len(deepKeys) - 1; i >= 1; i-- {
				prog = append(prog, del(deepKeys[i]))
			}
			prog = append(prog, del(append(append([]byte{}, deepKey...), 'd')), del(maxKey[:63]), put([]byte("d"), []byte{}))
			return one(w.URun(3, w.UA, prog))
		}},
	}
}

func deepNames() []string { return []string{"ua-put-deep", "ua-mod-deep", "ua-del-deep"} }

func allTemplates() []chainx.Tpl {
	out := append(ownTemplates(), designateTpl())
	out = append(out, deepTemplates()...)
	out = append(out, shapeTemplates()...)
	out = append(out, syncedTemplates()...)
	out = append(out, chainx.TplByName("gas-transfer", "vote1", "neo-transfer", "exec-fee", "policy-storage-price", "unvote1", "empty", "block-account3")...)
	return out
}

func tplByName(names ...string) []chainx.Tpl {
	all := allTemplates()
	var out []chainx.Tpl
	for _, n := range names {
		found := false
		for _, t := range all {
			if t.Name == n {
				out = append(out, t)
				found = true
				break
			}
		}
		if !found {
			panic("c03: no template " + n)
		}
	}
	return out
}

func tplNames(thorough bool) []string {
	q := []string{"gas-transfer", "put-ext", "del-recreate", "write-fault", "ub-same", "destroy-ub", "deploy-uc", "designate"}
	if thorough {
		q = append(q, "vote1", "del-all-ua", "values", "exec-fee", "block-account3")
	}
	return q
}
