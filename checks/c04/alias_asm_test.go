package c04

// A small label-based assembler for the hand-written scripts of layer D
// (alias_space_test.go): long-form jumps and TRY_L with labels, fixed-width
// integer pushes (so that a script and its twin have the same length),
// System.Contract.Call and syscalls by name.

import (
	"encoding/binary"
	"fmt"

	"github.com/nspcc-dev/neo-go/pkg/core/interop/interopnames"
	"github.com/nspcc-dev/neo-go/pkg/util"
	"github.com/nspcc-dev/neo-go/pkg/vm/opcode"
)

type afix struct {
	at, base int // position of the 4-byte operand, position of the instruction
	label    string
}

type asm struct {
	b      []byte
	fixes  []afix
	labels map[string]int
	seq    int
}

func newAsm() *asm { return &asm{labels: map[string]int{}} }

func (a *asm) op(ops ...opcode.Opcode) *asm {
	for _, o := range ops {
		a.b = append(a.b, byte(o))
	}
	return a
}

func (a *asm) raw(b ...byte) *asm { a.b = append(a.b, b...); return a }

// i8 pushes an integer -128..127 in two bytes, always.
func (a *asm) i8(v int) *asm {
	if v < -128 || v > 127 {
		panic("i8 out of range")
	}
	a.b = append(a.b, byte(opcode.PUSHINT8), byte(int8(v)))
	return a
}

// u8 pushes 0..255 in three bytes, always (PUSHINT16).
func (a *asm) u8(v int) *asm {
	if v < 0 || v > 255 {
		panic("u8 out of range")
	}
	a.b = append(a.b, byte(opcode.PUSHINT16), byte(v), 0)
	return a
}

func (a *asm) data(d []byte) *asm {
	switch {
	case len(d) < 256:
		a.b = append(a.b, byte(opcode.PUSHDATA1), byte(len(d)))
	case len(d) < 65536:
		a.b = append(a.b, byte(opcode.PUSHDATA2), byte(len(d)), byte(len(d)>>8))
	default:
		panic("literal too long")
	}
	a.b = append(a.b, d...)
	return a
}

func (a *asm) str(s string) *asm { return a.data([]byte(s)) }

func (a *asm) sys(name string) *asm {
	a.b = append(a.b, byte(opcode.SYSCALL))
	a.b = binary.LittleEndian.AppendUint32(a.b, interopnames.ToID([]byte(name)))
	return a
}

// newLabel returns a fresh label name.
func (a *asm) newLabel(hint string) string {
	a.seq++
	return fmt.Sprintf("%s#%d", hint, a.seq)
}

func (a *asm) label(l string) *asm {
	if _, dup := a.labels[l]; dup {
		panic("duplicate label " + l)
	}
	a.labels[l] = len(a.b)
	return a
}

// jmp emits a long-form jump (JMP_L, JMPIF_L, JMPIFNOT_L, JMPEQ_L, JMPNE_L, CALL_L, ENDTRY_L) to a label.
func (a *asm) jmp(o opcode.Opcode, l string) *asm {
	base := len(a.b)
	a.b = append(a.b, byte(o), 0, 0, 0, 0)
	a.fixes = append(a.fixes, afix{at: base + 1, base: base, label: l})
	return a
}

// try emits TRY_L; an empty label means "no such part".
func (a *asm) try(catch, finally string) *asm {
	base := len(a.b)
	a.b = append(a.b, byte(opcode.TRYL), 0, 0, 0, 0, 0, 0, 0, 0)
	if catch != "" {
		a.fixes = append(a.fixes, afix{at: base + 1, base: base, label: catch})
	}
	if finally != "" {
		a.fixes = append(a.fixes, afix{at: base + 5, base: base, label: finally})
	}
	return a
}

// call emits System.Contract.Call(h, method, All, [the n topmost stack items, first argument on top]).
func (a *asm) call(h util.Uint160, method string, nargs int) *asm {
	if nargs == 0 {
		a.op(opcode.NEWARRAY0)
	} else {
		a.i8(nargs).op(opcode.PACK)
	}
	a.op(opcode.PUSH15)
	a.str(method)
	a.data(h.BytesBE())
	return a.sys(interopnames.SystemContractCall)
}

func (a *asm) bytes() []byte {
	for _, f := range a.fixes {
		to, ok := a.labels[f.label]
		if !ok {
			panic("undefined label " + f.label)
		}
		binary.LittleEndian.PutUint32(a.b[f.at:], uint32(int32(to-f.base)))
	}
	// exact capacity: a read past the end must not find spare bytes
	out := make([]byte, len(a.b))
	copy(out, a.b)
	return out
}
