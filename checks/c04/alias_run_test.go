package c04

// Layer D, the runner: every case of alias_space_test.go against its twin.
//
// X = replica executing the case, R = replica executing the twin (same signers,
// fees, nonce, script length; the mutation replaced by nothing, or by ABORT
// when the VM refuses the mutation itself). Oracles (no hand-written values):
//
//	test invocation (on X, both scripts): same VM state; the values read again
//	  after the mutation equal the snapshot taken before it (whenever the twin's
//	  do); the item the Buffer was derived from is unchanged; logs, notifications
//	  and the invocation's own storage view equal the twin's; afterwards X's
//	  committed state (state root, storage of every contract read through the
//	  live DAO, cached contract states) is what it was before;
//	real blocks (X: writer + cases, R: writer + twins): per transaction the same
//	  as above from the application log; per block equal state roots, equal
//	  storage of all contracts and natives as the LIVE nodes read it, equal
//	  committee / policy / cached contract states; the transactions stored by X
//	  are byte-identical to the ones submitted;
//	afterwards: Q.probe() on both live nodes, again after X alone flushed its
//	  cache, again after X restarted, and one more block of reading transactions
//	  (their writes derive from the values read) with equal state roots.

import (
	"bytes"
	"crypto/sha256"
	"encoding/hex"
	"fmt"
	"path/filepath"
	"sort"
	"strings"
	"sync"

	"github.com/nspcc-dev/neo-go/pkg/config/limits"
	"github.com/nspcc-dev/neo-go/pkg/core/interop"
	"github.com/nspcc-dev/neo-go/pkg/core/interop/interopnames"
	"github.com/nspcc-dev/neo-go/pkg/core/state"
	"github.com/nspcc-dev/neo-go/pkg/core/storage"
	"github.com/nspcc-dev/neo-go/pkg/core/storage/dbconfig"
	"github.com/nspcc-dev/neo-go/pkg/core/transaction"
	"github.com/nspcc-dev/neo-go/pkg/neotest"
	"github.com/nspcc-dev/neo-go/pkg/smartcontract/callflag"
	"github.com/nspcc-dev/neo-go/pkg/smartcontract/trigger"
	"github.com/nspcc-dev/neo-go/pkg/util"
	"github.com/nspcc-dev/neo-go/pkg/vm/opcode"
	"github.com/nspcc-dev/neo-go/pkg/vm/stackitem"

	"verif/lib/chainx"
	"verif/lib/vk"
)

const (
	aSysFee     = 6 * gasUnit
	aBlockCases = 12
	aLeakGroup  = 8 // test invocations between two comparisons of the node with its state before them
	aChunk      = 96
)

var aBackends = []string{"memory", "bolt", "level"}

type aworld struct {
	w            *world
	k            *aconst
	g            *agen
	qc           *neotest.Contract
	blocks       [][]byte // blocks after the prepared chain: deploy Q, persisted values | cached values
	persistAfter int      // a replica flushes after this many of them
	leaves       []*aleaf
	srcNA        []string
	maxID        int32
	qid          int32
	byName       map[string]*acase
}

type arig struct {
	aw      *aworld
	n       *chainx.Node
	backend string
	dir     string
	cleanup func()
	opts    chainx.Opts
}

func openAStore(backend, dir string) (storage.Store, error) {
	switch backend {
	case "bolt":
		return storage.NewBoltDBStore(dbconfig.BoltDBOptions{FilePath: filepath.Join(dir, "bolt.db")})
	case "level":
		return storage.NewLevelDBStore(dbconfig.LevelDBOptions{DataDirectoryPath: filepath.Join(dir, "level")})
	}
	return nil, nil
}

func (aw *aworld) newRig(backend string) (rg *arig, err error) {
	rg = &arig{aw: aw, backend: backend, opts: chainx.Opts{Multi: aw.w.multi}}
	if backend != "memory" {
		rg.dir, rg.cleanup = vk.Scratch("c04alias")
		st, err := openAStore(backend, rg.dir)
		if err != nil {
			rg.cleanup()
			return nil, err
		}
		rg.opts.Store = st
	}
	if rg.n, err = chainx.New(rg.opts); err != nil {
		rg.close()
		return nil, err
	}
	for _, bb := range aw.w.blocks {
		if err := rg.n.AddBytes(bb); err != nil {
			rg.close()
			return nil, fmt.Errorf("replay of the prepared chain: %w", err)
		}
	}
	for i, bb := range aw.blocks {
		if i == aw.persistAfter {
			if err := rg.n.Persist(); err != nil {
				rg.close()
				return nil, err
			}
		}
		if err := rg.n.AddBytes(bb); err != nil {
			rg.close()
			return nil, fmt.Errorf("replay of the layer D blocks: %w", err)
		}
	}
	return rg, nil
}

func (rg *arig) close() {
	if rg == nil {
		return
	}
	if rg.n != nil {
		rg.n.Close()
		rg.n = nil
	}
	if rg.cleanup != nil {
		rg.cleanup()
		rg.cleanup = nil
	}
}

func (rg *arig) restart() error {
	if rg.backend == "memory" {
		m, err := rg.n.Reopen()
		rg.n = m
		return err
	}
	rg.n.Close()
	rg.n = nil
	st, err := openAStore(rg.backend, rg.dir)
	if err != nil {
		return err
	}
	o := rg.opts
	o.Store = st
	rg.n, err = chainx.New(o)
	return err
}

func (rg *arig) stateRoot() string {
	return rg.n.BC.GetStateModule().CurrentLocalStateRoot().StringLE()
}

// putScript: an entry script writing key/value pairs into Q's storage through Q.ctx().
func (aw *aworld) putScript(kv ...[]byte) []byte {
	a := newAsm()
	e := &aenv{k: aw.k}
	a.op(opcode.INITSLOT).raw(nLocals, 0)
	e.callQ(a, "ctx", 0)
	stloc(a, lCtx)
	for i := 0; i+1 < len(kv); i += 2 {
		ldloc(a.data(kv[i+1]).data(kv[i]), lCtx).sys(interopnames.SystemStoragePut)
	}
	a.op(opcode.RET)
	return a.bytes()
}

func findValue(a, b string) []byte {
	v, err := stackitem.Serialize(stackitem.NewArray([]stackitem.Item{stackitem.NewByteArray([]byte(a)), stackitem.NewByteArray([]byte(b))}))
	if err != nil {
		panic(err)
	}
	return v
}

// buildAliasWorld extends the prepared chain by Q and its storage and discovers the leaves.
func buildAliasWorld(w *world) (*aworld, error) {
	rg, err := w.newRig()
	if err != nil {
		return nil, err
	}
	defer rg.close()
	n := rg.n
	b1, err := n.BC.GetBlock(n.BC.GetHeaderHash(1))
	if err != nil || len(b1.Transactions) == 0 {
		return nil, fmt.Errorf("block 1 of the prepared chain has no transaction: %v", err)
	}
	k := &aconst{ua: w.hashes[pA], acc1: chainx.Acc(1).ScriptHash(), h0: b1.Transactions[0].Hash()}
	srcs := aSources()
	qc, err := buildQ(k, srcs, chainx.Acc(2).ScriptHash())
	if err != nil {
		return nil, err
	}
	k.q = qc.Hash
	aw := &aworld{w: w, k: k, g: &agen{k: k, srcs: srcs}, qc: qc, maxID: w.cw.MaxID + 4}
	h := n.Height()
	dep, err := n.DeployTx(qc, chainx.Signer(2), nil)
	if err != nil {
		return nil, fmt.Errorf("deploy Q: %w", err)
	}
	if _, err := n.AddBlock(dep); err != nil {
		return nil, fmt.Errorf("deploy Q: %w", err)
	}
	if err := n.CheckHalt(dep.Hash()); err != nil {
		return nil, fmt.Errorf("deploy Q: %w", err)
	}
	s3 := []neotest.Signer{chainx.Signer(3)}
	for i, kv := range [][][]byte{
		{[]byte(kPersisted), []byte("value-flushed-to-the-backend"), []byte("f1"), findValue("f1-first", "f1-second")},
		{[]byte(kCached), []byte("value-only-in-the-write-cache"), []byte("f2"), findValue("f2-first", "f2-second"), []byte(kBlock), []byte("value-of-an-earlier-block")},
	} {
		tx, err := n.MakeTx(aw.putScript(kv...), s3, chainx.SysFee(2*gasUnit))
		if err != nil {
			return nil, err
		}
		if _, err := n.AddBlock(tx); err != nil {
			return nil, fmt.Errorf("layer D setup block %d: %w", i, err)
		}
		if err := n.CheckHalt(tx.Hash()); err != nil {
			return nil, fmt.Errorf("layer D setup block %d: %w", i, err)
		}
	}
	aw.persistAfter = 2
	cs := n.BC.GetContractState(qc.Hash)
	if cs == nil {
		return nil, fmt.Errorf("Q is not deployed")
	}
	aw.qid = cs.ID
	for i := h + 1; i <= n.Height(); i++ {
		b, err := n.BC.GetBlock(n.BC.GetHeaderHash(i))
		if err != nil {
			return nil, err
		}
		bb, err := chainx.BlockBytes(b)
		if err != nil {
			return nil, err
		}
		aw.blocks = append(aw.blocks, bb)
	}
	if err := aw.discover(); err != nil {
		return nil, err
	}
	return aw, nil
}

// discover executes every source once inline (entry script) and once in Q and walks the results.
func (aw *aworld) discover() error {
	rg, err := aw.newRig("memory")
	if err != nil {
		return err
	}
	defer rg.close()
	type found struct{ inline, callee bool }
	seen := map[string]*found{}
	var order []*aleaf
	note := func(ls []*aleaf, inline bool) {
		for _, l := range ls {
			f := seen[l.Name()]
			if f == nil {
				f = &found{}
				seen[l.Name()] = f
				order = append(order, l)
			}
			if inline {
				f.inline = true
			} else {
				f.callee = true
			}
		}
	}
	for _, s := range aw.g.srcs {
		ok := false
		if !s.CalleeOnly {
			ic, err := rg.invoke(aw.g.discoverScript(s))
			if err == nil && !ic.VM.HasFailed() && ic.VM.Estack().Len() == 1 {
				note(walkLeaves(s, ic.VM.Estack().Peek(0).Item()), true)
				ok = true
			}
		}
		// in Q: exec(src, [], none, none, none, ret) returns [serialize(root), ...]
		c := &acase{Wrap: wrapIndex("callee:halt"), Leaf: &aleaf{Src: s, Nav: 'p'}}
		ic, err := rg.invoke(aw.g.entryScript(c, twinDrop))
		if err == nil && !ic.VM.HasFailed() && ic.VM.Estack().Len() == 1 {
			if arr, isArr := ic.VM.Estack().Peek(0).Item().Value().([]stackitem.Item); isArr && len(arr) == 4 {
				if b, err := arr[0].TryBytes(); err == nil {
					if root, err := stackitem.Deserialize(b); err == nil {
						note(walkLeaves(s, root), false)
						ok = true
					}
				}
			}
		}
		if !ok {
			aw.srcNA = append(aw.srcNA, s.Name)
		}
	}
	for _, l := range order {
		// a leaf that exists only in one context is kept for that context
		switch f := seen[l.Name()]; {
		case f.inline && !f.callee:
			l.Only = 'i'
		case f.callee && !f.inline:
			l.Only = 'c'
		}
		aw.leaves = append(aw.leaves, l)
	}
	if len(aw.leaves) == 0 {
		return fmt.Errorf("layer D: no leaves discovered")
	}
	return nil
}

func leafAllowed(l *aleaf, w awrap) bool {
	return l.Only == 0 || (l.Only == 'i') == w.Inline
}

func wrapIndex(name string) int {
	for i, w := range awraps {
		if w.Name == name {
			return i
		}
	}
	panic("no wrapper " + name)
}

// ---- executions ---------------------------------------------------------------------------------------

func (rg *arig) testTx(script []byte) *transaction.Transaction {
	tx := transaction.New(script, aSysFee)
	tx.ValidUntilBlock = rg.n.BC.BlockHeight() + 5
	tx.Signers = []transaction.Signer{{Account: chainx.Acc(1).ScriptHash(), Scopes: transaction.Global}}
	return tx
}

type ainv struct {
	*interop.Context
	fault string
}

func (rg *arig) invoke(script []byte) (*ainv, error) {
	tx := rg.testTx(script)
	c, err := rg.n.BC.GetTestVM(trigger.Application, tx, nil)
	if err != nil {
		return nil, err
	}
	c.VM.LoadScriptWithFlags(script, callflag.All)
	c.VM.SetGasLimit(aSysFee)
	res := &ainv{Context: c}
	if err := c.Exec(); err != nil {
		res.fault = err.Error()
	}
	return res, nil
}

type ares struct {
	Halt  bool
	Fault string
	Log   []string // the returned log, rendered; nil if the execution did not return one
	Notes string
	Stor  map[string]string // test invocation: the storage the invocation would commit
}

func renderPlain(it stackitem.Item) string {
	switch v := it.(type) {
	case stackitem.Null:
		return "null"
	case *stackitem.ByteArray, *stackitem.Buffer:
		b, _ := v.TryBytes()
		return hex.EncodeToString(b)
	case *stackitem.BigInteger:
		return "i" + v.Big().String()
	case stackitem.Bool:
		return fmt.Sprint(bool(v))
	case *stackitem.Array, *stackitem.Struct:
		var s []string
		for _, e := range v.Value().([]stackitem.Item) {
			s = append(s, renderPlain(e))
		}
		return "[" + strings.Join(s, ",") + "]"
	case *stackitem.Map:
		var s []string
		for _, e := range v.Value().([]stackitem.MapElement) {
			s = append(s, renderPlain(e.Key)+":"+renderPlain(e.Value))
		}
		return "{" + strings.Join(s, ",") + "}"
	}
	return "<" + it.Type().String() + ">"
}

func renderLog(stack []stackitem.Item) []string {
	if len(stack) != 1 {
		return []string{fmt.Sprintf("<stack of %d items>", len(stack))}
	}
	arr, ok := stack[0].Value().([]stackitem.Item)
	if _, isArr := stack[0].(*stackitem.Array); !ok || !isArr {
		return []string{"<not an array: " + renderPlain(stack[0]) + ">"}
	}
	out := make([]string, len(arr))
	for i, e := range arr {
		out[i] = renderPlain(e)
	}
	return out
}

func renderNotes(evs []state.NotificationEvent) string {
	var s []string
	for _, e := range evs {
		s = append(s, e.ScriptHash.StringLE()[:8]+":"+e.Name+":"+renderPlain(e.Item))
	}
	return strings.Join(s, " ")
}

func (rg *arig) ids() []int32 { return rg.n.ContractIDs(rg.aw.maxID) }

// runTest executes a script in a test invocation on the committed state.
func (rg *arig) runTest(script []byte) (*ares, error) {
	ic, err := rg.invoke(script)
	if err != nil {
		return nil, err
	}
	res := &ares{Halt: !ic.VM.HasFailed()}
	if !res.Halt {
		res.Fault = ic.fault
	} else {
		res.Log = renderLog(ic.VM.Estack().ToArray())
		// what the invocation would commit: the only contract it can write is Q
		res.Stor = map[string]string{}
		ic.DAO.Seek(rg.aw.qid, storage.SeekRange{}, func(k, v []byte) bool {
			res.Stor[string(k)] = string(v)
			return true
		})
	}
	res.Notes = renderNotes(ic.Notifications)
	return res, nil
}

// nodeSig: what a discarded execution must leave alone, read through the live node
// (state root, storage of every contract and native, cached contract scripts).
func (rg *arig) nodeSig(detail bool) string {
	var sb strings.Builder
	h := sha256.New()
	line := func(f string, a ...any) {
		if detail {
			fmt.Fprintf(&sb, f+"\n", a...)
		} else {
			fmt.Fprintf(h, f+"\n", a...)
		}
	}
	line("root %s", rg.stateRoot())
	for _, id := range rg.ids() {
		rg.n.BC.SeekStorage(id, nil, func(k, v []byte) bool {
			line("%d:%x=%x", id, k, v)
			return true
		})
	}
	for _, ch := range rg.aw.contractHashes() {
		if cs := rg.n.BC.GetContractState(ch); cs != nil {
			line("contract %s script %x", ch.StringLE()[:8], sha256.Sum256(cs.NEF.Script))
		}
	}
	if detail {
		return sb.String()
	}
	return string(h.Sum(nil))
}

func (aw *aworld) contractHashes() []util.Uint160 {
	return []util.Uint160{aw.k.q, aw.w.hashes[pA], aw.w.hashes[pB], aw.w.hashes[pC], aw.w.wtok}
}

func sigDiff(a, b string) []string {
	la, lb := strings.Split(a, "\n"), strings.Split(b, "\n")
	ma := map[string]bool{}
	for _, l := range la {
		ma[l] = true
	}
	mb := map[string]bool{}
	for _, l := range lb {
		mb[l] = true
	}
	var out []string
	for _, l := range la {
		if !mb[l] {
			out = append(out, "- "+clip(l, 220))
		}
	}
	for _, l := range lb {
		if !ma[l] {
			out = append(out, "+ "+clip(l, 220))
		}
	}
	if len(out) > 10 {
		out = append(out[:10], fmt.Sprintf("... %d more", len(out)-10))
	}
	return out
}

func clip(s string, n int) string {
	if len(s) > n {
		return s[:n] + "..."
	}
	return s
}

// probe runs Q.probe() in a test invocation.
func (rg *arig) probe() string {
	a := newAsm()
	(&aenv{k: rg.aw.k}).callQ(a, "probe", 0)
	a.op(opcode.RET)
	ic, err := rg.invoke(a.bytes())
	if err != nil {
		return "error: " + err.Error()
	}
	if ic.VM.HasFailed() {
		return "FAULT: " + ic.fault
	}
	return strings.Join(renderLog(ic.VM.Estack().ToArray()), "\n")
}

// ---- the oracle on one execution pair -------------------------------------------------------------------

// judge compares the execution of a case with its twin's.
func judge(c *acase, mut, twin *ares, withStor bool) (what string, detail []string) {
	w := awraps[c.Wrap]
	src := c.Leaf.Src
	if mut.Halt != twin.Halt {
		return "vmstate", []string{fmt.Sprintf("case halt=%v (%s), twin halt=%v (%s)", mut.Halt, mut.Fault, twin.Halt, twin.Fault)}
	}
	if !mut.Halt {
		return "", nil
	}
	switch w.LogKind {
	case 'x':
		if len(mut.Log) != 4 || len(twin.Log) != 4 {
			return "log-shape", []string{fmt.Sprintf("case %v twin %v", mut.Log, twin.Log)}
		}
		if twin.Log[1] == twin.Log[0] && mut.Log[1] != mut.Log[0] {
			return "second-read-sees-the-mutation", []string{"first read:  " + clip(mut.Log[0], 300), "second read: " + clip(mut.Log[1], 300)}
		}
		if c.Derive != 0 && twin.Log[2] == twin.Log[0] && mut.Log[2] != mut.Log[0] {
			return "item-read-from-the-ledger-changed", []string{"as read:            " + clip(mut.Log[0], 300), "after the mutation: " + clip(mut.Log[2], 300)}
		}
		if !src.TxDep {
			for i, n := range []string{"first-read", "second-read", "held-item", "sink-key-read-back"} {
				if i == 2 && c.Derive == 0 {
					continue
				}
				if mut.Log[i] != twin.Log[i] {
					return n + "-differs-from-twin", []string{"case: " + clip(mut.Log[i], 300), "twin: " + clip(twin.Log[i], 300)}
				}
			}
		}
	case 'r':
		if len(mut.Log) != 1 || len(twin.Log) != 1 {
			return "log-shape", []string{fmt.Sprintf("case %v twin %v", mut.Log, twin.Log)}
		}
		if !src.TxDep && mut.Log[0] != twin.Log[0] {
			return "read-after-rollback-differs-from-twin", []string{"case: " + clip(mut.Log[0], 300), "twin: " + clip(twin.Log[0], 300)}
		}
	}
	if !src.TxDep && mut.Notes != twin.Notes {
		return "notifications-differ-from-twin", []string{"case: " + clip(mut.Notes, 400), "twin: " + clip(twin.Notes, 400)}
	}
	if withStor {
		var d []string
		for k, v := range mut.Stor {
			if tv, ok := twin.Stor[k]; !ok || tv != v {
				d = append(d, fmt.Sprintf("storage[%x]: case %x twin %x", k, clip(v, 120), clip(tv, 120)))
			}
		}
		for k := range twin.Stor {
			if _, ok := mut.Stor[k]; !ok {
				d = append(d, fmt.Sprintf("storage[%x]: case <missing> twin %x", k, clip(twin.Stor[k], 120)))
			}
		}
		if len(d) > 0 {
			sort.Strings(d)
			if len(d) > 8 {
				d = d[:8]
			}
			return "pending-storage-differs-from-twin", d
		}
	}
	return "", nil
}

// ---- a chunk of cases on one replica pair ------------------------------------------------------------------

type afail struct {
	Case   *acase // nil: not attributed to one case
	Mode   string
	What   string
	Detail []string
	Block  []string // names of the cases of the block (block-level differences)
}

type astats struct {
	testPairs, blockTxs, blocks, refused, halted, faulted, liveChecks, leakChecks vk.Counter
	refusedFaults, outcomes                                                       *vk.Set
	mu                                                                            sync.Mutex
	perWrap                                                                       map[string]*[3]int // halted, faulted, mutation refused
}

func newAStats() *astats {
	return &astats{refusedFaults: vk.NewSet(), outcomes: vk.NewSet(), perWrap: map[string]*[3]int{}}
}

func (st *astats) count(w string, halt, refused bool) {
	st.mu.Lock()
	defer st.mu.Unlock()
	p := st.perWrap[w]
	if p == nil {
		p = &[3]int{}
		st.perWrap[w] = p
	}
	switch {
	case refused:
		p[2]++
	case halt:
		p[0]++
	default:
		p[1]++
	}
}

func (rg *arig) makeTx(script []byte, signer int) (*transaction.Transaction, error) {
	return rg.n.MakeTx(script, []neotest.Signer{chainx.Signer(signer)}, chainx.SysFee(aSysFee))
}

func (rg *arig) twinTx(script []byte, like *transaction.Transaction, signer int) (*transaction.Transaction, error) {
	t := transaction.New(script, like.SystemFee)
	t.Nonce = like.Nonce
	t.ValidUntilBlock = like.ValidUntilBlock
	t.NetworkFee = like.NetworkFee
	t.Signers = append([]transaction.Signer{}, like.Signers...)
	if err := chainx.Signer(signer).SignTx(rg.n.BC.GetConfig().Magic, t); err != nil {
		return nil, err
	}
	return t, nil
}

func (rg *arig) aer(h util.Uint256) (*ares, error) {
	x, err := rg.n.BC.GetAppExecResults(h, trigger.Application)
	if err != nil || len(x) != 1 {
		return nil, fmt.Errorf("no execution result for %s: %v", h.StringLE(), err)
	}
	res := &ares{Halt: x[0].VMState.String() == "HALT", Fault: x[0].FaultException, Notes: renderNotes(x[0].Events)}
	if res.Halt {
		res.Log = renderLog(x[0].Stack)
	}
	return res, nil
}

// liveDiff compares what the two LIVE nodes report: state root, storage of all contracts and natives, cached contract
// scripts; full: also the natives' views (committee, validators, policy values, candidates, manifests).
func (aw *aworld) liveDiff(X, R *arig, full bool) ([]string, error) {
	if a, b := X.nodeSig(false), R.nodeSig(false); a != b {
		return append([]string{"- only on the replica that executed the cases, + only on the twin replica"}, sigDiff(X.nodeSig(true), R.nodeSig(true))...), nil
	}
	if !full {
		return nil, nil
	}
	ox, err := X.n.Observe(aw.maxID, aw.contractHashes())
	if err != nil {
		return nil, err
	}
	or, err := R.n.Observe(aw.maxID, aw.contractHashes())
	if err != nil {
		return nil, err
	}
	if wh, d := diffObs(ox, or); len(wh) > 0 {
		return append([]string{"differs in: " + strings.Join(wh, ", ")}, d...), nil
	}
	return nil, nil
}

// runChunk runs the cases (test invocations, then real blocks, then the live / flushed / restarted comparisons).
func (aw *aworld) runChunk(backend string, cases []*acase, modes string, st *astats) (fails []afail, err error) {
	X, err := aw.newRig(backend)
	if err != nil {
		return nil, err
	}
	defer func() { X.close() }()
	fail := func(c *acase, mode, what string, detail []string) {
		fails = append(fails, afail{Case: c, Mode: mode, What: what, Detail: detail})
	}
	// ---- test invocations on X ----
	refused := map[*acase]bool{}
	base := X.nodeSig(false)
	baseDetail := ""
	if strings.Contains(modes, "t") {
		baseDetail = X.nodeSig(true)
	}
	pair := func(rg *arig, c *acase, count bool) (m, t *ares, err error) {
		w := awraps[c.Wrap]
		if m, err = rg.runTest(aw.g.entryScript(c, twinNone)); err != nil {
			return
		}
		if t, err = rg.runTest(aw.g.entryScript(c, twinDrop)); err != nil {
			return
		}
		if w.Halts && !m.Halt && t.Halt && c.Mut >= mutFirstComp {
			// the VM refuses the mutation itself (read-only item, wrong type, empty array): the twin aborts at the same place
			refused[c] = true
			if count {
				st.refused.Inc()
				st.refusedFaults.Add(clip(m.Fault, 60))
			}
			if t, err = rg.runTest(aw.g.entryScript(c, twinAbort)); err != nil {
				return
			}
		}
		if w.Halts && !t.Halt && !refused[c] && !(w.Rollback && c.Leaf.Src.HasPre) {
			err = fmt.Errorf("case %s: the twin of a halting wrapper faults: %s", c.Name(), t.Fault)
		}
		return
	}
	for at := 0; at < len(cases); at += aLeakGroup {
		grp := cases[at:min(len(cases), at+aLeakGroup)]
		for _, c := range grp {
			m, t, err := pair(X, c, true)
			if err != nil {
				return fails, err
			}
			st.testPairs.Inc()
			if m.Halt {
				st.halted.Inc()
			} else {
				st.faulted.Inc()
			}
			if strings.Contains(modes, "t") {
				if what, d := judge(c, m, t, true); what != "" {
					fail(c, "test", what, d)
				}
			}
			st.outcomes.Add(fmt.Sprintf("%s:%s:%v", awraps[c.Wrap].Name, mutNames[c.Mut], m.Halt))
			st.count(awraps[c.Wrap].Name, m.Halt, refused[c])
		}
		if !strings.Contains(modes, "t") {
			continue
		}
		st.leakChecks.Inc()
		if X.nodeSig(false) == base {
			continue
		}
		// something leaked out of a discarded execution: which case of the group does it alone?
		found := false
		for _, c := range grp {
			Y, err := aw.newRig(backend)
			if err != nil {
				return fails, err
			}
			_, _, err = pair(Y, c, false)
			after := Y.nodeSig(true)
			Y.close()
			if err != nil {
				return fails, err
			}
			if after != baseDetail {
				fail(c, "test", "test-invocation-changed-the-node", sigDiff(baseDetail, after))
				found = true
			}
		}
		if !found {
			var names []string
			for _, c := range grp {
				names = append(names, c.Name())
			}
			fails = append(fails, afail{Mode: "test", What: "test-invocations-changed-the-node", Detail: sigDiff(baseDetail, X.nodeSig(true)), Block: names})
		}
		// continue on a fresh replica
		X.close()
		if X, err = aw.newRig(backend); err != nil {
			return fails, err
		}
	}
	if !strings.Contains(modes, "b") {
		return fails, nil
	}
	// ---- real blocks ----
	R, err := aw.newRig(backend)
	if err != nil {
		return fails, err
	}
	defer func() { R.close() }()
	if d, err := aw.liveDiff(X, R, true); err != nil {
		return fails, err
	} else if len(d) > 0 {
		// X executed the test invocations, R did not
		var names []string
		for _, c := range cases {
			names = append(names, c.Name())
		}
		fails = append(fails, afail{Mode: "test", What: "test-invocations-changed-the-node", Detail: d, Block: names})
		return fails, nil
	}
	blockNo := 0
	for at := 0; at < len(cases); at += aBlockCases {
		blk := cases[at:min(len(cases), at+aBlockCases)]
		blockNo++
		wr, err := X.makeTx(aw.putScript([]byte(kBlock), []byte(fmt.Sprintf("value-written-by-an-earlier-transaction-of-block-%d", blockNo))), 3)
		if err != nil {
			return fails, err
		}
		xs, rs := []*transaction.Transaction{wr}, []*transaction.Transaction{cloneTx(wr)}
		var sent [][]byte
		for _, c := range blk {
			tx, err := X.makeTx(aw.g.entryScript(c, twinNone), 2)
			if err != nil {
				return fails, err
			}
			tw := twinDrop
			if refused[c] {
				tw = twinAbort
			}
			tt, err := X.twinTx(aw.g.entryScript(c, tw), tx, 2)
			if err != nil {
				return fails, err
			}
			if tx.Size() != tt.Size() || tx.SystemFee != tt.SystemFee || tx.NetworkFee != tt.NetworkFee {
				return fails, fmt.Errorf("case %s: the twin transaction differs in size or fees", c.Name())
			}
			xs, rs = append(xs, tx), append(rs, tt)
			sent = append(sent, tx.Bytes())
		}
		if _, err := X.n.AddBlock(xs...); err != nil {
			return fails, fmt.Errorf("block with the cases rejected: %w", err)
		}
		if _, err := R.n.AddBlock(rs...); err != nil {
			return fails, fmt.Errorf("block with the twins rejected: %w", err)
		}
		st.blocks.Add(2)
		st.blockTxs.Add(2 * len(blk))
		nfail := len(fails)
		for i, c := range blk {
			m, err := X.aer(xs[i+1].Hash())
			if err != nil {
				return fails, err
			}
			t, err := R.aer(rs[i+1].Hash())
			if err != nil {
				return fails, err
			}
			if what, d := judge(c, m, t, false); what != "" {
				fail(c, "block", what, d)
			}
			// the transaction the node stored is the one that was submitted
			stored, _, err := X.n.BC.GetTransaction(xs[i+1].Hash())
			if err != nil {
				return fails, err
			}
			if !bytes.Equal(stored.Bytes(), sent[i]) {
				fail(c, "block", "stored-transaction-differs-from-the-submitted-one", []string{fmt.Sprintf("submitted %x", sent[i]), fmt.Sprintf("stored    %x", stored.Bytes())})
			}
		}
		d, err := aw.liveDiff(X, R, false)
		if err != nil {
			return fails, err
		}
		st.liveChecks.Inc()
		if len(d) > 0 {
			if len(fails) == nfail {
				var names []string
				for _, c := range blk {
					names = append(names, c.Name())
				}
				fails = append(fails, afail{Mode: "block", What: "ledger-state-differs-from-twin-replica", Detail: d, Block: names})
			}
			return fails, nil // the replicas have diverged: nothing after this block is meaningful
		}
		if len(fails) > nfail {
			return fails, nil
		}
	}
	// ---- the live nodes afterwards; X flushed; X restarted; one more block of readers ----
	stage := func(name string) (bool, error) {
		d, err := aw.liveDiff(X, R, true)
		if err != nil {
			return false, err
		}
		if len(d) == 0 {
			if px, pr := X.probe(), R.probe(); px != pr {
				d = append([]string{"Q.probe() differs"}, sigDiff(pr, px)...)
			}
		}
		st.liveChecks.Inc()
		if len(d) > 0 {
			var names []string
			for _, c := range cases {
				names = append(names, c.Name())
			}
			fails = append(fails, afail{Mode: "block", What: "ledger-state-differs-from-twin-replica:" + name, Detail: d, Block: names})
			return false, nil
		}
		return true, nil
	}
	if ok, err := stage("live"); err != nil || !ok {
		return fails, err
	}
	if err := X.n.Persist(); err != nil {
		return fails, err
	}
	if ok, err := stage("flushed"); err != nil || !ok {
		return fails, err
	}
	if err := X.restart(); err != nil {
		return fails, fmt.Errorf("restart: %w", err)
	}
	if ok, err := stage("restarted"); err != nil || !ok {
		return fails, err
	}
	var rd []*transaction.Transaction
	for _, s := range aw.g.srcs {
		if !strings.HasPrefix(s.Name, "get:") && s.Name != "find:default:#1" && s.Name != "find:default:#2" && s.Name != "call:literal" {
			continue
		}
		var leaf *aleaf
		for _, l := range aw.leaves {
			if l.Src == s && l.Bytes && l.Nav == 'p' {
				leaf = l
				break
			}
		}
		if leaf == nil {
			continue
		}
		// reads the value and stores a copy under another key: the state root depends on what was read
		c := &acase{Wrap: wrapIndex("callee:halt"), Leaf: leaf, Derive: 1, Mut: 1, Sink: 1}
		tx, err := R.makeTx(aw.g.entryScript(c, twinDrop), 2)
		if err != nil {
			return fails, err
		}
		rd = append(rd, tx)
	}
	var rdx []*transaction.Transaction
	for _, t := range rd {
		rdx = append(rdx, cloneTx(t))
	}
	if _, err := X.n.AddBlock(rdx...); err != nil {
		return fails, fmt.Errorf("block of readers rejected by X: %w", err)
	}
	if _, err := R.n.AddBlock(rd...); err != nil {
		return fails, fmt.Errorf("block of readers rejected by R: %w", err)
	}
	st.blocks.Add(2)
	for i, t := range rd {
		x, err := X.aer(rdx[i].Hash())
		if err != nil {
			return fails, err
		}
		r, err := R.aer(t.Hash())
		if err != nil {
			return fails, err
		}
		if x.Halt != r.Halt || strings.Join(x.Log, "|") != strings.Join(r.Log, "|") {
			var names []string
			for _, c := range cases {
				names = append(names, c.Name())
			}
			fails = append(fails, afail{Mode: "block", What: "ledger-state-differs-from-twin-replica:next-transaction-reads", Block: names,
				Detail: []string{fmt.Sprintf("reader %d on X: halt=%v %v", i, x.Halt, x.Log), fmt.Sprintf("reader %d on R: halt=%v %v", i, r.Halt, r.Log)}})
			return fails, nil
		}
	}
	_, err = stage("after-readers")
	return fails, err
}

// ---- the layer ----------------------------------------------------------------------------------------------

type aliasJob struct {
	backend string
	modes   string
	cases   []*acase
}

func (aw *aworld) allCases() []*acase {
	return enumCases(aw.leaves, func(l *aleaf, w awrap, d, m, s int) bool {
		if !leafAllowed(l, w) {
			return false
		}
		if s != 0 && (l.Src.TxDep || l.Src.CalleeOnly) {
			return false
		}
		return true
	})
}

// aliasingLeaf: byte leaves that ARE the node's own bytes on the unchanged tree (the slice a
// store layer, the transaction, a contract script holds), as opposed to fresh copies.
func aliasingLeaf(l *aleaf) bool {
	n := l.Src.Name
	switch {
	case !l.Bytes:
		return false
	case strings.HasPrefix(n, "get:"), strings.HasPrefix(n, "call:"), n == "literal":
		return true
	case strings.HasPrefix(n, "find:"):
		return !strings.Contains(n, "deser")
	case n == "runtime:scriptContainer":
		return len(l.Path) == 1 && l.Path[0].Idx == 7 // the script
	case n == "management:getContractHashes", n == "policy:getBlockedAccounts":
		return true
	}
	return false
}

func sinkLeaf(l *aleaf) bool {
	switch l.Src.Name {
	case "get:" + kPersisted, "get:" + kCached, "get:" + kBlock, "get:" + kExec, "literal", "call:literal", "find:default:#1", "find:default:#2", "find:values:exec", "stdlib:base64Decode":
		return l.Nav == 'p'
	}
	return false
}

// quickKeep: the quick tier's subset. Aliasing leaves: every derivation x mutation. Other byte
// leaves (and the VALUES / UNPACK navigation variants): every derivation once, every mutation
// twice. Compounds: every mutation. Sinks: on the sink leaves only.
func quickKeep(c *acase) bool {
	l := c.Leaf
	switch {
	case !l.Bytes:
		return true
	case c.Sink != 0:
		return sinkLeaf(l)
	case aliasingLeaf(l) && l.Nav == 'p':
		return true
	}
	return c.Mut == 1+(c.Derive-1)%(mutFirstComp-1)
}

func (aw *aworld) jobs(thorough bool) (jobs []aliasJob, info map[string]any) {
	all := aw.allCases()
	aw.byName = map[string]*acase{}
	for _, c := range all {
		aw.byName[c.Name()] = c
	}
	split := func(backend, modes string, cs []*acase) {
		for at := 0; at < len(cs); at += aChunk {
			jobs = append(jobs, aliasJob{backend: backend, modes: modes, cases: cs[at:min(len(cs), at+aChunk)]})
		}
	}
	var mem, disk []*acase
	for _, c := range all {
		if thorough || quickKeep(c) {
			mem = append(mem, c)
		}
		// disk backends: values come out of the database as copies unless they are still in the write cache
		if thorough || c.Leaf.Src.Disk && c.Leaf.Nav == 'p' && quickKeep(c) && (c.Sink == 0 || c.Mut == 1) {
			disk = append(disk, c)
		}
	}
	split("memory", "tb", mem)
	for _, b := range aBackends[1:] {
		split(b, "tb", disk)
	}
	perW := map[string]int{}
	for _, c := range all {
		perW[awraps[c.Wrap].Name]++
	}
	var srcNames []string
	bl, cl := 0, 0
	perSrc := map[string]int{}
	for _, l := range aw.leaves {
		perSrc[l.Src.Name]++
		if l.Bytes {
			bl++
		} else {
			cl++
		}
	}
	for _, s := range aw.g.srcs {
		if perSrc[s.Name] > 0 {
			srcNames = append(srcNames, fmt.Sprintf("%s(%d)", s.Name, perSrc[s.Name]))
		}
	}
	info = map[string]any{
		"sources_with_leaf_counts": srcNames, "sources_not_available_on_this_chain": aw.srcNA, "byte_leaves": bl, "compound_leaves": cl,
		"derivations": deriveNames[1:], "mutations": mutNames[1:], "sinks": sinkNames, "wrappers": perW,
		"cases_enumerated": len(all), "cases_memory_backend": len(mem), "cases_per_disk_backend": len(disk),
		"quick_subset": "aliasing byte leaves (storage values and keys, literals, the transaction script, native iterators over raw storage): every derivation x mutation; other byte leaves and VALUES/UNPACK navigation: every derivation once, every mutation twice; compounds: every mutation; sinks on the leaves of 10 sources; thorough: everything on all three backends",
		"backends":     aBackends, "chunk": aChunk, "cases_per_block": aBlockCases,
		"storage_value_states": []string{kPersisted + ": flushed to the backend", kCached + ": only in the node's write cache", kBlock + ": written by an earlier transaction of the same block",
			kExec + ": written earlier in the same execution", "find #1: flushed, #2: cached"},
	}
	return
}

func (c *checker) runAlias() (cov map[string]any, execs int) {
	r := c.r
	aw, err := buildAliasWorld(c.w)
	if err != nil {
		c.harness(fmt.Errorf("layer D: %w", err))
		return map[string]any{"error": err.Error()}, 0
	}
	jobs, info := aw.jobs(r.Thorough())
	st := newAStats()
	var done vk.Counter
	r.Parallel(len(jobs), func(i int) {
		if r.TooMany() {
			return
		}
		j := jobs[i]
		var fails []afail
		var err error
		if p := chainxTry(func() { fails, err = aw.runChunk(j.backend, j.cases, j.modes, st) }); p != nil {
			err = fmt.Errorf("panic: %w", p)
		}
		if err != nil {
			c.harness(fmt.Errorf("layer D %s chunk %d (%s ...): %w", j.backend, i, j.cases[0].Name(), err))
			return
		}
		done.Add(len(j.cases))
		for _, f := range fails {
			c.reportAlias(aw, j, f, st)
		}
	})
	fmt.Printf("layer D: %d cases in %d chunks (%d test pairs, %d block transactions), %.1fs\n", done.Get(), len(jobs), st.testPairs.Get(), st.blockTxs.Get(), r.Elapsed())
	info["chunks"] = len(jobs)
	info["cases_done"] = done.Get()
	info["test_invocation_pairs"] = st.testPairs.Get()
	info["block_transactions"] = st.blockTxs.Get()
	info["blocks"] = st.blocks.Get()
	info["case_executions_halted"] = st.halted.Get()
	info["case_executions_faulted"] = st.faulted.Get()
	info["mutations_refused_by_the_vm_twin_aborts"] = st.refused.Get()
	info["distinct_refusal_messages"] = st.refusedFaults.Len()
	info["distinct_wrapper_mutation_vmstate_outcomes"] = st.outcomes.Len()
	pw := map[string]map[string]int{}
	for w, p := range st.perWrap {
		pw[w] = map[string]int{"halted": p[0], "faulted": p[1], "mutation_refused_by_vm": p[2]}
		for i, k := range []string{"HALT", "FAULT", "refused"} {
			if p[i] > 0 {
				r.Outcome("D:" + w + ":" + k)
			}
		}
	}
	info["test_invocation_outcomes_per_wrapper"] = pw
	info["live_node_comparisons"] = st.liveChecks.Get()
	info["test_invocation_leak_checks"] = st.leakChecks.Get()
	return info, int(2*st.testPairs.Get() + st.blockTxs.Get())
}

// reportAlias narrows a block-level difference down to one case where possible and reports.
func (c *checker) reportAlias(aw *aworld, j aliasJob, f afail, st *astats) {
	c.r.Outcome("D:DIFFERS:" + f.What)
	if !c.admitN("alias:"+j.backend, []string{f.What}, 2) {
		return
	}
	rec := caseRec{Layer: "D", Mode: "alias", Family: j.backend, Pos: j.modes, What: []string{f.What}, Detail: f.Detail}
	if f.Case != nil {
		rec.Prog = f.Case.Name()
		// does it fail on its own?
		alone, err := aw.runChunk(j.backend, []*acase{f.Case}, j.modes, st)
		if err == nil && len(alone) > 0 {
			rec.What, rec.Detail = []string{alone[0].What}, alone[0].Detail
		} else {
			for _, x := range j.cases {
				rec.History = append(rec.History, x.Name())
				if x == f.Case {
					break
				}
			}
		}
	} else {
		// a block-level difference: the first case of the block that fails alone, else the whole chunk
		for _, name := range f.Block {
			cs := aw.byName[name]
			if cs == nil {
				continue
			}
			alone, err := aw.runChunk(j.backend, []*acase{cs}, j.modes, st)
			if err == nil && len(alone) > 0 {
				rec.Prog, rec.What, rec.Detail = name, []string{alone[0].What}, alone[0].Detail
				break
			}
		}
		if rec.Prog == "" {
			rec.Prog = f.Block[len(f.Block)-1]
			for _, x := range j.cases {
				rec.History = append(rec.History, x.Name())
			}
		}
	}
	c.r.Violation(fmt.Sprintf("alias:%s:%s:%s", rec.What[0], j.backend, rec.Prog), rec)
}

// replayAlias re-runs a recorded layer D case (alone, or the recorded chunk).
func (c *checker) replayAlias(rec *caseRec) (what, detail []string, err error) {
	aw, err := buildAliasWorld(c.w)
	if err != nil {
		return nil, nil, err
	}
	aw.jobs(true)
	var cases []*acase
	names := rec.History
	if len(names) == 0 {
		names = []string{rec.Prog}
	}
	for _, n := range names {
		cs := aw.byName[n]
		if cs == nil {
			return nil, nil, fmt.Errorf("unknown layer D case %q", n)
		}
		cases = append(cases, cs)
	}
	modes := rec.Pos
	if modes == "" {
		modes = "tb"
	}
	st := newAStats()
	fails, err := aw.runChunk(rec.Family, cases, modes, st)
	if err != nil {
		return nil, nil, err
	}
	if len(fails) > 0 {
		return []string{fails[0].What}, fails[0].Detail, nil
	}
	return nil, nil, nil
}

var _ = limits.MaxStorageKeyLen
