package c04

// Layer D, the case space: "data handed to the VM by the ledger is written in place".
//
// A case = wrapper x source leaf x derivation x in-place mutation x sink.
//
//	source      an interop / native call / literal that hands node-owned data to the
//	            VM (Storage.Get of values persisted / only cached / written by an
//	            earlier transaction of the block / written earlier in the same
//	            execution, Storage.Find in every option combination, the script
//	            container, notifications, signers, Ledger / ContractManagement / NEO
//	            getters and iterators, StdLib results, PUSHDATA literals of the
//	            executing script, values returned by another contract);
//	leaf        a byte string (>= 2 bytes) or a compound reachable from the source's
//	            result (PICKITEM path; in entry scripts the last step also through
//	            VALUES and UNPACK); leaves are DISCOVERED by executing every source;
//	derivation  every VM instruction that makes a Buffer from the byte string
//	            (CONVERT, RIGHT, LEFT, SUBSTR - whole and shortened by one -, CAT with
//	            an empty operand on either side, NEWBUFFER+MEMCPY);
//	mutation    SETITEM first/last, REVERSEITEMS, MEMCPY first/last on the Buffer;
//	            SETITEM, APPEND, CLEARITEMS, REMOVE, REVERSEITEMS, POPITEM on a compound;
//	sink        nothing / Storage.Put of the Buffer BEFORE it is mutated / Notify with it;
//	wrapper     the executor inline in the entry script (halt, abort, uncaught throw,
//	            throw caught in the same context) or as a deployed contract's method
//	            (halt, abort, uncaught throw, throw caught by the entry script, throw
//	            caught inside, halt inside the caller's TRY, halt then the caller aborts).
//
// Every case has a TWIN whose script has the same length and differs only in
// the mutation (nothing, or ABORT when the mutation itself is refused by the
// VM): the ledger must not be able to tell them apart (alias_run_test.go).

import (
	"fmt"
	"sort"
	"strings"

	"github.com/nspcc-dev/neo-go/pkg/core/interop/interopnames"
	"github.com/nspcc-dev/neo-go/pkg/core/native/nativehashes"
	"github.com/nspcc-dev/neo-go/pkg/core/native/noderoles"
	"github.com/nspcc-dev/neo-go/pkg/core/state"
	"github.com/nspcc-dev/neo-go/pkg/neotest"
	"github.com/nspcc-dev/neo-go/pkg/smartcontract"
	"github.com/nspcc-dev/neo-go/pkg/smartcontract/manifest"
	"github.com/nspcc-dev/neo-go/pkg/smartcontract/nef"
	"github.com/nspcc-dev/neo-go/pkg/util"
	"github.com/nspcc-dev/neo-go/pkg/vm/opcode"
	"github.com/nspcc-dev/neo-go/pkg/vm/stackitem"

	"verif/lib/chainx"
)

const (
	aLiteral = "literal-bytes-in-the-code"
	aThrown  = "thrown"
)

// locals of the executor
const (
	lLog = iota
	lCtx
	lX
	lY
	lRoot
	lI
	nLocals
)

func ldloc(a *asm, i int) *asm { return a.op(opcode.LDLOC0 + opcode.Opcode(i)) }
func stloc(a *asm, i int) *asm { return a.op(opcode.STLOC0 + opcode.Opcode(i)) }
func ldarg(a *asm, i int) *asm { return a.op(opcode.LDARG0 + opcode.Opcode(i)) }

// aconst: values the sources refer to.
type aconst struct {
	q    util.Uint160 // the executor contract (known only after it is assembled)
	ua   util.Uint160
	h0   util.Uint256 // a transaction of the prepared chain
	acc1 util.Uint160
}

// aenv: where a fragment is being assembled.
type aenv struct {
	k   *aconst
	inQ bool
}

// pushQ pushes the hash of the executor contract.
func (e *aenv) pushQ(a *asm) {
	if e.inQ {
		a.sys(interopnames.SystemRuntimeGetExecutingScriptHash)
	} else {
		a.data(e.k.q.BytesBE())
	}
}

// callQ calls a method of the executor contract with the n topmost items as arguments.
func (e *aenv) callQ(a *asm, method string, nargs int) {
	if nargs == 0 {
		a.op(opcode.NEWARRAY0)
	} else {
		a.i8(nargs).op(opcode.PACK)
	}
	a.op(opcode.PUSH15).str(method)
	e.pushQ(a)
	a.sys(interopnames.SystemContractCall)
}

type asrc struct {
	ID         int
	Name       string
	TxDep      bool // depends on transaction / block hashes: no cross-replica comparison of the values read
	CalleeOnly bool // not available to an entry script
	HasPre     bool // Pre changes state in the same execution (a re-read after a rollback differs)
	Disk       bool // member of the subset run on BoltDB / LevelDB
	Pre, Read  func(a *asm, e *aenv)
}

// storage key states (where the value lives when it is read)
const (
	kPersisted = "kP" // written by a block that was flushed to the backend
	kCached    = "kC" // written by an earlier block, not flushed
	kBlock     = "kB" // written by an earlier transaction of the same block
	kExec      = "kE" // written earlier in the same execution
)

var findOpts = []int{0, 1, 2, 3, 4, 8, 10, 12, 24, 26, 28, 40, 42, 44, 128, 130, 132, 136}

func findOptName(o int) string {
	if o == 0 {
		return "default"
	}
	var s []string
	for _, f := range []struct {
		b int
		n string
	}{{1, "keys"}, {2, "noprefix"}, {4, "values"}, {8, "deser"}, {16, "pick0"}, {32, "pick1"}, {128, "back"}} {
		if o&f.b != 0 {
			s = append(s, f.n)
		}
	}
	return strings.Join(s, "+")
}

func iterNth(a *asm, n int) {
	for i := 0; i < n; i++ {
		a.op(opcode.DUP).sys(interopnames.SystemIteratorNext).op(opcode.DROP)
	}
	a.sys(interopnames.SystemIteratorValue)
}

func aSources() []*asrc {
	var out []*asrc
	add := func(s *asrc) *asrc { s.ID = len(out); out = append(out, s); return s }
	get := func(key string) func(a *asm, e *aenv) {
		return func(a *asm, e *aenv) { ldloc(a.str(key), lCtx).sys(interopnames.SystemStorageGet) }
	}
	native := func(h util.Uint160, method string, args ...func(a *asm, e *aenv)) func(a *asm, e *aenv) {
		return func(a *asm, e *aenv) {
			for i := len(args) - 1; i >= 0; i-- {
				args[i](a, e)
			}
			a.call(h, method, len(args))
		}
	}
	lit := func(b []byte) func(a *asm, e *aenv) { return func(a *asm, e *aenv) { a.data(b) } }
	num := func(v int) func(a *asm, e *aenv) { return func(a *asm, e *aenv) { a.i8(v) } }
	first := func(f func(a *asm, e *aenv)) func(a *asm, e *aenv) {
		return func(a *asm, e *aenv) { f(a, e); iterNth(a, 1) }
	}
	// ---- contract storage ----
	add(&asrc{Name: "get:" + kPersisted, Disk: true, Read: get(kPersisted)})
	add(&asrc{Name: "get:" + kCached, Disk: true, Read: get(kCached)})
	add(&asrc{Name: "get:" + kBlock, Disk: true, Read: get(kBlock)})
	add(&asrc{Name: "get:" + kExec, Disk: true, HasPre: true, Read: get(kExec), Pre: func(a *asm, e *aenv) {
		ldloc(a.str("value-put-in-this-execution").str(kExec), lCtx).sys(interopnames.SystemStoragePut)
	}})
	for _, o := range findOpts {
		for n := 1; n <= 2; n++ {
			o, n := o, n
			add(&asrc{Name: fmt.Sprintf("find:%s:#%d", findOptName(o), n), Disk: o == 0 || o == 4 || o == 8 || o == 128, Read: func(a *asm, e *aenv) {
				ldloc(a.u8(o).str("f"), lCtx).sys(interopnames.SystemStorageFind)
				iterNth(a, n)
			}})
		}
	}
	// an entry written earlier in the same execution, found by an iterator
	for _, o := range []int{0, 4, 8} {
		o := o
		add(&asrc{Name: "find:" + findOptName(o) + ":exec", Disk: o != 8, HasPre: true, Pre: func(a *asm, e *aenv) {
			ldloc(a.data(findValue("g1-first", "g1-second")).str("g1"), lCtx).sys(interopnames.SystemStoragePut)
		}, Read: func(a *asm, e *aenv) {
			ldloc(a.u8(o).str("g"), lCtx).sys(interopnames.SystemStorageFind)
			iterNth(a, 1)
		}})
	}
	add(&asrc{Name: "call:get:" + kCached, Disk: true, Read: func(a *asm, e *aenv) { a.str(kCached); e.callQ(a, "get", 1) }})
	add(&asrc{Name: "call:get:" + kPersisted, Read: func(a *asm, e *aenv) { a.str(kPersisted); e.callQ(a, "get", 1) }})
	add(&asrc{Name: "call:literal", Disk: true, Read: func(a *asm, e *aenv) { e.callQ(a, "lit", 0) }})
	add(&asrc{Name: "literal", Disk: true, Read: lit([]byte(aLiteral))})
	// ---- runtime ----
	add(&asrc{Name: "runtime:scriptContainer", TxDep: true, Disk: true, Read: func(a *asm, e *aenv) { a.sys(interopnames.SystemRuntimeGetScriptContainer) }})
	add(&asrc{Name: "runtime:currentSigners", Read: func(a *asm, e *aenv) { a.sys(interopnames.SystemRuntimeCurrentSigners) }})
	add(&asrc{Name: "runtime:notifications", CalleeOnly: true, HasPre: true, Pre: func(a *asm, e *aenv) {
		a.str("inner-bytes").op(opcode.PUSH1, opcode.PACK).str("note-bytes").op(opcode.PUSH2, opcode.PACK).str("n0").sys(interopnames.SystemRuntimeNotify)
	}, Read: func(a *asm, e *aenv) { a.op(opcode.PUSHNULL).sys(interopnames.SystemRuntimeGetNotifications) }})
	add(&asrc{Name: "runtime:callingScriptHash", TxDep: true, Read: func(a *asm, e *aenv) { a.sys(interopnames.SystemRuntimeGetCallingScriptHash) }})
	add(&asrc{Name: "runtime:executingScriptHash", TxDep: true, Read: func(a *asm, e *aenv) { a.sys(interopnames.SystemRuntimeGetExecutingScriptHash) }})
	add(&asrc{Name: "runtime:entryScriptHash", TxDep: true, Read: func(a *asm, e *aenv) { a.sys(interopnames.SystemRuntimeGetEntryScriptHash) }})
	// ---- natives ----
	led, mgmt, neo, gas, std, cry, role, pol := nativehashes.LedgerContract, nativehashes.ContractManagement, nativehashes.NeoToken, nativehashes.GasToken,
		nativehashes.StdLib, nativehashes.CryptoLib, nativehashes.RoleManagement, nativehashes.PolicyContract
	h0 := func(a *asm, e *aenv) { a.data(e.k.h0.BytesBE()) }
	add(&asrc{Name: "ledger:currentHash", TxDep: true, Read: native(led, "currentHash")})
	add(&asrc{Name: "ledger:getBlock", Read: native(led, "getBlock", num(1))})
	add(&asrc{Name: "ledger:getTransaction", Read: native(led, "getTransaction", h0)})
	add(&asrc{Name: "ledger:getTransactionFromBlock", Read: native(led, "getTransactionFromBlock", num(1), num(0))})
	add(&asrc{Name: "ledger:getTransactionSigners", Read: native(led, "getTransactionSigners", h0)})
	add(&asrc{Name: "management:getContract:U", Read: native(mgmt, "getContract", func(a *asm, e *aenv) { a.data(e.k.ua.BytesBE()) })})
	add(&asrc{Name: "management:getContract:self", Disk: true, Read: native(mgmt, "getContract", func(a *asm, e *aenv) { e.pushQ(a) })})
	add(&asrc{Name: "management:getContractById", Read: native(mgmt, "getContractById", num(1))})
	add(&asrc{Name: "management:getContractHashes", Disk: true, Read: first(native(mgmt, "getContractHashes"))})
	add(&asrc{Name: "neo:getCandidates", Read: native(neo, "getCandidates")})
	add(&asrc{Name: "neo:getAllCandidates", Disk: true, Read: first(native(neo, "getAllCandidates"))})
	add(&asrc{Name: "neo:getCommittee", Read: native(neo, "getCommittee")})
	add(&asrc{Name: "neo:getNextBlockValidators", Read: native(neo, "getNextBlockValidators")})
	add(&asrc{Name: "neo:getAccountState", Read: native(neo, "getAccountState", func(a *asm, e *aenv) { a.data(e.k.acc1.BytesBE()) })})
	add(&asrc{Name: "neo:getCommitteeAddress", Read: native(neo, "getCommitteeAddress")})
	add(&asrc{Name: "gas:symbol", Read: native(gas, "symbol")})
	add(&asrc{Name: "role:getDesignatedByRole", Read: native(role, "getDesignatedByRole", num(int(noderoles.Oracle)), num(1))})
	add(&asrc{Name: "policy:getBlockedAccounts", Disk: true, Read: first(native(pol, "getBlockedAccounts"))})
	add(&asrc{Name: "policy:getWhitelistFeeContracts", Read: first(native(pol, "getWhitelistFeeContracts"))})
	add(&asrc{Name: "stdlib:serialize", Read: native(std, "serialize", lit([]byte(aLiteral)))})
	add(&asrc{Name: "stdlib:base64Decode", Read: native(std, "base64Decode", lit([]byte("bGl0ZXJhbC1ieXRlcw==")))})
	add(&asrc{Name: "stdlib:itoa", Read: native(std, "itoa", num(123), num(10))})
	add(&asrc{Name: "stdlib:stringSplit", Read: native(std, "stringSplit", lit([]byte("ab,cd,ef")), lit([]byte(",")))})
	add(&asrc{Name: "cryptolib:sha256", Read: native(cry, "sha256", lit([]byte(aLiteral)))})
	return out
}

// ---- derivations, mutations, sinks ----------------------------------------------------

var deriveNames = []string{"none", "CONVERT", "RIGHT-all", "RIGHT-1", "LEFT-all", "LEFT-1", "SUBSTR-all", "SUBSTR-1", "CAT-x-empty", "CAT-empty-x", "NEWBUFFER+MEMCPY"}

// emitDerive leaves the target on the stack (x is in lX).
func emitDerive(a *asm, d int) {
	x := func() *asm { return ldloc(a, lX) }
	switch d {
	case 0:
		x()
	case 1:
		x().op(opcode.CONVERT).raw(byte(stackitem.BufferT))
	case 2:
		x().op(opcode.DUP, opcode.SIZE, opcode.RIGHT)
	case 3:
		x().op(opcode.DUP, opcode.SIZE, opcode.DEC, opcode.RIGHT)
	case 4:
		x().op(opcode.DUP, opcode.SIZE, opcode.LEFT)
	case 5:
		x().op(opcode.DUP, opcode.SIZE, opcode.DEC, opcode.LEFT)
	case 6:
		x().op(opcode.PUSH0, opcode.OVER, opcode.SIZE, opcode.SUBSTR)
	case 7:
		x().op(opcode.PUSH1, opcode.OVER, opcode.SIZE, opcode.DEC, opcode.SUBSTR)
	case 8:
		x().data(nil).op(opcode.CAT)
	case 9:
		a.data(nil)
		x().op(opcode.CAT)
	case 10:
		x().op(opcode.SIZE, opcode.NEWBUFFER, opcode.DUP, opcode.PUSH0)
		x().op(opcode.PUSH0)
		x().op(opcode.SIZE, opcode.MEMCPY)
	default:
		panic("derive")
	}
}

const (
	mutNone      = 0
	mutFirstComp = 6 // mutations >= this one work on compounds, the ones below on Buffers
	mutAbort     = 255
)

var mutNames = []string{"none", "SETITEM-first", "SETITEM-last", "REVERSEITEMS", "MEMCPY-first", "MEMCPY-last",
	"c:SETITEM", "c:APPEND", "c:CLEARITEMS", "c:REMOVE", "c:REVERSEITEMS", "c:POPITEM"}

// emitMut mutates the target in lY in place; it leaves the stack as it found it.
func emitMut(a *asm, m int) {
	y := func() *asm { return ldloc(a, lY) }
	switch m {
	case mutNone:
	case mutAbort:
		a.op(opcode.ABORT)
	case 1:
		y().op(opcode.PUSH0)
		y().op(opcode.PUSH0, opcode.PICKITEM).i8(0x55).op(opcode.XOR, opcode.SETITEM)
	case 2:
		y().op(opcode.DUP, opcode.SIZE, opcode.DEC)
		y().op(opcode.OVER, opcode.PICKITEM).i8(0x55).op(opcode.XOR, opcode.SETITEM)
	case 3:
		y().op(opcode.REVERSEITEMS)
	case 4:
		y().op(opcode.PUSH0).data([]byte{0xA5}).op(opcode.PUSH0, opcode.PUSH1, opcode.MEMCPY)
	case 5:
		y().op(opcode.DUP, opcode.SIZE, opcode.DEC).data([]byte{0x5A}).op(opcode.PUSH0, opcode.PUSH1, opcode.MEMCPY)
	case 6:
		y().op(opcode.PUSH0).str("Z").op(opcode.SETITEM)
	case 7:
		y().str("Z").op(opcode.APPEND)
	case 8:
		y().op(opcode.CLEARITEMS)
	case 9:
		y().op(opcode.PUSH0, opcode.REMOVE)
	case 10:
		y().op(opcode.REVERSEITEMS)
	case 11:
		y().op(opcode.POPITEM, opcode.DROP)
	default:
		panic("mut")
	}
}

var sinkNames = []string{"none", "put-before-mutation", "notify-before-mutation"}

func emitSink(a *asm, s int) {
	switch s {
	case 0:
	case 1:
		ldloc(ldloc(a, lY).str("s"), lCtx).sys(interopnames.SystemStoragePut)
	case 2:
		ldloc(a, lY).op(opcode.PUSH1, opcode.PACK).str("sink").sys(interopnames.SystemRuntimeNotify)
	default:
		panic("sink")
	}
}

// emitSnap appends StdLib.serialize(top of the stack) to the log.
func emitSnap(a *asm) {
	a.call(nativehashes.StdLib, "serialize", 1)
	ldloc(a, lLog).op(opcode.SWAP, opcode.APPEND)
}

// end kinds of the executor
const (
	endRet = iota
	endAbort
	endThrow
	endCaughtInside // needs the TRY-wrapped executor
)

// ---- path steps --------------------------------------------------------------------------

type pstep struct {
	Idx int
	Key []byte // map key (a byte string) if not nil
}

func (p pstep) String() string {
	if p.Key != nil {
		return fmt.Sprintf("{%x}", p.Key)
	}
	return fmt.Sprint(p.Idx)
}

func (p pstep) push(a *asm) {
	if p.Key != nil {
		a.data(p.Key)
	} else {
		a.i8(p.Idx)
	}
}

type aleaf struct {
	Src   *asrc
	Path  []pstep
	Nav   byte // how an entry script takes the last step: 'p' PICKITEM, 'v' VALUES+PICKITEM, 'u' UNPACK
	NSib  int  // size of the parent (for 'u')
	Bytes bool // byte string of >= 2 bytes (else: a compound)
	Len   int  // number of elements of a compound
	Only  byte // 0: both contexts, 'i': exists only in an entry script, 'c': only in a contract
	Type  string
	name  string
}

func (l *aleaf) Name() string {
	if l.name == "" {
		var s []string
		for _, p := range l.Path {
			s = append(s, p.String())
		}
		nav := ""
		if l.Nav != 'p' {
			nav = "~" + string(l.Nav)
		}
		l.name = fmt.Sprintf("%s[%s]%s<%s>", l.Src.Name, strings.Join(s, "."), nav, l.Type)
	}
	return l.name
}

const (
	leafMaxDepth  = 4
	leafMaxPerSrc = 16
)

// walk enumerates the leaves below root: children 0, 1 and the last one of every
// array / struct, the first two entries of a map, down to leafMaxDepth, at most
// leafMaxPerSrc byte leaves and as many compounds per source (breadth first).
func walkLeaves(src *asrc, root stackitem.Item) []*aleaf {
	type qe struct {
		it   stackitem.Item
		path []pstep
		nsib int
	}
	var out []*aleaf
	nb, nc := 0, 0
	alt := map[bool]bool{}
	queue := []qe{{it: root}}
	for len(queue) > 0 {
		e := queue[0]
		queue = queue[1:]
		mk := func(bytes bool) {
			navs := []byte{'p'}
			if len(e.path) > 0 && e.path[len(e.path)-1].Key == nil && !alt[bytes] {
				alt[bytes] = true
				navs = []byte{'p', 'v', 'u'} // the first leaf of each kind below the root also through VALUES and UNPACK
			}
			for _, nav := range navs {
				n := 0
				switch v := e.it.(type) {
				case *stackitem.Array, *stackitem.Struct:
					n = len(v.Value().([]stackitem.Item))
				case *stackitem.Map:
					n = v.Len()
				}
				out = append(out, &aleaf{Src: src, Path: e.path, Nav: nav, NSib: e.nsib, Bytes: bytes, Type: e.it.Type().String(), Len: n})
			}
		}
		switch v := e.it.(type) {
		case *stackitem.ByteArray, *stackitem.Buffer:
			if b, _ := v.TryBytes(); len(b) >= 2 && nb < leafMaxPerSrc {
				mk(true)
				nb++
			}
		case *stackitem.Array, *stackitem.Struct:
			es := v.Value().([]stackitem.Item)
			if nc < leafMaxPerSrc {
				mk(false)
				nc++
			}
			if len(e.path) >= leafMaxDepth {
				break
			}
			seen := map[int]bool{}
			for _, i := range []int{0, 1, len(es) - 1} {
				if i < 0 || i >= len(es) || seen[i] {
					continue
				}
				seen[i] = true
				queue = append(queue, qe{it: es[i], path: append(append([]pstep{}, e.path...), pstep{Idx: i}), nsib: len(es)})
			}
		case *stackitem.Map:
			if nc < leafMaxPerSrc {
				mk(false)
				nc++
			}
			if len(e.path) >= leafMaxDepth {
				break
			}
			for i, me := range v.Value().([]stackitem.MapElement) {
				if i >= 2 {
					break
				}
				if k, err := me.Key.TryBytes(); err == nil && me.Key.Type() == stackitem.ByteArrayT {
					queue = append(queue, qe{it: me.Value, path: append(append([]pstep{}, e.path...), pstep{Key: append([]byte{}, k...)})})
				}
			}
		}
	}
	return out
}

// emitNavInline takes the leaf's path from the root (in lRoot) with literal steps.
func emitNavInline(a *asm, l *aleaf) {
	ldloc(a, lRoot)
	for i, p := range l.Path {
		last := i == len(l.Path)-1
		switch {
		case last && l.Nav == 'v':
			a.op(opcode.VALUES)
			p.push(a)
			a.op(opcode.PICKITEM)
		case last && l.Nav == 'u':
			a.op(opcode.UNPACK, opcode.DROP)
			for k := 0; k < p.Idx; k++ {
				a.op(opcode.DROP)
			}
			for k := 0; k < l.NSib-1-p.Idx; k++ {
				a.op(opcode.NIP)
			}
		default:
			p.push(a)
			a.op(opcode.PICKITEM)
		}
	}
}

// ---- the executor ------------------------------------------------------------------------------

// sel: a literal choice (entry script) or a run-time switch on an argument (contract method).
type sel struct{ lit, arg int }

func litSel(v int) sel { return sel{lit: v, arg: -1} }
func argSel(i int) sel { return sel{arg: i} }

func choose(a *asm, s sel, ids []int, frag func(id int)) {
	if s.arg < 0 {
		frag(s.lit)
		return
	}
	end := a.newLabel("end")
	for _, id := range ids {
		next := a.newLabel("next")
		ldarg(a, s.arg).u8(id).jmp(opcode.JMPNEL, next)
		frag(id)
		a.jmp(opcode.JMPL, end).label(next)
	}
	a.op(opcode.ABORT) // unknown selector
	a.label(end)
}

type execSpec struct {
	src, derive, mut, sink, end sel
	leaf                        *aleaf // literal path (entry script); nil: the path is argument 1
	wrapTry                     bool
	twin                        int // entry script only: 0 the mutation, 1 NOPs of the same length, 2 ABORT + NOPs
}

const (
	twinNone = iota
	twinDrop
	twinAbort
)

type agen struct {
	k    *aconst
	srcs []*asrc
}

func (g *agen) srcIDs() (ids []int) {
	for _, s := range g.srcs {
		ids = append(ids, s.ID)
	}
	return
}

func seqIDs(n int) (ids []int) {
	for i := 0; i < n; i++ {
		ids = append(ids, i)
	}
	return
}

// executor emits: log, ctx, [TRY{] pre, read+snapshot, navigate, derive, sink, mutate, marker put [; THROW } CATCH{}],
// re-read+snapshot, snapshot of the held item, read-back of the sink key, end.
func (g *agen) executor(a *asm, e *aenv, sp execSpec) {
	a.op(opcode.NEWARRAY0)
	stloc(a, lLog)
	if e.inQ {
		a.sys(interopnames.SystemStorageGetContext)
	} else {
		e.callQ(a, "ctx", 0)
	}
	stloc(a, lCtx)
	var lCatch, lAfter string
	if sp.wrapTry {
		lCatch, lAfter = a.newLabel("catch"), a.newLabel("after")
		a.try(lCatch, "")
	}
	srcIDs := g.srcIDs()
	choose(a, sp.src, srcIDs, func(id int) {
		if s := g.srcs[id]; s.Pre != nil {
			s.Pre(a, e)
		}
	})
	choose(a, sp.src, srcIDs, func(id int) { g.srcs[id].Read(a, e) })
	a.op(opcode.DUP)
	stloc(a, lRoot)
	emitSnap(a)
	if sp.leaf != nil {
		emitNavInline(a, sp.leaf)
	} else {
		loop, done := a.newLabel("loop"), a.newLabel("done")
		ldloc(a, lRoot)
		a.op(opcode.PUSH0)
		stloc(a, lI)
		a.label(loop)
		ldloc(a, lI)
		ldarg(a, 1).op(opcode.SIZE, opcode.LT).jmp(opcode.JMPIFNOTL, done)
		ldarg(a, 1)
		ldloc(a, lI).op(opcode.PICKITEM, opcode.PICKITEM)
		ldloc(a, lI).op(opcode.INC)
		stloc(a, lI)
		a.jmp(opcode.JMPL, loop).label(done)
	}
	stloc(a, lX)
	choose(a, sp.derive, seqIDs(len(deriveNames)), func(id int) { emitDerive(a, id) })
	stloc(a, lY)
	choose(a, sp.sink, seqIDs(len(sinkNames)), func(id int) { emitSink(a, id) })
	switch {
	case sp.mut.arg >= 0:
		choose(a, sp.mut, append(seqIDs(len(mutNames)), mutAbort), func(id int) { emitMut(a, id) })
	case sp.twin == twinNone:
		emitMut(a, sp.mut.lit)
	default:
		at := len(a.b)
		emitMut(a, sp.mut.lit)
		n := len(a.b) - at
		a.b = a.b[:at]
		for i := 0; i < n; i++ {
			if i == 0 && sp.twin == twinAbort {
				a.op(opcode.ABORT)
			} else {
				a.op(opcode.NOP)
			}
		}
	}
	// the marker: an ordinary write that a HALT keeps and a fault / rollback discards
	if sp.src.arg >= 0 {
		ldarg(a, sp.src.arg)
	} else {
		a.u8(sp.src.lit)
	}
	ldloc(a.str("w"), lCtx).sys(interopnames.SystemStoragePut)
	if sp.wrapTry {
		skip := a.newLabel("nothrow")
		if sp.end.arg >= 0 {
			ldarg(a, sp.end.arg).u8(endCaughtInside).jmp(opcode.JMPNEL, skip)
			a.str(aThrown).op(opcode.THROW)
		} else if sp.end.lit == endCaughtInside {
			a.str(aThrown).op(opcode.THROW)
		}
		a.label(skip)
		a.jmp(opcode.ENDTRYL, lAfter)
		a.label(lCatch).op(opcode.DROP).jmp(opcode.ENDTRYL, lAfter)
		a.label(lAfter)
	}
	choose(a, sp.src, srcIDs, func(id int) { g.srcs[id].Read(a, e) })
	emitSnap(a)
	ldloc(a, lX)
	emitSnap(a)
	ldloc(ldloc(a.str("s"), lCtx).sys(interopnames.SystemStorageGet), lLog).op(opcode.SWAP, opcode.APPEND)
	choose(a, sp.end, []int{endRet, endAbort, endThrow, endCaughtInside}, func(id int) {
		switch id {
		case endAbort:
			a.op(opcode.ABORT)
		case endThrow:
			a.str(aThrown).op(opcode.THROW)
		}
	})
	ldloc(a, lLog).op(opcode.RET)
}

// ---- the executor contract Q -----------------------------------------------------------------------

// buildQ assembles Q. Methods:
//
//	ctx()                                        its storage context
//	get(key)                                     Storage.Get(own context, key)
//	lit()                                        a PUSHDATA literal of its own code
//	exec(src, path, derive, mut, sink, end)      the executor
//	execT(...)                                   the executor inside TRY ... CATCH (end 3: throw at the end of the TRY body)
//	read(src)                                    [serialize(source)]
//	probe()                                      everything in its storage (Find), literal, own contract state
func buildQ(k *aconst, srcs []*asrc, sender util.Uint160) (*neotest.Contract, error) {
	g := &agen{k: k, srcs: srcs}
	e := &aenv{k: k, inQ: true}
	m := manifest.DefaultManifest("Q")
	m.Permissions = []manifest.Permission{*manifest.NewPermission(manifest.PermissionWildcard)}
	anyP := func(names ...string) []manifest.Parameter {
		ps := []manifest.Parameter{} // never nil: a manifest read back from storage has empty lists
		for _, n := range names {
			ps = append(ps, manifest.NewParameter(n, smartcontract.AnyType))
		}
		return ps
	}
	m.ABI.Events = []manifest.Event{
		{Name: "n0", Parameters: anyP("a", "b")},
		{Name: "sink", Parameters: anyP("a")},
	}
	a := newAsm()
	method := func(name string, ret smartcontract.ParamType, params ...string) {
		m.ABI.Methods = append(m.ABI.Methods, manifest.Method{Name: name, Offset: len(a.b), ReturnType: ret, Parameters: anyP(params...)})
	}
	method("ctx", smartcontract.InteropInterfaceType)
	a.sys(interopnames.SystemStorageGetContext).op(opcode.RET)
	method("get", smartcontract.AnyType, "key")
	a.sys(interopnames.SystemStorageGetContext).sys(interopnames.SystemStorageGet).op(opcode.RET)
	method("lit", smartcontract.AnyType)
	a.str("literal-inside-the-contract").op(opcode.RET)
	for _, t := range []bool{false, true} {
		name := "exec"
		if t {
			name = "execT"
		}
		method(name, smartcontract.AnyType, "src", "path", "derive", "mut", "sink", "end")
		a.op(opcode.INITSLOT).raw(nLocals, 6)
		g.executor(a, e, execSpec{src: argSel(0), derive: argSel(2), mut: argSel(3), sink: argSel(4), end: argSel(5), wrapTry: t})
	}
	method("read", smartcontract.AnyType, "src")
	a.op(opcode.INITSLOT).raw(nLocals, 1)
	a.op(opcode.NEWARRAY0)
	stloc(a, lLog)
	a.sys(interopnames.SystemStorageGetContext)
	stloc(a, lCtx)
	choose(a, argSel(0), g.srcIDs(), func(id int) { srcs[id].Read(a, e) })
	emitSnap(a)
	ldloc(a, lLog).op(opcode.RET)
	method("probe", smartcontract.AnyType)
	a.op(opcode.INITSLOT).raw(nLocals, 0)
	a.op(opcode.NEWARRAY0)
	stloc(a, lLog)
	a.sys(interopnames.SystemStorageGetContext)
	stloc(a, lCtx)
	{
		loop, done := a.newLabel("loop"), a.newLabel("done")
		ldloc(a.u8(0).data(nil), lCtx).sys(interopnames.SystemStorageFind)
		a.label(loop).op(opcode.DUP).sys(interopnames.SystemIteratorNext).jmp(opcode.JMPIFNOTL, done)
		ldloc(a, lLog).op(opcode.OVER).sys(interopnames.SystemIteratorValue).op(opcode.APPEND)
		a.jmp(opcode.JMPL, loop).label(done).op(opcode.DROP)
		for _, key := range []string{kPersisted, kCached, kBlock, kExec, "w", "s"} {
			ldloc(ldloc(a, lLog).str(key), lCtx).sys(interopnames.SystemStorageGet).op(opcode.APPEND)
		}
		ldloc(a, lLog).str("literal-inside-the-contract").op(opcode.APPEND)
		ldloc(a, lLog)
		e.callQ(a, "lit", 0)
		a.op(opcode.APPEND)
		ldloc(a, lLog)
		e.pushQ(a)
		a.call(nativehashes.ContractManagement, "getContract", 1)
		a.op(opcode.APPEND)
	}
	ldloc(a, lLog).op(opcode.RET)
	ne, err := nef.NewFile(a.bytes())
	if err != nil {
		return nil, err
	}
	return &neotest.Contract{Hash: state.CreateContractHash(sender, ne.Checksum, m.Name), NEF: ne, Manifest: m}, nil
}

// ---- wrappers -------------------------------------------------------------------------------------------

type awrap struct {
	Name   string
	Inline bool
	Halts  bool // the transaction is meant to HALT
	// Rollback: the executor's layer is dropped before the values are read again
	Rollback bool
	// LogKind: which log the entry script returns: 'x' the executor's, 'r' only a re-read (Q.read), 0 none
	LogKind byte
}

var awraps = []awrap{
	{Name: "entry:halt", Inline: true, Halts: true, LogKind: 'x'},
	{Name: "entry:abort", Inline: true},
	{Name: "entry:throw", Inline: true},
	{Name: "entry:caught", Inline: true, Halts: true, LogKind: 'x'},
	{Name: "callee:halt", Halts: true, LogKind: 'x'},
	{Name: "callee:abort"},
	{Name: "callee:throw"},
	{Name: "callee:throw-caught-by-caller", Halts: true, Rollback: true, LogKind: 'r'},
	{Name: "callee:caught-inside", Halts: true, LogKind: 'x'},
	{Name: "callee:halt-in-callers-try", Halts: true, LogKind: 'x'},
	{Name: "callee:halt-then-caller-aborts"},
}

type acase struct {
	Wrap              int
	Leaf              *aleaf
	Derive, Mut, Sink int
	name              string
}

func (c *acase) Name() string {
	if c.name == "" {
		c.name = fmt.Sprintf("%s|%s|%s|%s|%s", awraps[c.Wrap].Name, c.Leaf.Name(), deriveNames[c.Derive], mutNames[c.Mut], sinkNames[c.Sink])
	}
	return c.name
}

// entryScript assembles the transaction script of a case (twin: see twinNone/twinDrop/twinAbort).
func (g *agen) entryScript(c *acase, twin int) []byte {
	w := awraps[c.Wrap]
	a := newAsm()
	e := &aenv{k: g.k}
	if w.Inline {
		end := map[string]int{"entry:halt": endRet, "entry:abort": endAbort, "entry:throw": endThrow, "entry:caught": endCaughtInside}[w.Name]
		a.op(opcode.INITSLOT).raw(nLocals, 0)
		g.executor(a, e, execSpec{src: litSel(c.Leaf.Src.ID), derive: litSel(c.Derive), mut: litSel(c.Mut), sink: litSel(c.Sink), end: litSel(end),
			leaf: c.Leaf, wrapTry: end == endCaughtInside, twin: twin})
		return a.bytes()
	}
	mut := c.Mut
	switch twin {
	case twinDrop:
		mut = mutNone
	case twinAbort:
		mut = mutAbort
	}
	callExec := func(method string, end int) {
		a.u8(end).u8(c.Sink).u8(mut).u8(c.Derive)
		for i := len(c.Leaf.Path) - 1; i >= 0; i-- {
			c.Leaf.Path[i].push(a)
		}
		if n := len(c.Leaf.Path); n == 0 {
			a.op(opcode.NEWARRAY0)
		} else {
			a.i8(n).op(opcode.PACK)
		}
		a.u8(c.Leaf.Src.ID)
		e.callQ(a, method, 6)
	}
	switch w.Name {
	case "callee:halt":
		callExec("exec", endRet)
	case "callee:abort":
		callExec("exec", endAbort)
	case "callee:throw":
		callExec("exec", endThrow)
	case "callee:caught-inside":
		callExec("execT", endCaughtInside)
	case "callee:halt-then-caller-aborts":
		callExec("exec", endRet)
		a.op(opcode.ABORT)
	case "callee:halt-in-callers-try":
		lc, la := a.newLabel("c"), a.newLabel("a")
		a.try(lc, "")
		callExec("exec", endRet)
		a.jmp(opcode.ENDTRYL, la).label(lc).op(opcode.DROP).jmp(opcode.ENDTRYL, la).label(la)
	case "callee:throw-caught-by-caller":
		lc, la := a.newLabel("c"), a.newLabel("a")
		a.try(lc, "")
		callExec("exec", endThrow)
		a.op(opcode.DROP)
		a.jmp(opcode.ENDTRYL, la).label(lc).op(opcode.DROP).jmp(opcode.ENDTRYL, la).label(la)
		a.u8(c.Leaf.Src.ID)
		e.callQ(a, "read", 1)
	default:
		panic("wrapper " + w.Name)
	}
	a.op(opcode.RET)
	return a.bytes()
}

// discoverScript reads a source's root in an entry script (or through Q.read for callee-only sources).
func (g *agen) discoverScript(s *asrc) []byte {
	a := newAsm()
	e := &aenv{k: g.k}
	a.op(opcode.INITSLOT).raw(nLocals, 0)
	e.callQ(a, "ctx", 0)
	stloc(a, lCtx)
	if s.Pre != nil {
		s.Pre(a, e)
	}
	s.Read(a, e)
	a.op(opcode.RET)
	return a.bytes()
}

// ---- enumeration ----------------------------------------------------------------------------------------

type aspaceInfo struct {
	Sources, SourcesNA []string
	Leaves, ByteLeaves int
	Cases              int
	PerWrapper         map[string]int
}

// enumCases: every wrapper x leaf x applicable derivation x mutation; sinks only with the
// derivations of byte leaves of the "sink" sources. full=false (the disk-backend subset and the
// quick tier's real-block subset of the non-aliasing sources) is selected by the filter.
func enumCases(leaves []*aleaf, filter func(l *aleaf, w awrap, d, m, s int) bool) []*acase {
	var out []*acase
	for wi, w := range awraps {
		for _, l := range leaves {
			if w.Inline && l.Src.CalleeOnly {
				continue
			}
			if !w.Inline && l.Nav != 'p' {
				continue
			}
			add := func(d, m, s int) {
				if filter == nil || filter(l, w, d, m, s) {
					out = append(out, &acase{Wrap: wi, Leaf: l, Derive: d, Mut: m, Sink: s})
				}
			}
			if l.Bytes {
				for d := 1; d < len(deriveNames); d++ {
					for m := 1; m < mutFirstComp; m++ {
						add(d, m, 0)
					}
				}
				// sinks: the Buffer is stored / notified first and mutated afterwards
				for _, s := range []int{1, 2} {
					if s == 2 && w.Inline {
						continue // an entry script cannot notify
					}
					for d := 1; d < len(deriveNames); d++ {
						add(d, 1, s)
						add(d, 3, s)
					}
				}
			} else {
				for m := mutFirstComp; m < len(mutNames); m++ {
					if m == mutFirstComp && l.Len == 0 && l.Type != stackitem.MapT.String() {
						continue // SETITEM beyond the end of an array is a catchable exception, not a mutation
					}
					add(0, m, 0)
				}
			}
		}
	}
	return out
}

func sortedKeys(m map[string]int) []string {
	var ks []string
	for k := range m {
		ks = append(ks, k)
	}
	sort.Strings(ks)
	return ks
}

var _ = chainx.Acc
