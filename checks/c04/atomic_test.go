package c04

// Layer B: transaction atomicity over whole blocks.
//
// For every template T (a script that changes state and then faults), every
// block position (only / first / middle / last among good transactions that
// touch the same keys and accounts) and every family, two replicas of the
// prepared chain get the block with T and the twin block in which T is
// replaced by a bare ABORT with the same signers, system fee and network fee.
// Everything observable except T's own execution result must be equal: full
// contract storage dump, state root, committee, validators, Policy getters,
// natives, contracts, candidates, the execution results of the neighbours and
// of OnPersist/PostPersist - and the same for the following blocks (through
// an epoch boundary), the first of which carries a probe transaction that
// reads native settings through the caches. A third replica runs T without
// its final fault: it must HALT and change the state (the template is not
// vacuous). For halting templates (U programs) the replica must equal the
// model and may differ from the ABORT twin only in the keys the model names.

import (
	"encoding/json"
	"fmt"
	"sort"
	"strings"
	"time"

	"github.com/nspcc-dev/neo-go/pkg/core/block"
	"github.com/nspcc-dev/neo-go/pkg/core/native/nativehashes"
	"github.com/nspcc-dev/neo-go/pkg/core/native/nativeids"
	"github.com/nspcc-dev/neo-go/pkg/core/native/noderoles"
	"github.com/nspcc-dev/neo-go/pkg/core/state"
	"github.com/nspcc-dev/neo-go/pkg/core/transaction"
	"github.com/nspcc-dev/neo-go/pkg/io"
	"github.com/nspcc-dev/neo-go/pkg/neotest"
	"github.com/nspcc-dev/neo-go/pkg/smartcontract/callflag"
	"github.com/nspcc-dev/neo-go/pkg/smartcontract/trigger"
	"github.com/nspcc-dev/neo-go/pkg/util"
	"github.com/nspcc-dev/neo-go/pkg/vm/opcode"

	"verif/lib/chainx"
)

type atomicStat struct {
	execs int
	cov   map[string]any
}

// btpl is a layer-B template.
type btpl struct {
	Name      string
	Committee bool
	Prog      string // U program (AST rendering); its last op is the failing one unless Halting
	Prefix    string // the non-faulting variant used for the non-vacuity run, if it is not "Prog without its last op"
	Halting   bool
	// Raw builds (faulting script, the same without the fault) for non-AST templates.
	Raw func(rg *rig) (fault, prefix []byte, err error)
	// GasCut: run Prog with a system fee that is exhausted midway.
	GasCut bool
}

func ucall(h util.Uint160, m string, args ...any) []any {
	if args == nil {
		args = []any{}
	}
	return []any{chainx.OpCall, h.BytesBE(), m, 15, args}
}

func uput(k, v string) []any { return []any{chainx.OpPut, []byte(k), []byte(v)} }

func urun(h util.Uint160, prog ...any) []byte { return chainx.CallScript(h, "run", prog) }

func withFault(h util.Uint160, fault []any, prog ...any) (f, p []byte, err error) {
	return urun(h, append(append([]any{}, prog...), fault)...), urun(h, prog...), nil
}

func btemplates(thorough bool) []btpl {
	neo, gas, pol, mgmt, role := nativehashes.NeoToken, nativehashes.GasToken, nativehashes.PolicyContract, nativehashes.ContractManagement, nativehashes.RoleManagement
	acc := func(i int) []byte { return chainx.Acc(i).ScriptHash().BytesBE() }
	pub := func(i int) []byte { return chainx.Acc(i).PublicKey().Bytes() }
	abort, throw := []any{chainx.OpAbort}, []any{chainx.OpThrow}
	ts := []btpl{
		{Name: "writes-abort", Prog: "A[EPDX#]"},
		{Name: "callee-throws-uncaught", Prog: "A[EBf[EP!]]"},
		{Name: "caught-then-abort", Prog: "A[T{Bf[E!]}{E}E$gC[P]#]"},
		{Name: "callback-then-failing-native", Prog: "A[$sB[EX]~]"},
		{Name: "neo-transfer-abort", Prog: "A[$nB[E]#]"},
		{Name: "vote-abort", Raw: func(rg *rig) ([]byte, []byte, error) {
			return withFault(rg.w.hashes[pA], abort, uput("v", "1"), ucall(neo, "vote", acc(1), pub(1)), []any{chainx.OpNotify, 1})
		}},
		{Name: "unregister-throw", Raw: func(rg *rig) ([]byte, []byte, error) {
			return withFault(rg.w.hashes[pA], throw, ucall(neo, "unregisterCandidate", pub(1)), uput("v", "2"))
		}},
		{Name: "policy-setters-abort", Committee: true, Raw: func(rg *rig) ([]byte, []byte, error) {
			return withFault(rg.w.hashes[pA], abort,
				ucall(pol, "setFeePerByte", 7777), ucall(pol, "setStoragePrice", 54321), ucall(pol, "setExecFeeFactor", 17),
				ucall(pol, "blockAccount", acc(3)), uput("v", "3"))
		}},
		{Name: "designate-abort", Committee: true, Raw: func(rg *rig) ([]byte, []byte, error) {
			return withFault(rg.w.hashes[pA], abort, ucall(role, "designateAsRole", int(noderoles.Oracle), []any{pub(3)}))
		}},
		{Name: "deploy-abort", Raw: func(rg *rig) ([]byte, []byte, error) {
			mb, nb, err := rg.w.udBytes()
			if err != nil {
				return nil, nil, err
			}
			s := chainx.CallScript(mgmt, "deploy", nb, mb, nil)
			return chainx.ScriptThen(s, opcode.DROP, opcode.ABORT), chainx.ScriptThen(s, opcode.DROP), nil
		}},
		{Name: "destroy-throw", Raw: func(rg *rig) ([]byte, []byte, error) {
			return withFault(rg.w.hashes[pB], throw, uput("d", "1"), ucall(mgmt, "destroy"))
		}},
		{Name: "script-transfers-assert", Raw: func(rg *rig) ([]byte, []byte, error) {
			s := chainx.CallScript(gas, "transfer", acc(1), acc(2), 5, nil)
			s = append(s, byte(opcode.DROP))
			s = append(s, chainx.CallScript(neo, "transfer", acc(1), acc(2), 3, nil)...)
			s = append(s, byte(opcode.DROP))
			return chainx.ScriptThen(s, opcode.PUSHF, opcode.ASSERT), s, nil
		}},
		{Name: "out-of-gas", Prog: "A[EPXBf[EP]$gC[E]EPX]", GasCut: true},
		// the sender of the faulting transaction is itself a receiver in the rolled-back script:
		// only the fees may leave its balance (GAS from a contract, the GAS bonus minted by moving its NEO)
		{Name: "pays-sender-abort", Raw: func(rg *rig) ([]byte, []byte, error) {
			return withFault(rg.w.hashes[pA], abort, ucall(gas, "transfer", rg.w.hashes[pA].BytesBE(), acc(1), 7, nil),
				ucall(neo, "transfer", acc(1), acc(2), 1, nil), ucall(neo, "transfer", acc(1), acc(1), 0, nil), uput("v", "4"))
		}},
		{Name: "pays-sender-callee-throws", Raw: func(rg *rig) ([]byte, []byte, error) {
			pay := []any{chainx.OpRun, rg.w.hashes[pB].BytesBE(), 15, []any{ucall(gas, "transfer", rg.w.hashes[pB].BytesBE(), acc(1), 9, nil), uput("v", "5")}}
			return withFault(rg.w.hashes[pA], throw, pay)
		}},
		// hand-assembled entry scripts: handlers in every state when the transaction faults late
		{Name: "handler-script-abort", Prog: "H[{Bf[EX]Cf[E!]|Bf[E]|$sB[E]}Bf[P]#]"},
		{Name: "handler-script-rethrow-after-finally", Prog: "H[{Bf[EX]{Cf[E]!||Bf[E]}|$sC[E]!|Bf[P]}]", Prefix: "H[{Bf[EX]{Cf[E]!||Bf[E]}|$sC[E]|Bf[P]}]"},
		{Name: "handler-script-pending-lost", Prog: "H[Bf[E]{Cf[EX]!||Af[T{!}{}]}]", Prefix: "H[Bf[E]{Cf[EX]||Af[T{!}{}]}]"},
		{Name: "setfee-caught-then-abort", Committee: true, Prog: "A[T{Bf[F!]}{}FE#]"},
		// halting templates: the replica must equal the model and differ from the twin only where the model says
		{Name: "halt-plain", Halting: true, Prog: "A[EPX]"},
		{Name: "halt-caught-callee", Halting: true, Prog: "A[ET{EBf[EPX!]E}{E}E]"},
		{Name: "halt-callback", Halting: true, Prog: "A[$sB[EX]D]"},
		{Name: "halt-neo-callback", Halting: true, Prog: "A[$nB[E]X]"},
		{Name: "halt-setfee-rolled-back", Halting: true, Committee: true, Prog: "A[T{Bf[F!]}{}E]"},
		{Name: "halt-setfee", Halting: true, Committee: true, Prog: "A[FT{Cf[$gB[E]!]}{}]"},
		{Name: "halt-handler-script", Halting: true, Prog: "H[{Bf[EX]Cf[E!]|Bf[E]{Cf[P!]|$sB[E]}|$sB[E]}Bf[P]]"},
	}
	_ = thorough
	return ts
}

// udBytes returns manifest and NEF of a fourth instance deployable by account 1.
func (w *world) udBytes() (mb, nb []byte, err error) {
	if w.udManifest != nil {
		return w.udManifest, w.udNEF, nil
	}
	c, err := chainx.CompileU(chainx.UVariant{Name: "UD", Sender: chainx.Acc(1).ScriptHash()})
	if err != nil {
		return nil, nil, err
	}
	w.ud = c.Hash
	if mb, err = jsonMarshal(c.Manifest); err != nil {
		return nil, nil, err
	}
	nb, err = c.NEF.Bytes()
	return
}

// same-sender: like middle, but the neighbours are sent (and paid) by the sender of T
var positions = []string{"only", "first", "middle", "last", "after-writers", "same-sender"}

const (
	neighbourA = "A[PEX$gB[P]]"
	// after T: a try-wrapped cross-contract call that succeeds, a payment callback, a plain call
	neighbourC = "A[DET{Bf[P]}{}$gC[E]Cf[P]X]"
)

func cloneTx(tx *transaction.Transaction) *transaction.Transaction {
	t, err := transaction.NewTransactionFromBytes(tx.Bytes())
	if err != nil {
		panic(err)
	}
	return t
}

// abortTwin builds the ABORT transaction with T's signers and fees.
func (rg *rig) abortTwin(t *transaction.Transaction, signers []neotest.Signer) (*transaction.Transaction, error) {
	tw := transaction.New([]byte{byte(opcode.ABORT)}, t.SystemFee)
	tw.Nonce = t.Nonce
	tw.ValidUntilBlock = t.ValidUntilBlock
	tw.NetworkFee = t.NetworkFee
	tw.Signers = append([]transaction.Signer{}, t.Signers...)
	tw.Attributes = t.Attributes
	for _, s := range signers {
		if err := s.SignTx(rg.n.BC.GetConfig().Magic, tw); err != nil {
			return nil, err
		}
	}
	return tw, nil
}

type bcase struct {
	Family string
	Pad    int
	Tpl    btpl
	Pos    string
}

func (b bcase) key() string { return fmt.Sprintf("%s:%s:pad%d:%s", b.Tpl.Name, b.Family, b.Pad, b.Pos) }

// obsFields are the observation fields that must agree between the twins.
func obsFields(o *chainx.Obs) map[string]string {
	return map[string]string{"state_root": o.StateRoot, "storage": o.Storage, "committee": o.Committee, "next_validators": o.NextVals,
		"computed_validators": o.CompVals, "policy": o.Policy, "natives": o.Natives, "contracts": o.Contracts, "enrollments": o.Enroll}
}

func diffObs(a, b *chainx.Obs) (what []string, detail []string) {
	fa, fb := obsFields(a), obsFields(b)
	for k, v := range fa {
		if fb[k] != v {
			what = append(what, k)
			detail = append(detail, fmt.Sprintf("%s: with T %.200s, with ABORT twin %.200s", k, v, fb[k]))
		}
	}
	sort.Strings(what)
	sort.Strings(detail)
	for _, k := range diffKeys(a, b) {
		detail = append(detail, fmt.Sprintf("storage[%s]: with T %q, with ABORT twin %q", k, a.StorageMap()[k], b.StorageMap()[k]))
		if len(detail) > 12 {
			break
		}
	}
	return
}

func diffKeys(a, b *chainx.Obs) []string {
	var ks []string
	ma, mb := a.StorageMap(), b.StorageMap()
	for k, v := range ma {
		if w, ok := mb[k]; !ok || w != v {
			ks = append(ks, k)
		}
	}
	for k := range mb {
		if _, ok := ma[k]; !ok {
			ks = append(ks, k)
		}
	}
	sort.Strings(ks)
	return ks
}

// txAER renders the execution result of one container without node-local data.
func (rg *rig) txAER(h util.Uint256) string {
	a, err := rg.n.BC.GetAppExecResults(h, trigger.All)
	if err != nil {
		return "error: " + err.Error()
	}
	var sb strings.Builder
	for _, x := range a {
		fmt.Fprintf(&sb, "[%s %s gas=%d stack=%s ev=%v]", x.Trigger, x.VMState, x.GasConsumed, rg.w.renderStack(x.Stack), rg.w.renderEvents(x.Events))
	}
	return sb.String()
}

type batomic struct {
	c     *checker
	w     map[string]*world
	execs int
}

// build makes T (on rg1's state), its prefix-only variant and the neighbours.
func (rg *rig) buildT(t btpl) (fault, prefix *transaction.Transaction, signers []neotest.Signer, err error) {
	signers = rg.signers(t.Committee)
	var fs, ps []byte
	fee := int64(sysFee)
	switch {
	case t.Raw != nil:
		if fs, ps, err = t.Raw(rg); err != nil {
			return
		}
		fee = 20 * gasUnit
	default:
		ops := mustParse(t.Prog)
		fs = rg.w.script(ops)
		if t.Prefix != "" {
			ps = rg.w.script(mustParse(t.Prefix))
		} else if !t.Halting && !t.GasCut && isHand(ops) {
			b := ops[0].Body
			ps = rg.w.script([]Op{{K: 'S', Body: b[:len(b)-1]}})
		} else if !t.Halting && !t.GasCut {
			ps = rg.w.script(ops[:len(ops)-1])
		} else {
			ps = fs
		}
		if t.GasCut {
			tx := transaction.New(fs, sysFee)
			tx.Signers = []transaction.Signer{{Account: signers[0].ScriptHash(), Scopes: transaction.Global}}
			ic, e := rg.n.BC.GetTestVM(trigger.Application, tx, nil)
			if e != nil {
				return nil, nil, nil, e
			}
			ic.VM.LoadScriptWithFlags(fs, callflag.All)
			if e := ic.Exec(); e != nil {
				return nil, nil, nil, fmt.Errorf("gas probe: %w", e)
			}
			fee = ic.VM.GasConsumed() * 2 / 3
		}
	}
	nonce := rg.n.Nonce()
	fix := func(tx *transaction.Transaction) { tx.Nonce = nonce }
	if fault, err = rg.n.MakeTx(fs, signers, chainx.SysFee(fee), fix); err != nil {
		return
	}
	pfee := fee
	if t.GasCut {
		pfee = sysFee
	}
	prefix, err = rg.n.MakeTx(ps, signers, chainx.SysFee(pfee), fix)
	return
}

func (ba *batomic) run(bc bcase) (what, detail []string, err error) {
	w := ba.w[fmt.Sprintf("%s/%d", bc.Family, bc.Pad)]
	var rgs [3]*rig
	for i := range rgs {
		if rgs[i], err = w.newRig(); err != nil {
			return nil, nil, err
		}
		defer rgs[i].close()
	}
	r1, r2, r3 := rgs[0], rgs[1], rgs[2]
	init, err := r1.initState()
	if err != nil {
		return nil, nil, err
	}
	T, P, signers, err := r1.buildT(bc.Tpl)
	if err != nil {
		return nil, nil, fmt.Errorf("build T: %w", err)
	}
	twin, err := r1.abortTwin(T, signers)
	if err != nil {
		return nil, nil, err
	}
	s3 := []neotest.Signer{chainx.Signer(3)}
	same := bc.Pos == "same-sender"
	if same {
		s3 = []neotest.Signer{chainx.Signer(1)}
	}
	var a, cc *transaction.Transaction
	if bc.Pos == "middle" || bc.Pos == "last" || same {
		if a, err = r1.n.MakeTx(w.script(mustParse(neighbourA)), s3, chainx.SysFee(sysFee)); err != nil {
			return nil, nil, err
		}
	}
	if bc.Pos == "middle" || bc.Pos == "first" || same || (bc.Pos == "after-writers" && !bc.Tpl.Halting) {
		if cc, err = r1.n.MakeTx(w.script(mustParse(neighbourC)), s3, chainx.SysFee(sysFee)); err != nil {
			return nil, nil, err
		}
	}
	var writers []*transaction.Transaction
	if bc.Pos == "after-writers" {
		if writers, err = r1.writers(); err != nil {
			return nil, nil, fmt.Errorf("writers: %w", err)
		}
	}
	mk := func(mid *transaction.Transaction) []*transaction.Transaction {
		var txs []*transaction.Transaction
		for _, t := range writers {
			txs = append(txs, cloneTx(t))
		}
		if a != nil {
			txs = append(txs, cloneTx(a))
		}
		txs = append(txs, cloneTx(mid))
		if cc != nil {
			txs = append(txs, cloneTx(cc))
		}
		return txs
	}
	fail := func(w, d string) ([]string, []string, error) { return []string{w}, []string{d}, nil }
	sub1, sub2 := r1.subscribe(), r2.subscribe()
	if _, err := r1.n.AddBlock(mk(T)...); err != nil {
		return fail("block-with-T-rejected", err.Error())
	}
	if _, err := r2.n.AddBlock(mk(twin)...); err != nil {
		return fail("block-with-twin-rejected", err.Error())
	}
	ba.execs += 2
	hashes := append(w.cw.Hashes(), w.ud)
	maxID := w.cw.MaxID + 1
	obs := func(rg *rig) (*chainx.Obs, error) { return rg.n.Observe(maxID, hashes) }
	o1, err := obs(r1)
	if err != nil {
		return nil, nil, err
	}
	o2, err := obs(r2)
	if err != nil {
		return nil, nil, err
	}
	tState := func(rg *rig, h util.Uint256) string {
		x, err := rg.n.BC.GetAppExecResults(h, trigger.Application)
		if err != nil || len(x) != 1 {
			return "?"
		}
		return x[0].VMState.String()
	}
	for _, t := range writers {
		if s := tState(r2, t.Hash()); s != "HALT" {
			return nil, nil, fmt.Errorf("writer transaction did not halt: %s", r2.txAER(t.Hash()))
		}
	}
	if s := tState(r2, twin.Hash()); s != "FAULT" {
		return nil, nil, fmt.Errorf("ABORT twin did not fault: %s", s)
	}
	if !bc.Tpl.Halting {
		if s := tState(r1, T.Hash()); s != "FAULT" {
			return nil, nil, fmt.Errorf("template %s did not fault: %s %s", bc.Tpl.Name, s, r1.txAER(T.Hash()))
		}
		// non-vacuity: the same script without the fault halts and leaves a trace
		if _, err := r3.n.AddBlock(mk(P)...); err != nil {
			return nil, nil, fmt.Errorf("prefix block rejected: %w", err)
		}
		ba.execs++
		if s := tState(r3, P.Hash()); s != "HALT" {
			return nil, nil, fmt.Errorf("template %s without its fault does not halt: %s", bc.Tpl.Name, r3.txAER(P.Hash()))
		}
		o3, err := obs(r3)
		if err != nil {
			return nil, nil, err
		}
		if o3.StateRoot == o2.StateRoot {
			return nil, nil, fmt.Errorf("template %s without its fault leaves no trace", bc.Tpl.Name)
		}
		ba.c.r.Outcome(fmt.Sprintf("B:prefix-alone-changes-%d-keys", min(len(diffKeys(o3, o2)), 9)))
		if wh, d := diffObs(o1, o2); len(wh) > 0 {
			return wh, d, nil
		}
	} else {
		if s := tState(r1, T.Hash()); s != "HALT" {
			return nil, nil, fmt.Errorf("halting template %s did not halt: %s", bc.Tpl.Name, r1.txAER(T.Hash()))
		}
		// model: neighbours and T applied in order; the twin chain without T
		st1, st2 := init, init
		var mT *Result
		step := func(s *State, prog string, com bool) (*State, *Result) {
			m := runModel(s, mustParse(prog), com)
			ns := m.State.clone()
			ns.Notes = nil
			return ns, m
		}
		if a != nil {
			st1, _ = step(st1, neighbourA, false)
			st2 = st1
		}
		if writers != nil {
			// the state T starts from is the twin's final state with the fees given back
			base, err := w.readState(chainGetter{r2.n})
			if err != nil {
				return nil, nil, err
			}
			base.Gas[pSender] += T.SystemFee + T.NetworkFee
			base.Bonus = init.Bonus
			st1, st2 = base, base
		}
		st1, mT = step(st1, bc.Tpl.Prog, bc.Tpl.Committee)
		if cc != nil {
			var m1, m2 *Result
			st1, m1 = step(st1, neighbourC, false)
			st2, m2 = step(st2, neighbourC, false)
			if !m1.Halt || !m2.Halt {
				return nil, nil, fmt.Errorf("neighbour does not halt in the model")
			}
		}
		if !mT.Halt {
			return nil, nil, fmt.Errorf("halting template faults in the model")
		}
		// T's own result against the model
		x, _ := r1.n.BC.GetAppExecResults(T.Hash(), trigger.Application)
		rr := &real{Halt: true, Log: w.renderStack(x[0].Stack), Notes: w.renderEvents(x[0].Events)}
		if wh, d := compare(&Result{Halt: true, Log: mT.Log, State: &State{Notes: mT.State.Notes, Stor: mT.State.Stor}}, rr); len(wh) > 0 {
			return wh, d, nil
		}
		fees := T.SystemFee + T.NetworkFee
		if same {
			fees += a.SystemFee + a.NetworkFee + cc.SystemFee + cc.NetworkFee
		}
		for i, pair := range []struct {
			rg *rig
			st *State
		}{{r1, st1}, {r2, st2}} {
			got, err := w.readState(chainGetter{pair.rg.n})
			if err != nil {
				return nil, nil, err
			}
			if f := pair.rg.n.BC.FeePerByte(); f != got.Fee {
				got.Fee = -f
			}
			if wh, d := compare(&Result{State: pair.st}, &real{State: got, Fees: fees}); len(wh) > 0 {
				for j := range wh {
					wh[j] = []string{"with-T:", "with-twin:"}[i] + wh[j]
				}
				return wh, d, nil
			}
		}
		// exactness: raw keys may differ only where the model has an effect
		allowed := map[string]bool{fmt.Sprintf("%d:0a", nativeids.PolicyContract): true}
		for p := 0; p < nPrinc; p++ {
			allowed[fmt.Sprintf("%d:%x", nativeids.GasToken, accountKey(w.hashes[p]))] = true
			allowed[fmt.Sprintf("%d:%x", nativeids.NeoToken, accountKey(w.hashes[p]))] = true
		}
		if hasNeo(mustParse(bc.Tpl.Prog)) {
			allowed[fmt.Sprintf("%d:0b", nativeids.GasToken)] = true // total supply: the GAS bonus of a NEO transfer is minted
		}
		ks := diffKeys(o1, o2)
		for _, k := range ks {
			id := k[:strings.IndexByte(k, ':')]
			isU := id == fmt.Sprint(w.ids[0]) || id == fmt.Sprint(w.ids[1]) || id == fmt.Sprint(w.ids[2])
			if !isU && !allowed[k] {
				return fail("unexpected-key-differs", fmt.Sprintf("storage[%s]: with T %q, with twin %q", k, o1.StorageMap()[k], o2.StorageMap()[k]))
			}
		}
		if len(ks) == 0 {
			return nil, nil, fmt.Errorf("halting template %s leaves no trace", bc.Tpl.Name)
		}
		ba.c.r.Outcome("B:halting-T-differs-from-twin-exactly-as-model")
	}
	// notifications dispatched to subscribers and token transfer logs derived from them
	if !bc.Tpl.Halting {
		x, err := sub1(T.Hash())
		if err != nil {
			return nil, nil, err
		}
		y, err := sub2(twin.Hash())
		if err != nil {
			return nil, nil, err
		}
		if x != y {
			return fail("dispatched-notifications", fmt.Sprintf("with T %s, with twin %s", x, y))
		}
		if strings.Count(x, "block:") == 0 {
			return nil, nil, fmt.Errorf("no notifications were dispatched at all: %q", x)
		}
		if x, y := r1.transferLog(T.Hash(), r1.n.BC.CurrentBlockHash()), r2.transferLog(twin.Hash(), r2.n.BC.CurrentBlockHash()); x != y {
			return fail("transfer-log", fmt.Sprintf("with T %s, with twin %s", x, y))
		}
	}
	// neighbours and block-level executions
	b1, _ := r1.n.BC.GetBlock(r1.n.BC.CurrentBlockHash())
	b2, _ := r2.n.BC.GetBlock(r2.n.BC.CurrentBlockHash())
	if x, y := r1.txAER(b1.Hash()), r2.txAER(b2.Hash()); x != y {
		return fail("persist-executions", fmt.Sprintf("with T %s, with twin %s", x, y))
	}
	if !bc.Tpl.Halting {
		for _, tx := range []*transaction.Transaction{a, cc} {
			if tx == nil {
				continue
			}
			if x, y := r1.txAER(tx.Hash()), r2.txAER(tx.Hash()); x != y {
				return fail("neighbour-execution", fmt.Sprintf("with T %s, with twin %s", x, y))
			}
		}
		// following blocks: a probe that reads through the native caches, then empty blocks through an epoch boundary
		h := r1.n.Height()
		probe, err := r1.n.MakeTx(w.probeScript(h), []neotest.Signer{chainx.Signer(2)}, chainx.SysFee(10*gasUnit))
		if err != nil {
			return nil, nil, err
		}
		next := 2
		if w.multi {
			next = int(6-h%6) + 1
		}
		for k := 0; k < next; k++ {
			var txs1, txs2 []*transaction.Transaction
			if k == 0 {
				txs1, txs2 = []*transaction.Transaction{cloneTx(probe)}, []*transaction.Transaction{cloneTx(probe)}
			}
			if _, err := r1.n.AddBlock(txs1...); err != nil {
				return fail("next-block-rejected", fmt.Sprintf("block %d after T: %v", k+1, err))
			}
			if _, err := r2.n.AddBlock(txs2...); err != nil {
				return fail("next-block-rejected-twin", fmt.Sprintf("block %d after the twin: %v", k+1, err))
			}
			ba.execs += 2
			p1, err := obs(r1)
			if err != nil {
				return nil, nil, err
			}
			p2, err := obs(r2)
			if err != nil {
				return nil, nil, err
			}
			if wh, d := diffObs(p1, p2); len(wh) > 0 {
				for j := range wh {
					wh[j] = fmt.Sprintf("next%d:%s", k+1, wh[j])
				}
				return wh, d, nil
			}
			if k == 0 {
				if x, y := r1.txAER(probe.Hash()), r2.txAER(probe.Hash()); x != y {
					return fail("next1:probe-execution", fmt.Sprintf("after T %s, after twin %s", x, y))
				}
				if !strings.Contains(r1.txAER(probe.Hash()), "HALT") {
					return nil, nil, fmt.Errorf("probe does not halt: %s", r1.txAER(probe.Hash()))
				}
			}
		}
	}
	return nil, nil, nil
}

// subscribe registers for notifications and blocks; the returned function waits
// for the next block event and renders the notifications dispatched before it.
func (rg *rig) subscribe() func(self util.Uint256) (string, error) {
	nch := make(chan *state.ContainedNotificationEvent, 8192)
	bch := make(chan *block.Block, 64)
	rg.n.BC.SubscribeForNotifications(nch)
	rg.n.BC.SubscribeForBlocks(bch)
	return func(self util.Uint256) (string, error) {
		var b *block.Block
		select {
		case b = <-bch:
		case <-time.After(60 * time.Second): // guard against a hang only; not an oracle
			return "", fmt.Errorf("block event was not dispatched")
		}
		var sb strings.Builder
		for {
			select {
			case e := <-nch:
				c := e.Container.StringLE()[:6]
				if e.Container == self {
					c = "T"
				} else if e.Container == b.Hash() {
					c = "block"
				}
				sb.WriteString(c + ":" + strings.Join(rg.w.renderEvents([]state.NotificationEvent{e.NotificationEvent}), "") + " ")
				continue
			default:
			}
			break
		}
		return sb.String(), nil
	}
}

// transferLog renders the NEP-17 transfer log of the principals.
func (rg *rig) transferLog(self, blk util.Uint256) string {
	var sb strings.Builder
	for p, h := range rg.w.hashes {
		n := 0
		_ = rg.n.BC.ForEachNEP17Transfer(h, ^uint64(0), func(t *state.NEP17Transfer) (bool, error) {
			if n < 12 {
				tx := t.Tx.StringLE()[:6]
				if t.Tx == self {
					tx = "T"
				} else if t.Tx == blk {
					tx = "block" // fee burns and rewards of OnPersist/PostPersist carry the block hash
				}
				fmt.Fprintf(&sb, "%s:%d:%s:%d:%s ", princNames[p], t.Asset, t.Amount, t.Block, tx)
			}
			n++
			return true, nil
		})
		fmt.Fprintf(&sb, "%s#%d; ", princNames[p], n)
	}
	return sb.String()
}

// writers builds good transactions that make the block-level layer own native cache copies.
func (rg *rig) writers() ([]*transaction.Transaction, error) {
	var txs []*transaction.Transaction
	add := func(tx *transaction.Transaction, err error) error {
		txs = append(txs, tx)
		return err
	}
	s3 := chainx.Signer(3)
	if err := add(rg.n.MakeTx(chainx.CallScript(nativehashes.PolicyContract, "setFeePerByte", 2222), []neotest.Signer{s3, rg.n.Committee}, chainx.SysFee(gasUnit))); err != nil {
		return nil, err
	}
	ue, err := chainx.CompileU(chainx.UVariant{Name: "UE", Sender: chainx.Acc(3).ScriptHash()})
	if err != nil {
		return nil, err
	}
	mb, _ := json.Marshal(ue.Manifest)
	nb, _ := ue.NEF.Bytes()
	if err := add(rg.n.MakeTx(chainx.CallScript(nativehashes.ContractManagement, "deploy", nb, mb, nil), []neotest.Signer{s3}, chainx.SysFee(20*gasUnit))); err != nil {
		return nil, err
	}
	if err := add(rg.n.MakeTx(chainx.CallScript(nativehashes.NeoToken, "vote", chainx.Acc(2).ScriptHash(), chainx.Acc(1).PublicKey().Bytes()), []neotest.Signer{chainx.Signer(2)}, chainx.SysFee(gasUnit))); err != nil {
		return nil, err
	}
	if err := add(rg.n.MakeTx(chainx.CallScript(nativehashes.RoleManagement, "designateAsRole", int64(noderoles.P2PNotary), []any{chainx.Acc(4).PublicKey().Bytes()}), []neotest.Signer{s3, rg.n.Committee}, chainx.SysFee(gasUnit))); err != nil {
		return nil, err
	}
	return txs, nil
}

// probeScript reads native settings and registries through the caches and stores a marker.
func (w *world) probeScript(h uint32) []byte {
	neo, gas, pol, mgmt, role := nativehashes.NeoToken, nativehashes.GasToken, nativehashes.PolicyContract, nativehashes.ContractManagement, nativehashes.RoleManagement
	a1 := chainx.Acc(1).ScriptHash().BytesBE()
	return urun(w.hashes[pA],
		ucall(pol, "getFeePerByte"), ucall(pol, "getStoragePrice"), ucall(pol, "getExecFeeFactor"), ucall(pol, "isBlocked", chainx.Acc(3).ScriptHash().BytesBE()),
		ucall(neo, "getCandidates"), ucall(neo, "getAccountState", a1), ucall(neo, "getCommittee"), ucall(neo, "balanceOf", a1), ucall(gas, "balanceOf", a1),
		ucall(mgmt, "isContract", w.ud.BytesBE()), ucall(mgmt, "isContract", w.hashes[pB].BytesBE()),
		ucall(role, "getDesignatedByRole", int(noderoles.Oracle), int(h)),
		uput("probe", "1"),
		[]any{chainx.OpRun, w.hashes[pB].BytesBE(), 15, []any{uput("probe", "1")}},
	)
}

func runAtomic(c *checker) atomicStat {
	r := c.r
	ba := &batomic{c: c, w: map[string]*world{}}
	type fam struct {
		name  string
		multi bool
		pads  []int
	}
	fams := []fam{{"single", false, []int{0}}, {"multi", true, vkPick(r.Thorough(), []int{0}, []int{0, 1, 4})}}
	var cases []bcase
	for _, f := range fams {
		for _, p := range f.pads {
			w := c.w
			if f.multi || p != 0 {
				var err error
				if w, err = buildWorld(f.multi, p); err != nil {
					c.harness(fmt.Errorf("layer B world: %w", err))
					continue
				}
			}
			if _, _, err := w.udBytes(); err != nil {
				c.harness(err)
				continue
			}
			ba.w[fmt.Sprintf("%s/%d", f.name, p)] = w
			for _, t := range btemplates(r.Thorough()) {
				for _, pos := range positions {
					cases = append(cases, bcase{Family: f.name, Pad: p, Tpl: t, Pos: pos})
				}
			}
		}
	}
	var execs, done, agree int64
	var mu = &c.mu
	r.Parallel(len(cases), func(i int) {
		bc := cases[i]
		var what, detail []string
		var err error
		sub := &batomic{c: c, w: ba.w}
		if e := chainxTry(func() { what, detail, err = sub.run(bc) }); e != nil {
			what, detail = []string{"panic"}, []string{e.Error()}
		}
		mu.Lock()
		execs += int64(sub.execs)
		done++
		mu.Unlock()
		if err != nil {
			c.harness(fmt.Errorf("layer B %s: %w", bc.key(), err))
			return
		}
		if len(what) > 0 {
			r.Outcome("B:DIFFERS:" + what[0])
			if c.admitN("atomic:"+bc.Tpl.Name, what, 1) && c.admitN("atomic", what, 4) {
				r.Violation(fmt.Sprintf("B:%s:%s", what[0], bc.key()), caseRec{Layer: "B", Mode: "atomic", Prog: bc.Tpl.Name, Family: bc.Family, Pos: bc.Pos,
					History: []string{fmt.Sprint(bc.Pad)}, What: what, Detail: detail})
			}
			return
		}
		mu.Lock()
		agree++
		mu.Unlock()
		if bc.Tpl.Halting {
			r.Outcome("B:halting-template-agrees")
		} else {
			r.Outcome("B:faulting-template-agrees-with-ABORT-twin")
		}
	})
	fmt.Printf("layer B: %d block cases (%d agree), %.1fs\n", done, agree, r.Elapsed())
	var names []string
	for _, t := range btemplates(r.Thorough()) {
		names = append(names, t.Name)
	}
	return atomicStat{execs: int(execs), cov: map[string]any{
		"templates": names, "positions": positions, "families": []string{"single", "multi (pads " + fmt.Sprint(fams[1].pads) + ")"},
		"cases": len(cases), "cases_done": done, "cases_agree": agree, "block_executions": execs,
		"neighbours": []string{neighbourA, neighbourC},
	}}
}

func vkPick[T any](thorough bool, q, t T) T {
	if thorough {
		return t
	}
	return q
}

func jsonMarshal(v any) ([]byte, error) { return json.Marshal(v) }

var (
	_ = io.NewBufBinWriter
	_ = state.NEP17BalanceFromBytes
)
