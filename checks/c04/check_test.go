// C04: failed execution leaves no trace - transaction atomicity and exception
// rollback (DESIGN.md section 4, C04).
//
// Layer A (intra-execution rollback): every program of the bounded program
// spaces (spaces_test.go) for the universal contract U is executed on the real
// code - all of them in a test invocation (Blockchain.GetTestVM) on the
// prepared chain, and the "block" subset additionally as a transaction in a
// real block - and compared with the reference interpreter (model_test.go):
// VM state, U's op log, notification list, storage of all instances, token
// balances, Policy setting.
//
// Besides the programs of U the same machinery runs hand-assembled entry
// scripts (hasm_test.go, hspaces_test.go: handlers nested in ONE context, calls
// from TRY/CATCH/FINALLY parts and subroutine frames), calls through method
// tokens of a conduit contract (wtoken_test.go) and the families of
// famspaces_test.go (iterator across a rollback, self-destruction, deployment).
// Real blocks are additionally compared with a twin replica on which every
// failed-and-caught callee is a bare THROW (twin_test.go: equal state roots), and
// every batch of test invocations must leave the node it ran on unchanged.
//
// Layer B (transaction atomicity, atomic_test.go): a block containing a
// faulting transaction must leave exactly the state of the twin block in which
// that transaction is a bare ABORT with the same signers and fees; the
// following blocks must agree as well; a halting transaction differs from its
// ABORT twin by exactly the model's effects.
//
// Layer C (natives_test.go): native setter then fault - the natives' caches.
//
// Layer D (alias_*_test.go): data the ledger hands to the VM (storage values in
// every cache state, iterator items, the script container, contract states,
// native results, literals of the executing script) x every VM instruction
// that makes a Buffer or exposes a compound from it x an in-place write x
// {halt, abort, throw, caught throw; entry script or deployed contract}, as a
// test invocation and in real blocks on all three backends, each against a
// twin without the write: in-place writes must never reach the ledger.
//
// Layer E (escape_test.go, escape_world_test.go, x.go.txt; family single-hf-all =
// every hardfork from genesis): a callee's rollback layer exists only if its
// effective call flags contain WriteStates or AllowNotify, so every operation the
// interop table and the natives allow (derived by trying) x 16 flag sets x 10 ways
// the flags reach the callee (Contract.Call flags, manifest-safe method, CALLT
// token flags, entry script, restricted middle contract, ...) is run by a callee
// that then fails and is caught, as a test invocation and in real blocks, against
// the twin whose callee does nothing before failing. hf_test.go repeats the
// hand-assembled and three-level families of layer A on that family, where
// instance C's storage ops are System.Storage.Local.* calls.
package c04

import (
	"fmt"
	"os"
	"strings"
	"sync"
	"testing"
	"time"

	"verif/lib/vk"
)

type caseRec struct {
	Layer   string   `json:"layer"`
	Mode    string   `json:"mode"`              // test | block | atomic
	Prog    string   `json:"prog"`              // minimal failing program (or template name for layer B)
	Orig    string   `json:"orig,omitempty"`    // the enumerated program that failed first
	History []string `json:"history,omitempty"` // block mode: programs executed before on the same replica
	What    []string `json:"what"`
	Detail  []string `json:"detail"`
	Family  string   `json:"family,omitempty"`
	Pos     string   `json:"pos,omitempty"`
}

type checker struct {
	r     *vk.Run
	w     *world
	rigs  chan *rig
	s0    *State
	mu    sync.Mutex
	class map[string]int // violations per (mode, what)

	execs, calls, blocks, harnessErrs vk.Counter
	states                            *vk.Set
	// hand-assembled scripts: what the handlers did (model), over all executions
	hProgs, hCatches, hFinallies, hFinalliesPending, hSwallowed, hHaltUndone, hHalt, hFault vk.Counter
	leakChecks                                                                              vk.Counter // chunks of test invocations after which the node's committed state was compared with the prepared one
	twins                                                                                   vk.Counter // block-mode programs compared with their bare-THROW twin
	twinStates                                                                              *vk.Set    // distinct state roots reached by them
	dcov                                                                                    map[string]any
	ecov                                                                                    map[string]any
	hfcov                                                                                   map[string]any
	gcov                                                                                    map[string]any
	fam                                                                                     string // "" = family single; familyHF for the checker of hf_test.go
	famStats                                                                                []*famStat
}

// famStat: what the model said about the programs of one family (test invocations).
type famStat struct {
	Name                                                  string
	progs, haltUndone, haltRestoredNoop, haltPlain, fault vk.Counter
	states, logs                                          *vk.Set
}

func (fs *famStat) add(m *Result) {
	fs.progs.Inc()
	fs.states.Add(stateSig(m.State))
	fs.logs.Add(m.Log)
	switch {
	case !m.Halt:
		fs.fault.Inc()
	case m.Undone:
		fs.haltUndone.Inc()
	case m.Restores > 0:
		fs.haltRestoredNoop.Inc()
	default:
		fs.haltPlain.Inc()
	}
}

func (fs *famStat) cov() map[string]any {
	return map[string]any{"family": fs.Name, "cases": fs.progs.Get(), "halt_callee_changes_undone": fs.haltUndone.Get(), "halt_callee_failed_nothing_to_undo": fs.haltRestoredNoop.Get(),
		"halt_no_failure": fs.haltPlain.Get(), "fault": fs.fault.Get(), "distinct_final_states": fs.states.Len(), "distinct_op_logs": fs.logs.Len()}
}

const perClassCap = 3

func (c *checker) getRig() (*rig, error) {
	select {
	case rg := <-c.rigs:
		return rg, nil
	default:
		return c.w.newRig()
	}
}

func (c *checker) putRig(rg *rig) {
	select {
	case c.rigs <- rg:
	default:
		rg.close()
	}
}

func (c *checker) drain() {
	for {
		select {
		case rg := <-c.rigs:
			rg.close()
		default:
			return
		}
	}
}

// evalTest runs one program in a test invocation on the pristine prepared
// state and compares it with the model.
func (c *checker) evalTest(rg *rig, prog string) (m *Result, what, detail []string, err error) {
	ops, err := parseProg(prog)
	if err != nil {
		return nil, nil, nil, err
	}
	com := needsCommittee(ops)
	m = c.model(c.s0, ops, com)
	var rr *real
	if e := chainxTry(func() { rr, err = rg.runTest(ops, com) }); e != nil {
		return m, []string{"panic"}, []string{"panic: " + e.Error()}, nil
	}
	if err != nil {
		return nil, nil, nil, err
	}
	what, detail = compare(m, rr)
	what, detail = triage(c.s0, ops, com, rr, what, detail)
	return
}

const classPending = "pending-exception-drops-completed-call"

// triage gives a difference its own class when it is explained completely by
// one known mechanism: a call that completes while an exception is pending (made
// in a FINALLY part entered by an exception) is unloaded like a failed one. The
// difference stays a violation; only its key changes.
func triage(init *State, ops []Op, com bool, rr *real, what, detail []string) ([]string, []string) {
	if len(what) == 0 || !isHand(ops) {
		return what, detail
	}
	if w2, _ := compare(runModelVM(init, ops, com), rr); len(w2) == 0 {
		what = append([]string{classPending}, what...)
		detail = append([]string{classPending + ": the execution equals the model variant in which a call that RETURNS while an exception is pending loses its changes"}, detail...)
	}
	return what, detail
}

// model runs the reference interpreter and, for hand-assembled scripts, counts what the handlers did.
func (c *checker) model(init *State, ops []Op, com bool) *Result {
	if !isHand(ops) {
		return runModel(init, ops, com)
	}
	hs := &hstat{}
	m := runModelStat(init, ops, com, hs)
	c.hProgs.Inc()
	c.hCatches.Add(hs.catches)
	c.hFinallies.Add(hs.finallies)
	c.hFinalliesPending.Add(hs.finalliesPending)
	c.hSwallowed.Add(hs.swallowed)
	switch {
	case !m.Halt:
		c.hFault.Inc()
	case m.Undone:
		c.hHaltUndone.Inc()
	default:
		c.hHalt.Inc()
	}
	return m
}

// evalBlocks runs the programs one per block on a fresh replica, comparing
// each block with the model started from the state before it; it returns the
// index of the first program that differs (-1 if none).
func (c *checker) evalBlocks(progs []string, each func(i int, m *Result)) (idx int, what, detail []string, err error) {
	rg, err := c.w.newRig()
	if err != nil {
		return -1, nil, nil, err
	}
	defer rg.close()
	// the twin replica follows in lockstep: it gets the same transactions, except that
	// callees which fail and are caught are replaced by bare THROWs (twin_test.go)
	tw, err := c.w.newRig()
	if err != nil {
		return -1, nil, nil, err
	}
	defer tw.close()
	for i, p := range progs {
		ops, err := parseProg(p)
		if err != nil {
			return -1, nil, nil, err
		}
		com := needsCommittee(ops)
		init, err := rg.initState()
		if err != nil {
			return -1, nil, nil, err
		}
		m := c.model(init, ops, com)
		var rr *real
		if e := chainxTry(func() { rr, err = rg.runBlock(ops, com) }); e != nil {
			return i, []string{"panic"}, []string{"panic: " + e.Error()}, nil
		}
		if err != nil {
			return -1, nil, nil, err
		}
		c.blocks.Inc()
		if each != nil {
			each(i, m)
		}
		if what, detail = compare(m, rr); len(what) > 0 {
			what, detail = triage(init, ops, com, rr, what, detail)
			return i, what, detail, nil
		}
		twinOps := ops
		if m.Halt && len(m.Thrown) > 0 {
			twinOps = stripThrown(ops, m.Thrown)
			c.twins.Inc()
		}
		if e := chainxTry(func() { err = tw.runTwinBlock(c.w.script(twinOps), rr.tx, com) }); e != nil {
			return i, []string{"twin-panic"}, []string{"panic: " + e.Error()}, nil
		}
		if err != nil {
			return -1, nil, nil, err
		}
		c.blocks.Inc()
		if a, b := rg.stateRoot(), tw.stateRoot(); a != b {
			d := storageDiff(rg, tw, c.w.cw.MaxID+3)
			if m.Halt && len(m.Thrown) > 0 {
				c.twinStates.Add(a)
				return i, []string{"twin-state-root"}, append([]string{fmt.Sprintf("twin-state-root: the program and its twin %s (failed callees replaced by bare THROWs) leave different ledger states", render(twinOps))}, d...), nil
			}
			return -1, nil, nil, fmt.Errorf("the twin replica diverged on an identical transaction (%s): %v", p, d)
		}
		if m.Halt && len(m.Thrown) > 0 {
			c.twinStates.Add(rg.stateRoot())
		}
	}
	return -1, nil, nil, nil
}

func (c *checker) harness(err error) {
	c.harnessErrs.Inc()
	if c.harnessErrs.Get() <= 10 {
		fmt.Println("harness error:", err)
	}
	c.r.Outcome("harness-error")
	c.r.Capped()
}

func chainxTry(f func()) (err error) {
	defer func() {
		if r := recover(); r != nil {
			err = fmt.Errorf("%v", r)
		}
	}()
	f()
	return nil
}

// admit applies the per-class cap so that one root cause does not flood.
func (c *checker) admit(mode string, what []string) bool { return c.admitN(mode, what, perClassCap) }

func (c *checker) admitN(mode string, what []string, n int) bool {
	k := mode + ":" + what[0]
	c.mu.Lock()
	defer c.mu.Unlock()
	c.class[k]++
	return c.class[k] <= n
}

func (c *checker) reportTest(rg *rig, prog string, what, detail []string) {
	c.r.Outcome("A:test:DIFFERS:" + what[0])
	if !c.admit("test", what) {
		return
	}
	min := shrink(prog, func(p string) bool {
		_, w2, _, err := c.evalTest(rg, p)
		return err == nil && len(w2) > 0 && w2[0] == what[0]
	})
	_, w2, d2, _ := c.evalTest(rg, min)
	if len(w2) == 0 {
		min, w2, d2 = prog, what, detail
	}
	c.r.Violation(vkey(c.mode("A-test"), w2[0], min), caseRec{Layer: "A", Mode: "test", Prog: min, Orig: prog, What: w2, Detail: d2, Family: c.fam})
}

func (c *checker) reportBlock(progs []string, idx int, what, detail []string) {
	c.r.Outcome("A:block:DIFFERS:" + what[0])
	if !c.admit("block", what) {
		return
	}
	prog := progs[idx]
	rec := caseRec{Layer: "A", Mode: "block", Prog: prog, Orig: prog, History: progs[:idx], What: what, Detail: detail, Family: c.fam}
	// does it fail on its own (without the history)?
	alone := func(p string) bool {
		i, w2, _, err := c.evalBlocks([]string{p}, nil)
		return err == nil && i == 0 && len(w2) > 0 && w2[0] == what[0]
	}
	if alone(prog) {
		min := shrink(prog, alone)
		if _, w2, d2, _ := c.evalBlocks([]string{min}, nil); len(w2) > 0 {
			rec.Prog, rec.History, rec.What, rec.Detail = min, nil, w2, d2
		}
	}
	c.r.Violation(vkey(c.mode("A-block"), rec.What[0], rec.Prog), rec)
}

// mode: the key prefix of a family other than single names the family.
func (c *checker) mode(m string) string {
	if c.fam != "" {
		return m + "@" + c.fam
	}
	return m
}

// vkey: a triaged class comes first so that one known-finding pattern covers both modes.
func vkey(mode, what, prog string) string {
	if what == classPending {
		return fmt.Sprintf("%s:%s:%s", what, mode, prog)
	}
	return fmt.Sprintf("%s:%s:%s", mode, what, prog)
}

const blockChunk = 24

func TestCheck(t *testing.T) {
	vk.UseT(t)
	if os.Getenv("C04_DEV") != "" {
		t.Skip()
	}
	r := vk.Start("C04", "model_checking", 150*time.Second, 22*time.Minute)
	w, err := buildWorld(false, 0)
	if err != nil {
		fmt.Println("CHECK-ERROR: cannot build the prepared chain:", err)
		os.Exit(3)
	}
	c := &checker{r: r, w: w, rigs: make(chan *rig, 64), class: map[string]int{}, states: vk.NewSet(), twinStates: vk.NewSet()}
	defer c.drain()
	rg0, err := c.getRig()
	if err == nil {
		c.s0, err = rg0.initState()
	}
	if err != nil {
		fmt.Println("CHECK-ERROR: cannot read the prepared state:", err)
		os.Exit(3)
	}
	c.putRig(rg0)
	if r.Replay != "" {
		c.replay()
		return
	}

	if os.Getenv("C04_ONLY") == "ghost" { // development aid: layer F alone (with VERIF_REPO=<scratch worktree>)
		hw, err := buildWorldHF(false, 0, true)
		if err != nil {
			fmt.Println("CHECK-ERROR:", err)
			os.Exit(3)
		}
		gcov, n := c.runGhost(hw)
		r.Finish(map[string]any{"states": gcov["distinct_case_outcomes"], "transitions": n, "traces_validated_against_impl": n, "layerF": gcov}, []string{"development run: layer F only"})
		return
	}

	// ---- layer A ----
	sps := spaces(r.Thorough())
	seen, seenBlk := map[string]bool{}, map[string]bool{}
	var all, blk []string
	var hfTest, hfBlk []string // the spaces repeated on the family single-hf-all (hf_test.go)
	hfSeen, hfSeenBlk := map[string]bool{}, map[string]bool{}
	hfAdd := func(name string, ps []string) {
		t, b := hfPick(name, r.Thorough())
		for _, p := range ps {
			if t && !hfSeen[p] {
				hfSeen[p] = true
				hfTest = append(hfTest, p)
			}
			if b && !hfSeenBlk[p] {
				hfSeenBlk[p] = true
				hfBlk = append(hfBlk, p)
			}
		}
	}
	spaceInfo := []map[string]any{}
	for _, sp := range sps {
		ps := sp.programs()
		hfAdd(sp.Name, ps)
		fresh := 0
		for _, p := range ps {
			if !seen[p] {
				seen[p] = true
				fresh++
				all = append(all, p)
			}
			if sp.Block && !seenBlk[p] {
				seenBlk[p] = true
				blk = append(blk, p)
			}
		}
		spaceInfo = append(spaceInfo, map[string]any{"name": sp.Name, "levels": sp.Levels, "ops_alphabet": sp.NT, "failing_alphabet": sp.TM,
			"max_ops_per_body": sp.B, "max_ops_per_tree": sp.G, "max_failing_ops": sp.F, "all_slots_filled": sp.Full,
			"nested_kinds_level1": sp.Kinds[1], "nested_kinds_level2": sp.Kinds[2], "programs": len(ps), "new_programs": fresh, "also_in_real_blocks": sp.Block})
		fmt.Printf("space %s: %d programs (%d new)\n", sp.Name, len(ps), fresh)
	}
	// per-family statistics of the newer families (first family a program belongs to)
	famOf := map[string]*famStat{}
	var famStats []*famStat
	newFam := func(name string) *famStat {
		fs := &famStat{Name: name, states: vk.NewSet(), logs: vk.NewSet()}
		famStats = append(famStats, fs)
		return fs
	}
	// hand-assembled entry scripts: handlers nested in one context
	hInfo := []map[string]any{}
	for _, hs := range hspaces(r.Thorough(), c.s0) {
		fresh := 0
		hfAdd(hs.Name, hs.Progs)
		fs := newFam(hs.Name)
		for _, p := range hs.Progs {
			if !seen[p] {
				seen[p] = true
				fresh++
				all = append(all, p)
				famOf[p] = fs
			}
			if hs.Block && !seenBlk[p] {
				seenBlk[p] = true
				blk = append(blk, p)
			}
		}
		hs.Info["name"], hs.Info["new_programs"] = hs.Name, fresh
		hInfo = append(hInfo, hs.Info)
		fmt.Printf("space %s: %d programs (%d new)\n", hs.Name, len(hs.Progs), fresh)
	}
	// hand-enumerated families (iterators across rollback, self-destruction, deployment)
	var solo []string
	for _, fm := range families(c.s0) {
		fresh := 0
		hfAdd(fm.Name, fm.Progs)
		fs := newFam(fm.Name)
		for _, p := range fm.Progs {
			if !seen[p] {
				seen[p] = true
				fresh++
				all = append(all, p)
				famOf[p] = fs
			}
			if !seenBlk[p] {
				seenBlk[p] = true
				if fm.Solo {
					solo = append(solo, p)
				} else {
					blk = append(blk, p)
				}
			}
		}
		fm.Info["name"], fm.Info["programs"], fm.Info["new_programs"], fm.Info["also_in_real_blocks"] = fm.Name, len(fm.Progs), fresh, true
		hInfo = append(hInfo, fm.Info)
		fmt.Printf("space %s: %d programs (%d new)\n", fm.Name, len(fm.Progs), fresh)
	}
	seen, seenBlk, hfSeen, hfSeenBlk = nil, nil, nil, nil
	sortProgs(all)
	sortProgs(blk)

	var undone, restoredNoop, faulted, plain vk.Counter
	s0sig := stateSig(c.s0)
	const chunk = 256
	nch := (len(all) + chunk - 1) / chunk
	r.Parallel(nch, func(ci int) {
		rg, err := c.getRig()
		if err != nil {
			c.harness(err)
			return
		}
		leaked := false
		defer func() {
			// test invocations must not leave anything in the node they ran on: the committed
			// state (read through the node's own DAO and native caches) is still the prepared one
			st, err := rg.initState()
			if err != nil {
				// the node's getters (native caches) disagree with its storage
				ps := all[ci*chunk : min(len(all), (ci+1)*chunk)]
				r.Outcome("A:test:node-state-changed")
				if c.admit("test", []string{"test-invocations-changed-the-node"}) {
					r.Violation(fmt.Sprintf("A-test:test-invocations-changed-the-node:%s..%s", ps[0], ps[len(ps)-1]), caseRec{Layer: "A", Mode: "test-chunk", Prog: ps[0], History: ps,
						What: []string{"test-invocations-changed-the-node"}, Detail: []string{err.Error()}})
				}
				rg.close()
				return
			}
			if stateSig(st) != s0sig && !leaked {
				ps := all[ci*chunk : min(len(all), (ci+1)*chunk)]
				r.Outcome("A:test:node-state-changed")
				if c.admit("test", []string{"test-invocations-changed-the-node"}) {
					r.Violation(fmt.Sprintf("A-test:test-invocations-changed-the-node:%s..%s", ps[0], ps[len(ps)-1]), caseRec{Layer: "A", Mode: "test-chunk", Prog: ps[0], History: ps,
						What: []string{"test-invocations-changed-the-node"}, Detail: []string{"before: " + s0sig, "after: " + stateSig(st)}})
				}
			}
			if stateSig(st) != s0sig {
				rg.close() // do not reuse a replica whose state changed
				return
			}
			c.leakChecks.Inc()
			c.putRig(rg)
		}()
		for _, p := range all[ci*chunk : min(len(all), (ci+1)*chunk)] {
			if r.TooMany() {
				return
			}
			m, what, detail, err := c.evalTest(rg, p)
			if err != nil {
				c.harness(err)
				return
			}
			c.execs.Inc()
			c.calls.Add(m.Calls + 1)
			c.states.Add(stateSig(m.State))
			if fs := famOf[p]; fs != nil {
				fs.add(m)
			}
			switch {
			case !m.Halt:
				faulted.Inc()
			case m.Undone:
				undone.Inc()
			case m.Restores > 0:
				restoredNoop.Inc()
			default:
				plain.Inc()
			}
			if len(what) > 0 {
				c.reportTest(rg, p, what, detail)
				if st, err := rg.initState(); err == nil && stateSig(st) != s0sig {
					leaked = true
				}
			} else if m.Undone && m.Halt {
				r.Sample(map[string]any{"layer": "A", "mode": "test", "prog": p, "log": m.Log, "notifications": m.State.Notes, "storage": m.State.storLines()})
			}
		}
	})
	fmt.Printf("layer A test invocations: %d programs, %.1fs\n", c.execs.Get(), r.Elapsed())

	// ---- layer B ---- (before the real-block part of layer A so that a deadline never cuts it)
	bstat := runAtomic(c)

	// ---- layer C: native setter then fault (native caches) ----
	ccov, cexecs := c.runNatives()

	// ---- layer D: node-owned data handed to the VM and written in place (alias_*_test.go) ----
	dcov, dexecs := c.runAlias()
	c.dcov = dcov
	cexecs += dexecs

	// ---- layer E: state changes escaping a rollback layer that is conditional on call flags (escape_test.go),
	// on the family single-hf-all; the older families once more on that family (hf_test.go) ----
	ecov := map[string]any{}
	if hw, err := buildWorldHF(false, 0, true); err != nil {
		c.harness(fmt.Errorf("family %s: %w", familyHF, err))
	} else {
		var eexecs, hexecs int
		ecov, eexecs = c.runEscape(hw)
		c.hfcov, hexecs = c.runHF(hw, hfTest, hfBlk)
		// ---- layer F: a ContractManagement operation inside a discarded call, the contract used again
		// in the same transaction (ghost_test.go) ----
		var gexecs int
		c.gcov, gexecs = c.runGhost(hw)
		cexecs += eexecs + hexecs + gexecs
	}
	c.ecov = ecov

	// ---- layer A, multi-transaction blocks (one VM is reused within a block) ----
	nMulti := c.runMulti()
	fmt.Printf("layer A multi-transaction blocks: %d blocks, %.1fs\n", nMulti, r.Elapsed())

	// ---- layer A, real blocks ----
	var bUndone, bFault, bHalt vk.Counter
	nbc := (len(blk) + blockChunk - 1) / blockChunk
	r.Parallel(nbc+len(solo), func(ci int) {
		var ps []string
		if ci < len(solo) {
			ps = solo[ci : ci+1] // may destroy an instance: a replica pair of its own
		} else {
			ci -= len(solo)
			ps = blk[ci*blockChunk : min(len(blk), (ci+1)*blockChunk)]
		}
		for len(ps) > 0 && !r.TooMany() {
			n := c.blockChunk(ps, &bUndone, &bFault, &bHalt)
			if n < 0 {
				break
			}
			ps = ps[n+1:] // the programs after a differing one run on a fresh replica
		}
	})
	fmt.Printf("layer A real blocks: %d programs, %.1fs\n", bUndone.Get()+bFault.Get()+bHalt.Get(), r.Elapsed())
	c.famStats = famStats
	c.finish(r, all, blk, len(solo), spaceInfo, hInfo, bstat, ccov, cexecs, map[string]*vk.Counter{"A:test:HALT:callee-changes-undone": &undone, "A:test:HALT:callee-failed-nothing-to-undo": &restoredNoop,
		"A:test:HALT:no-failure": &plain, "A:test:FAULT": &faulted, "A:block:HALT:callee-changes-undone": &bUndone, "A:block:FAULT": &bFault, "A:block:HALT:other": &bHalt})
}

// blockChunk runs ps one per block on a fresh replica pair; it returns the index of the
// first program that differs (reported), or -1.
func (c *checker) blockChunk(ps []string, bUndone, bFault, bHalt *vk.Counter) int {
	{
		idx, what, detail, err := c.evalBlocks(ps, func(i int, m *Result) {
			c.execs.Inc()
			c.calls.Add(m.Calls + 1)
			c.states.Add(stateSig(m.State))
			switch {
			case !m.Halt:
				bFault.Inc()
			case m.Undone:
				bUndone.Inc()
			default:
				bHalt.Inc()
			}
		})
		if err != nil {
			c.harness(err)
			return -1
		}
		if idx >= 0 {
			c.reportBlock(ps, idx, what, detail)
		}
		return idx
	}
}

func (c *checker) finish(r *vk.Run, all, blk []string, nsolo int, spaceInfo, hInfo []map[string]any, bstat atomicStat, ccov map[string]any, cexecs int, outcomes map[string]*vk.Counter) {
	undone, restoredNoop, plain, faulted := outcomes["A:test:HALT:callee-changes-undone"], outcomes["A:test:HALT:callee-failed-nothing-to-undo"], outcomes["A:test:HALT:no-failure"], outcomes["A:test:FAULT"]
	bUndone, bFault, bHalt := outcomes["A:block:HALT:callee-changes-undone"], outcomes["A:block:FAULT"], outcomes["A:block:HALT:other"]
	for k, v := range outcomes {
		if v.Get() > 0 {
			r.Outcome(k)
		}
	}
	if n := c.harnessErrs.Get(); n > 0 && r.NViolations() == 0 {
		fmt.Printf("CHECK-ERROR: %d harness errors (see above)\n", n)
		os.Exit(3)
	}
	var famCov []map[string]any
	for _, fs := range c.famStats {
		famCov = append(famCov, fs.cov())
		for k, v := range map[string]int64{"HALT:callee-changes-undone": fs.haltUndone.Get(), "HALT:no-failure": fs.haltPlain.Get(), "FAULT": fs.fault.Get()} {
			if v > 0 {
				r.Outcome("A:test:" + fs.Name + ":" + k)
			}
		}
	}
	cov := map[string]any{
		"states":                         c.states.Len(),
		"transitions":                    int(c.calls.Get()),
		"traces_validated_against_impl":  int(c.execs.Get()) + bstat.execs + cexecs,
		"layerA_programs":                len(all),
		"layerA_programs_in_real_blocks": len(blk) + nsolo,
		"layerA_spaces":                  spaceInfo,
		"layerA_handler_script_spaces":   hInfo,
		"layerA_handler_script_model_counts": map[string]int64{"executions": c.hProgs.Get(), "catch_parts_entered": c.hCatches.Get(), "finally_parts_entered": c.hFinallies.Get(),
			"finally_parts_entered_with_pending_exception": c.hFinalliesPending.Get(), "pending_exception_lost_in_finally_fault": c.hSwallowed.Get(),
			"halt_with_callee_changes_undone": c.hHaltUndone.Get(), "halt_other": c.hHalt.Get(), "fault": c.hFault.Get()},
		"layerA_test_outcomes": map[string]int64{"halt_callee_changes_undone": undone.Get(), "halt_callee_failed_nothing_to_undo": restoredNoop.Get(),
			"halt_no_failure": plain.Get(), "fault": faulted.Get()},
		"layerA_block_outcomes":              map[string]int64{"halt_callee_changes_undone": bUndone.Get(), "fault": bFault.Get(), "halt_other": bHalt.Get()},
		"layerA_new_families":                famCov,
		"layerA_test_invocation_leak_checks": c.leakChecks.Get(),
		"layerA_block_twin_differential": map[string]any{"programs_with_caught_failures_compared_with_bare_throw_twin": c.twins.Get(), "distinct_state_roots": c.twinStates.Len(),
			"compared": "state root (storage of all contracts and natives) after the block; identical signers, fees, nonce"},
		"layerB":                                        bstat.cov,
		"layerC_native_setter_then_fault":               ccov,
		"layerD_ledger_data_written_in_place":           c.dcov,
		"layerE_escape_from_conditional_rollback_layer": c.ecov,
		"layerE_operations":                             c.ecov["operations"],
		"layerE_cases":                                  c.ecov["cases"],
		"layerE_distinct_outcome_classes":               c.ecov["distinct_outcome_classes"],
		"layerE_blocks":                                 c.ecov["blocks"],
		"layerF_ghost_contract_used_after_discarded_management_operation": c.gcov,
		"layerF_cases":                             c.gcov["cases"],
		"layerF_blocks":                            c.gcov["blocks"],
		"layerF_distinct_case_outcomes":            c.gcov["distinct_case_outcomes"],
		"layerF_distinct_results_of_halting_cases": c.gcov["distinct_results_of_halting_cases"],
		"layerF_uses_that_see_the_kept_operation":  c.gcov["uses_that_see_the_kept_operation"],
		"layerA_hf_all_programs_test_invocations":  c.hfcov["programs_test_invocations"],
		"layerA_hf_all_programs_in_real_blocks":    c.hfcov["programs_in_real_blocks"],
		"layerA_hf_all_distinct_final_states":      c.hfcov["distinct_final_states"],
		"layerA_on_family_single_hf_all":           c.hfcov,
		"rule": "states = distinct final model states; transitions = contract calls (entry, RUN, native, payment callback) executed by the model; " +
			"every program is executed on the real code and compared in VM state, op log, notifications, storage of all instances, GAS/NEO balances, Policy fee",
	}
	r.Finish(cov, []string{
		"the reference interpreter follows the property text: every call remembers the state at its entry and a callee that fails with an exception is undone completely; the implementation's 'only if the caller has an active TRY' optimisation is what is being checked",
		"taken from the code, not from the property: only THROW is catchable (ABORT, failing native calls, missing call flags fault); an exception crossing a native frame (onNEP17Payment callback) faults; NEP-17 transfer semantics; GAS bonus of a NEO transfer is read from NEO.unclaimedGas before the block",
		"AppExecResult.Events of a FAULTed transaction are not part of the oracle (the node keeps them in the execution log but does not dispatch them; see report)",
		"U's TRY is Go defer/recover (a handler runs after the TRY block ended); calls made from inside TRY, CATCH and FINALLY parts of handlers nested in one context are driven by hand-assembled entry scripts (H programs)",
		"taken from the VM (not from the property), for hand-assembled scripts: the VM keeps ONE pending exception (THROW sets it, entering a CATCH part clears it, every ENDFINALLY - also of a callee - rethrows while it is set); a FINALLY part entered by an exception whose pending exception is cleared inside it faults at ENDFINALLY (no end offset)",
		"open finding pending-exception-drops-completed-call: differences that are completely explained by the model variant 'a call that RETURNS while an exception is pending loses its changes' are reported under that key prefix (listed in KNOWN_FINDINGS.txt); the reference interpreter itself keeps such calls, as the property text demands",
		"iterator programs in which a change of the iterated storage survives until the iterator is consumed are not generated: what an open iterator yields after a committed write is not part of the property",
		"twin differential: a program and its twin (failed callees replaced by bare THROWs, same signers/fees/nonce) must reach the same state root; identical transactions on the two replicas must do so too",
		"layer D: a Buffer or compound item the VM made from data the ledger handed out (CONVERT, RIGHT, LEFT, SUBSTR, CAT, NEWBUFFER+MEMCPY; items returned by interops and natives) is private to the execution: writing it in place is not a storage change, so the case and its twin (same script length, fees, signers, nonce; mutation left out) must be indistinguishable for the ledger - after a fault, a caught throw and a HALT alike (only Storage.Put writes)",
		"layer D, taken from the VM: a mutation the VM itself refuses (read-only notification state, wrong item type, empty array) faults like ABORT; its twin aborts at the same place",
		"layer E (family single-hf-all: every hardfork from genesis; instance C = x.go.txt with System.Storage.Local.* as its storage ops): a callee that runs an operation and then fails, caught by a caller, must leave exactly what its twin leaves in which the callee does nothing before failing (ABORTs where the operation itself is refused) - for each of the 16 call flag sets and every way the flags reach the callee; which operations are allowed under which flag set is derived by trying and reported (`allowed`/`changes-state` masks), it is not part of the oracle",
		"layer E, left out: a script started by System.Runtime.LoadScript that throws and is caught by the contract that loaded it gets no rollback layer at all (its flags are masked to ReadOnly, so on this tree it cannot change state); whether the property's 'called contract' includes such a script is not stated, so the completed-callee control runs of the loadscript operations are counted but not judged",
		"layer A on single-hf-all: same reference interpreter; the only modelled difference is none (Local.Put/Delete/Get/Find of instance C are modelled as Put/Delete/Get/Find on its own storage, which is what the interop documentation promises)",
		"layer F (ghost_test.go, family single-hf-all): a transaction in which a call that deploys / updates / destroys a contract is discarded (the exception is caught by a caller) and the contract is used again afterwards must be indistinguishable from its twin in which the discarded call does nothing before it fails - VM state, result, notifications, storage of all contracts and natives, state root, and the result of the following transaction of the same block; cases whose discarded part cannot complete on its own are dropped (counted); taken from the code: a call of an unknown contract / missing method / disallowed call is an uncatchable fault (the twin faults alike)",
		"layer D does not compare values that contain transaction or block hashes across the two replicas (the scripts differ in one operand, so the hashes do); those sources are checked within one execution (second read equals the snapshot taken before the mutation) and through the ledger state",
	})
}

var _ = strings.Join
