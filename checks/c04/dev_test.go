package c04

import (
	"fmt"
	"os"
	"testing"
)

func TestDevCount(t *testing.T) {
	if os.Getenv("C04_DEV") != "count" {
		t.Skip()
	}
	for _, sp := range spaces(os.Getenv("C04_T") != "") {
		ps := sp.programs()
		fmt.Println(sp.Name, len(ps))
		for i := 0; i < len(ps); i += len(ps)/8 + 1 {
			fmt.Println("   ", ps[i])
			if _, err := parseProg(ps[i]); err != nil {
				t.Fatal(err)
			}
		}
	}
}

func TestDevProbe(t *testing.T) {
	if os.Getenv("C04_DEV") != "probe" {
		t.Skip()
	}
	w, err := buildWorld(false, 0)
	if err != nil {
		t.Fatal(err)
	}
	progs := []string{
		"A[]", "A[E]", "A[EPDX]", "A[ET{EBf[E!]E}{E}E]", "A[T{Bf[ECf[E]!]}{}]", "A[Bf[E!]]", "A[E#]", "A[E~]",
		"A[$gB[E]]", "A[T{$gB[E!]}{E}]", "A[$sB[EX]]", "A[$nB[E]X]", "A[F]", "A[T{Bf[F!]}{}]", "A[Bd[E]]", "A[B7[E]]", "A[B5[P]]", "A[Bd[X]]",
		"A[T{Bd[T{Cf[E!]}{E}!]}{E}]", "A[T{Af[E!]}{}]", "A[T{!}{Bf[E]}E]", "A[K]", "A[KT{Bf[U!]}{}]", "A[U]", "A[T{Bf[Y!]}{}]", "A[Y]", "A[Y]", "A[T{Bd[N!]}{}]",
	}
	if p := os.Getenv("C04_PROG"); p != "" {
		progs = []string{p}
	}
	rg, err := w.newRig()
	if err != nil {
		t.Fatal(err)
	}
	defer rg.close()
	for _, p := range progs {
		ops := mustParse(p)
		com := needsCommittee(ops)
		init, err := rg.initState()
		if err != nil {
			t.Fatal(err)
		}
		m := runModel(init, ops, com)
		rt, err := rg.runTest(ops, com)
		if err != nil {
			t.Fatal(err)
		}
		rb, err := rg.runBlock(ops, com)
		if err != nil {
			t.Fatal(err)
		}
		w1, d1 := compare(m, rt)
		w2, d2 := compare(m, rb)
		fmt.Println(p, "halt", m.Halt, "log", m.Log, "notes", m.State.Notes, "restores", m.Restores, m.Undone)
		if !rb.Halt {
			fmt.Println("    fault:", rb.Fault, "notes", rb.Notes)
		}
		if len(w1) > 0 {
			fmt.Println("   TEST DIFF", d1)
		}
		if len(w2) > 0 {
			fmt.Println("   BLOCK DIFF", d2)
		}
	}
}
