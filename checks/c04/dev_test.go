package c04

import (
	"fmt"
	"os"
	"sort"
	"strings"
	"sync"
	"testing"
	"time"
)

func TestDevCount(t *testing.T) {
	if os.Getenv("C04_DEV") != "count" {
		t.Skip()
	}
	for _, sp := range spaces(os.Getenv("C04_T") != "") {
		ps := sp.programs()
		fmt.Println(sp.Name, len(ps))
		for i := 0; i < len(ps); i += len(ps)/8 + 1 {
			fmt.Println("   ", ps[i])
			if _, err := parseProg(ps[i]); err != nil {
				t.Fatal(err)
			}
		}
	}
}

func TestDevHCount(t *testing.T) {
	if os.Getenv("C04_DEV") != "hcount" {
		t.Skip()
	}
	w, err := buildWorld(false, 0)
	if err != nil {
		t.Fatal(err)
	}
	rg, err := w.newRig()
	if err != nil {
		t.Fatal(err)
	}
	defer rg.close()
	s0, err := rg.initState()
	if err != nil {
		t.Fatal(err)
	}
	t0 := time.Now()
	for _, hs := range hspaces(os.Getenv("C04_T") != "", s0) {
		fmt.Println(hs.Name, len(hs.Progs), hs.Info, time.Since(t0))
		for i := 0; i < len(hs.Progs); i += len(hs.Progs)/10 + 1 {
			fmt.Println("   ", hs.Progs[i])
		}
	}
}

func TestDevProbe(t *testing.T) {
	if os.Getenv("C04_DEV") != "probe" {
		t.Skip()
	}
	w, err := buildWorld(false, 0)
	if err != nil {
		t.Fatal(err)
	}
	progs := []string{
		"A[]", "A[E]", "A[EPDX]", "A[ET{EBf[E!]E}{E}E]", "A[T{Bf[ECf[E]!]}{}]", "A[Bf[E!]]", "A[E#]", "A[E~]",
		"A[$gB[E]]", "A[T{$gB[E!]}{E}]", "A[$sB[EX]]", "A[$nB[E]X]", "A[F]", "A[T{Bf[F!]}{}]", "A[Bd[E]]", "A[B7[E]]", "A[B5[P]]", "A[Bd[X]]",
		"A[T{Bd[T{Cf[E!]}{E}!]}{E}]", "A[T{Af[E!]}{}]", "A[T{!}{Bf[E]}E]", "A[K]", "A[KT{Bf[U!]}{}]", "A[U]", "A[T{Bf[Y!]}{}]", "A[Y]", "A[Y]", "A[T{Bd[N!]}{}]",
	}
	if p := os.Getenv("C04_PROG"); p != "" {
		progs = strings.Fields(p)
	}
	rg, err := w.newRig()
	if err != nil {
		t.Fatal(err)
	}
	defer rg.close()
	for _, p := range progs {
		ops := mustParse(p)
		com := needsCommittee(ops)
		init, err := rg.initState()
		if err != nil {
			t.Fatal(err)
		}
		m := runModel(init, ops, com)
		rt, err := rg.runTest(ops, com)
		if err != nil {
			t.Fatal(err)
		}
		rb, err := rg.runBlock(ops, com)
		if err != nil {
			t.Fatal(err)
		}
		w1, d1 := compare(m, rt)
		w2, d2 := compare(m, rb)
		w1, d1 = triage(init, ops, com, rt, w1, d1)
		w2, d2 = triage(init, ops, com, rb, w2, d2)
		fmt.Println(p, "halt", m.Halt, "log", m.Log, "notes", m.State.Notes, "restores", m.Restores, m.Undone)
		if !rb.Halt {
			fmt.Println("    fault:", rb.Fault, "notes", rb.Notes)
		}
		if len(w1) > 0 {
			fmt.Println("   TEST DIFF", d1)
		}
		if len(w2) > 0 {
			fmt.Println("   BLOCK DIFF", d2)
		}
	}
}

func TestDevNatives(t *testing.T) {
	if os.Getenv("C04_DEV") != "natives" {
		t.Skip()
	}
	w, err := buildWorld(false, 0)
	if err != nil {
		t.Fatal(err)
	}
	rg, err := w.newRig()
	if err != nil {
		t.Fatal(err)
	}
	defer rg.close()
	fmt.Println("hardforks:", rg.n.BC.GetConfig().Hardforks)
	for _, c := range rg.n.BC.GetNatives() {
		cs := rg.n.BC.GetContractState(c.Hash)
		if cs == nil {
			fmt.Println(c.Manifest.Name, "NOT ACTIVE")
			continue
		}
		for _, m := range cs.Manifest.ABI.Methods {
			if !m.Safe {
				var ps []string
				for _, p := range m.Parameters {
					ps = append(ps, p.Name+":"+p.Type.String())
				}
				fmt.Printf("%s.%s(%v) %s\n", cs.Manifest.Name, m.Name, ps, m.ReturnType)
			}
		}
	}
}

func TestDevNativeCases(t *testing.T) {
	if os.Getenv("C04_DEV") != "ncases" {
		t.Skip()
	}
	w, err := buildWorld(false, 0)
	if err != nil {
		t.Fatal(err)
	}
	c := &checker{w: w, rigs: make(chan *rig, 64), class: map[string]int{}}
	rg, _ := c.getRig()
	if err := c.checkSpecTable(rg); err != nil {
		fmt.Println("TABLE:", err)
	}
	c.putRig(rg)
	cases, na := nativeCases()
	fmt.Println(len(cases), "cases; n/a:", na)
	filter := os.Getenv("C04_CASE")
	type res struct {
		name string
		out  string
	}
	ch := make(chan res, len(cases))
	sem := make(chan struct{}, 16)
	n := 0
	for _, cs := range cases {
		if filter != "" && !strings.Contains(cs.name(), filter) {
			continue
		}
		n++
		cs := cs
		go func() {
			sem <- struct{}{}
			defer func() { <-sem }()
			nr := &nrun{c: c}
			var what, detail []string
			var err error
			if p := chainxTry(func() { what, detail, err = nr.run(cs) }); p != nil {
				err = p
			}
			o := "ok"
			if err != nil {
				o = "HARNESS " + err.Error()
			} else if len(what) > 0 {
				o = fmt.Sprint("DIFF ", what, detail)
			} else if nr.noEffect {
				o = "ok (setter alone: no observable effect)"
			}
			ch <- res{cs.name(), o}
		}()
	}
	for i := 0; i < n; i++ {
		r := <-ch
		if r.out != "ok" {
			fmt.Printf("%s: %.600s\n", r.name, r.out)
		}
	}
}

func TestDevAlias(t *testing.T) {
	if os.Getenv("C04_DEV") != "alias" {
		t.Skip()
	}
	w, err := buildWorld(false, 0)
	if err != nil {
		t.Fatal(err)
	}
	t0 := time.Now()
	aw, err := buildAliasWorld(w)
	if err != nil {
		t.Fatal(err)
	}
	fmt.Println("alias world:", time.Since(t0), "Q script", len(aw.qc.NEF.Script), "leaves", len(aw.leaves), "NA", aw.srcNA)
	for _, l := range aw.leaves {
		fmt.Println("   ", l.Name(), string(rune(l.Only)))
	}
	jobs, info := aw.jobs(os.Getenv("C04_T") != "")
	b, _ := jsonMarshal(info)
	fmt.Println(string(b))
	fmt.Println("jobs", len(jobs))
	st := newAStats()
	lim := len(jobs)
	if v := os.Getenv("C04_N"); v != "" {
		fmt.Sscan(v, &lim)
	}
	step := len(jobs)/lim + 1
	for i := 0; i < len(jobs); i += step {
		j := jobs[i]
		t1 := time.Now()
		fails, err := aw.runChunk(j.backend, j.cases, j.modes, st)
		fmt.Println("chunk", i, j.backend, j.modes, len(j.cases), j.cases[0].Name(), time.Since(t1), "fails", len(fails), err)
		for k, f := range fails {
			if k < 5 {
				name := ""
				if f.Case != nil {
					name = f.Case.Name()
				}
				fmt.Println("   FAIL", f.Mode, f.What, name, f.Detail)
			}
		}
	}
	fmt.Println("pairs", st.testPairs.Get(), "halted", st.halted.Get(), "faulted", st.faulted.Get(), "refused", st.refused.Get(), "blocktx", st.blockTxs.Get())
}

func TestDevHFNatives(t *testing.T) {
	if os.Getenv("C04_DEV") != "hfnatives" {
		t.Skip()
	}
	w, err := buildWorldHF(false, 0, true)
	if err != nil {
		t.Fatal(err)
	}
	rg, err := w.newRig()
	if err != nil {
		t.Fatal(err)
	}
	defer rg.close()
	fmt.Println("hardforks:", rg.n.BC.GetConfig().Hardforks)
	for _, c := range rg.n.BC.GetNatives() {
		cs := rg.n.BC.GetContractState(c.Hash)
		if cs == nil {
			fmt.Println(c.Manifest.Name, "NOT ACTIVE")
			continue
		}
		for _, m := range cs.Manifest.ABI.Methods {
			if !m.Safe {
				var ps []string
				for _, p := range m.Parameters {
					ps = append(ps, p.Name+":"+p.Type.String())
				}
				fmt.Printf("%s.%s(%v) %s\n", cs.Manifest.Name, m.Name, ps, m.ReturnType)
			}
		}
	}
	c := &checker{w: w, rigs: make(chan *rig, 64), class: map[string]int{}}
	if err := c.checkSpecTable(rg); err != nil {
		fmt.Println("TABLE:", err)
	}
}

func TestDevEscape(t *testing.T) {
	if os.Getenv("C04_DEV") != "escape" {
		t.Skip()
	}
	hw, err := buildWorldHF(false, 0, true)
	if err != nil {
		t.Fatal(err)
	}
	ew, err := buildEscapeWorld(hw)
	if err != nil {
		t.Fatal(err)
	}
	st := newEStats()
	filter := os.Getenv("C04_CASE")
	ops := eops()
	rops, na, its, err := ew.nativeReadOps()
	fmt.Println("safe native methods:", len(rops), "without halting args:", na, "iterators left out:", its, err)
	ops = append(ops, rops...)
	var wg sync.WaitGroup
	var mu sync.Mutex
	sem := make(chan struct{}, 8)
	t0 := time.Now()
	for i := range ops {
		o := &ops[i]
		if filter != "" && !strings.Contains(o.Name, filter) {
			continue
		}
		wg.Add(1)
		go func() {
			defer wg.Done()
			sem <- struct{}{}
			defer func() { <-sem }()
			t1 := time.Now()
			var fails []efail
			var err error
			if os.Getenv("C04_PANIC") != "" {
				fails, err = ew.runOp(o, ePathsOf(false), "tb", st, func() bool { return false })
			} else if p := chainxTry(func() { fails, err = ew.runOp(o, ePathsOf(false), "tb", st, func() bool { return false }) }); p != nil {
				err = p
			}
			mu.Lock()
			defer mu.Unlock()
			fmt.Printf("%-40s allowed=%04x effect=%04x fails=%d err=%v %v\n", o.Name, st.allowed[o.Name], st.effect[o.Name], len(fails), err, time.Since(t1))
			for k, f := range fails {
				if k < 4 {
					fmt.Printf("    FAIL %s %s %s %.400s\n", f.Mode, f.What, f.Case.name(), fmt.Sprint(f.Detail))
				}
			}
		}()
	}
	for i := range isrcs() {
		src := isrcs()[i]
		if filter != "" && !strings.Contains("iter-around:"+src.Name, filter) {
			continue
		}
		wg.Add(1)
		go func() {
			defer wg.Done()
			sem <- struct{}{}
			defer func() { <-sem }()
			is := &istats{yields: map[string]bool{}}
			fails, err := ew.runIterAround(&src, st, is, func() bool { return false })
			if err == nil {
				var f2 []efail
				f2, err = ew.runIterReturned(&src, st, is)
				fails = append(fails, f2...)
			}
			mu.Lock()
			defer mu.Unlock()
			fmt.Printf("iter-around:%-40s cases=%d caught=%d fault=%d snapshots=%d returned=%d/%d visibleLater=%d blocks=%d contents=%d fails=%d err=%v\n", src.Name, is.cases, is.caughtHalt, is.caughtFault, is.snapshots, is.returnedLayered, is.returned, is.changeVisibleLater, is.blocks, len(is.yields), len(fails), err)
			for k, f := range fails {
				if k < 4 {
					fmt.Printf("    FAIL %s %s %s %.400s\n", f.Mode, f.What, f.Case.name(), fmt.Sprint(f.Detail))
				}
			}
			if os.Getenv("C04_VERBOSE") != "" {
				for y := range is.yields {
					fmt.Printf("    yields %.300s\n", y)
				}
			}
		}()
	}
	wg.Wait()
	fmt.Println("cases", st.cases.Get(), "testHalt", st.testHalt.Get(), "testFault", st.testFault.Get(), "blockHalt", st.blockHalt.Get(), "blockFault", st.blockFault.Get(),
		"blocks", st.blocks.Get(), "execs", st.execs.Get(), "outcomes", len(st.outcomes), time.Since(t0))
}

// TestDevGhost: layer F alone (C04_DEV=ghost [C04_CASE=<substr of kind:shape>] [C04_VERBOSE=1] [C04_THOROUGH=1]).
func TestDevGhost(t *testing.T) {
	if os.Getenv("C04_DEV") != "ghost" {
		t.Skip()
	}
	hw, err := buildWorldHF(false, 0, true)
	if err != nil {
		t.Fatal(err)
	}
	ew, err := buildEscapeWorld(hw)
	if err != nil {
		t.Fatal(err)
	}
	g, err := buildGhostWorld(ew)
	if err != nil {
		t.Fatal(err)
	}
	st := newGStats()
	filter := os.Getenv("C04_CASE")
	kinds := gkinds()
	pl := gPlan(os.Getenv("C04_THOROUGH") != "")
	var wg sync.WaitGroup
	var mu sync.Mutex
	sem := make(chan struct{}, 8)
	t0 := time.Now()
	for i := 0; i < len(kinds)*len(gShapes); i++ {
		k, shape := &kinds[i/len(gShapes)], i%len(gShapes)
		name := k.Name + ":" + gShapes[shape]
		if filter != "" && !strings.Contains(name, filter) {
			continue
		}
		wg.Add(1)
		go func() {
			defer wg.Done()
			sem <- struct{}{}
			defer func() { <-sem }()
			t1 := time.Now()
			var fails []gfail
			var err error
			if p := chainxTry(func() { fails, err = g.runGroup(k, shape, pl, st, func() bool { return false }) }); p != nil {
				err = p
			}
			mu.Lock()
			defer mu.Unlock()
			fmt.Printf("%-40s fails=%d err=%v %v\n", name, len(fails), err, time.Since(t1))
			for k, f := range fails {
				if k < 6 {
					fmt.Printf("    FAIL %s %s %s %.700s\n", f.Mode, f.What, f.Case.name(), fmt.Sprint(f.Detail))
				}
			}
		}()
	}
	wg.Wait()
	fmt.Println("cases", st.cases.Get(), "dropped", st.dropped.Get(), "testHalt", st.testHalt.Get(), "testFault", st.testFault.Get(), "blockHalt", st.blockHalt.Get(), "blockFault", st.blockFault.Get(),
		"followHalt", st.followHalt.Get(), "followFault", st.followFault.Get(), "blocks", st.blocks.Get(), "execs", st.execs.Get(), "outcomes", len(st.outcomes), "results", st.results.Len(), "pairs", st.pairs.Get(), time.Since(t0))
	var ks []string
	for k := range st.sees {
		ks = append(ks, k)
	}
	sort.Strings(ks)
	fmt.Println("sees:", ks)
	ks = nil
	for k := range st.insideSees {
		ks = append(ks, k)
	}
	sort.Strings(ks)
	fmt.Println("inside executable:", ks)
	if os.Getenv("C04_VERBOSE") != "" {
		ks = nil
		for k := range st.outcomes {
			ks = append(ks, k)
		}
		sort.Strings(ks)
		for _, k := range ks {
			fmt.Println("  ", k)
		}
	}
}
