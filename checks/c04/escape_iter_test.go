package c04

// Layer E, sub-family "iter-around": an iterator is OPEN while a callee changes
// the iterated state.
//
// Instance C (x.go.txt op 26) opens an iterator - System.Storage.Local.Find, Find
// through a writable / read-only context over its own storage, or one of the
// natives' iterators (ContractManagement.getContractHashes, NEO.getAllCandidates,
// Policy.getBlockedAccounts, Policy.getWhitelistFeeContracts) - then calls a callee
// with each of the 16 flag sets that changes exactly what the iterator ranges over
// (put / delete in C's storage by a call of C to itself; deployment, candidate
// unregistration, vote, block list, whitelist by B), and only then consumes the
// iterator into its log. Oracles:
//
//	caught    the callee throws after the change and C catches: everything (what the
//	          iterator yields, storage of all contracts, notifications, result; state
//	          root in real blocks) equals the twin whose callee does nothing before
//	          throwing (ABORT twin where the change itself is refused)
//	snapshot  the callee completes: the iterator yields the state at the moment it was
//	          opened, i.e. exactly what it yields when the callee does nothing (the
//	          contract of the repaired SeekAsync, 39a0359: every private layer is
//	          captured on the caller's goroutine); non-vacuity: an iterator opened
//	          AFTER the completed change yields something else
//	returned  the iterator is opened by C called from the entry script's TRY with each
//	          flag set (so C has a layer of its own for half of them), handed back
//	          unconsumed, the entry script then has the iterated state changed by a
//	          completed call and only then consumes the iterator: it yields what it
//	          yields when nothing is changed (before 39a0359 the part of the answer that
//	          lives in the transaction's layer was read whenever the iterator's
//	          goroutine got scheduled)

import (
	"fmt"

	"github.com/nspcc-dev/neo-go/pkg/core/interop/interopnames"
	"github.com/nspcc-dev/neo-go/pkg/vm/opcode"

	"github.com/nspcc-dev/neo-go/pkg/core/native/nativehashes"
	"github.com/nspcc-dev/neo-go/pkg/core/transaction"
	"github.com/nspcc-dev/neo-go/pkg/smartcontract/callflag"
	"github.com/nspcc-dev/neo-go/pkg/util"
	"github.com/nspcc-dev/neo-go/pkg/vm/stackitem"

	"verif/lib/chainx"
)

type ichg struct {
	Name      string
	Callee    int // pC: a call of C to itself (C's storage), pB: natives
	Op        func(e *nenv) []any
	Committee bool
}

type isrc struct {
	Name     string
	Src      func(e *nenv) []any
	Changers []ichg
}

func isrcs() []isrc {
	k := func(s string) []byte { return []byte(s) }
	mgmt, neo, pol := nativehashes.ContractManagement, nativehashes.NeoToken, nativehashes.PolicyContract
	find := func(kind int) func(*nenv) []any { return func(*nenv) []any { return []any{kind, k(""), 0} } }
	nat := func(h util.Uint160, m string) func(*nenv) []any {
		return func(*nenv) []any { return []any{3, h.BytesBE(), m, []any{}} }
	}
	local := []ichg{
		{Name: "local.put-new", Callee: pC, Op: func(*nenv) []any { return []any{chainx.OpPut, k("en"), k("1")} }},
		{Name: "local.put-over", Callee: pC, Op: func(*nenv) []any { return []any{chainx.OpPut, k("a"), k("9")} }},
		{Name: "local.delete", Callee: pC, Op: func(*nenv) []any { return []any{chainx.OpDel, k("a")} }},
	}
	ctx := []ichg{
		{Name: "ctx.put-new", Callee: pC, Op: func(*nenv) []any { return []any{opPutW, k("en"), k("1")} }},
		{Name: "ctx.delete", Callee: pC, Op: func(*nenv) []any { return []any{opDelW, k("a")} }},
	}
	return []isrc{
		{Name: "local.find", Src: find(0), Changers: append(append([]ichg{}, local...), ctx[1])},
		{Name: "ctx.find", Src: find(1), Changers: append(append([]ichg{}, ctx...), local[0])},
		{Name: "roctx.find", Src: find(2), Changers: []ichg{local[2], ctx[0]}},
		{Name: "ContractManagement.getContractHashes", Src: nat(mgmt, "getContractHashes"), Changers: []ichg{
			{Name: "deploy", Callee: pB, Op: func(e *nenv) []any { return ucall(mgmt, "deploy", e.w.udNEF, e.w.udManifest, nil) }},
			{Name: "destroy-self", Callee: pB, Op: func(e *nenv) []any { return ucall(mgmt, "destroy") }},
		}},
		{Name: "NeoToken.getAllCandidates", Src: nat(neo, "getAllCandidates"), Changers: []ichg{
			{Name: "unregisterCandidate", Callee: pB, Op: func(e *nenv) []any { return ucall(neo, "unregisterCandidate", accp(1)) }},
			{Name: "vote", Callee: pB, Op: func(e *nenv) []any { return ucall(neo, "vote", acch(1), accp(1)) }},
		}},
		{Name: "PolicyContract.getBlockedAccounts", Src: nat(pol, "getBlockedAccounts"), Changers: []ichg{
			{Name: "blockAccount", Callee: pB, Committee: true, Op: func(e *nenv) []any { return ucall(pol, "blockAccount", acch(7)) }},
		}},
		{Name: "PolicyContract.getWhitelistFeeContracts", Src: nat(pol, "getWhitelistFeeContracts"), Changers: []ichg{
			{Name: "setWhitelistFeeContract", Callee: pB, Committee: true, Op: func(e *nenv) []any {
				return ucall(pol, "setWhitelistFeeContract", e.w.hashes[pC].BytesBE(), "other", 1, 50000000)
			}},
		}},
	}
}

const (
	itCaught   = iota // iterAround(src, TRY{ callee(f): change, THROW }CATCH{})
	itThrow           // ... callee(f): THROW
	itAbort           // ... callee(f): ABORT
	itComplete        // iterAround(src, callee(f): change)
	itIdle            // iterAround(src, callee(f): nothing)
	itAfter           // callee(f): change; iterAround(src, nothing)
)

// iScript: C.run([put m1, <shape>, put m2]); the iterator's content is item 1 of C's log (itAfter: item 2).
func (s *isrc) script(ch *ichg, e *nenv, f, shape int) []byte {
	w := e.w
	callee := w.hashes[ch.Callee]
	m1, m2 := uput("m1", "before"), uput("m2", "after")
	run := func(body ...any) []any { return []any{chainx.OpRun, callee.BytesBE(), f, body} }
	try := func(ops ...any) []any { return []any{chainx.OpTry, ops, []any{}} }
	around := func(prog ...any) []any { return []any{opIterAround, s.Src(e), prog} }
	c := w.hashes[pC]
	switch shape {
	case itCaught:
		return urun(c, m1, around(try(run(ch.Op(e), []any{chainx.OpThrow}))), m2)
	case itThrow:
		return urun(c, m1, around(try(run([]any{chainx.OpThrow}))), m2)
	case itAbort:
		return urun(c, m1, around(try(run([]any{chainx.OpAbort}))), m2)
	case itComplete:
		return urun(c, m1, around(run(ch.Op(e))), m2)
	case itIdle:
		return urun(c, m1, around(run()), m2)
	case itAfter:
		return urun(c, m1, run(ch.Op(e)), around(), m2)
	}
	panic("bad shape")
}

// yielded renders what the iterator yielded: the array at position pos of C's log.
func (rg *rig) yielded(r *eres, pos int) (string, error) {
	if len(r.Items) != 1 {
		return "", fmt.Errorf("result stack has %d items", len(r.Items))
	}
	log, ok := r.Items[0].Value().([]stackitem.Item)
	if !ok || len(log) <= pos {
		return "", fmt.Errorf("C's log has no item %d: %s", pos, r.Stack)
	}
	if _, ok := log[pos].Value().([]stackitem.Item); !ok {
		return "", fmt.Errorf("item %d of C's log is not the array of yielded values: %s", pos, r.Stack)
	}
	return rg.w.renderStack([]stackitem.Item{log[pos]}), nil
}

// returnedScript: TRY{ C.run([open src]) with flags f }CATCH{ABORT}; [changer completes, all flags]; consume.
func (s *isrc) returnedScript(ch *ichg, e *nenv, f int, change bool) []byte {
	w := e.w
	a := newAsm()
	a.op(opcode.INITSSLOT).raw(1)
	a.try("catch", "")
	a.raw(callSnippet(w.hashes[pC], "run", f, []any{[]any{opIterOpen, s.Src(e)}})...)
	a.op(opcode.PUSH0, opcode.PICKITEM, opcode.STSFLD0)
	a.jmp(opcode.ENDTRYL, "next")
	a.label("catch").op(opcode.ABORT)
	a.label("next")
	if change {
		a.raw(callSnippet(w.hashes[ch.Callee], "run", 15, []any{ch.Op(e)})...).op(opcode.DROP)
	}
	a.op(opcode.NEWARRAY0)
	a.label("loop").op(opcode.LDSFLD0).sys(interopnames.SystemIteratorNext)
	a.jmp(opcode.JMPIFNOTL, "end")
	a.op(opcode.DUP, opcode.LDSFLD0).sys(interopnames.SystemIteratorValue).op(opcode.APPEND)
	a.jmp(opcode.JMPL, "loop")
	a.label("end").op(opcode.RET)
	return a.bytes()
}

type istats struct {
	returned, returnedLayered                                             int
	cases, caughtHalt, caughtFault, snapshots, changeVisibleLater, blocks int
	yields                                                                map[string]bool
}

// runIterAround runs every changer x flag set of one source on a replica pair of its own.
func (ew *eworld) runIterAround(s *isrc, st *estats, is *istats, stop func() bool) (fails []efail, err error) {
	base := &eop{Name: "iter-around:" + s.Name}
	p, err := ew.newPair(base, st)
	if err != nil {
		return nil, err
	}
	defer func() { p.close() }()
	ids := p.X.n.ContractIDs(ew.maxID)
	const fee = 40 * gasUnit
	for ci := range s.Changers {
		ch := &s.Changers[ci]
		signers := p.X.signersFor(1, ch.Committee)
		for f := 0; f < 16; f++ {
			if stop() || len(fails) >= 6 {
				return fails, nil
			}
			cs := ecase{Op: "iter-around:" + s.Name + ":" + ch.Name, Path: epCall, F: f}
			fail := func(mode, what string, d ...string) {
				fails = append(fails, efail{Case: cs, Mode: mode, What: what, Detail: d})
			}
			is.cases++
			// ---- caught ----
			caseScript := s.script(ch, p.e, f, itCaught)
			r1, err := p.X.eTest(caseScript, signers, fee, ids)
			if err != nil {
				return fails, err
			}
			shape := itThrow
			if !r1.Halt {
				shape = itAbort
			}
			twinScript := s.script(ch, p.e, f, shape)
			r2, err := p.X.eTest(twinScript, signers, fee, ids)
			if err != nil {
				return fails, err
			}
			st.execs.Add(2)
			if r1.Halt != r2.Halt {
				return fails, fmt.Errorf("%s: case halt=%v (%s) but its twin halt=%v (%s)", cs.name(), r1.Halt, r1.Fault, r2.Halt, r2.Fault)
			}
			if r1.Halt {
				is.caughtHalt++
				y1, e1 := p.X.yielded(r1, 1)
				y2, e2 := p.X.yielded(r2, 1)
				if e1 != nil || e2 != nil {
					return fails, fmt.Errorf("%s: %v %v", cs.name(), e1, e2)
				}
				is.yields[s.Name+"="+y1] = true
				if y1 != y2 {
					fail("test", "iterator", "with the failed callee's change: "+y1, "without it: "+y2)
				}
				if d := dumpDiff(r1.Dump, r2.Dump); len(d) > 0 {
					fail("test", "storage", d...)
				}
				if r1.Notes != r2.Notes {
					fail("test", "notifications", "with the failed callee's change: "+r1.Notes, "without it: "+r2.Notes)
				}
				if r1.Stack != r2.Stack && y1 == y2 {
					fail("test", "result", "with the failed callee's change: "+r1.Stack, "without it: "+r2.Stack)
				}
			} else {
				is.caughtFault++
			}
			// ---- snapshot: the callee completes ----
			r3, err := p.X.eTest(s.script(ch, p.e, f, itComplete), signers, fee, ids)
			if err != nil {
				return fails, err
			}
			st.execs.Inc()
			if r3.Halt {
				r4, err := p.X.eTest(s.script(ch, p.e, f, itIdle), signers, fee, ids)
				if err != nil {
					return fails, err
				}
				r5, err := p.X.eTest(s.script(ch, p.e, f, itAfter), signers, fee, ids)
				if err != nil {
					return fails, err
				}
				st.execs.Add(2)
				if !r4.Halt || !r5.Halt {
					return fails, fmt.Errorf("%s: idle callee halt=%v (%s), change before the iterator halt=%v (%s)", cs.name(), r4.Halt, r4.Fault, r5.Halt, r5.Fault)
				}
				y3, e3 := p.X.yielded(r3, 1)
				y4, e4 := p.X.yielded(r4, 1)
				y5, e5 := p.X.yielded(r5, 2)
				if e3 != nil || e4 != nil || e5 != nil {
					return fails, fmt.Errorf("%s: %v %v %v", cs.name(), e3, e4, e5)
				}
				is.snapshots++
				if y3 != y4 {
					fail("test", "iterator-not-the-state-at-its-creation", "callee changes the iterated state after the iterator was opened: "+y3, "callee does nothing: "+y4)
				}
				if y5 != y4 {
					is.changeVisibleLater++
				}
			}
			// ---- caught, in real blocks ----
			if eBlockWanted(r1.Halt, f) {
				T, err := p.X.n.MakeTx(caseScript, signers, chainx.SysFee(fee))
				if err != nil {
					return fails, fmt.Errorf("%s: make tx: %w", cs.name(), err)
				}
				twin, err := p.R.manualTx(twinScript, T, signers)
				if err != nil {
					return fails, err
				}
				if _, err := p.X.n.AddBlock(T); err != nil {
					fail("block", "block-rejected", err.Error())
					return fails, nil
				}
				if _, err := p.R.n.AddBlock(twin); err != nil {
					return fails, fmt.Errorf("%s: twin block rejected: %w", cs.name(), err)
				}
				st.blocks.Add(2)
				st.execs.Add(2)
				is.blocks += 2
				bx, err := p.X.eAER(T.Hash())
				if err != nil {
					return fails, err
				}
				br, err := p.R.eAER(twin.Hash())
				if err != nil {
					return fails, err
				}
				switch {
				case bx.Halt != br.Halt || bx.Halt != r1.Halt:
					fail("block", "vmstate", fmt.Sprintf("case halt=%v %s", bx.Halt, bx.Fault), fmt.Sprintf("twin halt=%v %s", br.Halt, br.Fault), fmt.Sprintf("test invocation halt=%v", r1.Halt))
				case bx.Halt && bx.Stack != br.Stack:
					fail("block", "iterator-or-result", "with the failed callee's change: "+bx.Stack, "without it: "+br.Stack)
				case bx.Halt && bx.Notes != br.Notes:
					fail("block", "notifications", "with the failed callee's change: "+bx.Notes, "without it: "+br.Notes)
				}
				if a, b := p.X.stateRoot(), p.R.stateRoot(); a != b {
					fail("block", "state-root", storageDiff(p.X, p.R, ew.maxID)...)
					p.close()
					if p, err = ew.newPair(base, st); err != nil {
						return fails, err
					}
				}
			}
		}
	}
	return fails, nil
}

// runIterReturned: the "returned" oracle for one source. The caller runs it with GOMAXPROCS(1): the
// iterator's goroutine then gets the CPU only when the script blocks in Iterator.Next, i.e. AFTER the
// change - the schedule in which an answer that is not fixed at the call shows.
func (ew *eworld) runIterReturned(s *isrc, st *estats, is *istats) (fails []efail, err error) {
	rg, err := ew.newRig()
	if err != nil {
		return nil, err
	}
	defer rg.close()
	wc := *ew.w
	e := &nenv{w: &wc}
	ids := rg.n.ContractIDs(ew.maxID)
	const fee = 40 * gasUnit
	for ci := range s.Changers {
		ch := &s.Changers[ci]
		signers := rg.signersFor(1, ch.Committee)
		for f := 0; f < 16; f++ {
			cs := ecase{Op: "iter-returned:" + s.Name + ":" + ch.Name, Path: epEntry, F: f}
			r6, err := rg.eTest(s.returnedScript(ch, e, f, true), signers, fee, ids)
			if err != nil {
				return fails, err
			}
			st.execs.Inc()
			if !r6.Halt {
				continue
			}
			r7, err := rg.eTest(s.returnedScript(ch, e, f, false), signers, fee, ids)
			if err != nil {
				return fails, err
			}
			st.execs.Inc()
			if !r7.Halt {
				return fails, fmt.Errorf("%s: returned iterator without a change faults: %s", cs.name(), r7.Fault)
			}
			is.returned++
			if f&int(callflag.WriteStates|callflag.AllowNotify) != 0 {
				is.returnedLayered++
			}
			if r6.Stack != r7.Stack && len(fails) < 6 {
				fails = append(fails, efail{Case: cs, Mode: "test", What: "returned-iterator-not-the-state-at-its-creation",
					Detail: []string{"the iterated state is changed after the callee returned the iterator: " + r6.Stack, "nothing is changed: " + r7.Stack}})
			}
		}
	}
	return fails, nil
}

var _ = transaction.New
