package c04

// Layer E, the "escape" family: state changes that would escape the rollback
// layer because the layer is CONDITIONAL on the callee's call flags.
//
// callExFromNative gives a callee a private DAO layer (and remembers the
// notification count) only if the caller has an open TRY and the callee's
// effective flags contain WriteStates or AllowNotify ("a read-only callee cannot
// change state"); System.Runtime.LoadScript gives the loaded script no layer at
// all. That shortcut is sound only while NOTHING that changes state can be
// executed without those flags - a fact spread over the interop table, the
// natives' method tables and the manifest's `safe` marks. This family checks the
// consequence directly, on a chain with every hardfork active from genesis
// (family single-hf-all; instance C = x.go.txt, whose storage ops are the
// context-less System.Storage.Local.* calls that appear with Faun):
//
//	op    every state-touching operation: Storage.Local.Put/Delete/Get/Find,
//	      Storage.Put/Delete/Get/Find through a writable / read-only context,
//	      Runtime.Notify/Log/BurnGas, LoadScript of a state-changing script, every
//	      non-safe native method (the table of natives_test.go: Policy, NEO, GAS,
//	      ContractManagement deploy/update/destroy, RoleManagement, Oracle, Notary),
//	      NEP-17 transfers of the callee's own funds (with payment callback)
//	x f   each of the 16 call flag sets
//	x path  how the flags reach the callee: System.Contract.Call argument, manifest
//	      `safe` method, CALLT token flags (conduit W2), CALLT to a safe method,
//	      call from the entry script's own TRY, a restricted MIDDLE contract that
//	      lets the exception through / catches it itself / is entered through its
//	      safe method and catches, the exception coming from a contract the
//	      callee called in turn
//
// The callee runs op and then THROWS; the caller catches. "Allowed" is derived by
// trying (the execution HALTs). Oracle (twin differential, no expected values):
// the case must leave exactly what its twin leaves, in which the callee does
// nothing before throwing (or ABORTs where the case's op faulted) - the
// invocation's own view of the storage of ALL contracts and natives, the
// notification list and the result stack for test invocations; VM state, stack,
// events and the state root for real blocks (case on replica X, twin with equal
// signers, fees and nonce on replica R); X additionally runs all test invocations,
// so anything they leave in the node shows up in the next block or in the final
// comparison of the live nodes (committee, validators, policy values, contracts).
// A control run per (op, f) in which the callee COMPLETES shows which operations
// are state-changing at all and under which flag sets they are allowed.

import (
	"encoding/json"
	"fmt"
	"os"
	"runtime"
	"sort"
	"strings"
	"sync"

	"github.com/nspcc-dev/neo-go/pkg/core/interop"
	"github.com/nspcc-dev/neo-go/pkg/core/native/nativehashes"
	"github.com/nspcc-dev/neo-go/pkg/core/native/nativenames"
	"github.com/nspcc-dev/neo-go/pkg/core/native/noderoles"
	"github.com/nspcc-dev/neo-go/pkg/core/storage"
	"github.com/nspcc-dev/neo-go/pkg/core/transaction"
	"github.com/nspcc-dev/neo-go/pkg/neotest"
	"github.com/nspcc-dev/neo-go/pkg/smartcontract"
	"github.com/nspcc-dev/neo-go/pkg/smartcontract/callflag"
	"github.com/nspcc-dev/neo-go/pkg/smartcontract/manifest"
	"github.com/nspcc-dev/neo-go/pkg/smartcontract/trigger"
	"github.com/nspcc-dev/neo-go/pkg/util"
	"github.com/nspcc-dev/neo-go/pkg/vm/opcode"
	"github.com/nspcc-dev/neo-go/pkg/vm/stackitem"

	"verif/lib/chainx"
	"verif/lib/vk"
)

const familyHF = "single-hf-all"

var eVerbose = os.Getenv("C04_VERBOSE") != ""

// eop is one operation of the escape family: the ops the callee executes before it throws.
type eop struct {
	Name      string
	Kind      string // storage-local | storage-ctx | runtime | loadscript | native | nep17 | read
	Callee    int    // pB (U) or pC (X)
	Body      func(e *nenv) []any
	Committee bool
	Sender    int
	Fee       int64
	Pre       func(e *nenv) [][]preTx
}

var ePaths = []string{"call", "safe", "callt", "callt-safe", "entry", "entry-safe", "mid-passes", "mid-catches", "mid-safe-catches", "deep-throw"}

const (
	epCall = iota
	epSafe
	epCallT
	epCallTSafe
	epEntry
	epEntrySafe
	epMidPasses
	epMidCatches
	epMidSafeCatches
	epDeepThrow // the callee does not throw itself: a contract it calls (with all flags) does
)

func eops() []eop {
	gas, neo := nativehashes.GasToken, nativehashes.NeoToken
	k := func(s string) []byte { return []byte(s) }
	one := func(op ...any) func(*nenv) []any { return func(*nenv) []any { return []any{op} } }
	c := func(name, kind string, body func(*nenv) []any) eop {
		return eop{Name: name, Kind: kind, Callee: pC, Body: body}
	}
	ops := []eop{
		// context-less storage calls (Faun): instance C's plain ops
		c("local.delete", "storage-local", one(chainx.OpDel, k("a"))),
		c("local.put-new", "storage-local", one(chainx.OpPut, k("en"), k("1"))),
		c("local.put-over", "storage-local", one(chainx.OpPut, k("a"), k("9"))),
		c("local.delete-missing", "storage-local", one(chainx.OpDel, k("zz"))),
		c("local.put+delete", "storage-local", func(*nenv) []any {
			return []any{[]any{chainx.OpPut, k("en"), k("1")}, []any{chainx.OpDel, k("a")}}
		}),
		c("local.get", "read", one(chainx.OpGet, k("a"))),
		c("local.find", "read", one(chainx.OpFind, k(""), 0)),
		c("local.iter-delete", "storage-local", one(opIter, []any{[]any{chainx.OpDel, k("a")}})),
		// the same through contexts
		c("ctx.delete", "storage-ctx", one(opDelW, k("a"))),
		c("ctx.put-new", "storage-ctx", one(opPutW, k("en"), k("1"))),
		c("ctx.put-over", "storage-ctx", one(opPutW, k("a"), k("9"))),
		c("ctx.get", "read", one(opGetW, k("a"))),
		c("ctx.find", "read", one(opFindW, k(""), 0)),
		c("roctx.put", "storage-ctx", one(opPutRO, k("a"), k("9"))),
		c("roctx.delete", "storage-ctx", one(opDelRO, k("a"))),
		c("roctx.get", "read", one(opGetRO, k("a"))),
		c("roctx.find", "read", one(opFindRO, k(""), 0)),
		// runtime
		c("runtime.notify", "runtime", one(chainx.OpNotify, 7)),
		c("runtime.log", "runtime", one(opLog, "escape")),
		c("runtime.burngas", "runtime", one(opBurnGas, 1000)),
		c("runtime.checkwitness", "read", func(e *nenv) []any { return []any{[]any{chainx.OpCheckWitness, acch(1)}} }),
		c("runtime.getflags", "read", one(chainx.OpGetFlags)),
		c("notify+local.delete", "storage-local", func(*nenv) []any {
			return []any{[]any{chainx.OpNotify, 7}, []any{chainx.OpDel, k("a")}}
		}),
	}
	// System.Runtime.LoadScript: the loaded script gets no rollback layer whatever its flags are
	for _, g := range []int{15, 5, 7} {
		g := g
		ops = append(ops,
			c(fmt.Sprintf("loadscript-%x.gas-transfer", g), "loadscript", func(e *nenv) []any {
				s := callSnippet(gas, "transfer", 15, acch(1), acch(2), 3, nil)
				return []any{[]any{chainx.OpLoadScript, append(s, byte(opcode.RET)), g, []any{}}}
			}),
			c(fmt.Sprintf("loadscript-%x.call-put", g), "loadscript", func(e *nenv) []any {
				s := callSnippet(e.w.hashes[pB], "run", 15, []any{uput("en", "1")})
				return []any{[]any{chainx.OpLoadScript, append(s, byte(opcode.RET)), g, []any{}}}
			}),
			c(fmt.Sprintf("loadscript-%x.throws-after-put", g), "loadscript", func(e *nenv) []any {
				// the loaded script calls B.run([put]) and then throws; C catches it in its own TRY
				s := append(callSnippet(e.w.hashes[pB], "run", 15, []any{uput("en", "1")}), byte(opcode.DROP), byte(opcode.PUSH1), byte(opcode.THROW))
				return []any{[]any{chainx.OpTry, []any{[]any{chainx.OpLoadScript, s, g, []any{}}}, []any{}}}
			}))
	}
	// NEP-17 transfers of the callee's own funds (callee B holds GAS and NEO)
	b := func(name, kind string, body func(*nenv) []any) eop {
		return eop{Name: name, Kind: kind, Callee: pB, Body: body}
	}
	ops = append(ops,
		b("gas.transfer-own", "nep17", func(e *nenv) []any { return []any{ucall(gas, "transfer", e.w.hashes[pB].BytesBE(), acch(2), 3, nil)} }),
		b("neo.transfer-own", "nep17", func(e *nenv) []any { return []any{ucall(neo, "transfer", e.w.hashes[pB].BytesBE(), acch(2), 1, nil)} }),
		b("gas.transfer-own-to-contract", "nep17", func(e *nenv) []any {
			return []any{ucall(gas, "transfer", e.w.hashes[pB].BytesBE(), e.w.hashes[pC].BytesBE(), 3, []any{uput("pay", "1"), []any{chainx.OpNotify, 8}})}
		}),
		b("neo.transfer-own-to-contract", "nep17", func(e *nenv) []any {
			return []any{ucall(neo, "transfer", e.w.hashes[pB].BytesBE(), e.w.hashes[pC].BytesBE(), 1, []any{uput("pay", "1")})}
		}),
		b("gas.transfer-own-to-treasury", "nep17", func(e *nenv) []any {
			return []any{ucall(gas, "transfer", e.w.hashes[pB].BytesBE(), nativehashes.Treasury.BytesBE(), 3, nil)}
		}),
		b("neo.transfer-own-to-treasury", "nep17", func(e *nenv) []any {
			return []any{ucall(neo, "transfer", e.w.hashes[pB].BytesBE(), nativehashes.Treasury.BytesBE(), 1, nil)}
		}),
		b("treasury.onNEP17Payment-direct", "native-read", func(e *nenv) []any {
			return []any{ucall(nativehashes.Treasury, "onNEP17Payment", acch(1), 1, nil)}
		}),
		b("u.put", "storage-ctx", func(*nenv) []any { return []any{uput("en", "1")} }),
		b("u.delete", "storage-ctx", one(chainx.OpDel, k("a"))),
		b("neo.balanceOf", "read", func(e *nenv) []any { return []any{ucall(neo, "balanceOf", acch(1))} }),
		b("policy.getFeePerByte", "read", func(e *nenv) []any { return []any{ucall(nativehashes.PolicyContract, "getFeePerByte")} }),
	)
	// deployment / update whose _deploy runs a program (x.go.txt), self-destruction of the instance with Local storage
	mgmt := nativehashes.ContractManagement
	xd := func(e *nenv, name string) (nb, mb []byte) {
		mb0, _ := jsonMarshal(e.w.cw.UC.Manifest)
		m := new(manifest.Manifest)
		_ = json.Unmarshal(mb0, m)
		if name != "" {
			m.Name = name
		} else {
			m.Extra = json.RawMessage(`"v2"`)
		}
		mb, _ = jsonMarshal(m)
		nb, _ = e.w.cw.UC.NEF.Bytes()
		return
	}
	dprog := []any{[]any{chainx.OpPut, k("dep"), k("1")}, []any{chainx.OpNotify, 9}}
	ops = append(ops,
		b("mgmt.deploy-x-running-_deploy-program", "native", func(e *nenv) []any {
			nb, mb := xd(e, "XD")
			return []any{ucall(mgmt, "deploy", nb, mb, dprog)}
		}),
		c("mgmt.update-self-running-_deploy-program", "native", func(e *nenv) []any {
			nb, mb := xd(e, "")
			return []any{ucall(mgmt, "update", nb, mb, dprog)}
		}),
		c("mgmt.destroy-self", "native", func(e *nenv) []any { return []any{ucall(mgmt, "destroy")} }),
		c("local.put-then-destroy-self", "native", func(e *nenv) []any {
			return []any{[]any{chainx.OpPut, k("en"), k("1")}, ucall(mgmt, "destroy")}
		}),
	)
	// every non-safe native method (table of natives_test.go, executed by callee B)
	for _, sp := range nspecs() {
		if sp.NA != "" {
			continue
		}
		sp := sp
		ops = append(ops, eop{Name: sp.Native + "." + sp.Method, Kind: "native", Callee: pB, Committee: sp.Committee, Sender: sp.Sender, Fee: sp.Fee, Pre: sp.Pre,
			Body: func(e *nenv) []any { return []any{sp.Op(e, 2, false)} }})
	}
	return ops
}

// ePairs (thorough): every ordered pair of the storage / runtime / read operations of instance C as one body.
func ePairs(ops []eop) (out []eop) {
	var base []eop
	for _, o := range ops {
		if o.Callee == pC && (o.Kind == "storage-local" || o.Kind == "storage-ctx" || o.Kind == "runtime" || o.Kind == "read") {
			base = append(base, o)
		}
	}
	for _, a := range base {
		for _, b := range base {
			if a.Name == b.Name {
				continue
			}
			a, b := a, b
			kind := a.Kind
			if kind == "read" {
				kind = b.Kind
			}
			out = append(out, eop{Name: a.Name + ";" + b.Name, Kind: kind, Callee: pC, Body: func(e *nenv) []any { return append(a.Body(e), b.Body(e)...) }})
		}
	}
	return
}

// nativeReadOps: every SAFE method of every native that keeps state (and of Ledger), called by
// callee B with the first argument combination of small pools that halts. They are allowed under
// read-only flag sets, where a callee never gets a rollback layer: none of them may change anything.
//
// Methods returning an iterator are called twice: by B, which leaves the iterator unconsumed when it
// throws (an iterator left open by a callee with a layer of its own used to race with the VM: repaired
// in 39a0359, findings/seekasync-private-layer-race.txt), and by C through op 25, which consumes it.
func (ew *eworld) nativeReadOps() (ops []eop, na, iters []string, err error) {
	rg, err := ew.newRig()
	if err != nil {
		return nil, nil, nil, err
	}
	defer rg.close()
	bc := rg.n.BC
	b1, err := bc.GetBlock(bc.GetHeaderHash(1))
	if err != nil || len(b1.Transactions) == 0 {
		return nil, nil, nil, fmt.Errorf("block 1 of the prepared chain has no transaction: %v", err)
	}
	pool := func(p manifest.Parameter) []any {
		switch p.Type {
		case smartcontract.Hash160Type:
			return []any{acch(1), ew.w.hashes[pB].BytesBE(), nativehashes.GasToken.BytesBE()}
		case smartcontract.Hash256Type:
			return []any{b1.Transactions[0].Hash().BytesBE(), b1.Hash().BytesBE()}
		case smartcontract.PublicKeyType:
			return []any{accp(1)}
		case smartcontract.StringType:
			return []any{"other", "run"}
		case smartcontract.BoolType:
			return []any{true}
		case smartcontract.ByteArrayType:
			return []any{b1.Hash().BytesBE(), []byte{1}, accp(1)}
		case smartcontract.IntegerType:
			switch p.Name {
			case "role":
				return []any{int(noderoles.Oracle)}
			case "index", "end", "blockIndex":
				return []any{int(rg.n.Height()), 1}
			case "attributeType":
				return []any{int(transaction.ConflictsT)}
			case "id":
				return []any{1, 0}
			}
			return []any{1, 0}
		}
		return nil
	}
	for _, nc := range bc.GetNatives() {
		cs := bc.GetContractState(nc.Hash)
		if cs == nil || cs.Manifest.Name == nativenames.StdLib || cs.Manifest.Name == nativenames.CryptoLib {
			continue
		}
		for _, m := range cs.Manifest.ABI.Methods {
			if !m.Safe {
				continue
			}
			name := fmt.Sprintf("%s.%s/%d", cs.Manifest.Name, m.Name, len(m.Parameters))
			isIter := m.ReturnType == smartcontract.InteropInterfaceType
			if isIter {
				iters = append(iters, name)
			}
			combos := [][]any{{}}
			for _, p := range m.Parameters {
				pl := pool(p)
				var next [][]any
				for _, c := range combos {
					for _, v := range pl {
						if len(next) < 12 {
							next = append(next, append(append([]any{}, c...), v))
						}
					}
				}
				combos = next
			}
			found := false
			for _, args := range combos {
				args := args
				h := nc.Hash
				mname := m.Name
				o := eop{Name: name, Kind: "native-read", Callee: pB, Body: func(*nenv) []any { return []any{ucall(h, mname, args...)} }}
				e := &nenv{w: ew.w}
				r, err := rg.eTest(o.script(e, epCall, 15, etComplete), rg.signersFor(1, false), o.fee(), nil)
				if err != nil {
					return nil, nil, nil, err
				}
				if r.Halt {
					ops, found = append(ops, o), true
					if isIter {
						ops = append(ops, eop{Name: name + "+consumed", Kind: "native-read", Callee: pC, Body: func(*nenv) []any {
							return []any{[]any{opCallIter, h.BytesBE(), mname, 15, append([]any{}, args...)}}
						}})
					}
					break
				}
			}
			if !found {
				na = append(na, name)
			}
		}
	}
	return ops, na, iters, nil
}

func (o *eop) sender() int {
	if o.Sender == 0 {
		return 1
	}
	return o.Sender
}

func (o *eop) fee() int64 {
	if o.Fee == 0 {
		return 30 * gasUnit
	}
	return o.Fee
}

// ---- scripts --------------------------------------------------------------------------------

const (
	etCase      = iota // op, THROW
	etTwinThrow        // THROW
	etTwinAbort        // ABORT
	etComplete         // op
	etNothing          // (empty)
)

func (o *eop) body(e *nenv, term int, thrower []any) []any {
	switch term {
	case etCase:
		return append(o.Body(e), thrower)
	case etTwinThrow:
		return []any{thrower}
	case etTwinAbort:
		return []any{[]any{chainx.OpAbort}}
	case etComplete:
		return o.Body(e)
	}
	return []any{}
}

// eScript: the transaction script of (op, path, f, term).
func (o *eop) script(e *nenv, path, f, term int) []byte {
	w := e.w
	ua, callee := w.hashes[pA], w.hashes[o.Callee]
	midInst := pB
	if o.Callee == pB {
		midInst = pC
	}
	mid := w.hashes[midInst]
	m1, m2 := uput("m1", "before"), uput("m2", "after")
	try := func(ops ...any) []any { return []any{chainx.OpTry, ops, []any{}} }
	run := func(h util.Uint160, fl int, prog []any) []any { return []any{chainx.OpRun, h.BytesBE(), fl, prog} }
	thrower := []any{chainx.OpThrow}
	if path == epDeepThrow {
		thrower = run(mid, 15, []any{[]any{chainx.OpThrow}})
	}
	body := o.body(e, term, thrower)
	safe := func(h util.Uint160, fl int, prog []any) []any {
		return []any{chainx.OpCall, h.BytesBE(), "runSafe", fl, []any{prog}}
	}
	switch path {
	case epCall, epDeepThrow:
		return urun(ua, m1, try(run(callee, f, body)), m2)
	case epSafe:
		return urun(ua, m1, try(safe(callee, f, body)), m2)
	case epCallT:
		return urun(ua, m1, ucall(w.w2, w2Method(o.Callee, false, f), body), m2)
	case epCallTSafe:
		return urun(ua, m1, ucall(w.w2, w2Method(o.Callee, true, f), body), m2)
	case epEntry, epEntrySafe:
		method := "run"
		if path == epEntrySafe {
			method = "runSafe"
		}
		a := newAsm()
		a.raw(callSnippet(ua, "run", 15, []any{m1})...).op(opcode.DROP)
		a.try("catch", "")
		a.raw(callSnippet(callee, method, f, body)...).op(opcode.DROP)
		a.jmp(opcode.ENDTRYL, "end")
		a.label("catch").op(opcode.DROP)
		a.jmp(opcode.ENDTRYL, "end")
		a.label("end").raw(callSnippet(ua, "run", 15, []any{m2})...).op(opcode.RET)
		return a.bytes()
	case epMidPasses:
		return urun(ua, m1, try(run(mid, f, []any{run(callee, 15, body)})), m2)
	case epMidCatches:
		return urun(ua, m1, run(mid, f, []any{try(run(callee, 15, body))}), m2)
	case epMidSafeCatches:
		return urun(ua, m1, safe(mid, 15, []any{try(run(callee, f, body))}), m2)
	}
	panic("bad path")
}

// ---- world ----------------------------------------------------------------------------------

type eworld struct {
	w      *world
	blocks [][]byte // after the prepared chain: funding
	maxID  int32
}

func buildEscapeWorld(w *world) (*eworld, error) {
	rg, err := w.newRig()
	if err != nil {
		return nil, err
	}
	defer rg.close()
	n := rg.n
	h := n.Height()
	var txs []*transaction.Transaction
	for _, i := range []int{1, 2, 3} {
		tx, err := n.CallTx([]neotest.Signer{n.Validator}, nativehashes.GasToken, "transfer", n.Validator.ScriptHash(), chainx.Acc(i).ScriptHash(), int64(400000*gasUnit), nil)
		if err != nil {
			return nil, err
		}
		txs = append(txs, tx)
	}
	if _, err := n.AddBlock(txs...); err != nil {
		return nil, fmt.Errorf("escape funding block: %w", err)
	}
	for _, tx := range txs {
		if err := n.CheckHalt(tx.Hash()); err != nil {
			return nil, err
		}
	}
	ew := &eworld{w: w, maxID: w.cw.MaxID + 3}
	for i := h + 1; i <= n.Height(); i++ {
		b, err := n.BC.GetBlock(n.BC.GetHeaderHash(i))
		if err != nil {
			return nil, err
		}
		bb, err := chainx.BlockBytes(b)
		if err != nil {
			return nil, err
		}
		ew.blocks = append(ew.blocks, bb)
	}
	return ew, nil
}

func (ew *eworld) newRig() (*rig, error) {
	rg, err := ew.w.newRig()
	if err != nil {
		return nil, err
	}
	for _, bb := range ew.blocks {
		if err := rg.n.AddBytes(bb); err != nil {
			rg.close()
			return nil, fmt.Errorf("replay of the escape funding block: %w", err)
		}
	}
	return rg, nil
}

// ---- executions -----------------------------------------------------------------------------

type eres struct {
	Halt  bool
	Fault string
	Items []stackitem.Item
	Stack string
	Notes string
	Dump  map[string]string // test invocation: the invocation's view of all contract storage
}

func daoDump(ic *interop.Context, ids []int32) map[string]string {
	out := map[string]string{}
	for _, id := range ids {
		ic.DAO.Seek(id, storage.SeekRange{}, func(k, v []byte) bool {
			out[fmt.Sprintf("%d:%x", id, k)] = fmt.Sprintf("%x", v)
			return true
		})
	}
	return out
}

func (rg *rig) eTest(script []byte, signers []neotest.Signer, fee int64, ids []int32) (*eres, error) {
	tx := transaction.New(script, fee)
	tx.ValidUntilBlock = rg.n.BC.BlockHeight() + 5
	for _, s := range signers {
		tx.Signers = append(tx.Signers, transaction.Signer{Account: s.ScriptHash(), Scopes: transaction.Global})
	}
	ic, err := rg.n.BC.GetTestVM(trigger.Application, tx, nil)
	if err != nil {
		return nil, err
	}
	ic.VM.LoadScriptWithFlags(script, callflag.All)
	ic.VM.SetGasLimit(fee)
	res := &eres{}
	if err := ic.Exec(); err != nil {
		res.Fault = err.Error()
	}
	res.Halt = !ic.VM.HasFailed()
	if res.Halt {
		res.Items = ic.VM.Estack().ToArray()
		res.Stack = rg.w.renderStack(res.Items)
		res.Notes = strings.Join(rg.w.renderEvents(ic.Notifications), " ")
		res.Dump = daoDump(ic, ids)
	}
	return res, nil
}

func (rg *rig) eAER(h util.Uint256) (*eres, error) {
	aers, err := rg.n.BC.GetAppExecResults(h, trigger.Application)
	if err != nil || len(aers) != 1 {
		return nil, fmt.Errorf("no execution result: %v", err)
	}
	a := aers[0]
	res := &eres{Halt: a.VMState.String() == "HALT", Fault: a.FaultException}
	if res.Halt {
		res.Items = a.Stack
		res.Stack = rg.w.renderStack(a.Stack)
		res.Notes = strings.Join(rg.w.renderEvents(a.Events), " ")
	}
	return res, nil
}

func dumpDiff(a, b map[string]string) []string {
	var out []string
	for k, v := range a {
		if w, ok := b[k]; !ok {
			out = append(out, fmt.Sprintf("storage[%s]: with the failed callee's operation %s, without it <missing>", k, v))
		} else if w != v {
			out = append(out, fmt.Sprintf("storage[%s]: with the failed callee's operation %s, without it %s", k, v, w))
		}
	}
	for k, w := range b {
		if _, ok := a[k]; !ok {
			out = append(out, fmt.Sprintf("storage[%s]: with the failed callee's operation <missing>, without it %s", k, w))
		}
	}
	sort.Strings(out)
	if len(out) > 8 {
		out = append(out[:8], fmt.Sprintf("... %d more", len(out)-8))
	}
	return out
}

// ---- the runner -----------------------------------------------------------------------------

type ecase struct {
	Op   string
	Path int
	F    int
}

func (c ecase) name() string { return fmt.Sprintf("%s:%s:f%x", c.Op, ePaths[c.Path], c.F) }

// describe renders the case's transaction for a report (X = the callee: instance C for storage /
// runtime operations, instance B for native calls; M = the other one).
func (c ecase) describe() string {
	fl := callflag.CallFlag(c.F).String()
	if strings.HasPrefix(c.Op, "iter-returned:") {
		return fmt.Sprintf("entry script: TRY{ it = C.run([open the iterator, unconsumed]) with flags %s }; <changer's contract>.run([change]) with all flags; consume it - %s (run with GOMAXPROCS(1))", fl, c.Op)
	}
	if strings.HasPrefix(c.Op, "iter-around:") {
		return fmt.Sprintf("C.run([put m1, open the iterator, TRY{ call the changer's contract.run([change, THROW]) with flags %s }CATCH{} (snapshot oracle: the callee completes, no TRY), consume the iterator, put m2]) - %s", fl, c.Op)
	}
	body := "[" + c.Op + ", THROW]"
	shape := map[int]string{
		epCall:           "A.run([put m1, TRY{ call X.run(%s) with flags %s }CATCH{}, put m2])",
		epSafe:           "A.run([put m1, TRY{ call X.runSafe(%s) (manifest-safe) with flags %s }CATCH{}, put m2])",
		epCallT:          "A.run([put m1, W2: TRY{ CALLT X.run(%s), token flags %s }CATCH{}, put m2])",
		epCallTSafe:      "A.run([put m1, W2: TRY{ CALLT X.runSafe(%s), token flags %s }CATCH{}, put m2])",
		epEntry:          "entry script: A.run([put m1]); TRY{ System.Contract.Call X.run(%s) with flags %s }CATCH{}; A.run([put m2])",
		epEntrySafe:      "entry script: A.run([put m1]); TRY{ System.Contract.Call X.runSafe(%s) with flags %s }CATCH{}; A.run([put m2])",
		epMidPasses:      "A.run([put m1, TRY{ call M.run([call X.run(%s) with all flags]) with flags %s }CATCH{}, put m2])",
		epMidCatches:     "A.run([put m1, call M.run([TRY{ call X.run(%s) with all flags }CATCH{}]) with flags %s, put m2])",
		epMidSafeCatches: "A.run([put m1, call M.runSafe([TRY{ call X.run(%s) with flags %s }CATCH{}]), put m2])",
		epDeepThrow:      "A.run([put m1, TRY{ call X.run(%s; the THROW is executed by M.run([THROW]) called from X) with flags %s }CATCH{}, put m2])",
	}[c.Path]
	return fmt.Sprintf(shape, body, fl)
}

type efail struct {
	Case   ecase
	Mode   string // test | block | live
	What   string
	Detail []string
}

type estats struct {
	mu                                                sync.Mutex
	allowed, effect                                   map[string]int // op -> bit mask over flag sets: the completed op HALTs / changes storage or notifications
	cases, testHalt, testFault, blockHalt, blockFault vk.Counter
	execs, blocks                                     vk.Counter
	haltNoLayer                                       vk.Counter      // test invocations in which the callee ran its operation and threw WITHOUT a rollback layer of its own (flags without WriteStates and AllowNotify)
	outcomes                                          map[string]bool // (op kind, path, halt/fault, callee layered or not)
}

func newEStats() *estats {
	return &estats{allowed: map[string]int{}, effect: map[string]int{}, outcomes: map[string]bool{}}
}

func (st *estats) outcome(k string) {
	st.mu.Lock()
	st.outcomes[k] = true
	st.mu.Unlock()
}

// pair is X (cases + all test invocations) and R (twins), with the op's prerequisites applied.
type epair struct {
	X, R *rig
	e    *nenv
}

func (p *epair) close() {
	p.X.close()
	p.R.close()
}

func (ew *eworld) newPair(o *eop, st *estats) (*epair, error) {
	X, err := ew.newRig()
	if err != nil {
		return nil, err
	}
	R, err := ew.newRig()
	if err != nil {
		X.close()
		return nil, err
	}
	wc := *ew.w // the specs of natives_test.go compute heights from the prepared chain's
	wc.height += uint32(len(ew.blocks))
	p := &epair{X: X, R: R, e: &nenv{w: &wc, mtb: int64(R.n.BC.GetMaxTraceableBlocks())}}
	if o.Pre != nil {
		for _, blk := range o.Pre(p.e) {
			var txs []*transaction.Transaction
			for _, pt := range blk {
				tx, err := R.n.MakeTx(pt.script, R.signersFor(pt.sender, pt.committee), chainx.SysFee(1100*gasUnit))
				if err != nil {
					p.close()
					return nil, err
				}
				txs = append(txs, tx)
			}
			for _, n := range []*rig{X, R} {
				var cl []*transaction.Transaction
				for _, t := range txs {
					cl = append(cl, cloneTx(t))
				}
				if _, err := n.n.AddBlock(cl...); err != nil {
					p.close()
					return nil, fmt.Errorf("prerequisites: block rejected: %w", err)
				}
				st.blocks.Inc()
				for _, t := range txs {
					if s := n.vmState(t.Hash()); s != "HALT" {
						p.close()
						return nil, fmt.Errorf("prerequisite transaction did not halt: %s", n.txAER(t.Hash()))
					}
				}
			}
		}
	}
	return p, nil
}

// eBlockWanted: which cases also run in real blocks - every case whose failed callee got as
// far as throwing (HALT), and the faulting ones for the flag sets None and ReadOnly.
func eBlockWanted(halt bool, f int) bool { return halt || f == 0 || f == 5 || eAllBlocks }

var eAllBlocks bool // thorough: every case also in a real block

// runCase runs one case in the given modes ("t", "b" or "tb") on the pair.
func (ew *eworld) runCase(p *epair, o *eop, cs ecase, modes string, st *estats) (fails []efail, diverged bool, err error) {
	ids := p.X.n.ContractIDs(ew.maxID)
	signers := p.X.signersFor(o.sender(), o.Committee)
	fail := func(mode, what string, d ...string) {
		fails = append(fails, efail{Case: cs, Mode: mode, What: what, Detail: d})
	}
	caseScript := o.script(p.e, cs.Path, cs.F, etCase)
	// the test invocation decides which twin applies (the op may be refused: the transaction FAULTs)
	r1, err := p.X.eTest(caseScript, signers, o.fee(), ids)
	if err != nil {
		return nil, false, err
	}
	st.execs.Inc()
	term := etTwinThrow
	if !r1.Halt {
		term = etTwinAbort
	}
	twinScript := o.script(p.e, cs.Path, cs.F, term)
	if strings.Contains(modes, "t") {
		st.cases.Inc()
		r2, err := p.X.eTest(twinScript, signers, o.fee(), ids)
		if err != nil {
			return nil, false, err
		}
		st.execs.Inc()
		if r1.Halt != r2.Halt {
			return nil, false, fmt.Errorf("%s: case halt=%v (%s) but its twin halt=%v (%s)", cs.name(), r1.Halt, r1.Fault, r2.Halt, r2.Fault)
		}
		if r1.Halt {
			st.testHalt.Inc()
			if cs.F&int(callflag.WriteStates|callflag.AllowNotify) == 0 {
				st.haltNoLayer.Inc()
			}
			if d := dumpDiff(r1.Dump, r2.Dump); len(d) > 0 {
				fail("test", "storage", d...)
			}
			if r1.Notes != r2.Notes {
				fail("test", "notifications", "with the failed callee's operation: "+r1.Notes, "without it: "+r2.Notes)
			}
			if r1.Stack != r2.Stack {
				fail("test", "result", "with the failed callee's operation: "+r1.Stack, "without it: "+r2.Stack)
			}
		} else {
			st.testFault.Inc()
		}
		hf := "FAULT"
		if r1.Halt {
			hf = "HALT"
		}
		st.outcome(fmt.Sprintf("%s:%s:%s:layer=%v", o.Kind, ePaths[cs.Path], hf, cs.F&(int(callflag.WriteStates|callflag.AllowNotify)) != 0))
	}
	if strings.Contains(modes, "b") && eBlockWanted(r1.Halt, cs.F) {
		T, err := p.X.n.MakeTx(caseScript, signers, chainx.SysFee(o.fee()))
		if err != nil {
			return fails, false, fmt.Errorf("%s: make tx: %w", cs.name(), err)
		}
		twin, err := p.R.manualTx(twinScript, T, signers)
		if err != nil {
			return fails, false, err
		}
		if _, err := p.X.n.AddBlock(T); err != nil {
			fail("block", "block-rejected", err.Error())
			return fails, true, nil
		}
		if _, err := p.R.n.AddBlock(twin); err != nil {
			return fails, true, fmt.Errorf("%s: twin block rejected: %w", cs.name(), err)
		}
		st.blocks.Add(2)
		st.execs.Add(2)
		bx, err := p.X.eAER(T.Hash())
		if err != nil {
			return fails, true, err
		}
		br, err := p.R.eAER(twin.Hash())
		if err != nil {
			return fails, true, err
		}
		if bx.Halt {
			st.blockHalt.Inc()
		} else {
			st.blockFault.Inc()
		}
		switch {
		case bx.Halt != br.Halt:
			fail("block", "vmstate", fmt.Sprintf("case halt=%v %s", bx.Halt, bx.Fault), fmt.Sprintf("twin halt=%v %s", br.Halt, br.Fault))
		case bx.Halt && bx.Notes != br.Notes:
			fail("block", "notifications", "with the failed callee's operation: "+bx.Notes, "without it: "+br.Notes)
		case bx.Halt && bx.Stack != br.Stack:
			fail("block", "result", "with the failed callee's operation: "+bx.Stack, "without it: "+br.Stack)
		}
		if a, b := p.X.stateRoot(), p.R.stateRoot(); a != b {
			fail("block", "state-root", storageDiff(p.X, p.R, ew.maxID)...)
			diverged = true
		}
	}
	return fails, diverged, nil
}

// control derives, for every flag set, whether the completed op is allowed (HALT) and whether
// it changes what the transaction would commit or notify (compared with an empty callee).
func (ew *eworld) control(p *epair, o *eop, st *estats) error {
	ids := p.X.n.ContractIDs(ew.maxID)
	signers := p.X.signersFor(o.sender(), o.Committee)
	allowed, effect := 0, 0
	for f := 0; f < 16; f++ {
		r1, err := p.X.eTest(o.script(p.e, epCall, f, etComplete), signers, o.fee(), ids)
		if err != nil {
			return err
		}
		st.execs.Inc()
		if !r1.Halt {
			continue
		}
		allowed |= 1 << f
		r2, err := p.X.eTest(o.script(p.e, epCall, f, etNothing), signers, o.fee(), ids)
		if err != nil {
			return err
		}
		st.execs.Inc()
		if !r2.Halt {
			return fmt.Errorf("%s: the empty callee faults with flags %x: %s", o.Name, f, r2.Fault)
		}
		if len(dumpDiff(r1.Dump, r2.Dump)) > 0 || r1.Notes != r2.Notes {
			effect |= 1 << f
			if eVerbose {
				fmt.Printf("control %s f=%x: %v | %s\n", o.Name, f, dumpDiff(r1.Dump, r2.Dump), r1.Notes)
			}
		}
	}
	st.mu.Lock()
	st.allowed[o.Name], st.effect[o.Name] = allowed, effect
	st.mu.Unlock()
	return nil
}

// runOp: control runs, then every path x flag set, test invocation and real block.
func (ew *eworld) runOp(o *eop, paths []int, modes string, st *estats, stop func() bool) (fails []efail, err error) {
	p, err := ew.newPair(o, st)
	if err != nil {
		return nil, fmt.Errorf("%s: %w", o.Name, err)
	}
	defer func() { p.close() }()
	if err := ew.control(p, o, st); err != nil {
		return nil, err
	}
	for _, path := range paths {
		for f := 0; f < 16; f++ {
			if stop() {
				return fails, nil
			}
			fs, diverged, err := ew.runCase(p, o, ecase{Op: o.Name, Path: path, F: f}, modes, st)
			fails = append(fails, fs...)
			if err != nil {
				return fails, err
			}
			if len(fails) >= 6 {
				return fails, nil
			}
			if diverged {
				// the replicas differ from here on: a fresh pair for the remaining cases
				p.close()
				if p, err = ew.newPair(o, st); err != nil {
					return fails, err
				}
			}
		}
	}
	// the live nodes after everything (X also saw every test invocation)
	hashes := []util.Uint160{ew.w.hashes[pA], ew.w.hashes[pB], ew.w.hashes[pC], ew.w.ud, ew.w.w2}
	ox, err := p.X.n.Observe(ew.maxID, hashes)
	if err != nil {
		return fails, err
	}
	or, err := p.R.n.Observe(ew.maxID, hashes)
	if err != nil {
		return fails, err
	}
	ox.AERs, or.AERs = "", "" // the last transactions differ by construction
	ox.Hash, or.Hash = "", ""
	if wh, d := diffObs(ox, or); len(wh) > 0 {
		fails = append(fails, efail{Case: ecase{Op: o.Name, Path: paths[len(paths)-1], F: 15}, Mode: "live", What: "live-nodes:" + wh[0], Detail: d})
	}
	return fails, nil
}

func ePathsOf(thorough bool) []int {
	var out []int
	for i := range ePaths {
		out = append(out, i)
	}
	return out
}

func (c *checker) runEscape(hw *world) (cov map[string]any, execs int) {
	r := c.r
	ew, err := buildEscapeWorld(hw)
	if err != nil {
		c.harness(fmt.Errorf("layer E: %w", err))
		return map[string]any{}, 0
	}
	ops := eops()
	rops, readNA, readIters, err := ew.nativeReadOps()
	if err != nil {
		c.harness(fmt.Errorf("layer E: %w", err))
	}
	ops = append(ops, rops...)
	if r.Thorough() {
		eAllBlocks = true
		ops = append(ops, ePairs(ops)...)
	}
	paths := ePathsOf(r.Thorough())
	st := newEStats()
	var nfail vk.Counter
	srcs := isrcs()
	iss := make([]*istats, len(srcs))
	report := func(name string, fails []efail) {
		for _, f := range fails {
			nfail.Inc()
			r.Outcome("E:DIFFERS:" + f.Mode + ":" + f.What)
			if c.admitN("escape:"+f.Mode+":"+f.What+":"+name, []string{"leak"}, 2) {
				r.Violation(fmt.Sprintf("escape:%s:%s:%s", f.Mode, f.What, f.Case.name()), caseRec{Layer: "E", Mode: "escape", Prog: f.Case.Op, Orig: f.Case.describe(), Family: ePaths[f.Case.Path],
					Pos: fmt.Sprintf("%x", f.Case.F), History: []string{f.Mode}, What: []string{f.What}, Detail: f.Detail})
			}
		}
	}
	// iterators handed back by a callee: sequentially, on ONE CPU (see runIterReturned)
	func() {
		old := runtime.GOMAXPROCS(1)
		defer runtime.GOMAXPROCS(old)
		for i := range srcs {
			iss[i] = &istats{yields: map[string]bool{}}
			var fails []efail
			var err error
			if p := chainxTry(func() { fails, err = ew.runIterReturned(&srcs[i], st, iss[i]) }); p != nil {
				fails = append(fails, efail{Case: ecase{Op: "iter-returned:" + srcs[i].Name}, Mode: "test", What: "panic", Detail: []string{p.Error()}})
			}
			if err != nil {
				c.harness(fmt.Errorf("layer E iter-returned %s: %w", srcs[i].Name, err))
			}
			report("iter-returned:"+srcs[i].Name, fails)
		}
	}()
	r.Parallel(len(srcs)+len(ops), func(i int) {
		var fails []efail
		var err error
		name := ""
		if i < len(srcs) {
			name = "iter-around:" + srcs[i].Name
			if p := chainxTry(func() { fails, err = ew.runIterAround(&srcs[i], st, iss[i], r.TooMany) }); p != nil {
				fails = append(fails, efail{Case: ecase{Op: name}, Mode: "test", What: "panic", Detail: []string{p.Error()}})
			}
		} else {
			o := &ops[i-len(srcs)]
			name = o.Name
			if p := chainxTry(func() { fails, err = ew.runOp(o, paths, "tb", st, r.TooMany) }); p != nil {
				fails = append(fails, efail{Case: ecase{Op: o.Name}, Mode: "test", What: "panic", Detail: []string{p.Error()}})
			}
		}
		o := &eop{Name: name}
		if err != nil {
			c.harness(fmt.Errorf("layer E %s: %w", o.Name, err))
		}
		report(o.Name, fails)
	})
	it := istats{yields: map[string]bool{}}
	for _, x := range iss {
		if x == nil {
			continue
		}
		it.cases += x.cases
		it.caughtHalt += x.caughtHalt
		it.caughtFault += x.caughtFault
		it.snapshots += x.snapshots
		it.changeVisibleLater += x.changeVisibleLater
		it.blocks += x.blocks
		it.returned += x.returned
		it.returnedLayered += x.returnedLayered
		for k := range x.yields {
			it.yields[k] = true
		}
	}
	var srcNames []string
	for _, s := range srcs {
		srcNames = append(srcNames, fmt.Sprintf("%s x %d changers", s.Name, len(s.Changers)))
	}
	itcov := map[string]any{"iterators_and_changers": srcNames, "cases(changer x flag set)": it.cases, "callee_changed_threw_and_was_caught": it.caughtHalt, "fault": it.caughtFault,
		"completed_changes_compared_with_idle_callee": it.snapshots, "of_them_visible_to_an_iterator_opened_afterwards": it.changeVisibleLater,
		"iterators_returned_by_a_callee_and_consumed_after_a_completed_change": it.returned, "of_them_opened_in_a_layer_of_the_callee": it.returnedLayered, "blocks": it.blocks, "distinct_iterator_contents": len(it.yields)}
	fmt.Printf("layer E iter-around: %d cases (%d caught, %d snapshot comparisons)\n", it.cases, it.caughtHalt, it.snapshots)
	fmt.Printf("layer E: %d escape cases (%d operations x %d paths x 16 flag sets; %d differ), %.1fs\n", st.cases.Get(), len(ops), len(paths), nfail.Get(), r.Elapsed())
	// derived tables
	var table []string
	kinds := map[string]int{}
	unguarded := []string{}
	nEffect, masks := 0, map[string]bool{}
	weak := 0
	for f := 0; f < 16; f++ {
		if f&int(callflag.WriteStates|callflag.AllowNotify) == 0 {
			weak |= 1 << f
		}
	}
	for _, o := range ops {
		a, e := st.allowed[o.Name], st.effect[o.Name]
		table = append(table, fmt.Sprintf("%s allowed=%04x changes-state=%04x", o.Name, a, e))
		kinds[o.Kind]++
		masks[fmt.Sprintf("%04x/%04x", a, e)] = true
		if e != 0 {
			nEffect++
		}
		if e&weak != 0 {
			unguarded = append(unguarded, o.Name)
		}
	}
	for k := range st.outcomes {
		r.Outcome("E:" + k)
	}
	return map[string]any{"family": familyHF, "iter_around": itcov, "operations": len(ops), "operations_by_kind": kinds, "paths": ePaths, "flag_sets": 16, "cases": st.cases.Get(),
		"test_invocation_callee_threw_and_was_caught": st.testHalt.Get(), "test_invocation_fault": st.testFault.Get(),
		"test_invocation_callee_threw_without_a_layer_of_its_own": st.haltNoLayer.Get(),
		"block_cases_callee_threw_and_was_caught":                 st.blockHalt.Get(), "block_cases_fault": st.blockFault.Get(), "blocks": st.blocks.Get(),
		"operations_changing_state_when_completed": nEffect, "distinct_allowed_and_effect_masks": len(masks), "distinct_outcome_classes": len(st.outcomes),
		"state_changing_operations_allowed_without_WriteStates_and_AllowNotify": unguarded,
		"safe_native_methods_called": len(rops), "safe_native_methods_without_a_halting_argument_combination": readNA,
		"safe_native_methods_returning_an_iterator_left_out":                     readIters,
		"allowed_and_state_changing_flag_sets_per_operation(bit f = flag set f)": table, "differing": nfail.Get(), "executions": st.execs.Get()}, int(st.execs.Get())
}

// replayEscape re-runs one recorded case.
func (c *checker) replayEscape(rec *caseRec) (what, detail []string, err error) {
	hw, err := buildWorldHF(false, 0, true)
	if err != nil {
		return nil, nil, err
	}
	ew, err := buildEscapeWorld(hw)
	if err != nil {
		return nil, nil, err
	}
	if strings.HasPrefix(rec.Prog, "iter-returned:") {
		old := runtime.GOMAXPROCS(1)
		defer runtime.GOMAXPROCS(old)
		srcs := isrcs()
		for i := range srcs {
			if strings.HasPrefix(rec.Prog, "iter-returned:"+srcs[i].Name+":") {
				fails, err := ew.runIterReturned(&srcs[i], newEStats(), &istats{yields: map[string]bool{}})
				for _, fl := range fails {
					if fl.Case.Op == rec.Prog && fmt.Sprintf("%x", fl.Case.F) == rec.Pos {
						what, detail = append(what, fl.Mode+":"+fl.What), append(detail, fl.Detail...)
					}
				}
				return what, detail, err
			}
		}
		return nil, nil, fmt.Errorf("unknown iterator source in %s", rec.Prog)
	}
	if strings.HasPrefix(rec.Prog, "iter-around:") {
		srcs := isrcs()
		for i := range srcs {
			if strings.HasPrefix(rec.Prog, "iter-around:"+srcs[i].Name+":") {
				fails, err := ew.runIterAround(&srcs[i], newEStats(), &istats{yields: map[string]bool{}}, func() bool { return false })
				for _, fl := range fails {
					if fl.Case.Op == rec.Prog && fmt.Sprintf("%x", fl.Case.F) == rec.Pos {
						what, detail = append(what, fl.Mode+":"+fl.What), append(detail, fl.Detail...)
					}
				}
				return what, detail, err
			}
		}
		return nil, nil, fmt.Errorf("unknown iterator source in %s", rec.Prog)
	}
	var o *eop
	ops := eops()
	ops = append(ops, ePairs(ops)...)
	if rops, _, _, err := ew.nativeReadOps(); err == nil {
		ops = append(ops, rops...)
	}
	for i := range ops {
		if ops[i].Name == rec.Prog {
			o = &ops[i]
		}
	}
	path := -1
	for i, p := range ePaths {
		if p == rec.Family {
			path = i
		}
	}
	var f int
	if _, e := fmt.Sscanf(rec.Pos, "%x", &f); e != nil || o == nil || path < 0 {
		return nil, nil, fmt.Errorf("unknown escape case %s %s %s", rec.Prog, rec.Family, rec.Pos)
	}
	st := newEStats()
	if len(rec.History) > 0 && rec.History[0] == "live" {
		fails, err := ew.runOp(o, ePathsOf(true), "tb", st, func() bool { return false })
		for _, fl := range fails {
			what, detail = append(what, fl.What), append(detail, fl.Detail...)
		}
		return what, detail, err
	}
	p, err := ew.newPair(o, st)
	if err != nil {
		return nil, nil, err
	}
	defer p.close()
	fails, _, err := ew.runCase(p, o, ecase{Op: o.Name, Path: path, F: f}, "tb", st)
	for _, fl := range fails {
		what, detail = append(what, fl.Mode+":"+fl.What), append(detail, fl.Detail...)
	}
	return what, detail, err
}
