package c04

// The family single-hf-all (every hardfork active from genesis) and what the
// escape family (escape_test.go) needs on it: the third instance compiled from
// x.go.txt (V with its storage ops turned into System.Storage.Local.* calls, plus
// storage calls through explicit contexts, Log, BurnGas) and the
// token conduit W2, which reaches B.run / B.runSafe / C.run / C.runSafe through
// METHOD TOKENS carrying each of the 16 call flag sets.

import (
	_ "embed"
	"encoding/json"
	"fmt"
	"sync"

	"github.com/nspcc-dev/neo-go/pkg/compiler"
	"github.com/nspcc-dev/neo-go/pkg/core/state"
	"github.com/nspcc-dev/neo-go/pkg/neotest"
	"github.com/nspcc-dev/neo-go/pkg/smartcontract"
	"github.com/nspcc-dev/neo-go/pkg/smartcontract/callflag"
	"github.com/nspcc-dev/neo-go/pkg/smartcontract/manifest"
	"github.com/nspcc-dev/neo-go/pkg/smartcontract/nef"
	"github.com/nspcc-dev/neo-go/pkg/util"
	"github.com/nspcc-dev/neo-go/pkg/vm/opcode"

	"verif/lib/chainx"
)

//go:embed x.go.txt
var xSource []byte

// ops of x.go.txt beyond U and V
const (
	opPutW       = 15
	opDelW       = 16
	opGetW       = 17
	opFindW      = 18
	opLog        = 19
	opBurnGas    = 20
	opPutRO      = 21
	opDelRO      = 22
	opGetRO      = 23
	opFindRO     = 24
	opCallIter   = 25
	opIterAround = 26
	opIterOpen   = 27
)

var (
	xOnce sync.Once
	xBase *neotest.Contract
	xErr  error
)

// compileX returns the contract of x.go.txt as instance "UC" deployed by account 2.
func compileX() (*neotest.Contract, error) {
	xOnce.Do(func() {
		xBase, xErr = chainx.CompileSource(xSource, &compiler.Options{
			Name:               "X",
			NoEventsCheck:      true,
			NoPermissionsCheck: true,
			NoStandardCheck:    true,
			SafeMethods:        []string{"runSafe"},
			ContractEvents: []compiler.HybridEvent{{Name: "ev", Parameters: []compiler.HybridParameter{
				{Parameter: manifest.Parameter{Name: "n", Type: smartcontract.AnyType}},
			}}},
			Permissions: []manifest.Permission{*manifest.NewPermission(manifest.PermissionWildcard)},
		})
	})
	if xErr != nil {
		return nil, fmt.Errorf("compile X: %w", xErr)
	}
	mb, err := json.Marshal(xBase.Manifest)
	if err != nil {
		return nil, err
	}
	m := new(manifest.Manifest)
	if err := json.Unmarshal(mb, m); err != nil {
		return nil, err
	}
	m.Name = "UC"
	return &neotest.Contract{Hash: state.CreateContractHash(chainx.Acc(2).ScriptHash(), xBase.NEF.Checksum, m.Name), NEF: xBase.NEF, Manifest: m, DebugInfo: xBase.DebugInfo}, nil
}

// w2Method: the method of W2 that calls <inst>.run (safe: <inst>.runSafe) through a
// token with call flags f inside TRY{ CALLT } CATCH{ DROP; PUSH 71 }.
func w2Method(inst int, safe bool, f int) string {
	s := "r"
	if safe {
		s = "s"
	}
	return fmt.Sprintf("t%c%s%x", instNames[inst], s, f)
}

// buildW2 assembles the conduit W2, deployable by sender.
func buildW2(sender util.Uint160, ub, uc util.Uint160) (*neotest.Contract, error) {
	m := manifest.DefaultManifest("W2")
	m.Permissions = []manifest.Permission{*manifest.NewPermission(manifest.PermissionWildcard)}
	var script []byte
	var tokens []nef.MethodToken
	for _, inst := range []int{pB, pC} {
		h := ub
		if inst == pC {
			h = uc
		}
		for _, safe := range []bool{false, true} {
			name := "run"
			if safe {
				name = "runSafe"
			}
			for f := 0; f < 16; f++ {
				ti := len(tokens)
				tokens = append(tokens, nef.MethodToken{Hash: h, Method: name, ParamCount: 1, HasReturn: true, CallFlag: callflag.CallFlag(f)})
				m.ABI.Methods = append(m.ABI.Methods, manifest.Method{Name: w2Method(inst, safe, f), Offset: len(script), ReturnType: smartcontract.AnyType,
					Parameters: []manifest.Parameter{manifest.NewParameter("prog", smartcontract.AnyType)}})
				// 0 TRY c=8 f=0 | 3 CALLT | 6 ENDTRY +7 | 8 DROP | 9 PUSHINT8 71 | 11 ENDTRY +2 | 13 RET
				script = append(script, byte(opcode.TRY), 8, 0, byte(opcode.CALLT), byte(ti), 0,
					byte(opcode.ENDTRY), 7, byte(opcode.DROP), byte(opcode.PUSHINT8), 71, byte(opcode.ENDTRY), 2, byte(opcode.RET))
			}
		}
	}
	ne, err := nef.NewFile(script)
	if err != nil {
		return nil, err
	}
	ne.Tokens = tokens
	ne.Checksum = ne.CalculateChecksum()
	return &neotest.Contract{Hash: state.CreateContractHash(sender, ne.Checksum, m.Name), NEF: ne, Manifest: m}, nil
}
