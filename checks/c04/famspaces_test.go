package c04

// Hand-enumerated families of U programs for behaviours the shape grammar of
// prog_test.go does not produce. Each family is the full product of its stated
// alphabets; programs the model cannot judge are dropped (and counted).
//
//	iter:    an open Storage.Find iterator (instance C, op I) lives across a callee
//	         that re-enters C, changes the iterated storage and fails; it is
//	         consumed after the rollback. Openers x earlier writes x writers x
//	         changes x catch position.
//	destroy: a contract destroys itself (ContractManagement.destroy: registry
//	         cache, all its storage, Policy block list, vote revocation) in a
//	         callee; the callee or its caller then throws (or not); afterwards the
//	         contract is called / paid again in the same transaction.
//	deploy:  the same with a deployment and the id counter (Y), incl. redeployment
//	         after the rollback.

import "fmt"

type fam struct {
	Name  string
	Progs []string
	Solo  bool // block mode: every program on a fresh replica pair (the program may destroy an instance)
	Info  map[string]any
}

func iterPrograms(s0 *State) (out []string, dropped int) {
	openers := []string{"Cf[%s]", "T{Cf[%s]}{}", "$gC[%s]", "Bf[Cf[%s]]", "T{Bf[Cf[%s]!]}{}"}
	pres := []string{"", "E", "P", "D"}
	changes := []string{"P", "D", "E", "PE", "DE", "DP"}
	writers := []string{"Bf[Cf[%s]!]", "Bf[Cf[%s!]]", "Cf[%s!]", "Bf[Cf[%s]Cf[%s]!]", "Bf[T{Cf[%s!]}{}!]", "Bf[Cf[%s]]!"}
	inner := []string{"I[T{%s}{}]", "I[T{%s}{}T{%s}{}]", "I[T{%s}{E}]", "T{I[%s]}{}", "I[T{%s}{}]E", "I[I[T{%s}{}]]"}
	seen := map[string]bool{}
	for _, op := range openers {
		for _, pre := range pres {
			for _, ch := range changes {
				for _, wr := range writers {
					w := fmt.Sprintf(wr, ch, ch)
					if n := countVerbs(wr); n == 1 {
						w = fmt.Sprintf(wr, ch)
					}
					for _, in := range inner {
						body := fmt.Sprintf(in, w, w)
						if countVerbs(in) == 1 {
							body = fmt.Sprintf(in, w)
						}
						p := "A[" + fmt.Sprintf(op, pre+body) + "]"
						if seen[p] {
							continue
						}
						seen[p] = true
						m := runModel(s0, mustParse(p), false)
						if m.IterUnspec {
							dropped++
							continue
						}
						out = append(out, p)
					}
				}
			}
		}
	}
	sortProgs(out)
	return
}

func countVerbs(f string) (n int) {
	for i := 0; i+1 < len(f); i++ {
		if f[i] == '%' && f[i+1] == 's' {
			n++
		}
	}
	return
}

func destroyPrograms() []string {
	var out []string
	seen := map[string]bool{}
	for _, v := range []string{"B", "C"} {
		w := "C"
		if v == "C" {
			w = "B"
		}
		destroyers := []string{
			v + "f[EZ!]",              // destroys itself, then throws
			v + "f[EZ]",               // destroys itself and returns
			w + "f[" + v + "f[EZ]!]",  // destroyed inside another callee, which then throws
			w + "f[" + v + "f[EZ!]]",  // the exception crosses two contracts
			w + "f[$g" + v + "[Z]!]",  // destroys itself in a payment callback, the payer then throws
			w + "f[T{" + v + "f[EZ!]}{}]", // caught one level down
			w + "f[T{" + v + "f[EZ]}{}!]", // completed one level down (its layer is merged), then the caller throws
		}
		ctxs := []string{"T{%s}{}", "%s", "T{%s}{E}"}
		afters := []string{"", v + "f[E]", "$g" + v + "[E]", "T{" + v + "f[E!]}{}", w + "f[" + v + "f[E]]"}
		pres := []string{"", v + "f[E]"}
		for _, d := range destroyers {
			for _, c := range ctxs {
				for _, a := range afters {
					for _, pre := range pres {
						p := "A[" + pre + fmt.Sprintf(c, d) + a + "]"
						if !seen[p] {
							seen[p] = true
							out = append(out, p)
						}
					}
				}
			}
		}
	}
	sortProgs(out)
	return out
}

func deployPrograms() []string {
	var out []string
	seen := map[string]bool{}
	deployers := []string{"Bf[Y!]", "Bf[EY!]", "Bf[Cf[Y]!]", "Bf[Cf[Y!]]", "Bf[T{Cf[Y!]}{}]", "Bf[T{Cf[Y]}{}!]", "Bf[Y]", "$gB[Y]", "Bf[$gC[Y]!]"}
	ctxs := []string{"T{%s}{}", "%s", "T{%s}{Y}"}
	afters := []string{"", "Y", "Bf[Y]", "T{Bf[Y!]}{}Y", "Cf[Y]"}
	for _, d := range deployers {
		for _, c := range ctxs {
			for _, a := range afters {
				p := "A[" + fmt.Sprintf(c, d) + a + "]"
				if !seen[p] {
					seen[p] = true
					out = append(out, p)
				}
			}
		}
	}
	sortProgs(out)
	return out
}

func families(s0 *State) []fam {
	it, dropped := iterPrograms(s0)
	return []fam{
		{Name: "iter", Progs: it, Info: map[string]any{"programs": len(it), "dropped_unspecified_iterator_content": dropped,
			"what": "Storage.Find iterator opened before a callee that changes the iterated storage and fails, consumed after the rollback"}},
		{Name: "destroy", Progs: destroyPrograms(), Solo: true, Info: map[string]any{"what": "self-destruction in a callee x thrown/caught/committed x the contract is used again afterwards"}},
		{Name: "deploy", Progs: deployPrograms(), Info: map[string]any{"what": "deployment in a callee x thrown/caught/committed x redeployment afterwards (contract id counter)"}},
	}
}
