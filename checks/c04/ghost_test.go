package c04

// Layer F, the "ghost" family: a ContractManagement operation inside a call that
// is later DISCARDED, and the affected contract used AGAIN in the same transaction.
//
// Storage and the natives' caches live in the layered DAO and are dropped together
// with a failed callee's layer. Anything an execution remembers OUTSIDE those layers
// about a contract (which code a hash runs, which id its storage has, its method
// set, permissions, groups, whether it exists at all) survives the rollback, so a
// later use in the same transaction would run discarded code, reach a contract
// that was never deployed, or write storage under an id nobody owns. The older
// deploy / update / destroy scenarios never touch the contract again after the
// catch; this family is the product
//
//	kind    deploy of a new contract D (plain, with a _deploy program) | update of C: new
//	        code + method added, manifest only: method added / method removed /
//	        permissions reduced / group joined | C destroys itself
//	shape   how the call is discarded: the doer throws and A catches (depth 1); the
//	        doer completes, its caller M throws, A catches (depth 2); the doer throws,
//	        M catches (the uses then run in M); the doer acts in an onNEP17Payment
//	        callback reached through GAS.transfer (native frame) and the payer throws;
//	        the TRY is in the entry script
//	inside  what looks at the new state INSIDE the discarded call: nothing, a call of
//	        the old / added method, a run with a storage write, Management queries, a
//	        call from a third contract
//	after   the use after the catch: call by hash (old method, added method), a run
//	        that writes storage and notifies, getContract / getContractById /
//	        hasMethod / isContract, CALLT through the conduit W2, a call out of the
//	        contract (its permissions), CheckWitness with a CustomGroups signer (its
//	        groups), a GAS payment into it (native calling back), a call from a third
//	        contract, the Management operation once more
//
// Oracle (twin differential, no expected values): the same transaction in which
// the discarded call does NOTHING before it fails must be indistinguishable: same
// VM state, result stack, notifications and view of all storage in a test
// invocation; in a real block additionally the same state root, and the FOLLOWING
// transaction of the same block (the use once more, by another sender) has the
// same result. A case whose discarded part cannot complete on its own (control run
// without the failure faults) is dropped and counted. Control runs in which the
// operation is KEPT show, per (kind, use), that the use can see the operation at all.

import (
	"bytes"
	"encoding/json"
	"fmt"
	"os"
	"sort"
	"strings"
	"sync"

	"github.com/nspcc-dev/neo-go/pkg/compiler"
	"github.com/nspcc-dev/neo-go/pkg/core/native/nativehashes"
	"github.com/nspcc-dev/neo-go/pkg/core/state"
	"github.com/nspcc-dev/neo-go/pkg/core/transaction"
	"github.com/nspcc-dev/neo-go/pkg/crypto/keys"
	"github.com/nspcc-dev/neo-go/pkg/neotest"
	"github.com/nspcc-dev/neo-go/pkg/smartcontract"
	"github.com/nspcc-dev/neo-go/pkg/smartcontract/callflag"
	"github.com/nspcc-dev/neo-go/pkg/smartcontract/manifest"
	"github.com/nspcc-dev/neo-go/pkg/smartcontract/trigger"
	"github.com/nspcc-dev/neo-go/pkg/util"
	"github.com/nspcc-dev/neo-go/pkg/vm/opcode"

	"verif/lib/chainx"
	"verif/lib/vk"
)

// ---- world ----------------------------------------------------------------------------------

type gworld struct {
	ew       *eworld
	w        *world
	d        util.Uint160 // the contract a deploy kind creates (X under the name XD, sender account 1)
	dNEF     []byte
	dMan     []byte
	nextID   int32
	nef2     []byte // version 2 of x.go.txt: run logs start with 222, other(x) = x+2, method `added`
	man2     []byte
	manAdd   []byte // same code, manifest with the method `added` (at other's offset)
	manDel   []byte // same code, manifest without `other`
	manPerm  []byte // same code, may call only UB.nothing
	manGroup []byte // same code, member of group G
	group    *keys.PublicKey
}

var (
	x2Once sync.Once
	x2Base *neotest.Contract
	x2Err  error
)

func compileX2() (*neotest.Contract, error) {
	x2Once.Do(func() {
		src := bytes.ReplaceAll(xSource, []byte("log = []any{}"), []byte("log = []any{222}"))
		src = bytes.ReplaceAll(src, []byte("return x + 1"), []byte("return x + 2"))
		if bytes.Equal(src, xSource) || !bytes.Contains(src, []byte("return x + 2")) {
			x2Err = fmt.Errorf("x.go.txt: the version 2 edits do not apply")
			return
		}
		src = append(src, []byte("\n// Added exists in version 2 only.\nfunc Added(x int) int {\n\treturn x + 7\n}\n")...)
		x2Base, x2Err = chainx.CompileSource(src, &compiler.Options{
			Name:               "X",
			NoEventsCheck:      true,
			NoPermissionsCheck: true,
			NoStandardCheck:    true,
			SafeMethods:        []string{"runSafe"},
			ContractEvents: []compiler.HybridEvent{{Name: "ev", Parameters: []compiler.HybridParameter{
				{Parameter: manifest.Parameter{Name: "n", Type: smartcontract.AnyType}},
			}}},
			Permissions: []manifest.Permission{*manifest.NewPermission(manifest.PermissionWildcard)},
		})
	})
	return x2Base, x2Err
}

func cloneManifest(m *manifest.Manifest) (*manifest.Manifest, error) {
	b, err := json.Marshal(m)
	if err != nil {
		return nil, err
	}
	out := new(manifest.Manifest)
	return out, json.Unmarshal(b, out)
}

func buildGhostWorld(ew *eworld) (*gworld, error) {
	w := ew.w
	g := &gworld{ew: ew, w: w, nextID: w.cw.MaxID + 1}
	uc := w.cw.UC
	var err error
	// D
	md, err := cloneManifest(uc.Manifest)
	if err != nil {
		return nil, err
	}
	md.Name = "XD"
	if g.dMan, err = json.Marshal(md); err != nil {
		return nil, err
	}
	if g.dNEF, err = uc.NEF.Bytes(); err != nil {
		return nil, err
	}
	g.d = state.CreateContractHash(chainx.Acc(1).ScriptHash(), uc.NEF.Checksum, md.Name)
	// version 2
	x2, err := compileX2()
	if err != nil {
		return nil, fmt.Errorf("compile X version 2: %w", err)
	}
	m2, err := cloneManifest(x2.Manifest)
	if err != nil {
		return nil, err
	}
	m2.Name = uc.Manifest.Name
	if m2.ABI.GetMethod("added", 1) == nil {
		return nil, fmt.Errorf("version 2 has no method `added`")
	}
	if g.man2, err = json.Marshal(m2); err != nil {
		return nil, err
	}
	if g.nef2, err = x2.NEF.Bytes(); err != nil {
		return nil, err
	}
	variant := func(f func(m *manifest.Manifest) error) ([]byte, error) {
		m, err := cloneManifest(uc.Manifest)
		if err != nil {
			return nil, err
		}
		if err := f(m); err != nil {
			return nil, err
		}
		return json.Marshal(m)
	}
	if g.manAdd, err = variant(func(m *manifest.Manifest) error {
		o := m.ABI.GetMethod("other", 1)
		if o == nil {
			return fmt.Errorf("no method other")
		}
		a := *o
		a.Name = "added"
		a.Parameters = append([]manifest.Parameter{}, o.Parameters...)
		m.ABI.Methods = append(m.ABI.Methods, a)
		return nil
	}); err != nil {
		return nil, err
	}
	if g.manDel, err = variant(func(m *manifest.Manifest) error {
		var ms []manifest.Method
		for _, x := range m.ABI.Methods {
			if x.Name != "other" {
				ms = append(ms, x)
			}
		}
		m.ABI.Methods = ms
		return nil
	}); err != nil {
		return nil, err
	}
	if g.manPerm, err = variant(func(m *manifest.Manifest) error {
		p := manifest.NewPermission(manifest.PermissionHash, w.hashes[pB])
		p.Methods.Add("nothing")
		m.Permissions = []manifest.Permission{*p}
		return nil
	}); err != nil {
		return nil, err
	}
	gk := chainx.Acc(9).PrivateKey()
	g.group = gk.PublicKey()
	if g.manGroup, err = variant(func(m *manifest.Manifest) error {
		m.Groups = []manifest.Group{{PublicKey: g.group, Signature: gk.Sign(uc.Hash.BytesBE())}}
		return nil
	}); err != nil {
		return nil, err
	}
	return g, nil
}

// ---- alphabets ------------------------------------------------------------------------------

type gkind struct {
	Name   string
	Doer   int                        // the instance that calls ContractManagement
	Target func(*gworld) util.Uint160 // the contract the operation affects
	ID     func(*gworld) int32
	Op     func(*gworld) []any
}

func gkinds() []gkind {
	mgmt := nativehashes.ContractManagement
	tc := func(g *gworld) util.Uint160 { return g.w.hashes[pC] }
	ic := func(g *gworld) int32 { return g.w.ids[pC] }
	td := func(g *gworld) util.Uint160 { return g.d }
	id := func(g *gworld) int32 { return g.nextID }
	dprog := []any{[]any{chainx.OpPut, []byte("dep"), []byte("1")}, []any{chainx.OpNotify, 9}}
	upd := func(name string, f func(g *gworld) (nb, mb []byte)) gkind {
		return gkind{Name: name, Doer: pC, Target: tc, ID: ic, Op: func(g *gworld) []any {
			nb, mb := f(g)
			if nb == nil {
				return ucall(mgmt, "update", nil, mb, nil)
			}
			return ucall(mgmt, "update", nb, mb, nil)
		}}
	}
	return []gkind{
		{Name: "deploy", Doer: pB, Target: td, ID: id, Op: func(g *gworld) []any { return ucall(mgmt, "deploy", g.dNEF, g.dMan, nil) }},
		upd("update-code", func(g *gworld) ([]byte, []byte) { return g.nef2, g.man2 }),
		{Name: "destroy", Doer: pC, Target: tc, ID: ic, Op: func(g *gworld) []any { return ucall(mgmt, "destroy") }},
		upd("update-method-removed", func(g *gworld) ([]byte, []byte) { return nil, g.manDel }),
		upd("update-method-added", func(g *gworld) ([]byte, []byte) { return nil, g.manAdd }),
		upd("update-permissions", func(g *gworld) ([]byte, []byte) { return nil, g.manPerm }),
		upd("update-group", func(g *gworld) ([]byte, []byte) { return nil, g.manGroup }),
		{Name: "deploy-running-_deploy", Doer: pB, Target: td, ID: id, Op: func(g *gworld) []any { return ucall(mgmt, "deploy", g.dNEF, g.dMan, dprog) }},
	}
}

var gShapes = []string{"d1", "d2-outer-throws", "d2-mid-catches", "pay-callback", "entry-try", "d1-used-before"}

const (
	gsD1 = iota
	gsD2Outer
	gsD2Mid
	gsPay
	gsEntry
	gsD1Before // like d1, and the contract was looked up BEFORE the discarded call as well
)

// guse: a use of the affected contract; Ops gives the U ops executed by the instance `by`.
type guse struct {
	Name    string
	Mutates bool // changes the contract registry when it succeeds: the replicas are replaced after its block
	Ops     func(g *gworld, k *gkind, by int) []any
}

func (g *gworld) other(by int) int {
	if by == pB {
		return pC
	}
	return pB
}

func guses() []guse {
	mgmt, gas := nativehashes.ContractManagement, nativehashes.GasToken
	run := func(h util.Uint160, prog ...any) []any { return []any{chainx.OpRun, h.BytesBE(), 15, prog} }
	u := func(name string, f func(g *gworld, k *gkind, by int) []any) guse { return guse{Name: name, Ops: f} }
	return []guse{
		u("none", func(*gworld, *gkind, int) []any { return nil }),
		u("call-other", func(g *gworld, k *gkind, by int) []any { return []any{ucall(k.Target(g), "other", 1)} }),
		u("call-added", func(g *gworld, k *gkind, by int) []any { return []any{ucall(k.Target(g), "added", 1)} }),
		u("run-put-notify", func(g *gworld, k *gkind, by int) []any {
			return []any{run(k.Target(g), uput("g", "1"), []any{chainx.OpNotify, 3})}
		}),
		u("queries", func(g *gworld, k *gkind, by int) []any {
			t := k.Target(g).BytesBE()
			return []any{ucall(mgmt, "getContract", t), ucall(mgmt, "getContractById", int64(k.ID(g))), ucall(mgmt, "hasMethod", t, "other", 1),
				ucall(mgmt, "hasMethod", t, "added", 1), ucall(mgmt, "isContract", t)}
		}),
		u("third-calls", func(g *gworld, k *gkind, by int) []any {
			m := g.other(k.Doer)
			if by == m {
				m = pA
			}
			return []any{run(g.w.hashes[m], ucall(k.Target(g), "other", 1))}
		}),
		u("callt", func(g *gworld, k *gkind, by int) []any {
			return []any{ucall(g.w.w2, w2Method(pC, false, 15), []any{uput("ct", "1"), []any{chainx.OpNotify, 4}})}
		}),
		u("calls-out", func(g *gworld, k *gkind, by int) []any {
			return []any{run(k.Target(g), ucall(g.w.hashes[pA], "other", 1))}
		}),
		u("witness-group", func(g *gworld, k *gkind, by int) []any {
			return []any{run(k.Target(g), []any{chainx.OpCheckWitness, chainx.Acc(4).ScriptHash().BytesBE()})}
		}),
		u("pay", func(g *gworld, k *gkind, by int) []any {
			return []any{ucall(gas, "transfer", g.w.hashes[by].BytesBE(), k.Target(g).BytesBE(), 1, []any{uput("pay", "1"), []any{chainx.OpNotify, 5}})}
		}),
		u("find", func(g *gworld, k *gkind, by int) []any {
			return []any{run(k.Target(g), []any{chainx.OpFind, []byte(""), 0})}
		}),
		{Name: "again", Mutates: true, Ops: func(g *gworld, k *gkind, by int) []any {
			return []any{run(g.w.hashes[k.Doer], k.Op(g)), ucall(mgmt, "getContract", k.Target(g).BytesBE())}
		}},
	}
}

// inside uses: what looks at the new state inside the discarded call (every use but the repetition)
var gInside = func() (out []string) {
	for _, u := range guses() {
		if !u.Mutates {
			out = append(out, u.Name)
		}
	}
	return
}()

func guseByName(n string) *guse {
	us := guses()
	for i := range us {
		if us[i].Name == n {
			return &us[i]
		}
	}
	return nil
}

// ---- scripts --------------------------------------------------------------------------------

const (
	gtCase    = iota // operation, inside use, failure
	gtTwin           // failure only
	gtKept           // operation, inside use, NO failure (control: the operation is kept)
	gtNothing        // neither (control)
)

type gcase struct {
	Kind, Shape, Inside, After string
}

func (c gcase) name() string {
	return fmt.Sprintf("%s:%s:in=%s:after=%s", c.Kind, c.Shape, c.Inside, c.After)
}

func gShapeIndex(s string) int {
	for i, x := range gShapes {
		if x == s {
			return i
		}
	}
	return -1
}

// script builds the transaction; after==nil leaves the use out.
func (g *gworld) script(k *gkind, shape int, inside, after *guse, term int) []byte {
	w := g.w
	ua, doer := w.hashes[pA], w.hashes[k.Doer]
	midInst := g.other(k.Doer)
	mid := w.hashes[midInst]
	m1, m2 := uput("m1", "before"), uput("m2", "after")
	try := func(ops ...any) []any { return []any{chainx.OpTry, ops, []any{}} }
	run := func(h util.Uint160, prog []any) []any { return []any{chainx.OpRun, h.BytesBE(), 15, prog} }
	throw := []any{chainx.OpThrow}
	var act []any // what the doer does
	if term == gtCase || term == gtKept {
		act = append(act, k.Op(g))
		act = append(act, inside.Ops(g, k, k.Doer)...)
	}
	fails := term == gtCase || term == gtTwin
	with := func(ops []any, extra ...any) []any { return append(append([]any{}, ops...), extra...) }
	aft := func(by int) []any {
		if after == nil {
			return nil
		}
		return after.Ops(g, k, by)
	}
	switch shape {
	case gsD1:
		body := act
		if fails {
			body = with(act, throw)
		}
		return urun(ua, with(with([]any{m1, try(run(doer, body))}, aft(pA)...), m2)...)
	case gsD1Before:
		body := act
		if fails {
			body = with(act, throw)
		}
		pre := guseByName("queries").Ops(g, k, pA)
		if k.Doer == pC { // the target exists beforehand
			pre = append(pre, guseByName("call-other").Ops(g, k, pA)...)
			pre = append(pre, guseByName("callt").Ops(g, k, pA)...)
		}
		return urun(ua, with(with(with([]any{m1}, pre...), try(run(doer, body))), with(aft(pA), m2)...)...)
	case gsD2Outer:
		mb := []any{run(doer, act)}
		if fails {
			mb = append(mb, throw)
		}
		return urun(ua, with(with([]any{m1, try(run(mid, mb))}, aft(pA)...), m2)...)
	case gsD2Mid:
		body := act
		if fails {
			body = with(act, throw)
		}
		return urun(ua, m1, run(mid, with([]any{try(run(doer, body))}, aft(midInst)...)), m2)
	case gsPay:
		mb := []any{ucall(nativehashes.GasToken, "transfer", mid.BytesBE(), doer.BytesBE(), 1, with(act))}
		if fails {
			mb = append(mb, throw)
		}
		return urun(ua, with(with([]any{m1, try(run(mid, mb))}, aft(pA)...), m2)...)
	case gsEntry:
		body := act
		if fails {
			body = with(act, throw)
		}
		a := newAsm()
		a.raw(callSnippet(ua, "run", 15, []any{m1})...).op(opcode.DROP)
		a.try("catch", "")
		a.raw(callSnippet(doer, "run", 15, with(body))...).op(opcode.DROP)
		a.jmp(opcode.ENDTRYL, "end")
		a.label("catch").op(opcode.DROP)
		a.jmp(opcode.ENDTRYL, "end")
		a.label("end").raw(callSnippet(ua, "run", 15, with(aft(pA), m2))...).op(opcode.RET)
		return a.bytes()
	}
	panic("bad shape")
}

// follow: the transaction after the case in the same block (sender account 3).
func (g *gworld) follow(k *gkind, after *guse) []byte {
	ops := after.Ops(g, k, pA)
	if len(ops) == 0 {
		ops = guseByName("call-other").Ops(g, k, pA)
		ops = append(ops, guseByName("queries").Ops(g, k, pA)...)
	}
	return urun(g.w.hashes[pA], append(append([]any{}, ops...), uput("m3", "next"))...)
}

func (c gcase) describe() string {
	shape := map[string]string{
		"d1":              "A.run([put m1, TRY{ DOER.run([OP, INSIDE, THROW]) }CATCH{}, AFTER, put m2])",
		"d2-outer-throws": "A.run([put m1, TRY{ M.run([DOER.run([OP, INSIDE]), THROW]) }CATCH{}, AFTER, put m2])",
		"d2-mid-catches":  "A.run([put m1, M.run([TRY{ DOER.run([OP, INSIDE, THROW]) }CATCH{}, AFTER]), put m2])",
		"pay-callback":    "A.run([put m1, TRY{ M.run([GAS.transfer(M -> DOER, 1, data = program [OP, INSIDE] run by DOER.onNEP17Payment), THROW]) }CATCH{}, AFTER, put m2])",
		"d1-used-before":  "A.run([put m1, use queries (+ call-other, callt if the contract exists), TRY{ DOER.run([OP, INSIDE, THROW]) }CATCH{}, AFTER, put m2])",
		"entry-try":       "entry script: A.run([put m1]); TRY{ DOER.run([OP, INSIDE, THROW]) }CATCH{}; A.run([AFTER, put m2])",
	}[c.Shape]
	r := strings.NewReplacer("OP", "ContractManagement."+c.Kind, "INSIDE", "use "+c.Inside, "AFTER", "use "+c.After)
	return r.Replace(shape) + "; twin: the same without OP and INSIDE; DOER = C (update, destroy) or B (deploy), M = the other one; next transaction of the block: A.run([use " + c.After + "])"
}

// ---- executions -----------------------------------------------------------------------------

func (g *gworld) signers() []neotest.Signer {
	return []neotest.Signer{chainx.Signer(1), chainx.Signer(4)}
}

func (g *gworld) scopes(tx *transaction.Transaction) {
	tx.Signers[1].Scopes = transaction.CustomGroups
	tx.Signers[1].AllowedGroups = keys.PublicKeys{g.group}
}

const gFee = 60 * gasUnit

func (g *gworld) test(rg *rig, script []byte, ids []int32) (*eres, error) {
	tx := transaction.New(script, gFee)
	tx.ValidUntilBlock = rg.n.BC.BlockHeight() + 5
	for _, s := range g.signers() {
		tx.Signers = append(tx.Signers, transaction.Signer{Account: s.ScriptHash(), Scopes: transaction.Global})
	}
	g.scopes(tx)
	ic, err := rg.n.BC.GetTestVM(trigger.Application, tx, nil)
	if err != nil {
		return nil, err
	}
	ic.VM.LoadScriptWithFlags(script, callflag.All)
	ic.VM.SetGasLimit(gFee)
	res := &eres{}
	if err := ic.Exec(); err != nil {
		res.Fault = err.Error()
	}
	res.Halt = !ic.VM.HasFailed()
	if res.Halt {
		res.Items = ic.VM.Estack().ToArray()
		res.Stack = rg.w.renderStack(res.Items)
		res.Notes = strings.Join(rg.w.renderEvents(ic.Notifications), " ")
		res.Dump = daoDump(ic, ids)
	}
	return res, nil
}

type gstats struct {
	mu                                                    sync.Mutex
	cases, dropped, testHalt, testFault, blocks, execs    vk.Counter
	blockHalt, blockFault, followHalt, followFault, pairs vk.Counter
	outcomes                                              map[string]bool // kind:shape-class:inside:after:HALT|FAULT
	results                                               *vk.Set         // distinct (stack, notifications) of halting cases
	sees                                                  map[string]bool // kind/after: the use tells the kept operation from no operation
	insideSees                                            map[string]bool // kind/inside: executable inside the call
}

func newGStats() *gstats {
	return &gstats{outcomes: map[string]bool{}, results: vk.NewSet(), sees: map[string]bool{}, insideSees: map[string]bool{}}
}

func (st *gstats) mark(m map[string]bool, k string) {
	st.mu.Lock()
	m[k] = true
	st.mu.Unlock()
}

type gfail struct {
	Case   gcase
	Mode   string
	What   string
	Detail []string
}

func short(s string) string {
	if len(s) > 600 {
		return s[:600] + fmt.Sprintf("...(%d bytes)", len(s))
	}
	return s
}

func gHF(h bool) string {
	if h {
		return "HALT"
	}
	return "FAULT"
}

// runCase: one case as a test invocation on X and (blocks) in a real block on X against the twin on R.
func (g *gworld) runCase(p *epair, k *gkind, cs gcase, blocks bool, st *gstats) (fails []gfail, replace bool, err error) {
	shape := gShapeIndex(cs.Shape)
	inside, after := guseByName(cs.Inside), guseByName(cs.After)
	if shape < 0 || inside == nil || after == nil {
		return nil, false, fmt.Errorf("unknown case %s", cs.name())
	}
	ids := p.X.n.ContractIDs(g.ew.maxID)
	fail := func(mode, what string, d ...string) {
		for i := range d {
			d[i] = short(d[i])
		}
		fails = append(fails, gfail{Case: cs, Mode: mode, What: what, Detail: d})
	}
	caseScript, twinScript := g.script(k, shape, inside, after, gtCase), g.script(k, shape, inside, after, gtTwin)
	r1, err := g.test(p.X, caseScript, ids)
	if err != nil {
		return nil, false, err
	}
	r2, err := g.test(p.X, twinScript, ids)
	if err != nil {
		return nil, false, err
	}
	st.execs.Add(2)
	st.cases.Inc()
	if r1.Halt {
		st.testHalt.Inc()
		st.results.Add(r1.Stack + "|" + r1.Notes)
	} else {
		st.testFault.Inc()
	}
	st.mark(st.outcomes, fmt.Sprintf("%s:%s:in=%s:after=%s:%s", cs.Kind, cs.Shape, cs.Inside, cs.After, gHF(r1.Halt)))
	switch {
	case r1.Halt != r2.Halt:
		fail("test", "vmstate", fmt.Sprintf("with the discarded operation: %s %s", gHF(r1.Halt), r1.Fault), fmt.Sprintf("without it: %s %s", gHF(r2.Halt), r2.Fault))
	case r1.Halt:
		if d := dumpDiff(r1.Dump, r2.Dump); len(d) > 0 {
			fail("test", "storage", d...)
		}
		if r1.Notes != r2.Notes {
			fail("test", "notifications", "with the discarded operation: "+short(r1.Notes), "without it: "+short(r2.Notes))
		}
		if r1.Stack != r2.Stack {
			fail("test", "result", "with the discarded operation: "+short(r1.Stack), "without it: "+short(r2.Stack))
		}
	}
	if !blocks {
		return fails, false, nil
	}
	T, err := p.X.n.MakeTx(caseScript, g.signers(), chainx.SysFee(gFee), g.scopes)
	if err != nil {
		return fails, false, fmt.Errorf("%s: make tx: %w", cs.name(), err)
	}
	twin, err := p.R.manualTx(twinScript, T, g.signers())
	if err != nil {
		return fails, false, err
	}
	F, err := p.X.n.MakeTx(g.follow(k, after), []neotest.Signer{chainx.Signer(3)}, chainx.SysFee(gFee))
	if err != nil {
		return fails, false, fmt.Errorf("%s: make follow tx: %w", cs.name(), err)
	}
	if _, err := p.X.n.AddBlock(T, F); err != nil {
		fail("block", "block-rejected", err.Error())
		return fails, true, nil
	}
	if _, err := p.R.n.AddBlock(twin, cloneTx(F)); err != nil {
		return fails, true, fmt.Errorf("%s: twin block rejected: %w", cs.name(), err)
	}
	st.blocks.Add(2)
	st.execs.Add(4)
	bx, err := p.X.eAER(T.Hash())
	if err != nil {
		return fails, true, err
	}
	br, err := p.R.eAER(twin.Hash())
	if err != nil {
		return fails, true, err
	}
	fx, err := p.X.eAER(F.Hash())
	if err != nil {
		return fails, true, err
	}
	fr, err := p.R.eAER(F.Hash())
	if err != nil {
		return fails, true, err
	}
	if bx.Halt {
		st.blockHalt.Inc()
	} else {
		st.blockFault.Inc()
	}
	if fx.Halt {
		st.followHalt.Inc()
	} else {
		st.followFault.Inc()
	}
	switch {
	case bx.Halt != br.Halt:
		fail("block", "vmstate", fmt.Sprintf("with the discarded operation: %s %s", gHF(bx.Halt), bx.Fault), fmt.Sprintf("without it: %s %s", gHF(br.Halt), br.Fault))
	case bx.Halt && bx.Notes != br.Notes:
		fail("block", "notifications", "with the discarded operation: "+short(bx.Notes), "without it: "+short(br.Notes))
	case bx.Halt && bx.Stack != br.Stack:
		fail("block", "result", "with the discarded operation: "+short(bx.Stack), "without it: "+short(br.Stack))
	}
	switch {
	case fx.Halt != fr.Halt:
		fail("block", "next-tx-vmstate", fmt.Sprintf("after the discarded operation: %s %s", gHF(fx.Halt), fx.Fault), fmt.Sprintf("without it: %s %s", gHF(fr.Halt), fr.Fault))
	case fx.Halt && (fx.Notes != fr.Notes || fx.Stack != fr.Stack):
		fail("block", "next-tx-result", "after the discarded operation: "+short(fx.Stack)+" "+short(fx.Notes), "without it: "+short(fr.Stack)+" "+short(fr.Notes))
	}
	if a, b := p.X.stateRoot(), p.R.stateRoot(); a != b {
		fail("block", "state-root", storageDiff(p.X, p.R, g.ew.maxID)...)
		return fails, true, nil
	}
	return fails, after.Mutates && (bx.Halt || fx.Halt), nil
}

// controls: (kind, shape class, inside) is executable iff the kept variant HALTs; per after-use,
// whether the use tells the kept operation from no operation.
func (g *gworld) executable(p *epair, k *gkind, shape int, inside *guse, st *gstats) (bool, error) {
	ids := p.X.n.ContractIDs(g.ew.maxID)
	r, err := g.test(p.X, g.script(k, shape, inside, nil, gtKept), ids)
	if err != nil {
		return false, err
	}
	st.execs.Inc()
	return r.Halt, nil
}

func (g *gworld) sees(p *epair, k *gkind, after *guse, st *gstats) error {
	ids := p.X.n.ContractIDs(g.ew.maxID)
	none := guseByName("none")
	// entry shape: the result stack is the log of the use alone (the doer's result is dropped)
	r1, err := g.test(p.X, g.script(k, gsEntry, none, after, gtKept), ids)
	if err != nil {
		return err
	}
	r2, err := g.test(p.X, g.script(k, gsEntry, none, after, gtNothing), ids)
	if err != nil {
		return err
	}
	st.execs.Add(2)
	if r1.Halt != r2.Halt || (r1.Halt && r1.Stack != r2.Stack) {
		st.mark(st.sees, k.Name+"/"+after.Name)
	}
	return nil
}

type gplan struct {
	insides []string
	afters  []string
	blocks  func(shape int, inside, after string) bool
}

func gPlan(thorough bool) gplan {
	var afters []string
	for _, u := range guses() {
		afters = append(afters, u.Name)
	}
	return gplan{insides: gInside, afters: afters, blocks: func(shape int, inside, after string) bool {
		if thorough {
			return true
		}
		// quick: every (shape, after) in a block for no inside use, two looking ones and the use itself
		return inside == "none" || inside == "call-other" || inside == "queries" || inside == after
	}}
}

// runGroup: all cases of one (kind, shape).
func (g *gworld) runGroup(k *gkind, shape int, pl gplan, st *gstats, stop func() bool) (fails []gfail, err error) {
	newPair := func() (*epair, error) {
		st.pairs.Inc()
		return g.ew.newPair(&eop{Name: "ghost"}, newEStats())
	}
	p, err := newPair()
	if err != nil {
		return nil, err
	}
	defer func() { p.close() }()
	if shape == gsD1 {
		for _, a := range pl.afters {
			if err := g.sees(p, k, guseByName(a), st); err != nil {
				return nil, err
			}
		}
	}
	for _, in := range pl.insides {
		inside := guseByName(in)
		ok, err := g.executable(p, k, shape, inside, st)
		if err != nil {
			return fails, err
		}
		if !ok {
			st.dropped.Add(len(pl.afters))
			continue
		}
		st.mark(st.insideSees, k.Name+"/"+in)
		for _, a := range pl.afters {
			if stop() || len(fails) >= 6 {
				return fails, nil
			}
			cs := gcase{Kind: k.Name, Shape: gShapes[shape], Inside: in, After: a}
			fs, replace, err := g.runCase(p, k, cs, pl.blocks(shape, in, a), st)
			fails = append(fails, fs...)
			if err != nil {
				return fails, err
			}
			if replace {
				p.close()
				if p, err = newPair(); err != nil {
					return fails, err
				}
			}
		}
	}
	// the live nodes after everything (X also saw every test invocation)
	hashes := []util.Uint160{g.w.hashes[pA], g.w.hashes[pB], g.w.hashes[pC], g.d, g.w.w2}
	ox, err := p.X.n.Observe(g.ew.maxID, hashes)
	if err != nil {
		return fails, err
	}
	or, err := p.R.n.Observe(g.ew.maxID, hashes)
	if err != nil {
		return fails, err
	}
	ox.AERs, or.AERs = "", ""
	ox.Hash, or.Hash = "", ""
	if wh, d := diffObs(ox, or); len(wh) > 0 {
		fails = append(fails, gfail{Case: gcase{Kind: k.Name, Shape: gShapes[shape], Inside: "*", After: "*"}, Mode: "live", What: "live-nodes:" + wh[0], Detail: d})
	}
	return fails, nil
}

func (c *checker) runGhost(hw *world) (cov map[string]any, execs int) {
	r := c.r
	ew, err := buildEscapeWorld(hw)
	if err != nil {
		c.harness(fmt.Errorf("layer F: %w", err))
		return map[string]any{}, 0
	}
	g, err := buildGhostWorld(ew)
	if err != nil {
		c.harness(fmt.Errorf("layer F: %w", err))
		return map[string]any{}, 0
	}
	kinds := gkinds()
	pl := gPlan(r.Thorough())
	st := newGStats()
	var nfail vk.Counter
	r.Parallel(len(kinds)*len(gShapes), func(i int) {
		k, shape := &kinds[i/len(gShapes)], i%len(gShapes)
		var fails []gfail
		var err error
		if p := chainxTry(func() { fails, err = g.runGroup(k, shape, pl, st, r.TooMany) }); p != nil {
			fails = append(fails, gfail{Case: gcase{Kind: k.Name, Shape: gShapes[shape], Inside: "*", After: "*"}, Mode: "test", What: "panic", Detail: []string{p.Error()}})
		}
		if err != nil {
			c.harness(fmt.Errorf("layer F %s:%s: %w", k.Name, gShapes[shape], err))
		}
		for _, f := range fails {
			nfail.Inc()
			r.Outcome("F:DIFFERS:" + f.Mode + ":" + f.What)
			if c.admitN("ghost:"+f.Mode+":"+f.What+":"+f.Case.Kind+":"+f.Case.After, []string{"ghost"}, 2) {
				r.Violation(fmt.Sprintf("ghost:%s:%s:%s", f.Mode, f.What, f.Case.name()), caseRec{Layer: "F", Mode: "ghost", Prog: f.Case.name(), Orig: f.Case.describe(), Family: familyHF,
					History: []string{f.Mode}, What: []string{f.What}, Detail: f.Detail})
			}
		}
	})
	fmt.Printf("layer F ghost: %d cases (%d dropped: discarded part not executable; %d differ), %d blocks, %.1fs\n", st.cases.Get(), st.dropped.Get(), nfail.Get(), st.blocks.Get(), r.Elapsed())
	// outcome classes for the evidence: kind x after x HALT/FAULT
	classes := map[string]bool{}
	for k := range st.outcomes {
		f := strings.Split(k, ":")
		classes[f[0]+":"+f[3]+":"+f[4]] = true
	}
	for k := range classes {
		r.Outcome("F:" + k)
	}
	keys := func(m map[string]bool) []string {
		var out []string
		for k := range m {
			out = append(out, k)
		}
		sort.Strings(out)
		return out
	}
	var kn, un []string
	for _, k := range kinds {
		kn = append(kn, k.Name)
	}
	for _, u := range guses() {
		un = append(un, u.Name)
	}
	return map[string]any{"family": familyHF, "kinds": kn, "shapes": gShapes, "inside_uses": gInside, "after_uses": un,
		"cases": st.cases.Get(), "dropped_discarded_part_not_executable": st.dropped.Get(), "test_invocation_halt": st.testHalt.Get(), "test_invocation_fault_in_the_use_after_the_catch": st.testFault.Get(),
		"blocks": st.blocks.Get(), "block_cases_halt": st.blockHalt.Get(), "block_cases_fault": st.blockFault.Get(), "next_transaction_halt": st.followHalt.Get(), "next_transaction_fault": st.followFault.Get(),
		"replica_pairs": st.pairs.Get(), "distinct_case_outcomes": len(st.outcomes), "distinct_outcome_classes": len(classes), "distinct_results_of_halting_cases": st.results.Len(),
		"uses_that_see_the_operation_when_it_is_kept(kind/use)": keys(st.sees), "inside_uses_executable(kind/use)": keys(st.insideSees),
		"uses_that_see_the_kept_operation": len(st.sees), "differing": nfail.Get(), "executions": st.execs.Get()}, int(st.execs.Get())
}

// replayGhost re-runs one recorded case.
func (c *checker) replayGhost(rec *caseRec) (what, detail []string, err error) {
	hw, err := buildWorldHF(false, 0, true)
	if err != nil {
		return nil, nil, err
	}
	ew, err := buildEscapeWorld(hw)
	if err != nil {
		return nil, nil, err
	}
	g, err := buildGhostWorld(ew)
	if err != nil {
		return nil, nil, err
	}
	f := strings.Split(rec.Prog, ":")
	if len(f) != 4 {
		return nil, nil, fmt.Errorf("bad ghost case %q", rec.Prog)
	}
	cs := gcase{Kind: f[0], Shape: f[1], Inside: strings.TrimPrefix(f[2], "in="), After: strings.TrimPrefix(f[3], "after=")}
	kinds := gkinds()
	var k *gkind
	for i := range kinds {
		if kinds[i].Name == cs.Kind {
			k = &kinds[i]
		}
	}
	if k == nil || gShapeIndex(cs.Shape) < 0 {
		return nil, nil, fmt.Errorf("unknown ghost case %q", rec.Prog)
	}
	st := newGStats()
	var fails []gfail
	if cs.Inside == "*" {
		fails, err = g.runGroup(k, gShapeIndex(cs.Shape), gPlan(true), st, func() bool { return false })
	} else {
		p, e := ew.newPair(&eop{Name: "ghost"}, newEStats())
		if e != nil {
			return nil, nil, e
		}
		defer p.close()
		fails, _, err = g.runCase(p, k, cs, true, st)
	}
	for _, fl := range fails {
		what, detail = append(what, fl.Mode+":"+fl.What), append(detail, fl.Detail...)
	}
	return what, detail, err
}

var _ = os.Getenv
