package c04

// Hand-assembled entry scripts (programs "H[...]").
//
// The universal contract's TRY is Go defer/recover: its handler runs after the
// TRY block ended, and a contract written in the Go dialect cannot place a call
// inside the CATCH or FINALLY part of a handler that is nested in another
// handler of the same context. Whether a contract call gets its own rollback
// layer is decided from exactly that state (VM.ContractHasTryBlock looks at the
// try stack of the calling context), so these scripts are assembled at opcode
// level: TRY_L/ENDTRY_L/ENDFINALLY nested to any depth, with contract calls,
// native calls, THROW and ABORT at every position, and CALL_L subroutines (a
// call made from a deeper frame of the same script context).
//
// The script keeps a log array in static slot 0: every call appends its result
// (a callee's own op log), entering a CATCH part appends 71, entering a FINALLY
// part appends 72; the log is the script's result, compared with the model's.

import (
	"encoding/binary"

	"github.com/nspcc-dev/neo-go/pkg/core/native/nativehashes"
	"github.com/nspcc-dev/neo-go/pkg/io"
	"github.com/nspcc-dev/neo-go/pkg/smartcontract/callflag"
	"github.com/nspcc-dev/neo-go/pkg/util"
	"github.com/nspcc-dev/neo-go/pkg/vm/emit"
	"github.com/nspcc-dev/neo-go/pkg/vm/opcode"

	"verif/lib/chainx"
)

// callSnippet is the (position independent) code of System.Contract.Call(h, method, flags, args).
func callSnippet(h util.Uint160, method string, flags int, args ...any) []byte {
	w := io.NewBufBinWriter()
	emit.AppCall(w.BinWriter, h, method, callflag.CallFlag(flags), args...)
	if w.Err != nil {
		panic(w.Err)
	}
	return w.Bytes()
}

type hasm struct {
	w    *world
	buf  []byte
	subs []subFix
}

type subFix struct {
	at   int // position of the CALL_L instruction
	body []Op
}

func (a *hasm) op(ops ...opcode.Opcode) {
	for _, o := range ops {
		a.buf = append(a.buf, byte(o))
	}
}

func (a *hasm) pushInt8(v int) { a.buf = append(a.buf, byte(opcode.PUSHINT8), byte(v)) }

// logTop appends the item on top of the stack to the log array.
func (a *hasm) logTop() { a.op(opcode.LDSFLD0, opcode.SWAP, opcode.APPEND) }

func (a *hasm) logMark(v int) {
	a.op(opcode.LDSFLD0)
	a.pushInt8(v)
	a.op(opcode.APPEND)
}

// call emits System.Contract.Call(h, method, All, args) and logs the result.
func (a *hasm) call(script []byte) {
	a.buf = append(a.buf, script...)
	a.logTop()
}

func (a *hasm) patch32(at int, v int) { binary.LittleEndian.PutUint32(a.buf[at:], uint32(int32(v))) }

func (a *hasm) seq(ops []Op) {
	w := a.w
	pol := nativehashes.PolicyContract
	for i := range ops {
		o := &ops[i]
		switch o.K {
		case 'r':
			a.call(callSnippet(w.hashes[o.To], "run", o.Flags, w.bind(w.toU(o.Body), o.To)))
		case 'w':
			a.call(callSnippet(w.wtok, wMethod(o.Src, o.To), 15, w.bind(w.toU(o.Body), o.To)))
		case '$':
			tok := nativehashes.GasToken
			if o.Src == 'n' {
				tok = nativehashes.NeoToken
			}
			a.call(chainx.CallScript(tok, "transfer", w.hashes[pSender].BytesBE(), w.hashes[o.To].BytesBE(), 1, w.bind(w.toU(o.Body), o.To)))
		case 'F':
			a.call(chainx.CallScript(pol, "setFeePerByte", 1000+o.ID))
		case 'K':
			a.call(chainx.CallScript(pol, "blockAccount", chainx.Acc(5).ScriptHash().BytesBE()))
		case 'U':
			a.call(chainx.CallScript(pol, "unblockAccount", chainx.Acc(5).ScriptHash().BytesBE()))
		case 'Y':
			a.call(chainx.CallScript(nativehashes.ContractManagement, "deploy", w.udNEF, w.udManifest, nil))
		case '!':
			a.buf = append(a.buf, byte(opcode.PUSHDATA1), 6)
			a.buf = append(a.buf, "thrown"...)
			a.op(opcode.THROW)
		case '#':
			a.op(opcode.ABORT)
		case '(':
			a.subs = append(a.subs, subFix{at: len(a.buf), body: o.Body})
			a.op(opcode.CALLL)
			a.buf = append(a.buf, 0, 0, 0, 0)
		case 'h':
			try := len(a.buf)
			a.op(opcode.TRYL)
			a.buf = append(a.buf, 0, 0, 0, 0, 0, 0, 0, 0)
			a.seq(o.Body)
			end1 := len(a.buf)
			a.op(opcode.ENDTRYL)
			a.buf = append(a.buf, 0, 0, 0, 0)
			end2 := -1
			if o.HasC {
				a.patch32(try+1, len(a.buf)-try)
				a.op(opcode.DROP) // the exception
				a.logMark(71)
				a.seq(o.H)
				end2 = len(a.buf)
				a.op(opcode.ENDTRYL)
				a.buf = append(a.buf, 0, 0, 0, 0)
			}
			if o.HasF {
				a.patch32(try+5, len(a.buf)-try)
				a.logMark(72)
				a.seq(o.Fin)
				a.op(opcode.ENDFINALLY)
			}
			a.patch32(end1+1, len(a.buf)-end1)
			if end2 >= 0 {
				a.patch32(end2+1, len(a.buf)-end2)
			}
		default:
			panic("hand-assembled script: op " + string(o.K) + " not available")
		}
	}
}

// handScript assembles the entry script of H[body].
func (w *world) handScript(body []Op) []byte {
	a := &hasm{w: w}
	a.buf = append(a.buf, byte(opcode.INITSSLOT), 1)
	a.op(opcode.NEWARRAY0, opcode.STSFLD0)
	a.seq(body)
	// observers that read through the native caches (as for U programs)
	pol := nativehashes.PolicyContract
	if hasOp(body, 'F') {
		a.call(chainx.CallScript(pol, "getFeePerByte"))
	}
	if hasAny(body, "KU") {
		a.call(chainx.CallScript(pol, "isBlocked", chainx.Acc(5).ScriptHash().BytesBE()))
	}
	if hasOp(body, 'Y') {
		a.call(chainx.CallScript(nativehashes.ContractManagement, "isContract", w.ud.BytesBE()))
	}
	a.op(opcode.LDSFLD0, opcode.RET)
	// subroutines (they may contain further subroutine calls)
	for i := 0; i < len(a.subs); i++ {
		s := a.subs[i]
		a.patch32(s.at+1, len(a.buf)-s.at)
		a.seq(s.body)
		a.op(opcode.RET)
	}
	return a.buf
}
