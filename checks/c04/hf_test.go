package c04

// The older families once more on the family single-hf-all (every hardfork active
// from genesis, escape_world_test.go). Instance C is there compiled from x.go.txt,
// whose storage ops (the put of E, P, D, the iterator of I) are the context-less
// System.Storage.Local.* calls of the Faun hardfork: every call tree that reaches
// instance C - the hand-assembled handler nestings (their active callee is C), the
// three-level trees, the token conduit, NEO transfers with payment callbacks, the
// iterator / self-destruction / deployment families - now runs them inside callees
// that fail and are caught, compared with the same reference interpreter (test
// invocations) and, for the spaces listed as blocks, in real blocks with the
// bare-THROW twin.

import (
	"fmt"

	"verif/lib/vk"
)

// hfPick: which spaces of the single family are repeated on single-hf-all.
func hfPick(name string, thorough bool) (test, blocks bool) {
	switch name {
	case "neo3":
		return true, thorough
	case "tok3", "full3", "hpath2", "hnat2", "hgram", "iter", "destroy", "deploy":
		return true, false
	case "tok2b", "hpath2b":
		return true, true
	case "hpath3", "ops3":
		return thorough, false
	}
	return false, false
}

func newHFChecker(c *checker, hw *world) (*checker, error) {
	c2 := &checker{r: c.r, w: hw, rigs: make(chan *rig, 64), class: map[string]int{}, states: vk.NewSet(), twinStates: vk.NewSet(), fam: familyHF}
	rg, err := c2.getRig()
	if err != nil {
		return nil, err
	}
	if c2.s0, err = rg.initState(); err != nil {
		rg.close()
		return nil, err
	}
	c2.putRig(rg)
	return c2, nil
}

func (c *checker) runHF(hw *world, test, blk []string) (cov map[string]any, execs int) {
	r := c.r
	c2, err := newHFChecker(c, hw)
	if err != nil {
		c.harness(fmt.Errorf("family %s: %w", familyHF, err))
		return map[string]any{}, 0
	}
	defer c2.drain()
	sortProgs(test)
	sortProgs(blk)
	var undone, restoredNoop, faulted, plain vk.Counter
	s0sig := stateSig(c2.s0)
	const chunk = 256
	nch := (len(test) + chunk - 1) / chunk
	r.Parallel(nch, func(ci int) {
		ps := test[ci*chunk : min(len(test), (ci+1)*chunk)]
		rg, err := c2.getRig()
		if err != nil {
			c.harness(err)
			return
		}
		differs := false
		for _, p := range ps {
			if r.TooMany() {
				break
			}
			m, what, detail, err := c2.evalTest(rg, p)
			if err != nil {
				c.harness(err)
				rg.close()
				return
			}
			c2.execs.Inc()
			c2.calls.Add(m.Calls + 1)
			c2.states.Add(stateSig(m.State))
			switch {
			case !m.Halt:
				faulted.Inc()
			case m.Undone:
				undone.Inc()
			case m.Restores > 0:
				restoredNoop.Inc()
			default:
				plain.Inc()
			}
			if len(what) > 0 {
				differs = true
				c2.reportTest(rg, p, what, detail)
			}
		}
		// the node the test invocations ran on is still in the prepared state
		st, err := rg.initState()
		if err != nil || stateSig(st) != s0sig {
			d := []string{"before: " + s0sig}
			if err != nil {
				d = append(d, err.Error())
			} else {
				d = append(d, "after: "+stateSig(st))
			}
			if !differs {
				r.Outcome("A:test:node-state-changed")
				if c2.admit("test", []string{"test-invocations-changed-the-node"}) {
					r.Violation(fmt.Sprintf("A-test@%s:test-invocations-changed-the-node:%s..%s", familyHF, ps[0], ps[len(ps)-1]), caseRec{Layer: "A", Mode: "test-chunk", Prog: ps[0], History: ps,
						Family: familyHF, What: []string{"test-invocations-changed-the-node"}, Detail: d})
				}
			}
			rg.close()
			return
		}
		c2.leakChecks.Inc()
		c2.putRig(rg)
	})
	fmt.Printf("layer A on %s, test invocations: %d programs, %.1fs\n", familyHF, c2.execs.Get(), r.Elapsed())
	nTest := c2.execs.Get()
	var bUndone, bFault, bHalt vk.Counter
	nbc := (len(blk) + blockChunk - 1) / blockChunk
	r.Parallel(nbc, func(ci int) {
		ps := blk[ci*blockChunk : min(len(blk), (ci+1)*blockChunk)]
		for len(ps) > 0 && !r.TooMany() {
			n := c2.blockChunk(ps, &bUndone, &bFault, &bHalt)
			if n < 0 {
				break
			}
			ps = ps[n+1:]
		}
	})
	fmt.Printf("layer A on %s, real blocks: %d programs, %.1fs\n", familyHF, bUndone.Get()+bFault.Get()+bHalt.Get(), r.Elapsed())
	c.harnessErrs.Add(int(c2.harnessErrs.Get()))
	for k, v := range map[string]*vk.Counter{"HALT:callee-changes-undone": &undone, "HALT:no-failure": &plain, "FAULT": &faulted} {
		if v.Get() > 0 {
			r.Outcome("A:test@" + familyHF + ":" + k)
		}
	}
	if bUndone.Get() > 0 {
		r.Outcome("A:block@" + familyHF + ":HALT:callee-changes-undone")
	}
	return map[string]any{"family": familyHF, "instance_C": "x.go.txt: storage ops are System.Storage.Local.* calls", "programs_test_invocations": nTest,
		"test_outcomes":         map[string]int64{"halt_callee_changes_undone": undone.Get(), "halt_callee_failed_nothing_to_undo": restoredNoop.Get(), "halt_no_failure": plain.Get(), "fault": faulted.Get()},
		"distinct_final_states": c2.states.Len(), "leak_checks": c2.leakChecks.Get(),
		"programs_in_real_blocks": bUndone.Get() + bFault.Get() + bHalt.Get(), "block_outcomes": map[string]int64{"halt_callee_changes_undone": bUndone.Get(), "fault": bFault.Get(), "halt_other": bHalt.Get()},
		"blocks": c2.blocks.Get(), "twins_compared": c2.twins.Get(), "twin_distinct_state_roots": c2.twinStates.Len(),
		"handler_script_executions": c2.hProgs.Get()}, int(c2.execs.Get())
}
