package c04

// Bounded spaces of hand-assembled entry scripts (see hasm_test.go).
//
//	hpath: handler nestings up to depth D. A nesting is a path of (handler kind,
//	       part) steps - kinds try/catch, try/finally, try/catch/finally; parts try,
//	       catch (entered by the script's own THROW or by a failing callee), finally
//	       (entered normally or with a pending exception). The innermost part holds
//	       one "active" sequence out of hActives (failing call, failing call from a
//	       subroutine frame, failing call with notify-only flags, exception crossing
//	       two contracts, payment callback that throws, callee that catches its own
//	       failure, successful call followed by the script's own THROW, ...). Every
//	       other part of every handler on the path holds a decoration: an effect call
//	       (so that what was done before and after must be kept, in order), nothing,
//	       or - finally parts - a callee that throws and catches internally.
//	hnat2: hpath with native setters: the script changes a Policy setting in every
//	       handler part, the failing callees change settings / registries too.
//	hgram: ALL scripts of a small grammar (depth <= 2, <= 2 items per sequence,
//	       item and handler budgets) over the leaves {effect call, failing call,
//	       THROW, subroutine}, without dead code (every leaf is executed in the model).
//
// Every space is enumerated completely.

import (
	"fmt"
	"os"
	"runtime"
	"strings"
	"sync"
	"time"
)

var hActives = []string{
	"Cf[E!]",           // callee writes, notifies, throws
	"(Cf[E!])",         // the same from a subroutine frame of the script
	"Cd[N!]",           // callee called with notify-only flags
	"Bf[ECf[E!]]",      // the exception crosses two contract boundaries
	"Bf[ET{Cf[E!]}{E}]", // the callee catches its callee's failure itself
	"Cf[E]!",           // successful call, then the script's own THROW
	"Cf[E]",            // no failure at all
	"$sB[E!]",          // payment callback throws: crosses a native frame (uncatchable)
	"Cf[E#]",           // callee aborts (uncatchable)
	"WcC[E!]",          // the failing callee is reached through a method token (CALLT) of the conduit W
	"WfC[E!]",          // ... from inside a try/finally of W
}

const (
	hEffect  = "Bf[E]"
	hSwallow = "Af[T{!}{}]" // a callee that throws and catches internally: clears the VM's pending exception
)

type hstep struct {
	kind string // "tc", "tf", "tcf"
	part byte   // t c f
	via  byte   // catch part: '!' own THROW, 'x' failing callee; finally part: 'n' entered normally, 'p' with a pending exception / after the catch part
}

func hsteps() []hstep {
	var out []hstep
	for _, k := range []string{"tc", "tf", "tcf"} {
		out = append(out, hstep{k, 't', 0})
		if strings.Contains(k, "c") {
			out = append(out, hstep{k, 'c', '!'}, hstep{k, 'c', 'x'})
		}
		if k != "tc" {
			out = append(out, hstep{k, 'f', 'n'}, hstep{k, 'f', 'p'})
		}
	}
	return out
}

// wrap places inner into the part of the handler the step names; deco: 0 = no
// decorations, 1 = effect calls, 2 = effect calls and swallowing finally parts.
func (s hstep) wrap(inner string, deco int) string {
	e, fin := "", ""
	if deco >= 1 {
		e, fin = hEffect, hEffect
	}
	if deco == 2 {
		fin = hSwallow
	}
	if deco == 3 { // native setting changed by the script itself in every part
		e, fin = "F", "F"
	}
	var t, c, f string
	switch s.part {
	case 't':
		t, c, f = e+inner+e, e, fin
	case 'c':
		trig := "!"
		if s.via == 'x' {
			trig = "Cf[E!]"
		}
		t, c, f = e+trig, e+inner+e, fin
	case 'f':
		t, c, f = e, e, e+inner+e
		if s.via == 'p' {
			t = e + "!"
		}
	}
	switch s.kind {
	case "tc":
		return "{" + t + "|" + c + "}"
	case "tf":
		return "{" + t + "||" + f + "}"
	}
	return "{" + t + "|" + c + "|" + f + "}"
}

// hpathPrograms enumerates the hpath space: depths 1..D, decoration modes decos.
func hpathPrograms(D int, decos []int, actives []string, subs bool) []string {
	steps := hsteps()
	seen := map[string]bool{}
	var out []string
	var rec func(d int, inner string, deco int)
	rec = func(d int, inner string, deco int) {
		for _, s := range steps {
			w := s.wrap(inner, deco)
			for _, tail := range []string{"", hEffect} {
				if tail != "" && (deco == 0 || deco == 3) {
					continue
				}
				p := "H[" + w + tail + "]"
				if !seen[p] {
					seen[p] = true
					out = append(out, p)
				}
			}
			if d < D {
				rec(d+1, w, deco)
				if d == 1 && subs {
					// the innermost handler lives in a subroutine frame of its own (CALL_L): the
					// enclosing handlers are on the try stack of a DIFFERENT frame of the same script
					rec(d+1, "("+w+")", deco)
				}
			}
		}
	}
	for _, deco := range decos {
		for _, a := range actives {
			rec(1, a, deco)
		}
	}
	sortProgs(out)
	return out
}

// hgramPrograms enumerates every script of the grammar
//
//	seq  := item{0..L}
//	item := leaf | '(' leaf ')' | '{' seq '|' seq '}' | '{' seq '||' seq '}' | '{' seq '|' seq '|' seq '}'
//
// with handler nesting depth <= D, at most H handlers and at most N leaves in
// the whole script, keeping those without dead code.
func hgramPrograms(D, L, H, N int, leaves []string, s0 *State) (out []string, total int) {
	type it struct {
		s    string
		h, n int
	}
	var seqs func(d, h, n int) []it
	memo := map[[3]int][]it{}
	seqs = func(d, h, n int) []it {
		k := [3]int{d, h, n}
		if r, ok := memo[k]; ok {
			return r
		}
		// items available within budget (h handlers, n leaves)
		var items []it
		if n >= 1 {
			for _, l := range leaves {
				items = append(items, it{l, 0, 1})
			}
		}
		if d > 0 && h >= 1 {
			for _, kind := range []string{"tc", "tf", "tcf"} {
				for _, a := range seqs(d-1, h-1, n) {
					for _, b := range seqs(d-1, h-1-a.h, n-a.n) {
						switch kind {
						case "tc":
							items = append(items, it{"{" + a.s + "|" + b.s + "}", 1 + a.h + b.h, a.n + b.n})
						case "tf":
							items = append(items, it{"{" + a.s + "||" + b.s + "}", 1 + a.h + b.h, a.n + b.n})
						case "tcf":
							for _, c := range seqs(d-1, h-1-a.h-b.h, n-a.n-b.n) {
								items = append(items, it{"{" + a.s + "|" + b.s + "|" + c.s + "}", 1 + a.h + b.h + c.h, a.n + b.n + c.n})
							}
						}
					}
				}
			}
		}
		byN := make([][]it, n+1) // items by number of leaves
		for _, x := range items {
			if x.n <= n && x.h <= h {
				byN[x.n] = append(byN[x.n], x)
			}
		}
		res := []it{{"", 0, 0}}
		cur := []it{{"", 0, 0}}
		for l := 0; l < L; l++ {
			var next []it
			for _, p := range cur {
				for xn := 0; xn <= n-p.n; xn++ {
					for _, x := range byN[xn] {
						if p.h+x.h <= h {
							next = append(next, it{p.s + x.s, p.h + x.h, p.n + x.n})
						}
					}
				}
			}
			res = append(res, next...)
			cur = next
		}
		memo[k] = res
		return res
	}
	t0 := time.Now()
	all := seqs(D, H, N)
	if os.Getenv("C04_DEV") != "" {
		fmt.Println("hgram: generated", len(all), time.Since(t0))
	}
	keep := make([]bool, len(all))
	var wg sync.WaitGroup
	nw := runtime.GOMAXPROCS(0)
	for wk := 0; wk < nw; wk++ {
		wg.Add(1)
		go func(wk int) {
			defer wg.Done()
			for i := wk; i < len(all); i += nw {
				if all[i].h == 0 {
					continue // no handler at all: covered by the U spaces
				}
				p := "H[" + all[i].s + "]"
				ops, err := parseProg(p)
				if err != nil {
					panic(fmt.Sprintf("hgram generated %q: %v", p, err))
				}
				keep[i] = allLeavesRun(s0, ops)
			}
		}(wk)
	}
	wg.Wait()
	for i, s := range all {
		if s.h == 0 {
			continue
		}
		total++
		if keep[i] {
			out = append(out, "H["+s.s+"]")
		}
	}
	sortProgs(out)
	return
}

// allLeavesRun: the model executes every top-level-script leaf (call, THROW) of the program.
func allLeavesRun(s0 *State, ops []Op) bool {
	want := map[int]bool{}
	var walk func(ops []Op)
	walk = func(ops []Op) {
		for _, o := range ops {
			switch o.K {
			case 'h', '(', 'S':
				walk(o.Body)
				walk(o.H)
				walk(o.Fin)
			default:
				want[o.ID] = true
			}
		}
	}
	walk(ops)
	tr := map[int]bool{}
	m := &machine{st: s0.clone(), trace: tr, light: true, thrown: map[int]bool{}}
	m.st.Notes = nil
	m.exec(&frame{inst: pEntry, flags: fAll}, ops[0].Body)
	for id := range want {
		if !tr[id] {
			return false
		}
	}
	return true
}

type hspace struct {
	Name  string
	Progs []string
	Block bool // also executed in real blocks
	Info  map[string]any
}

var hgramLeaves = []string{hEffect, "Cf[E!]", "!"}

func hspaces(thorough bool, s0 *State) []hspace {
	var out []hspace
	t0 := time.Now()
	add := func(name string, progs []string, block bool, info map[string]any) {
		info["programs"] = len(progs)
		info["generation_seconds"] = float64(time.Since(t0).Milliseconds()) / 1000
		t0 = time.Now()
		info["also_in_real_blocks"] = block
		out = append(out, hspace{Name: name, Progs: progs, Block: block, Info: info})
	}
	// quick: depth 2 completely (the effect-decorated half also in real blocks), depth 3 with the
	// failing-call actives; thorough: depth 3 completely
	deep := []string{"Cf[E!]", "(Cf[E!])", "Cd[N!]", "Bf[ECf[E!]]", "Cf[E]!", "WfC[E!]"}
	decos3 := []int{1, 2}
	if thorough {
		deep, decos3 = hActives, []int{0, 1, 2}
	}
	add("hpath2b", hpathPrograms(2, []int{1}, hActives, true), true, map[string]any{"max_handler_depth": 2, "actives": hActives, "decorations": []string{"effects"}, "innermost_handler_also_in_a_subroutine_frame": true})
	add("hpath2", hpathPrograms(2, []int{0, 2}, hActives, true), thorough, map[string]any{"max_handler_depth": 2, "actives": hActives, "decorations": []string{"none", "effects+swallowing-finally"}, "innermost_handler_also_in_a_subroutine_frame": true})
	add("hpath3", hpathPrograms(3, decos3, deep, true), false, map[string]any{"max_handler_depth": 3, "actives": deep, "decorations_modes": decos3, "innermost_handler_also_in_a_subroutine_frame": true})
	// native settings and registries changed from handler parts and by failing callees called from them
	nat := []string{"Bf[F!]", "Bf[FCf[F!]]", "Bf[F]!", "Bf[K!]", "Bf[Y!]", "Bf[T{Cf[F!]}{}F]", "WtB[F!]"}
	add("hnat2", hpathPrograms(2, []int{3}, nat, false), true, map[string]any{"max_handler_depth": 2, "actives": nat, "decorations": []string{"Policy.setFeePerByte called by the script in every part"}})
	d, l, h, n := 2, 2, 2, 4
	if thorough {
		d, l, h, n = 2, 2, 2, 6
	}
	g, total := hgramPrograms(d, l, h, n, hgramLeaves, s0)
	add("hgram", g, false, map[string]any{"max_handler_depth": d, "max_items_per_sequence": l, "max_handlers": h, "max_leaves": n, "leaves": hgramLeaves, "generated": total, "without_dead_code": len(g)})
	return out
}
