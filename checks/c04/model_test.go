package c04

// Reference interpreter for programs of the universal contract U.
//
// It follows the property text, not the implementation's optimisation: EVERY
// call of another contract remembers the state at its entry, and when the
// callee fails with an exception that propagates out of it, the state
// (storage of all contracts, notification list, token balances, native
// settings) is put back to what it was at the callee's entry - whatever the
// callee and its own callees did is undone. What the catching contract did
// before the call, inside its TRY body, in the handler and afterwards is kept.
// An exception nobody catches, ABORT, a failing native call or a missing call
// flag fault the transaction: nothing but the fees remains.
//
// Facts taken from the code (not from the property): which failures are
// catchable (only THROW), that an exception crossing a native frame (payment
// callback) faults, call-flag requirements of natives, transfer semantics.

import (
	"fmt"
	"sort"
	"strings"
)

const (
	pA = iota
	pB
	pC
	pSender // account 1: sender of every transaction (signs with Global scope)
	pOther  // account 2: plain receiver
	nPrinc
)

var princNames = [nPrinc]string{"A", "B", "C", "S", "O"}

const (
	fRead   = 1
	fWrite  = 2
	fCall   = 4
	fNotify = 8
	fAll    = 15
)

type State struct {
	Stor  [3]map[string]string `json:"stor"`
	Notes []string             `json:"notes"`
	Gas   [nPrinc]int64        `json:"gas"`
	Neo   [nPrinc]int64        `json:"neo"`
	Fee   int64                `json:"fee"`
	// Blocked: account 5 is on the Policy block list; Deployed: the fourth instance exists.
	Blocked  bool `json:"blocked"`
	Deployed bool `json:"deployed"`
	// Destroyed: the instance destroyed itself (ContractManagement.destroy): no storage, cannot be called.
	Destroyed [3]bool `json:"destroyed"`
	// Bonus is the GAS minted to a principal when its NEO balance is touched
	// for the first time in this block (taken from NEO.unclaimedGas).
	Bonus [nPrinc]int64 `json:"bonus"`
}

func (s *State) clone() *State {
	c := *s
	for i := range s.Stor {
		c.Stor[i] = make(map[string]string, len(s.Stor[i]))
		for k, v := range s.Stor[i] {
			c.Stor[i][k] = v
		}
	}
	c.Notes = append([]string{}, s.Notes...)
	return &c
}

// storLines renders the storage of the three instances as sorted lines.
func (s *State) storLines() []string {
	var out []string
	for i := range s.Stor {
		for k, v := range s.Stor[i] {
			out = append(out, fmt.Sprintf("%c:%s=%s", instNames[i], k, v))
		}
	}
	sort.Strings(out)
	return out
}

type outcome int

const (
	oOK outcome = iota
	oThrown
	oFault
)

type frame struct {
	inst  int
	flags int
	log   []string
}

type machine struct {
	st        *State
	committee bool // the transaction carries the committee witness
	calls     int  // contract calls performed
	restores  int  // snapshots restored because a callee failed
	undone    bool // some restore actually changed the state
	// pending: an exception is in flight (the VM keeps ONE pending exception:
	// THROW sets it, entering a CATCH part clears it, ENDFINALLY rethrows iff it
	// is set - so a finally part in which some throw is caught, by this script or
	// by anything it calls, loses the exception it was entered with; the VM then
	// faults at ENDFINALLY because no end offset was recorded).
	pending bool
	// handler-part statistics of hand-assembled scripts
	hstat *hstat
	trace map[int]bool // ids of the ops that were started (nil: not recorded)
	light bool         // control flow only: no snapshots, no restores (used to filter generated programs)
	// vmPending (triage only, never the oracle): what the VM does with a call that
	// COMPLETES while an exception is pending (a call made in a finally part that
	// was entered by an exception): the unload callback sees the pending exception
	// and drops the callee's changes; a native's callback into a contract faults.
	vmPending bool
	thrown    map[int]bool // ids of the contract calls whose callee failed with an exception
	// iterUnspec: an iterator was consumed after a change of the iterated storage that
	// was NOT undone; such programs are not generated (nothing is demanded about them)
	iterUnspec bool
}

// entry frame of a hand-assembled script: no contract, no storage
const pEntry = -1

func stateSig(s *State) string {
	return fmt.Sprint(s.storLines(), s.Notes, s.Gas, s.Neo, s.Fee, s.Blocked, s.Deployed, s.Destroyed)
}

func (m *machine) exec(f *frame, ops []Op) outcome {
	for i := range ops {
		o := &ops[i]
		if m.trace != nil {
			m.trace[o.ID] = true
		}
		if f.inst == pEntry && strings.IndexByte("ENPDX~IZ", o.K) >= 0 || (o.K == '$' && o.Src == 'g' && f.inst == pEntry) {
			panic("model: op " + string(o.K) + " is not available to an entry script")
		}
		if f.inst >= 0 && m.st.Destroyed[f.inst] && o.K != '!' {
			return oFault // generated programs never continue after a self-destruction except by THROW
		}
		var dropTo *State
		if m.vmPending && m.pending && strings.IndexByte("X~$FKUYZ", o.K) >= 0 {
			dropTo = m.st.clone()
		}
		switch o.K {
		case 'E':
			if f.flags&fWrite == 0 {
				return oFault
			}
			m.st.Stor[f.inst][fmt.Sprintf("k%d", o.ID)] = fmt.Sprint(o.ID)
			f.log = append(f.log, "1")
			if f.flags&fNotify == 0 {
				return oFault
			}
			m.st.Notes = append(m.st.Notes, fmt.Sprintf("%c:ev:[%d]", instNames[f.inst], o.ID))
			f.log = append(f.log, "5")
		case 'N':
			if f.flags&fNotify == 0 {
				return oFault
			}
			m.st.Notes = append(m.st.Notes, fmt.Sprintf("%c:ev:[%d]", instNames[f.inst], o.ID))
			f.log = append(f.log, "5")
		case 'P':
			if f.flags&fWrite == 0 {
				return oFault
			}
			m.st.Stor[f.inst]["a"] = fmt.Sprint(o.ID)
			f.log = append(f.log, "1")
		case 'D':
			if f.flags&fWrite == 0 {
				return oFault
			}
			delete(m.st.Stor[f.inst], "a")
			f.log = append(f.log, "2")
		case '!':
			m.pending = true
			return oThrown
		case '#':
			return oFault
		case 'X', '~':
			amt := int64(1)
			if o.K == '~' {
				amt = -1
			}
			if out := m.transfer(f, "GAS", f.inst, pOther, amt, nil, false); out != oOK {
				return out
			}
		case '$':
			from, tok := f.inst, "GAS"
			if o.Src != 'g' {
				from = pSender
			}
			if o.Src == 'n' {
				tok = "NEO"
			}
			if out := m.transfer(f, tok, from, o.To, 1, o.Body, true); out != oOK {
				return out
			}
		case 'F':
			// native call: needs ReadStates|AllowCall to call, States for the method, committee witness
			if f.flags&(fRead|fCall) != fRead|fCall || f.flags&(fRead|fWrite) != fRead|fWrite || !m.committee {
				return oFault
			}
			if m.vmPending && m.pending {
				return oFault // a void method unloaded under a pending exception pushes no Null: the script's stack discipline breaks
			}
			m.calls++
			m.st.Fee = int64(1000 + o.ID)
			f.log = append(f.log, "null")
		case 'K', 'U':
			if f.flags&(fRead|fCall) != fRead|fCall || f.flags&(fRead|fWrite) != fRead|fWrite || !m.committee {
				return oFault
			}
			m.calls++
			want := o.K == 'K'
			f.log = append(f.log, fmt.Sprint(m.st.Blocked != want))
			m.st.Blocked = want
		case 'Y':
			if f.flags != fAll || m.st.Deployed {
				return oFault
			}
			m.calls++
			m.st.Deployed = true
			m.st.Notes = append(m.st.Notes, "MGMT:Deploy:[D]")
			f.log = append(f.log, "<UD>")
		case 'Z':
			// System.Contract.Call needs ReadStates|AllowCall, destroy needs States|AllowNotify
			if f.flags != fAll {
				return oFault
			}
			m.calls++
			m.st.Destroyed[f.inst] = true
			m.st.Stor[f.inst] = map[string]string{}
			// the hash is put on the Policy block list, which revokes the account's vote
			// (event + distribution of the unclaimed GAS) if it holds NEO - taken from the code
			if n := m.st.Neo[f.inst]; n > 0 {
				m.st.Notes = append(m.st.Notes, fmt.Sprintf("NEO:Vote:[%c,null,null,%d]", instNames[f.inst], n))
				if b := m.st.Bonus[f.inst]; b > 0 {
					m.st.Bonus[f.inst] = 0
					m.st.Gas[f.inst] += b
					m.st.Notes = append(m.st.Notes, fmt.Sprintf("GAS:Transfer:[null,%c,%d]", instNames[f.inst], b))
					m.calls++
				}
			}
			m.st.Notes = append(m.st.Notes, fmt.Sprintf("MGMT:Destroy:[%c]", instNames[f.inst]))
			f.log = append(f.log, "null")
		case 'I':
			// Storage.Find over the own storage (needs ReadStates); the generated programs
			// undo every change of this storage made between opening and consumption
			if f.flags&fRead == 0 {
				return oFault
			}
			var snap []string
			for k, v := range m.st.Stor[f.inst] {
				snap = append(snap, fmt.Sprintf("[x%x,x%x]", k, v))
			}
			sort.Strings(snap)
			if out := m.exec(f, o.Body); out != oOK {
				return out
			}
			var now []string
			for k, v := range m.st.Stor[f.inst] {
				now = append(now, fmt.Sprintf("[x%x,x%x]", k, v))
			}
			sort.Strings(now)
			if strings.Join(now, " ") != strings.Join(snap, " ") {
				m.iterUnspec = true // a change survived until consumption: what the iterator yields is not specified here
			}
			f.log = append(f.log, snap...)
			f.log = append(f.log, "14")
		case '(':
			if out := m.exec(f, o.Body); out != oOK {
				return out
			}
		case 'h':
			hs := m.hstat
			out := m.exec(f, o.Body)
			if out == oFault {
				return oFault
			}
			if out == oThrown && o.HasC {
				m.pending = false
				f.log = append(f.log, "71")
				if hs != nil {
					hs.catches++
				}
				if out = m.exec(f, o.H); out == oFault {
					return oFault
				}
			}
			if !o.HasF {
				if out == oThrown {
					return oThrown
				}
				break
			}
			f.log = append(f.log, "72")
			if hs != nil {
				hs.finallies++
				if out == oThrown {
					hs.finalliesPending++
				}
			}
			switch m.exec(f, o.Fin) {
			case oFault:
				return oFault
			case oThrown: // replaces whatever was pending
				return oThrown
			}
			if m.pending {
				// ENDFINALLY rethrows whatever is pending - also when this finally part was
				// entered normally inside an outer finally part that runs with a pending exception
				return oThrown
			}
			if out == oThrown {
				// the pending exception was cleared inside the finally part: ENDFINALLY then
				// jumps to the end offset, which only ENDTRY sets - the VM faults
				if hs != nil {
					hs.swallowed++
				}
				return oFault
			}
		case 'w':
			// caller -> W (System.Contract.Call, flags All) -> CALLT (token flags All) -> inst.run
			if f.flags&(fRead|fCall) != fRead|fCall || m.st.Destroyed[o.To] {
				return oFault
			}
			m.calls += 2
			cf := &frame{inst: o.To, flags: f.flags}
			if m.light {
				switch out := m.exec(cf, o.Body); {
				case out == oFault:
					return oFault
				case out == oThrown && o.Src != 't':
					return oThrown
				case out == oThrown:
					m.pending = false
				}
				break
			}
			snap := m.st.clone()
			switch m.exec(cf, o.Body) {
			case oFault:
				return oFault
			case oThrown:
				m.restores++
				m.thrown[o.ID] = true
				if stateSig(snap) != stateSig(m.st) {
					m.undone = true
				}
				m.st = snap
				if o.Src != 't' {
					return oThrown
				}
				m.pending = false // W's CATCH part
				f.log = append(f.log, "71")
			default:
				if m.vmPending && m.pending {
					m.st = snap
				}
				if o.Src == 'f' && m.pending {
					return oThrown // W's ENDFINALLY rethrows an exception pending in the VM
				}
				f.log = append(f.log, "["+strings.Join(cf.log, ",")+"]")
			}
		case 'r':
			if f.flags&(fRead|fCall) != fRead|fCall {
				return oFault
			}
			if m.st.Destroyed[o.To] {
				return oFault // called contract not found
			}
			m.calls++
			cf := &frame{inst: o.To, flags: f.flags & o.Flags}
			if m.light {
				if out := m.exec(cf, o.Body); out != oOK {
					return out
				}
				break
			}
			snap := m.st.clone()
			switch m.exec(cf, o.Body) {
			case oFault:
				return oFault
			case oThrown:
				m.restores++
				m.thrown[o.ID] = true
				if stateSig(snap) != stateSig(m.st) {
					m.undone = true
				}
				m.st = snap
				return oThrown
			}
			if m.vmPending && m.pending {
				m.st = snap
			}
			f.log = append(f.log, "["+strings.Join(cf.log, ",")+"]")
		case 'T':
			switch m.exec(f, o.Body) {
			case oFault:
				return oFault
			case oThrown:
				m.pending = false
				f.log = append(f.log, "71")
				if out := m.exec(f, o.H); out != oOK {
					return out
				}
			default:
				if m.pending {
					// U's TRY is a compiled defer: its ENDFINALLY rethrows an exception that is
					// pending in the VM (the caller's, when U runs inside a finally part)
					return oThrown
				}
				f.log = append(f.log, "70")
			}
		default:
			panic("model: bad op " + string(o.K))
		}
		if dropTo != nil && m.pending {
			m.st = dropTo
		}
	}
	return oOK
}

// transfer models NEP-17 transfer of the native tokens called from frame f.
func (m *machine) transfer(f *frame, tok string, from, to int, amt int64, data []Op, hasData bool) outcome {
	if f.flags != fAll { // System.Contract.Call needs ReadStates|AllowCall, transfer needs States|AllowCall|AllowNotify
		return oFault
	}
	m.calls++
	if amt < 0 {
		return oFault
	}
	if from != f.inst && from != pSender { // witness: the calling contract or a signer with Global scope
		f.log = append(f.log, "false")
		return oOK
	}
	bal := &m.st.Gas
	if tok == "NEO" {
		bal = &m.st.Neo
	}
	if bal[from] < amt {
		f.log = append(f.log, "false")
		return oOK
	}
	var dist [2]int
	nd := 0
	if from != to && amt != 0 {
		bal[from] -= amt
		bal[to] += amt
	}
	if tok == "NEO" {
		dist[0] = from
		nd = 1
		if from != to && amt != 0 {
			dist[1] = to
			nd = 2
		}
	}
	bonus := [2]int64{}
	for i := 0; i < nd; i++ {
		bonus[i] = m.st.Bonus[dist[i]]
		m.st.Bonus[dist[i]] = 0
	}
	m.st.Notes = append(m.st.Notes, fmt.Sprintf("%s:Transfer:[%s,%s,%d]", tok, princNames[from], princNames[to], amt))
	if to <= pC && !m.st.Destroyed[to] { // a contract: onNEP17Payment(from, amount, data)
		m.calls++
		if m.vmPending && m.pending {
			return oFault
		}
		if hasData {
			pf := &frame{inst: to, flags: fAll}
			if out := m.exec(pf, data); out != oOK {
				return oFault // an exception cannot cross the native frame
			}
		}
	}
	for i := 0; i < nd; i++ {
		if bonus[i] == 0 {
			continue
		}
		m.st.Gas[dist[i]] += bonus[i]
		m.st.Notes = append(m.st.Notes, fmt.Sprintf("GAS:Transfer:[null,%s,%d]", princNames[dist[i]], bonus[i]))
		if dist[i] <= pC && !m.st.Destroyed[dist[i]] {
			m.calls++ // onNEP17Payment(null, amount, null): U does nothing
		}
	}
	f.log = append(f.log, "true")
	return oOK
}

type Result struct {
	Halt     bool   `json:"halt"`
	Log      string `json:"log"`
	State    *State `json:"state"` // final state (= initial one without notifications on FAULT)
	Calls    int    `json:"calls"`
	Restores int    `json:"restores"`
	Undone   bool   `json:"undone"`
	// Thrown: ids of the contract calls whose callee failed with an exception
	Thrown     map[int]bool `json:"-"`
	IterUnspec bool         `json:"-"`
}

// runModel interprets prog on a copy of init.
func runModel(init *State, prog []Op, committee bool) *Result {
	return runModelStat(init, prog, committee, nil)
}

// hstat counts what the handlers of a hand-assembled script did in the model.
type hstat struct{ catches, finallies, finalliesPending, swallowed int }

// runModelVM is the triage variant (see machine.vmPending); it is never used as the oracle.
func runModelVM(init *State, prog []Op, committee bool) *Result {
	return runModelOpt(init, prog, committee, nil, true)
}

func runModelStat(init *State, prog []Op, committee bool, hs *hstat) *Result {
	return runModelOpt(init, prog, committee, hs, false)
}

func runModelOpt(init *State, prog []Op, committee bool, hs *hstat, vmPending bool) *Result {
	m := &machine{st: init.clone(), committee: committee, hstat: hs, vmPending: vmPending, thrown: map[int]bool{}}
	m.st.Notes = nil
	f := &frame{inst: pA, flags: fAll}
	body := prog
	if isHand(prog) {
		f.inst, body = pEntry, prog[0].Body
	}
	out := m.exec(f, body)
	if out == oOK {
		// observers appended by the harness (they read through the native caches)
		if hasOp(prog, 'F') {
			f.log = append(f.log, fmt.Sprint(m.st.Fee)) // Policy.getFeePerByte()
		}
		if hasAny(prog, "KU") {
			f.log = append(f.log, fmt.Sprint(m.st.Blocked)) // Policy.isBlocked(account 5)
		}
		if hasOp(prog, 'Y') {
			f.log = append(f.log, fmt.Sprint(m.st.Deployed)) // ContractManagement.isContract(UD)
		}
	}
	res := &Result{Calls: m.calls, Restores: m.restores, Undone: m.undone, Thrown: m.thrown, IterUnspec: m.iterUnspec}
	if out != oOK {
		res.State = init.clone()
		res.State.Notes = nil
		return res
	}
	res.Halt = true
	res.Log = "[" + strings.Join(f.log, ",") + "]"
	res.State = m.st
	return res
}
