package c04

// Layer A, multi-transaction blocks. storeBlock reuses one VM for all
// transactions of a block, so what a faulted transaction leaves behind in the
// VM (not only in the DAO) can leak into its successors. Blocks [F, P],
// [F, P, P'] and [P, F, P'] are executed for every faulting kind F and every
// representative program P; every transaction's result must equal the
// reference interpreter's result for that transaction alone on the state left
// by the halted predecessors (faulted ones leave nothing but the fee).

import (
	"fmt"
	"strings"

	"github.com/nspcc-dev/neo-go/pkg/core/transaction"
	"github.com/nspcc-dev/neo-go/pkg/smartcontract/trigger"

	"verif/lib/chainx"
)

var (
	// faulting kinds: uncaught THROW in the entry contract / in a callee / rethrown
	// by a handler / crossing a native frame, ABORT, failing native call
	// hand-assembled scripts: fault by the rethrow at ENDFINALLY (handler left in FINALLY state, exception
	// pending), by a lost pending exception, by a failing callee called from a CATCH part
	multiF = []string{"A[E!]", "A[EBf[E!]]", "A[T{Bf[E!]}{E!}]", "A[$gB[E!]]", "A[E#]", "A[E~]",
		"H[{Bf[E]Cf[E!]||Bf[E]}]", "H[{!|Cf[E!]|Af[T{!}{}]}]", "H[{{!|Cf[E!]}||Bf[E]}]"}
	// successors: calls inside TRY that succeed, payment callbacks, deployment
	// (with and without TRY), calls after a self-caught throw, caught callee failures
	multiP = []string{
		"A[T{Bf[E]}{}E]", "A[ET{EBf[EP]E}{E}E]", "A[T{Bf[Cf[E]]}{}]", "A[Bf[T{Cf[E]}{}]]", "A[T{Bd[N]}{}]",
		"A[$gB[E]]", "A[$sB[EX]]", "A[$nB[E]X]", "A[T{$gB[E]}{}]", "A[Bf[$gC[E]]]",
		"A[Y]", "A[T{Bf[Y]}{}]", "A[T{!}{Bf[E]}E]", "A[T{!}{E}$gB[E]]", "A[T{Bf[E!]}{E}Cf[E]]", "A[FT{Bf[F]}{}]", "A[T{KBf[U]}{}]",
		"H[{{!|Cf[E!]}|Bf[E]}Bf[E]]", "H[{Bf[E]|Bf[E]|Cf[E]}{Cf[E!]|Bf[E]}]", "A[Cf[I[T{Bf[Cf[PE]!]}{}]]]",
	}
	multiP2 = []string{"A[T{Cf[E]}{}X]", "A[$gC[P]]"}
)

func multiBlocks(thorough bool) [][]string {
	var out [][]string
	p2 := multiP2
	if thorough {
		p2 = multiP
	}
	for _, f := range multiF {
		for _, p := range multiP {
			out = append(out, []string{f, p})
			for _, q := range p2 {
				out = append(out, []string{f, p, q}, []string{p, f, q})
			}
		}
	}
	if thorough {
		for _, f := range multiF {
			for _, g := range multiF {
				for _, p := range multiP {
					out = append(out, []string{f, g, p})
				}
			}
		}
	}
	return out
}

// runMultiBlock executes progs as the transactions of one block on rg and
// compares every transaction and the final state with the model.
func (c *checker) runMultiBlock(rg *rig, progs []string) (what, detail []string, err error) {
	st, err := rg.initState()
	if err != nil {
		return nil, nil, err
	}
	var txs []*transaction.Transaction
	var models []*Result
	var fees int64
	for _, p := range progs {
		ops, err := parseProg(p)
		if err != nil {
			return nil, nil, err
		}
		com := needsCommittee(ops)
		m := runModel(st, ops, com)
		models = append(models, m)
		st = m.State.clone()
		st.Notes = nil
		tx, err := rg.n.MakeTx(rg.w.script(ops), rg.signers(com), chainx.SysFee(feeFor(ops)))
		if err != nil {
			return nil, nil, fmt.Errorf("make tx: %w", err)
		}
		fees += tx.SystemFee + tx.NetworkFee
		txs = append(txs, tx)
		c.calls.Add(m.Calls + 1)
		c.states.Add(stateSig(m.State))
	}
	if _, err := rg.n.AddBlock(txs...); err != nil {
		return []string{"block-rejected"}, []string{err.Error()}, nil
	}
	c.blocks.Inc()
	c.execs.Add(len(txs))
	for i, tx := range txs {
		aers, err := rg.n.BC.GetAppExecResults(tx.Hash(), trigger.Application)
		if err != nil || len(aers) != 1 {
			return nil, nil, fmt.Errorf("no execution result: %v", err)
		}
		a := aers[0]
		rr := &real{Halt: a.VMState.String() == "HALT", Fault: a.FaultException, Notes: rg.w.renderEvents(a.Events)}
		if rr.Halt {
			rr.Log = rg.w.renderStack(a.Stack)
		}
		if wh, d := compare(models[i], rr); len(wh) > 0 {
			for j := range wh {
				wh[j] = fmt.Sprintf("tx%d-%s", i+1, wh[j])
				d[j] = fmt.Sprintf("tx %d (%s): %s", i+1, progs[i], d[j])
			}
			return wh, d, nil
		}
	}
	got, err := rg.w.readState(chainGetter{rg.n})
	if err != nil {
		return nil, nil, err
	}
	if f := rg.n.BC.FeePerByte(); f != got.Fee {
		got.Fee = -f
	}
	if wh, d := compare(&Result{State: st}, &real{State: got, Fees: fees}); len(wh) > 0 {
		for j := range wh {
			wh[j] = "final-" + wh[j]
		}
		return wh, d, nil
	}
	return nil, nil, nil
}

const multiChunk = 6

// runMulti executes all multi-transaction blocks, a few per replica.
func (c *checker) runMulti() (blocks int) {
	all := multiBlocks(c.r.Thorough())
	n := (len(all) + multiChunk - 1) / multiChunk
	c.r.Parallel(n, func(ci int) {
		chunk := all[ci*multiChunk : min(len(all), (ci+1)*multiChunk)]
		idx, what, detail, err := c.evalMulti(chunk)
		if err != nil {
			c.harness(err)
			return
		}
		if idx < 0 {
			c.r.Outcome("A:multi:agrees")
			return
		}
		c.r.Outcome("A:multi:DIFFERS:" + what[0])
		if !c.admit("multi", what) {
			return
		}
		rec := caseRec{Layer: "A", Mode: "multi", Prog: strings.Join(chunk[idx], ";"), What: what, Detail: detail}
		for _, b := range chunk[:idx] {
			rec.History = append(rec.History, strings.Join(b, ";"))
		}
		// does the block fail on a fresh replica, without the blocks before it?
		if i, w2, d2, err := c.evalMulti(chunk[idx : idx+1]); err == nil && i == 0 && len(w2) > 0 {
			rec.History, rec.What, rec.Detail = nil, w2, d2
		}
		c.r.Violation(fmt.Sprintf("A-multi:%s:%s", rec.What[0], rec.Prog), rec)
	})
	return len(all)
}

// evalMulti runs the blocks in order on a fresh replica; it returns the index
// of the first block that differs from the model (-1 if none).
func (c *checker) evalMulti(blocks [][]string) (idx int, what, detail []string, err error) {
	rg, err := c.w.newRig()
	if err != nil {
		return -1, nil, nil, err
	}
	defer rg.close()
	for i, b := range blocks {
		var e error
		if p := chainxTry(func() { what, detail, e = c.runMultiBlock(rg, b) }); p != nil {
			return i, []string{"panic"}, []string{p.Error()}, nil
		}
		if e != nil {
			return -1, nil, nil, e
		}
		if len(what) > 0 {
			return i, what, detail, nil
		}
	}
	return -1, nil, nil, nil
}
