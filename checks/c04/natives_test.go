package c04

// Layer C: "native setter then fault" - failed execution must leave no trace in
// the natives' in-memory caches either (copy-on-write discipline of the DAO
// layers: a cache object obtained read-only must never be written).
//
// For EVERY non-safe method of every native contract of this version (the
// table is checked against the manifests at run time; methods that cannot be
// made to succeed are listed with the reason) x state variant {never set
// before, set once in an earlier block, set in an earlier transaction of the
// same block} x failure kind {setter then ABORT, setter then uncaught THROW,
// callee sets and throws while the caller catches, discarded test invocation}:
//
//	X = live node that saw the failed execution, R = replica that saw a twin
//	without the setter (same signers, fees) or nothing at all (test invocation).
//
// Compared, on X WITHOUT restart against R: every safe getter of every stateful
// native (enumerated from the manifests over argument pools, executed as test
// invocations), the chainx observation (state root, storage, committee,
// validators, policy values, contracts, candidates), transaction admission
// (VerifyTx) and the execution results (GAS consumed, state, stack) of a block
// of behaviour transactions (call of the whitelisted method, deployment,
// candidate registration, oracle request, in-transaction getters, attribute
// fee), two more blocks, and finally X after a restart against R.

import (
	"encoding/json"
	"fmt"
	"sort"
	"strings"

	"github.com/nspcc-dev/neo-go/pkg/core/native/nativehashes"
	"github.com/nspcc-dev/neo-go/pkg/core/native/nativenames"
	"github.com/nspcc-dev/neo-go/pkg/core/native/noderoles"
	"github.com/nspcc-dev/neo-go/pkg/core/transaction"
	"github.com/nspcc-dev/neo-go/pkg/neotest"
	"github.com/nspcc-dev/neo-go/pkg/smartcontract"
	"github.com/nspcc-dev/neo-go/pkg/smartcontract/callflag"
	"github.com/nspcc-dev/neo-go/pkg/smartcontract/manifest"
	"github.com/nspcc-dev/neo-go/pkg/smartcontract/trigger"
	"github.com/nspcc-dev/neo-go/pkg/util"
	"github.com/nspcc-dev/neo-go/pkg/vm/opcode"

	"verif/lib/chainx"
)

// nenv is what a spec may look at when it builds its call: values of the
// state before the prior/failing calls.
type nenv struct {
	w   *world
	mtb int64 // MaxTraceableBlocks
	ue  *neotest.Contract
}

type preTx struct {
	sender    int
	committee bool
	script    []byte
}

type nspec struct {
	Native, Method string
	Committee      bool
	Sender         int                                        // account paying and signing (default 1)
	Op             func(e *nenv, v int, sameBlock bool) []any // the U op; v=1 earlier successful call, v=2 the call in the failed execution
	Pre            func(e *nenv) [][]preTx                    // prerequisite blocks
	NoPrior        string                                     // reason why "set before"/"same block" do not apply
	NA             string                                     // reason why the method is not exercised at all
	Fee            int64                                      // system fee (default 30 GAS)
	PriorSender    int                                        // sender of the earlier call if different
}

func acch(i int) []byte { return chainx.Acc(i).ScriptHash().BytesBE() }
func accp(i int) []byte { return chainx.Acc(i).PublicKey().Bytes() }

func pick[T any](v int, a, b T) T {
	if v == 1 {
		return a
	}
	return b
}

func nspecs() []nspec {
	pol, neo, gas, mgmt, role, orc, ntr := nativehashes.PolicyContract, nativehashes.NeoToken, nativehashes.GasToken, nativehashes.ContractManagement,
		nativehashes.RoleManagement, nativehashes.OracleContract, nativehashes.Notary
	setter := func(native string, h util.Uint160, method string, a, b any) nspec {
		return nspec{Native: native, Method: method, Committee: true, Op: func(e *nenv, v int, _ bool) []any { return ucall(h, method, pick(v, a, b)) }}
	}
	P, N, M, O, T := nativenames.Policy, nativenames.Neo, nativenames.Management, nativenames.Oracle, nativenames.Notary
	committeeRun := func(ops ...[]any) func(e *nenv) [][]preTx {
		return func(e *nenv) [][]preTx {
			var blk []preTx
			for _, op := range ops {
				blk = append(blk, preTx{sender: 3, committee: true, script: urun(e.w.hashes[pB], op)})
			}
			return [][]preTx{blk}
		}
	}
	manifestV := func(e *nenv, v int) []byte {
		mb, _ := json.Marshal(e.w.cw.UB.Manifest)
		m := new(manifest.Manifest)
		_ = json.Unmarshal(mb, m)
		m.Extra = json.RawMessage(fmt.Sprintf(`"v%d"`, v))
		out, _ := json.Marshal(m)
		return out
	}
	nefOf := func(c *neotest.Contract) []byte { b, _ := c.NEF.Bytes(); return b }
	manOf := func(c *neotest.Contract) []byte { b, _ := json.Marshal(c.Manifest); return b }
	return []nspec{
		// ---- Policy ----
		setter(P, pol, "setFeePerByte", 1500, 2500),
		setter(P, pol, "setExecFeeFactor", 20, 40),
		setter(P, pol, "setStoragePrice", 50000, 70000),
		setter(P, pol, "setMillisecondsPerBlock", 2000, 3000),
		{Native: P, Method: "setMaxTraceableBlocks", Committee: true, Op: func(e *nenv, v int, _ bool) []any { return ucall(pol, "setMaxTraceableBlocks", e.mtb-int64(v)) }},
		setter(P, pol, "setMaxValidUntilBlockIncrement", 50, 60),
		{Native: P, Method: "setAttributeFee", Committee: true, Op: func(e *nenv, v int, _ bool) []any {
			return ucall(pol, "setAttributeFee", int(transaction.ConflictsT), pick(v, 1000000, 2000000))
		}},
		{Native: P, Method: "blockAccount", Committee: true, Op: func(e *nenv, v int, _ bool) []any { return ucall(pol, "blockAccount", acch(pick(v, 7, 5))) }},
		{Native: P, Method: "unblockAccount", Committee: true, Pre: committeeRun(ucall(pol, "blockAccount", acch(5)), ucall(pol, "blockAccount", acch(7))),
			Op: func(e *nenv, v int, _ bool) []any { return ucall(pol, "unblockAccount", acch(pick(v, 7, 5))) }},
		{Native: P, Method: "setWhitelistFeeContract", Committee: true, Op: func(e *nenv, v int, _ bool) []any {
			return ucall(pol, "setWhitelistFeeContract", e.w.hashes[pC].BytesBE(), "other", 1, pick(v, 50000000, 150000000))
		}},
		{Native: P, Method: "removeWhitelistFeeContract", Committee: true, Pre: func(e *nenv) [][]preTx {
			return committeeRun(ucall(pol, "setWhitelistFeeContract", e.w.hashes[pC].BytesBE(), "other", 1, 50000000),
				ucall(pol, "setWhitelistFeeContract", e.w.hashes[pA].BytesBE(), "other", 1, 70000000))(e)
		}, Op: func(e *nenv, v int, _ bool) []any {
			return ucall(pol, "removeWhitelistFeeContract", e.w.hashes[pick(v, pA, pC)].BytesBE(), "other", 1)
		}},
		{Native: P, Method: "recoverFund", NA: "needs an account blocked for at least one year of block time"},
		// ---- NEO ----
		{Native: N, Method: "registerCandidate", Sender: 3, Fee: 1100 * gasUnit, Op: func(e *nenv, v int, _ bool) []any { return ucall(neo, "registerCandidate", accp(3)) }},
		{Native: N, Method: "unregisterCandidate", Op: func(e *nenv, v int, _ bool) []any { return ucall(neo, "unregisterCandidate", accp(1)) }},
		{Native: N, Method: "vote", Pre: func(e *nenv) [][]preTx {
			return [][]preTx{{{sender: 2, script: chainx.CallScript(neo, "registerCandidate", accp(2))}}}
		}, Op: func(e *nenv, v int, _ bool) []any { return ucall(neo, "vote", acch(1), accp(pick(v, 1, 2))) }},
		setter(N, neo, "setGasPerBlock", 6*gasUnit, 7*gasUnit),
		setter(N, neo, "setRegisterPrice", 900*gasUnit, 800*gasUnit),
		{Native: N, Method: "transfer", Op: func(e *nenv, v int, _ bool) []any {
			return ucall(neo, "transfer", acch(1), acch(2), pick(v, 5, 7), nil)
		}},
		{Native: N, Method: "onNEP17Payment", Sender: 3, Fee: 50 * gasUnit, Op: func(e *nenv, v int, _ bool) []any {
			return ucall(gas, "transfer", acch(3), neo.BytesBE(), 1000*gasUnit, accp(3))
		}},
		// ---- GAS ----
		{Native: nativenames.Gas, Method: "transfer", Op: func(e *nenv, v int, _ bool) []any {
			return ucall(gas, "transfer", acch(1), acch(2), pick(v, 5, 7), nil)
		}},
		// ---- ContractManagement ----
		{Native: M, Method: "deploy/2", Op: func(e *nenv, v int, _ bool) []any {
			if v == 1 {
				return ucall(mgmt, "deploy", nefOf(e.ue), manOf(e.ue))
			}
			return ucall(mgmt, "deploy", e.w.udNEF, e.w.udManifest)
		}},
		{Native: M, Method: "deploy/3", Op: func(e *nenv, v int, _ bool) []any {
			if v == 1 {
				return ucall(mgmt, "deploy", nefOf(e.ue), manOf(e.ue), nil)
			}
			return ucall(mgmt, "deploy", e.w.udNEF, e.w.udManifest, nil)
		}},
		{Native: M, Method: "update/2", Op: func(e *nenv, v int, _ bool) []any { return ucall(mgmt, "update", nefOf(e.w.cw.UB), manifestV(e, v)) }},
		{Native: M, Method: "update/3", Op: func(e *nenv, v int, _ bool) []any {
			return ucall(mgmt, "update", nefOf(e.w.cw.UB), manifestV(e, v), nil)
		}},
		{Native: M, Method: "destroy", NoPrior: "a contract can be destroyed once", Op: func(e *nenv, v int, _ bool) []any { return ucall(mgmt, "destroy") }},
		setter(M, mgmt, "setMinimumDeploymentFee", 5*gasUnit, 15*gasUnit),
		// ---- RoleManagement ----
		{Native: nativenames.Designation, Method: "designateAsRole", Committee: true, Op: func(e *nenv, v int, sameBlock bool) []any {
			r := noderoles.Oracle
			if v == 1 && sameBlock { // one designation per role and block
				r = noderoles.StateValidator
			}
			return ucall(role, "designateAsRole", int(r), []any{accp(pick(v, 3, 4))})
		}},
		// ---- Oracle ----
		setter(O, orc, "setPrice", 30000000, 70000000),
		{Native: O, Method: "request", Op: func(e *nenv, v int, _ bool) []any {
			return ucall(orc, "request", pick(v, "https://a.b/1", "https://a.b/2"), nil, "other", nil, gasUnit/10)
		}},
		{Native: O, Method: "finish", NA: "callable only from an oracle response transaction signed by the designated oracle nodes"},
		// ---- Notary ----
		setter(T, ntr, "setMaxNotValidBeforeDelta", 20, 24),
		{Native: T, Method: "onNEP17Payment", Op: func(e *nenv, v int, _ bool) []any {
			return ucall(gas, "transfer", acch(1), ntr.BytesBE(), pick(v, 20, 5)*gasUnit, []any{nil, pick(v, 150, 160)})
		}},
		{Native: T, Method: "lockDepositUntil", Pre: func(e *nenv) [][]preTx {
			return [][]preTx{{{sender: 1, script: chainx.CallScript(gas, "transfer", acch(1), ntr.BytesBE(), 20*gasUnit, []any{nil, 150})}}}
		}, Op: func(e *nenv, v int, _ bool) []any { return ucall(ntr, "lockDepositUntil", acch(1), pick(v, 160, 170)) }},
		{Native: T, Method: "withdraw", PriorSender: 2, Pre: func(e *nenv) [][]preTx {
			h := int(e.w.height) + 2 // the deposit block is height+1; it expires right after it
			return [][]preTx{{
				{sender: 1, script: chainx.CallScript(gas, "transfer", acch(1), ntr.BytesBE(), 20*gasUnit, []any{nil, h})},
				{sender: 2, script: chainx.CallScript(gas, "transfer", acch(2), ntr.BytesBE(), 20*gasUnit, []any{nil, h})},
			}, {}, {}}
		}, Op: func(e *nenv, v int, _ bool) []any { return ucall(ntr, "withdraw", acch(pick(v, 2, 1)), nil) }},
	}
}

var (
	nVariants = []string{"never-set", "set-before", "same-block"}
	// caught-nested: the setter runs two calls down, its own layer is merged into the
	// middle callee's layer (TRY around it completes), the middle callee then throws
	nKinds = []string{"abort", "throw", "caught", "caught-nested", "testinvoke"}
)

type ncase struct {
	Spec    nspec
	Variant string
	Kind    string
}

func (c ncase) name() string {
	return fmt.Sprintf("%s.%s:%s:%s", c.Spec.Native, c.Spec.Method, c.Variant, c.Kind)
}

// ---- getters ------------------------------------------------------------------------

var statelessNatives = map[string]bool{nativenames.Ledger: true, nativenames.StdLib: true, nativenames.CryptoLib: true}

func (rg *rig) argPool(p manifest.Parameter, e *nenv) []any {
	h := int(rg.n.Height())
	switch p.Type {
	case smartcontract.Hash160Type:
		out := []any{}
		for _, i := range []int{1, 2, 3, 5, 7} {
			out = append(out, acch(i))
		}
		for _, x := range []util.Uint160{rg.w.hashes[pA], rg.w.hashes[pB], rg.w.hashes[pC], rg.w.ud, e.ue.Hash, nativehashes.GasToken, nativehashes.Notary} {
			out = append(out, x.BytesBE())
		}
		return out
	case smartcontract.PublicKeyType:
		return []any{accp(1), accp(2), accp(3), accp(4)}
	case smartcontract.StringType:
		return []any{"other", "run"}
	case smartcontract.IntegerType:
		switch p.Name {
		case "role":
			return []any{int(noderoles.StateValidator), int(noderoles.Oracle), int(noderoles.NeoFSAlphabet), int(noderoles.P2PNotary)}
		case "index", "end":
			return []any{h + 1}
		case "attributeType":
			return []any{int(transaction.HighPriority), int(transaction.OracleResponseT), int(transaction.NotValidBeforeT), int(transaction.ConflictsT), int(transaction.NotaryAssistedT)}
		case "id":
			return []any{1, 2, 3, 4, 5, 6}
		case "pcount", "argCount", "paramCount":
			return []any{1}
		}
		return []any{0, 1}
	}
	return nil
}

// getters calls every safe method of every stateful native over the argument
// pools in test invocations and renders the results.
func (rg *rig) getters(e *nenv) map[string]string {
	out := map[string]string{}
	bc := rg.n.BC
	for _, nc := range bc.GetNatives() {
		cs := bc.GetContractState(nc.Hash)
		if cs == nil || statelessNatives[cs.Manifest.Name] {
			continue
		}
		for _, m := range cs.Manifest.ABI.Methods {
			if !m.Safe {
				continue
			}
			combos := [][]any{{}}
			ok := true
			for _, p := range m.Parameters {
				pool := rg.argPool(p, e)
				if pool == nil {
					ok = false
					break
				}
				var next [][]any
				for _, c := range combos {
					for _, v := range pool {
						if len(next) < 64 {
							next = append(next, append(append([]any{}, c...), v))
						}
					}
				}
				combos = next
			}
			if !ok {
				continue
			}
			for ci, args := range combos {
				script := chainx.CallScript(nc.Hash, m.Name, args...)
				tx := transaction.New(script, 0)
				tx.Signers = []transaction.Signer{{Account: chainx.Acc(1).ScriptHash(), Scopes: transaction.Global}}
				ic, err := bc.GetTestVM(trigger.Application, tx, nil)
				if err != nil {
					out[fmt.Sprintf("%s.%s#%d", cs.Manifest.Name, m.Name, ci)] = "error: " + err.Error()
					continue
				}
				ic.VM.LoadScriptWithFlags(script, callflag.All)
				res := ""
				if err := ic.Exec(); err != nil {
					res = "FAULT"
				} else {
					res = rg.w.renderStack(ic.VM.Estack().ToArray())
				}
				out[fmt.Sprintf("%s.%s#%d", cs.Manifest.Name, m.Name, ci)] = res
			}
		}
	}
	return out
}

func diffGetters(a, b map[string]string) []string {
	var d []string
	for k, v := range a {
		if b[k] != v {
			d = append(d, fmt.Sprintf("%s: live node %.160s, reference %.160s", k, v, b[k]))
		}
	}
	sort.Strings(d)
	if len(d) > 6 {
		d = append(d[:6], fmt.Sprintf("... %d more", len(d)-6))
	}
	return d
}

// ---- the case runner ---------------------------------------------------------------------

func (rg *rig) signersFor(sender int, committee bool) []neotest.Signer {
	s := []neotest.Signer{chainx.Signer(sender)}
	if committee {
		s = append(s, rg.n.Committee)
	}
	return s
}

// manualTx builds a transaction with given script, nonce and fees (no test invocation, no fee computation).
func (rg *rig) manualTx(script []byte, like *transaction.Transaction, signers []neotest.Signer) (*transaction.Transaction, error) {
	t := transaction.New(script, like.SystemFee)
	t.Nonce = like.Nonce
	t.ValidUntilBlock = like.ValidUntilBlock
	t.NetworkFee = like.NetworkFee
	t.Signers = append([]transaction.Signer{}, like.Signers...)
	for _, s := range signers {
		if err := s.SignTx(rg.n.BC.GetConfig().Magic, t); err != nil {
			return nil, err
		}
	}
	return t, nil
}

func (rg *rig) vmState(h util.Uint256) string {
	x, err := rg.n.BC.GetAppExecResults(h, trigger.Application)
	if err != nil || len(x) != 1 {
		return "?"
	}
	return x[0].VMState.String()
}

type nrun struct {
	c          *checker
	execs      int
	noEffect   bool
	prefixInfo string
}

func (nr *nrun) run(cs ncase) (what, detail []string, err error) {
	w := nr.c.w
	sp := cs.Spec
	sender := sp.Sender
	if sender == 0 {
		sender = 1
	}
	fee := sp.Fee
	if fee == 0 {
		fee = 30 * gasUnit
	}
	needV := cs.Kind == "abort"
	var rgs []*rig
	defer func() {
		for _, r := range rgs {
			r.close()
		}
	}()
	mk := func() (*rig, error) {
		r, err := w.newRig()
		if err == nil {
			rgs = append(rgs, r)
		}
		return r, err
	}
	X, err := mk()
	if err != nil {
		return nil, nil, err
	}
	R, err := mk()
	if err != nil {
		return nil, nil, err
	}
	nodes := []*rig{X, R}
	if needV {
		V, err := mk()
		if err != nil {
			return nil, nil, err
		}
		nodes = append(nodes, V)
	}
	ue, err := chainx.CompileU(chainx.UVariant{Name: "UE", Sender: chainx.Acc(sender).ScriptHash()})
	if err != nil {
		return nil, nil, err
	}
	e := &nenv{w: w, mtb: int64(R.n.BC.GetMaxTraceableBlocks()), ue: ue}
	addAll := func(txs []*transaction.Transaction, mustHalt bool, to []*rig) error {
		for _, n := range to {
			var cl []*transaction.Transaction
			for _, t := range txs {
				cl = append(cl, cloneTx(t))
			}
			if _, err := n.n.AddBlock(cl...); err != nil {
				return fmt.Errorf("block rejected: %w", err)
			}
			nr.execs += len(cl)
			if mustHalt {
				for _, t := range txs {
					if s := n.vmState(t.Hash()); s != "HALT" {
						return fmt.Errorf("prerequisite transaction did not halt: %s", n.txAER(t.Hash()))
					}
				}
			}
		}
		return nil
	}
	// prerequisites
	if sp.Pre != nil {
		for _, blk := range sp.Pre(e) {
			var txs []*transaction.Transaction
			for _, p := range blk {
				tx, err := R.n.MakeTx(p.script, R.signersFor(p.sender, p.committee), chainx.SysFee(1100*gasUnit))
				if err != nil {
					return nil, nil, err
				}
				txs = append(txs, tx)
			}
			if err := addAll(txs, true, nodes); err != nil {
				return nil, nil, fmt.Errorf("prerequisites: %w", err)
			}
		}
	}
	same := cs.Variant == "same-block"
	ub, ua := w.hashes[pB], w.hashes[pA]
	var prior *transaction.Transaction
	if cs.Variant != "never-set" {
		ps := sp.PriorSender
		if ps == 0 {
			ps = sender
		}
		if prior, err = R.n.MakeTx(urun(ub, sp.Op(e, 1, same)), R.signersFor(ps, sp.Committee), chainx.SysFee(fee)); err != nil {
			return nil, nil, err
		}
		if !same {
			if err := addAll([]*transaction.Transaction{prior}, true, nodes); err != nil {
				return nil, nil, fmt.Errorf("earlier call: %w", err)
			}
		}
	}
	op := sp.Op(e, 2, same)
	signers := R.signersFor(sender, sp.Committee)
	var tScript, twinScript []byte
	switch cs.Kind {
	case "abort":
		tScript, twinScript = urun(ub, op, []any{chainx.OpAbort}), []byte{byte(opcode.ABORT)}
	case "throw":
		tScript, twinScript = urun(ub, op, []any{chainx.OpThrow}), []byte{byte(opcode.ABORT)}
	case "caught":
		tScript = urun(ua, []any{chainx.OpTry, []any{[]any{chainx.OpRun, ub.BytesBE(), 15, []any{op, []any{chainx.OpThrow}}}}, []any{}})
		twinScript = urun(ua, []any{chainx.OpTry, []any{[]any{chainx.OpRun, ub.BytesBE(), 15, []any{[]any{chainx.OpThrow}}}}, []any{}})
	case "caught-nested":
		uc := w.hashes[pC]
		mid := func(inner []any) []any {
			return []any{chainx.OpTry, []any{[]any{chainx.OpRun, uc.BytesBE(), 15, []any{
				[]any{chainx.OpTry, []any{[]any{chainx.OpRun, ub.BytesBE(), 15, inner}}, []any{}},
				[]any{chainx.OpThrow}}}}, []any{}}
		}
		tScript, twinScript = urun(ua, mid([]any{op})), urun(ua, mid([]any{}))
	case "testinvoke":
		tScript = urun(ub, op)
	}
	fail := func(w, d string) ([]string, []string, error) { return []string{w}, []string{d}, nil }
	var T, pt *transaction.Transaction
	if cs.Kind == "testinvoke" {
		// the RPC path: executed on the live node's state and thrown away
		tx := transaction.New(tScript, fee)
		tx.ValidUntilBlock = X.n.Height() + 5
		for _, s := range signers {
			tx.Signers = append(tx.Signers, transaction.Signer{Account: s.ScriptHash(), Scopes: transaction.Global})
		}
		ic, err := X.n.BC.GetTestVM(trigger.Application, tx, nil)
		if err != nil {
			return nil, nil, err
		}
		ic.VM.LoadScriptWithFlags(tScript, callflag.All)
		ic.VM.SetGasLimit(fee)
		if err := ic.Exec(); err != nil {
			return nil, nil, fmt.Errorf("test invocation of the setter faults: %w", err)
		}
		nr.execs++
	} else {
		if T, err = R.n.MakeTx(tScript, signers, chainx.SysFee(fee)); err != nil {
			return nil, nil, err
		}
		twin, err := R.manualTx(twinScript, T, signers)
		if err != nil {
			return nil, nil, err
		}
		if needV { // the setter alone, built on the same state as T
			if pt, err = R.n.MakeTx(urun(ub, op), signers, chainx.SysFee(fee), func(t *transaction.Transaction) { t.Nonce = T.Nonce }); err != nil {
				return nil, nil, err
			}
		}
		blk := func(t *transaction.Transaction) []*transaction.Transaction {
			if same {
				return []*transaction.Transaction{prior, t}
			}
			return []*transaction.Transaction{t}
		}
		if err := addAll(blk(T), false, []*rig{X}); err != nil {
			return fail("block-with-T-rejected", err.Error())
		}
		if err := addAll(blk(twin), false, []*rig{R}); err != nil {
			return nil, nil, err
		}
		wantT := "FAULT"
		if cs.Kind == "caught" || cs.Kind == "caught-nested" {
			wantT = "HALT"
		}
		if s := X.vmState(T.Hash()); s != wantT {
			return nil, nil, fmt.Errorf("T is %s, expected %s: %s", s, wantT, X.txAER(T.Hash()))
		}
		if s := R.vmState(twin.Hash()); s != wantT {
			return nil, nil, fmt.Errorf("twin is %s, expected %s: %s", s, wantT, R.txAER(twin.Hash()))
		}
		if same {
			if s := X.vmState(prior.Hash()); s != "HALT" {
				return nil, nil, fmt.Errorf("earlier call in the same block did not halt: %s", X.txAER(prior.Hash()))
			}
		}
	}
	hashes := []util.Uint160{w.hashes[pA], w.hashes[pB], w.hashes[pC], w.ud, ue.Hash}
	maxID := w.cw.MaxID + 3
	stage := func(name string, x *rig) (what, detail []string, err error) {
		ox, err := x.n.Observe(maxID, hashes)
		if err != nil {
			return nil, nil, err
		}
		or, err := R.n.Observe(maxID, hashes)
		if err != nil {
			return nil, nil, err
		}
		if wh, d := diffObs(ox, or); len(wh) > 0 {
			return []string{name + ":" + wh[0]}, d, nil
		}
		if d := diffGetters(x.getters(e), R.getters(e)); len(d) > 0 {
			return []string{name + ":getters"}, d, nil
		}
		return nil, nil, nil
	}
	// non-vacuity: the setter alone halts and is observable
	if needV {
		V := nodes[2]
		txs := []*transaction.Transaction{pt}
		if same {
			txs = []*transaction.Transaction{prior, pt}
		}
		if err := addAll(txs, false, []*rig{V}); err != nil {
			return nil, nil, err
		}
		if s := V.vmState(pt.Hash()); s != "HALT" {
			return nil, nil, fmt.Errorf("the setter alone does not halt: %s", V.txAER(pt.Hash()))
		}
		wh, _, err := stage("v", V)
		if err != nil {
			return nil, nil, err
		}
		nr.noEffect = len(wh) == 0
	}
	if wh, d, err := stage("live", X); err != nil || len(wh) > 0 {
		return wh, d, err
	}
	// behaviour: admission and execution of the same transactions on both nodes
	btxs, err := R.behaviour(e)
	if err != nil {
		return nil, nil, err
	}
	var keep []*transaction.Transaction
	for i, t := range btxs {
		ex, er := X.n.BC.VerifyTx(cloneTx(t)), R.n.BC.VerifyTx(cloneTx(t))
		if (ex == nil) != (er == nil) {
			return fail("behaviour:admission", fmt.Sprintf("behaviour tx %d: live node %v, reference %v", i, ex, er))
		}
		if ex == nil {
			keep = append(keep, t)
		}
	}
	for k := 0; k < 3; k++ {
		var txs []*transaction.Transaction
		if k == 0 {
			txs = keep
		}
		if err := addAll(txs, false, []*rig{X}); err != nil {
			return fail("behaviour:block-rejected", err.Error())
		}
		if err := addAll(txs, false, []*rig{R}); err != nil {
			return nil, nil, err
		}
		for i, t := range txs {
			if x, y := X.txAER(t.Hash()), R.txAER(t.Hash()); x != y {
				return fail("behaviour:execution", fmt.Sprintf("behaviour tx %d: live node %.300s, reference %.300s", i, x, y))
			}
		}
		if wh, d, err := stage(fmt.Sprintf("after-block-%d", k+1), X); err != nil || len(wh) > 0 {
			return wh, d, err
		}
	}
	// the same node after a restart
	m, err := X.n.Reopen()
	if err != nil {
		return nil, nil, fmt.Errorf("restart: %w", err)
	}
	X.n = m
	if wh, d, err := stage("restarted", X); err != nil || len(wh) > 0 {
		return wh, d, err
	}
	return nil, nil, nil
}

// behaviour builds transactions whose admission and cost depend on native settings.
func (rg *rig) behaviour(e *nenv) ([]*transaction.Transaction, error) {
	w := rg.w
	neo, orc, mgmt, gas := nativehashes.NeoToken, nativehashes.OracleContract, nativehashes.ContractManagement, nativehashes.GasToken
	uf, err := chainx.CompileU(chainx.UVariant{Name: "UF", Sender: chainx.Acc(6).ScriptHash()})
	if err != nil {
		return nil, err
	}
	mb, _ := json.Marshal(uf.Manifest)
	nb, _ := uf.NEF.Bytes()
	type b struct {
		sender int
		script []byte
		fee    int64
		opt    chainx.TxOpt
	}
	bs := []b{
		{2, urun(w.hashes[pA], ucall(w.hashes[pC], "other", 1), ucall(w.hashes[pA], "other", 2), uput("bp", "1"), []any{chainx.OpNotify, 1},
			[]any{chainx.OpRun, w.hashes[pB].BytesBE(), 15, []any{uput("bp", "1")}}), 10 * gasUnit, nil},
		{6, chainx.CallScript(mgmt, "deploy", nb, mb, nil), 30 * gasUnit, nil},
		{4, chainx.CallScript(neo, "registerCandidate", accp(4)), 1010 * gasUnit, nil},
		{2, urun(w.hashes[pA], ucall(orc, "request", "https://x.y/z", nil, "other", nil, gasUnit/10)), 10 * gasUnit, nil},
		{2, w.probeScript(rg.n.Height()), 10 * gasUnit, nil},
		{6, chainx.CallScript(gas, "transfer", acch(6), acch(2), 3, nil), gasUnit, func(t *transaction.Transaction) {
			t.Attributes = append(t.Attributes, transaction.Attribute{Type: transaction.ConflictsT, Value: &transaction.Conflicts{Hash: util.Uint256{1, 2, 3}}})
		}},
		{5, chainx.CallScript(gas, "transfer", acch(5), acch(2), 3, nil), gasUnit, nil},
		{1, chainx.CallScript(gas, "transfer", acch(1), acch(7), 3, nil), gasUnit, func(t *transaction.Transaction) { t.ValidUntilBlock = rg.n.Height() + 55 }},
	}
	var out []*transaction.Transaction
	for _, x := range bs {
		opts := []chainx.TxOpt{chainx.SysFee(x.fee)}
		if x.opt != nil {
			opts = append(opts, x.opt)
		}
		tx, err := rg.n.MakeTx(x.script, []neotest.Signer{chainx.Signer(x.sender)}, opts...)
		if err != nil {
			return nil, fmt.Errorf("behaviour tx: %w", err)
		}
		out = append(out, tx)
	}
	return out, nil
}

// checkSpecTable compares the table with the manifests: every non-safe native
// method must be listed (so that a new method cannot be forgotten silently).
func (c *checker) checkSpecTable(rg *rig) error {
	listed := map[string]bool{}
	for _, s := range nspecs() {
		listed[s.Native+"."+strings.SplitN(s.Method, "/", 2)[0]] = true
	}
	var missing []string
	for _, nc := range rg.n.BC.GetNatives() {
		cs := rg.n.BC.GetContractState(nc.Hash)
		if cs == nil {
			continue
		}
		for _, m := range cs.Manifest.ABI.Methods {
			if !m.Safe && !listed[cs.Manifest.Name+"."+m.Name] {
				missing = append(missing, cs.Manifest.Name+"."+m.Name)
			}
		}
	}
	if len(missing) > 0 {
		return fmt.Errorf("state-changing native methods without a spec: %v", missing)
	}
	return nil
}

func nativeCases() (cases []ncase, na []string) {
	for _, s := range nspecs() {
		if s.NA != "" {
			na = append(na, fmt.Sprintf("%s.%s: %s", s.Native, s.Method, s.NA))
			continue
		}
		for _, v := range nVariants {
			if v != "never-set" && s.NoPrior != "" {
				na = append(na, fmt.Sprintf("%s.%s:%s: %s", s.Native, s.Method, v, s.NoPrior))
				continue
			}
			for _, k := range nKinds {
				if k == "testinvoke" && v == "same-block" {
					continue // a test invocation runs on committed state: same as set-before
				}
				cases = append(cases, ncase{Spec: s, Variant: v, Kind: k})
			}
		}
	}
	return
}

func (c *checker) runNatives() (cov map[string]any, execs int) {
	r := c.r
	rg, err := c.getRig()
	if err == nil {
		err = c.checkSpecTable(rg)
		c.putRig(rg)
	}
	if err != nil {
		c.harness(err)
	}
	cases, na := nativeCases()
	var done, agree, ex int64
	noEff := map[string]bool{}
	r.Parallel(len(cases), func(i int) {
		cs := cases[i]
		nr := &nrun{c: c}
		var what, detail []string
		var err error
		if p := chainxTry(func() { what, detail, err = nr.run(cs) }); p != nil {
			what, detail = []string{"panic"}, []string{p.Error()}
		}
		c.mu.Lock()
		done++
		ex += int64(nr.execs)
		if nr.noEffect {
			noEff[cs.Spec.Native+"."+cs.Spec.Method+":"+cs.Variant] = true
		}
		c.mu.Unlock()
		if err != nil {
			c.harness(fmt.Errorf("layer C %s: %w", cs.name(), err))
			return
		}
		if len(what) > 0 {
			r.Outcome("C:DIFFERS:" + strings.SplitN(what[0], ":", 2)[0])
			if c.admitN("native:"+cs.Spec.Native+"."+cs.Spec.Method, []string{"leak"}, 4) {
				r.Violation("native-cache-leak:"+cs.name(), caseRec{Layer: "C", Mode: "native", Prog: cs.Spec.Native + "." + cs.Spec.Method, Family: cs.Variant, Pos: cs.Kind, What: what, Detail: detail})
			}
			return
		}
		c.mu.Lock()
		agree++
		c.mu.Unlock()
		r.Outcome("C:agrees:" + cs.Kind)
	})
	var ne []string
	for k := range noEff {
		ne = append(ne, k)
	}
	sort.Strings(ne)
	fmt.Printf("layer C: %d native-setter cases (%d agree), %.1fs\n", done, agree, r.Elapsed())
	var methods []string
	for _, s := range nspecs() {
		if s.NA == "" {
			methods = append(methods, s.Native+"."+s.Method)
		}
	}
	return map[string]any{"methods": methods, "state_variants": nVariants, "failure_kinds": nKinds, "cases": len(cases), "cases_done": done, "cases_agree": agree,
		"not_applicable": na, "setter_alone_has_no_observable_effect": ne, "executions": ex}, int(ex)
}
