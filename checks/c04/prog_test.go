package c04

// Programs for the universal contract U: syntax tree, compact rendering (which
// is also the storage and replay format), parser, and the bounded enumerator.
//
// Rendering:
//   prog := 'A[' seq ']'                      entry: UA.run(seq) with all call flags
//   op   := 'E'   PUT k<id> <id>; NOTIFY <id>   (an "effect": a storage and a notification trace, unique per position)
//         | 'N'   NOTIFY <id>                   (works without the WriteStates flag)
//         | 'P'   PUT a <id>                    (key shared by all instances and positions; exists initially)
//         | 'D'   DEL a
//         | 'X'   GAS.transfer(self -> account 2, 1, nil)
//         | 'F'   Policy.setFeePerByte(1000+<id>)   (needs the committee witness: the tx is then also signed by the committee)
//         | 'K'   Policy.blockAccount(account 5)   | 'U' Policy.unblockAccount(account 5)   (committee; cached sorted list + storage)
//         | 'Y'   ContractManagement.deploy(fourth instance UD)            (contract registry cache + storage + Deploy event)
//         | '!'   THROW   | '#' ABORT   | '~' GAS.transfer(self -> account 2, -1) = failing native call
//         | inst flag '[' seq ']'               RUN: call <inst>.run(seq) with call flags <flag> (hex digit)
//         | '$' src inst '[' seq ']'            native transfer of 1 token to <inst> with data = seq (executed by onNEP17Payment)
//                                               src: g = GAS from the current contract, s = GAS from the sender, n = NEO from the sender
//         | 'T{' seq '}{' seq '}'               TRY body handler (handler runs after the TRY block ended)
//
// Hand-assembled entry scripts (hasm_test.go): the transaction script itself
// carries the exception handlers, so that calls are made from inside TRY, CATCH
// and FINALLY parts of nested handlers of ONE context:
//   prog := 'H[' seq ']'                      entry script with call flags All
//   op   := inst flag '[' seq ']' | '$' ('s'|'n') inst '[' seq ']' | 'F' | 'K' | 'U' | 'Y' | '!' | '#'   as above, executed by the entry script
//         | '{' seq '|' seq '}'                 TRY body CATCH catch
//         | '{' seq '||' seq '}'                TRY body FINALLY fin
//         | '{' seq '|' seq '|' seq '}'         TRY body CATCH catch FINALLY fin
//         | '(' seq ')'                         CALL of a subroutine of the same script (its own frame, same script context)
// Through the token conduit W (wtoken_test.go), from any contract or from a hand-assembled script:
//         | 'W' mode inst '[' seq ']'           W.<mode><inst>(seq): W reaches inst.run(seq) by CALLT; mode c = no handler,
//                                               t = W catches the callee's failure (result 71), f = try/finally without catch
//         | 'Z'                                 ContractManagement.destroy() of the executing instance
// Op of instance C only (it is deployed from the extended source v.go.txt):
//         | 'I[' seq ']'                        open a Storage.Find iterator over the own storage, run seq, then consume the iterator

import (
	"fmt"
	"sort"
	"strings"
)

type Op struct {
	K     byte // E N P D X F ! # ~ r(un) $(pay) T(ry) w(token conduit) h(andler) ( I Z S
	ID    int  // position id (pre-order), unique within a program
	To    int  // r,$: callee instance 0..2
	Flags int  // r
	Src   byte // $: g s n; w: mode c t f
	Body  []Op // r,$: sub program; T: try body; h: try part; (: subroutine; S: the hand-assembled script
	H     []Op // T: handler; h: catch part
	Fin   []Op // h: finally part
	HasC  bool // h: has a catch part
	HasF  bool // h: has a finally part
}

const instNames = "ABC"

func renderSeq(sb *strings.Builder, ops []Op) {
	for _, o := range ops {
		switch o.K {
		case 'r':
			fmt.Fprintf(sb, "%c%x[", instNames[o.To], o.Flags)
			renderSeq(sb, o.Body)
			sb.WriteByte(']')
		case 'w':
			fmt.Fprintf(sb, "W%c%c[", o.Src, instNames[o.To])
			renderSeq(sb, o.Body)
			sb.WriteByte(']')
		case '$':
			fmt.Fprintf(sb, "$%c%c[", o.Src, instNames[o.To])
			renderSeq(sb, o.Body)
			sb.WriteByte(']')
		case 'T':
			sb.WriteString("T{")
			renderSeq(sb, o.Body)
			sb.WriteString("}{")
			renderSeq(sb, o.H)
			sb.WriteByte('}')
		case 'h':
			sb.WriteByte('{')
			renderSeq(sb, o.Body)
			sb.WriteByte('|')
			if o.HasC {
				renderSeq(sb, o.H)
			}
			if o.HasF {
				sb.WriteByte('|')
				renderSeq(sb, o.Fin)
			}
			sb.WriteByte('}')
		case '(':
			sb.WriteByte('(')
			renderSeq(sb, o.Body)
			sb.WriteByte(')')
		default:
			sb.WriteByte(o.K)
		}
	}
}

func render(ops []Op) string {
	var sb strings.Builder
	if isHand(ops) {
		sb.WriteString("H[")
		renderSeq(&sb, ops[0].Body)
		sb.WriteByte(']')
		return sb.String()
	}
	sb.WriteString("A[")
	renderSeq(&sb, ops)
	sb.WriteByte(']')
	return sb.String()
}

type parser struct {
	s   string
	pos int
	id  int
}

// seq parses ops up to the closing character end.
func (p *parser) seq(end byte) ([]Op, error) {
	ops, _, err := p.seqAny(string(end))
	return ops, err
}

// seqAny parses ops up to one of the characters of ends and returns which one it was.
func (p *parser) seqAny(ends string) ([]Op, byte, error) {
	var out []Op
	for {
		if p.pos >= len(p.s) {
			return nil, 0, fmt.Errorf("unexpected end in %q", p.s)
		}
		c := p.s[p.pos]
		if strings.IndexByte(ends, c) >= 0 {
			p.pos++
			return out, c, nil
		}
		p.pos++
		p.id++
		o := Op{ID: p.id}
		switch c {
		case 'E', 'N', 'P', 'D', 'X', 'F', 'K', 'U', 'Y', 'Z', '!', '#', '~':
			o.K = c
		case 'A', 'B', 'C':
			o.K = 'r'
			o.To = strings.IndexByte(instNames, c)
			if p.pos+1 >= len(p.s) || p.s[p.pos+1] != '[' {
				return nil, 0, fmt.Errorf("bad run at %d in %q", p.pos, p.s)
			}
			if _, err := fmt.Sscanf(p.s[p.pos:p.pos+1], "%x", &o.Flags); err != nil {
				return nil, 0, err
			}
			p.pos += 2
			b, err := p.seq(']')
			if err != nil {
				return nil, 0, err
			}
			o.Body = b
		case 'W':
			if p.pos+2 >= len(p.s) || p.s[p.pos+2] != '[' {
				return nil, 0, fmt.Errorf("bad token call at %d in %q", p.pos, p.s)
			}
			o.K = 'w'
			o.Src = p.s[p.pos]
			o.To = strings.IndexByte(instNames, p.s[p.pos+1])
			if o.To < pB || strings.IndexByte(wModes, o.Src) < 0 {
				return nil, 0, fmt.Errorf("bad token call at %d in %q", p.pos, p.s)
			}
			p.pos += 3
			b, err := p.seq(']')
			if err != nil {
				return nil, 0, err
			}
			o.Body = b
		case '$':
			if p.pos+2 >= len(p.s) || p.s[p.pos+2] != '[' {
				return nil, 0, fmt.Errorf("bad pay at %d in %q", p.pos, p.s)
			}
			o.K = '$'
			o.Src = p.s[p.pos]
			o.To = strings.IndexByte(instNames, p.s[p.pos+1])
			if o.To < 0 || strings.IndexByte("gsn", o.Src) < 0 {
				return nil, 0, fmt.Errorf("bad pay at %d in %q", p.pos, p.s)
			}
			p.pos += 3
			b, err := p.seq(']')
			if err != nil {
				return nil, 0, err
			}
			o.Body = b
		case 'T':
			if p.pos >= len(p.s) || p.s[p.pos] != '{' {
				return nil, 0, fmt.Errorf("bad try at %d in %q", p.pos, p.s)
			}
			p.pos++
			o.K = 'T'
			b, err := p.seq('}')
			if err != nil {
				return nil, 0, err
			}
			if p.pos >= len(p.s) || p.s[p.pos] != '{' {
				return nil, 0, fmt.Errorf("bad try handler at %d in %q", p.pos, p.s)
			}
			p.pos++
			h, err := p.seq('}')
			if err != nil {
				return nil, 0, err
			}
			o.Body, o.H = b, h
		case 'I':
			if p.pos >= len(p.s) || p.s[p.pos] != '[' {
				return nil, 0, fmt.Errorf("bad iterator op at %d in %q", p.pos, p.s)
			}
			p.pos++
			o.K = 'I'
			b, err := p.seq(']')
			if err != nil {
				return nil, 0, err
			}
			o.Body = b
		case '(':
			o.K = '('
			b, err := p.seq(')')
			if err != nil {
				return nil, 0, err
			}
			o.Body = b
		case '{': // {try|catch}  {try||finally}  {try|catch|finally}
			o.K = 'h'
			b, _, err := p.seqAny("|")
			if err != nil {
				return nil, 0, err
			}
			o.Body = b
			if p.pos < len(p.s) && p.s[p.pos] == '|' { // no catch part
				p.pos++
				o.HasF = true
				if o.Fin, err = p.seq('}'); err != nil {
					return nil, 0, err
				}
				break
			}
			o.HasC = true
			h, e, err := p.seqAny("|}")
			if err != nil {
				return nil, 0, err
			}
			o.H = h
			if e == '|' {
				o.HasF = true
				if o.Fin, err = p.seq('}'); err != nil {
					return nil, 0, err
				}
			}
		default:
			return nil, 0, fmt.Errorf("bad char %q at %d in %q", c, p.pos-1, p.s)
		}
		out = append(out, o)
	}
}

// parseProg parses the rendering; ids are assigned in pre-order. A
// hand-assembled script H[seq] is returned as the single pseudo-op 'S'.
func parseProg(s string) ([]Op, error) {
	hand := strings.HasPrefix(s, "H[")
	if !hand && !strings.HasPrefix(s, "A[") {
		return nil, fmt.Errorf("program must start with A[ or H[: %q", s)
	}
	p := &parser{s: s, pos: 2}
	ops, err := p.seq(']')
	if err != nil {
		return nil, err
	}
	if p.pos != len(s) {
		return nil, fmt.Errorf("trailing input in %q", s)
	}
	if hand {
		return []Op{{K: 'S', Body: ops}}, nil
	}
	return ops, nil
}

// isHand: the program is a hand-assembled entry script.
func isHand(ops []Op) bool { return len(ops) == 1 && ops[0].K == 'S' }

func mustParse(s string) []Op {
	ops, err := parseProg(s)
	if err != nil {
		panic(err)
	}
	return ops
}

func hasOp(ops []Op, k byte) bool {
	for _, o := range ops {
		if o.K == k || hasOp(o.Body, k) || hasOp(o.H, k) || hasOp(o.Fin, k) {
			return true
		}
	}
	return false
}

func hasAny(ops []Op, ks string) bool {
	for i := 0; i < len(ks); i++ {
		if hasOp(ops, ks[i]) {
			return true
		}
	}
	return false
}

// needsCommittee: the program calls committee-only natives.
func needsCommittee(ops []Op) bool { return hasAny(ops, "FKU") }

func hasNeo(ops []Op) bool {
	for _, o := range ops {
		if (o.K == '$' && o.Src == 'n') || hasNeo(o.Body) || hasNeo(o.H) || hasNeo(o.Fin) {
			return true
		}
	}
	return false
}

func countOps(ops []Op) (n, levels int) {
	for _, o := range ops {
		n++
		a, l := countOps(o.Body)
		b, l2 := countOps(o.H)
		c, l3 := countOps(o.Fin)
		n += a + b + c
		if o.K == 'r' || o.K == '$' || o.K == 'w' {
			l++
		}
		levels = max(levels, l, l2, l3)
	}
	return
}

// ---- enumerator ------------------------------------------------------------------

// space describes one bounded program space.
type space struct {
	Name    string
	Levels  int         // call levels (1 = only the entry body)
	NT      string      // non-failing simple ops that may fill a slot
	TM      string      // failing ops that may end a sequence
	B       int         // max simple ops per body (besides the nested call and the failing op)
	G       int         // max simple ops in the whole call tree
	F       int         // max failing ops in the whole call tree
	Full    bool        // every slot holds 'E' (B, G ignored): maximal observability of what persisted
	Kinds   [3][]string // nested-call prefixes available to a caller at level 1, 2 (index = caller level)
	Shapes  []string    // body shapes with a nested call
	Leaves  []string    // body shapes without one
	Block   bool        // the programs are also executed in real blocks
	FreeLit bool        // a throw that is part of a shape is not counted against F
}

// Shape tokens: p = slot (empty or one NT op), t = optional failing op closing the
// sequence, H = the nested call, other characters literal. A literal '!' counts
// as a failing op unless the space sets FreeLit.
var (
	holeShapes = []string{
		"pHpt",           // no TRY around the call
		"pT{pHpt}{pt}pt", // call inside the TRY body
		"pT{!}{Hpt}pt",   // call from the handler (the TRY block is over)
		"pT{p}{}Hpt",     // call after a TRY block that completed
		"pT{!}{p}Hpt",    // call after a TRY block that caught the contract's own throw
	}
	leafShapes = []string{
		"ppt",
		"pT{ppt}{pt}pt",
	}
)

type item struct {
	s    string
	g, f int
}

func (sp *space) bodies(level, G, F int, slot byte) []item {
	var nested []item
	if level < sp.Levels {
		cache := map[byte][]item{}
		for _, k := range sp.Kinds[level] {
			// Full mode: the slot op must be executable under the callee's call flags
			sub := slot
			if k[0] != '$' && slot != 0 {
				switch k[1] {
				case 'd':
					if slot == 'E' {
						sub = 'N'
					}
				case '7':
					if slot == 'E' {
						sub = 'P'
					}
				}
			}
			subs, ok := cache[sub]
			if !ok {
				subs = sp.bodies(level+1, G, F, sub)
				cache[sub] = subs
			}
			for _, sub := range subs {
				nested = append(nested, item{k + "[" + sub.s + "]", sub.g, sub.f})
			}
		}
	}
	seen := map[string]bool{}
	var out []item
	emit := func(it item) {
		if !seen[it.s] {
			seen[it.s] = true
			out = append(out, it)
		}
	}
	for _, sh := range sp.Leaves {
		sp.fill(sh, item{}, G, F, slot, emit)
	}
	for _, sh := range sp.Shapes {
		for _, n := range nested {
			sp.fill(sh, n, G, F, slot, emit)
		}
	}
	return out
}

// fill enumerates all instantiations of shape sh with nested call n.
// Unreachable code is not generated: nothing follows a failing op in its
// sequence, nothing at all follows a fault-type op (ABORT, failing native
// call), and a handler is filled only if its TRY body can throw.
func (sp *space) fill(sh string, n item, G, F int, slot byte, emit func(item)) {
	hasHole := strings.IndexByte(sh, 'H') >= 0
	if hasHole && (n.s == "" || n.g > G || n.f > F) {
		return
	}
	buf := make([]byte, 0, 64)
	// fdead: a fault-type op was executed unconditionally (rest of the body dead)
	// sdead: the rest of the current sequence is dead
	// inTry/inH: position; canThrow: the current TRY body contains a throw or a call
	var rec func(i, b, g, f int, fdead, sdead, canThrow bool)
	rec = func(i, b, g, f int, fdead, sdead, canThrow bool) {
		if i == len(sh) {
			emit(item{string(buf), g, f})
			return
		}
		c := sh[i]
		l := len(buf)
		dead := fdead || sdead
		switch c {
		case 'p':
			if dead {
				rec(i+1, b, g, f, fdead, sdead, canThrow)
				return
			}
			if sp.Full {
				buf = append(buf, slot)
				rec(i+1, b, g, f, fdead, sdead, canThrow)
				buf = buf[:l]
				return
			}
			rec(i+1, b, g, f, fdead, sdead, canThrow)
			if b+1 > sp.B || g+1 > G {
				return
			}
			for k := 0; k < len(sp.NT); k++ {
				buf = append(buf[:l], sp.NT[k])
				rec(i+1, b+1, g+1, f, fdead, sdead, canThrow)
			}
			buf = buf[:l]
		case 't':
			rec(i+1, b, g, f, fdead, sdead, canThrow)
			if dead || f+1 > F {
				return
			}
			for k := 0; k < len(sp.TM); k++ {
				buf = append(buf[:l], sp.TM[k])
				if sp.TM[k] == '!' {
					rec(i+1, b, g, f+1, fdead, true, true)
				} else {
					rec(i+1, b, g, f+1, true, true, canThrow)
				}
			}
			buf = buf[:l]
		case 'H':
			if dead || g+n.g > G || f+n.f > F {
				return
			}
			buf = append(buf, n.s...)
			rec(i+1, b, g+n.g, f+n.f, fdead, sdead, true)
			buf = buf[:l]
		case '!': // part of the shape
			nf := f + 1
			if sp.FreeLit {
				nf = f
			}
			if dead || nf > F {
				return
			}
			buf = append(buf, '!')
			rec(i+1, b, g, nf, fdead, true, true)
			buf = buf[:l]
		case '{':
			buf = append(buf, '{')
			if i > 0 && sh[i-1] == '}' { // handler starts
				rec(i+1, b, g, f, fdead, !canThrow, false)
			} else { // try body starts
				if dead {
					buf = buf[:l]
					return
				}
				rec(i+1, b, g, f, fdead, false, false)
			}
			buf = buf[:l]
		case '}':
			buf = append(buf, '}')
			if i+1 < len(sh) && sh[i+1] == '{' { // try body ends
				rec(i+1, b, g, f, fdead, false, canThrow)
			} else { // handler ends
				rec(i+1, b, g, f, fdead, false, false)
			}
			buf = buf[:l]
		default:
			if dead && c == 'T' {
				return
			}
			buf = append(buf, c)
			rec(i+1, b, g, f, fdead, sdead, canThrow)
			buf = buf[:l]
		}
	}
	rec(0, 0, 0, 0, false, false, false)
}

// programs returns the renderings of all programs of the space (sorted by
// length, then lexicographically: simplest first).
func (sp *space) programs() []string {
	if sp.Shapes == nil {
		sp.Shapes = holeShapes
	}
	if sp.Leaves == nil {
		sp.Leaves = leafShapes
	}
	var slot byte
	if sp.Full {
		slot = 'E'
	}
	its := sp.bodies(1, sp.G, sp.F, slot)
	out := make([]string, 0, len(its))
	for _, it := range its {
		out = append(out, "A["+it.s+"]")
	}
	sortProgs(out)
	return out
}

func sortProgs(out []string) {
	sort.Slice(out, func(i, j int) bool {
		if len(out[i]) != len(out[j]) {
			return len(out[i]) < len(out[j])
		}
		return out[i] < out[j]
	})
}
