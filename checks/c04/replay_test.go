package c04

import (
	"fmt"
	"os"
	"strconv"
	"strings"
)

// replay re-runs one recorded case five times.
func (c *checker) replay() {
	var rec caseRec
	if err := c.r.ReadReplay(&rec); err != nil {
		fmt.Println("cannot read replay:", err)
		os.Exit(3)
	}
	if rec.Family == familyHF && (rec.Mode == "test" || rec.Mode == "test-chunk" || rec.Mode == "block") {
		hw, err := buildWorldHF(false, 0, true)
		if err == nil {
			c.drain()
			c, err = newHFChecker(c, hw)
		}
		if err != nil {
			fmt.Println("replay:", err)
			os.Exit(3)
		}
		defer c.drain()
	}
	execs := 0
	for i := 0; i < 5; i++ {
		var what, detail []string
		var err error
		switch rec.Mode {
		case "test":
			rg, e := c.getRig()
			if e != nil {
				fmt.Println("replay:", e)
				os.Exit(3)
			}
			_, what, detail, err = c.evalTest(rg, rec.Prog)
			c.putRig(rg)
		case "test-chunk":
			rg, e := c.w.newRig()
			if e != nil {
				fmt.Println("replay:", e)
				os.Exit(3)
			}
			for _, p := range rec.History {
				if _, w2, d2, e := c.evalTest(rg, p); e == nil && len(w2) > 0 && len(what) == 0 {
					what, detail = w2, d2
				}
			}
			if st, e := rg.initState(); e != nil {
				what, detail = []string{"test-invocations-changed-the-node"}, []string{e.Error()}
			} else if stateSig(st) != stateSig(c.s0) {
				what, detail = []string{"test-invocations-changed-the-node"}, []string{"before: " + stateSig(c.s0), "after: " + stateSig(st)}
			}
			rg.close()
		case "block":
			progs := append(append([]string{}, rec.History...), rec.Prog)
			var idx int
			idx, what, detail, err = c.evalBlocks(progs, nil)
			if idx >= 0 && idx != len(progs)-1 {
				detail = append(detail, fmt.Sprintf("(differs already at history program %d: %s)", idx, progs[idx]))
			}
		case "native":
			found := false
			for _, cs := range mustCases() {
				if cs.Spec.Native+"."+cs.Spec.Method == rec.Prog && cs.Variant == rec.Family && cs.Kind == rec.Pos {
					found = true
					what, detail, err = (&nrun{c: c}).run(cs)
				}
			}
			if !found {
				fmt.Println("replay: unknown native case", rec.Prog, rec.Family, rec.Pos)
				os.Exit(3)
			}
		case "alias":
			what, detail, err = c.replayAlias(&rec)
		case "escape":
			what, detail, err = c.replayEscape(&rec)
		case "ghost":
			what, detail, err = c.replayGhost(&rec)
		case "multi":
			var blocks [][]string
			for _, b := range append(append([]string{}, rec.History...), rec.Prog) {
				blocks = append(blocks, strings.Split(b, ";"))
			}
			var idx int
			idx, what, detail, err = c.evalMulti(blocks)
			if idx >= 0 && idx != len(blocks)-1 {
				detail = append(detail, fmt.Sprintf("(differs already at block %d)", idx))
			}
		case "atomic":
			pad := 0
			if len(rec.History) > 0 {
				pad, _ = strconv.Atoi(rec.History[0])
			}
			var tpl *btpl
			for _, t := range btemplates(true) {
				if t.Name == rec.Prog {
					t := t
					tpl = &t
				}
			}
			if tpl == nil {
				fmt.Println("replay: unknown template", rec.Prog)
				os.Exit(3)
			}
			w := c.w
			if rec.Family == "multi" || pad != 0 {
				if w, err = buildWorld(rec.Family == "multi", pad); err != nil {
					fmt.Println("replay:", err)
					os.Exit(3)
				}
			}
			if _, _, err = w.udBytes(); err != nil {
				fmt.Println("replay:", err)
				os.Exit(3)
			}
			ba := &batomic{c: c, w: map[string]*world{fmt.Sprintf("%s/%d", rec.Family, pad): w}}
			what, detail, err = ba.run(bcase{Family: rec.Family, Pad: pad, Tpl: *tpl, Pos: rec.Pos})
		default:
			fmt.Println("replay: unknown mode", rec.Mode)
			os.Exit(3)
		}
		execs++
		if err != nil {
			fmt.Println("replay: harness error:", err)
			os.Exit(3)
		}
		if len(what) > 0 {
			fmt.Printf("replay %d: REPRODUCED %v\n   %v\n", i, what, detail)
			rec.What, rec.Detail = what, detail
			c.r.Violation(vkey("replay", what[0], rec.Prog), rec)
		} else {
			fmt.Printf("replay %d: agrees with the reference\n", i)
		}
	}
	c.r.Finish(map[string]any{"states": 1, "transitions": execs, "traces_validated_against_impl": execs}, nil)
}

func mustCases() []ncase { cs, _ := nativeCases(); return cs }
