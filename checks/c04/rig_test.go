package c04

// The prepared chain (preamble + UC + funded instances) and the two ways a
// program is executed on the real code: a test invocation (Blockchain.GetTestVM,
// the path RPC invocations take) and a transaction in a real block.

import (
	"bytes"
	_ "embed"
	"encoding/json"
	"fmt"
	"math/big"
	"sort"
	"strings"
	"sync"

	"github.com/nspcc-dev/neo-go/pkg/compiler"
	"github.com/nspcc-dev/neo-go/pkg/config"
	"github.com/nspcc-dev/neo-go/pkg/core/interop"
	"github.com/nspcc-dev/neo-go/pkg/core/native/nativehashes"
	"github.com/nspcc-dev/neo-go/pkg/core/native/nativeids"
	"github.com/nspcc-dev/neo-go/pkg/core/state"
	"github.com/nspcc-dev/neo-go/pkg/core/storage"
	"github.com/nspcc-dev/neo-go/pkg/core/transaction"
	"github.com/nspcc-dev/neo-go/pkg/encoding/bigint"
	"github.com/nspcc-dev/neo-go/pkg/neotest"
	"github.com/nspcc-dev/neo-go/pkg/smartcontract"
	"github.com/nspcc-dev/neo-go/pkg/smartcontract/callflag"
	"github.com/nspcc-dev/neo-go/pkg/smartcontract/manifest"
	"github.com/nspcc-dev/neo-go/pkg/smartcontract/trigger"
	"github.com/nspcc-dev/neo-go/pkg/util"
	"github.com/nspcc-dev/neo-go/pkg/vm/stackitem"

	"verif/lib/chainx"
)

const gasUnit = 100000000

//go:embed v.go.txt
var vSource []byte

const opIter = 14 // op of the extended universal contract (v.go.txt)

var (
	vOnce sync.Once
	vBase *neotest.Contract
	vErr  error
)

// compileV returns the extended universal contract (U + iterator op) as
// instance "UC" deployed by account 2.
func compileV() (*neotest.Contract, error) {
	vOnce.Do(func() {
		vBase, vErr = chainx.CompileSource(vSource, &compiler.Options{
			Name:               "V",
			NoEventsCheck:      true,
			NoPermissionsCheck: true,
			NoStandardCheck:    true,
			SafeMethods:        []string{"runSafe"},
			ContractEvents: []compiler.HybridEvent{{Name: "ev", Parameters: []compiler.HybridParameter{
				{Parameter: manifest.Parameter{Name: "n", Type: smartcontract.AnyType}},
			}}},
			Permissions: []manifest.Permission{*manifest.NewPermission(manifest.PermissionWildcard)},
		})
	})
	if vErr != nil {
		return nil, fmt.Errorf("compile V: %w", vErr)
	}
	mb, err := json.Marshal(vBase.Manifest)
	if err != nil {
		return nil, err
	}
	m := new(manifest.Manifest)
	if err := json.Unmarshal(mb, m); err != nil {
		return nil, err
	}
	m.Name = "UC"
	return &neotest.Contract{Hash: state.CreateContractHash(chainx.Acc(2).ScriptHash(), vBase.NEF.Checksum, m.Name), NEF: vBase.NEF, Manifest: m, DebugInfo: vBase.DebugInfo}, nil
}

type world struct {
	multi             bool
	hf                bool     // family single-hf-all: every hardfork active from genesis (escape_test.go)
	blocks            [][]byte // wire bytes of preamble + setup blocks
	cw                *chainx.World
	hashes            [nPrinc]util.Uint160
	ids               [3]int32
	ud                util.Uint160 // hash of the fourth instance (deployable by account 1)
	wtok              util.Uint160 // the token conduit W (wtoken_test.go)
	w2                util.Uint160 // hf only: the token conduit W2 (escape_world_test.go)
	udNEF, udManifest []byte
	height            uint32 // height of the prepared chain
}

// buildWorld creates the prepared chain once; replicas replay its blocks.
func buildWorld(multi bool, pad int) (*world, error) { return buildWorldHF(multi, pad, false) }

// allHardforks: the protocol options of the family single-hf-all.
func allHardforks(c *config.Blockchain) {
	c.Hardforks = map[string]uint32{}
	for _, h := range config.Hardforks {
		c.Hardforks[h.String()] = 0
	}
}

func (w *world) opts() chainx.Opts {
	o := chainx.Opts{Multi: w.multi}
	if w.hf {
		o.Proto = allHardforks
	}
	return o
}

// buildWorldHF: hf = every hardfork active from genesis; the third instance is then
// compiled from x.go.txt (V + the operations of the escape family).
func buildWorldHF(multi bool, pad int, hf bool) (*world, error) {
	w := &world{multi: multi, hf: hf}
	n, err := chainx.New(w.opts())
	if err != nil {
		return nil, err
	}
	defer n.Close()
	cw, err := chainx.BuildPreamble(n, pad)
	if err != nil {
		return nil, err
	}
	w.cw = cw
	// setup block 1: the third instance (the extended universal contract: U + iterator op)
	if hf {
		cw.UC, err = compileX()
	} else {
		cw.UC, err = compileV()
	}
	if err != nil {
		return nil, err
	}
	dep, err := n.DeployTx(cw.UC, chainx.Signer(2), nil)
	if err != nil {
		return nil, err
	}
	wc, err := buildW(chainx.Acc(2).ScriptHash(), cw.UB.Hash, cw.UC.Hash)
	if err != nil {
		return nil, err
	}
	w.wtok = wc.Hash
	cw.MaxID++
	depW, err := n.DeployTx(wc, chainx.Signer(2), nil)
	if err != nil {
		return nil, err
	}
	setup1 := []*transaction.Transaction{dep, depW}
	if hf {
		w2c, err := buildW2(chainx.Acc(2).ScriptHash(), cw.UB.Hash, cw.UC.Hash)
		if err != nil {
			return nil, err
		}
		w.w2 = w2c.Hash
		cw.MaxID++
		depW2, err := n.DeployTx(w2c, chainx.Signer(2), nil)
		if err != nil {
			return nil, err
		}
		setup1 = append(setup1, depW2)
	}
	if _, err := n.AddBlock(setup1...); err != nil {
		return nil, fmt.Errorf("deploy UC, W: %w", err)
	}
	for _, tx := range setup1 {
		if err := n.CheckHalt(tx.Hash()); err != nil {
			return nil, err
		}
	}
	if err := n.CheckHalt(depW.Hash()); err != nil {
		return nil, err
	}
	// setup block 2: GAS for every instance, NEO for UB, a shared key "a" in every instance
	s3 := []neotest.Signer{chainx.Signer(3)}
	s2 := []neotest.Signer{chainx.Signer(2)}
	var txs []*transaction.Transaction
	for _, c := range []*neotest.Contract{cw.UA, cw.UB, cw.UC} {
		tx, err := n.CallTx(s3, nativehashes.GasToken, "transfer", chainx.Acc(3).ScriptHash(), c.Hash, int64(50*gasUnit), nil)
		if err != nil {
			return nil, err
		}
		txs = append(txs, tx)
	}
	tx, err := n.CallTx(s2, nativehashes.NeoToken, "transfer", chainx.Acc(2).ScriptHash(), cw.UB.Hash, int64(10), nil)
	if err != nil {
		return nil, err
	}
	txs = append(txs, tx)
	for _, c := range []*neotest.Contract{cw.UB, cw.UC} {
		tx, err := n.CallTx(s3, c.Hash, "run", []any{[]any{chainx.OpPut, []byte("a"), []byte("0")}})
		if err != nil {
			return nil, err
		}
		txs = append(txs, tx)
	}
	// two accounts on the Policy block list, one on each side of the account the
	// programs block/unblock, so that every change of the cached sorted list
	// shifts an element
	target := chainx.Acc(5).ScriptHash()
	var lo, hi *util.Uint160
	for i := 10; i < 200 && (lo == nil || hi == nil); i++ {
		h := chainx.Acc(i).ScriptHash()
		if c := h.Compare(target); c < 0 && lo == nil {
			lo = &h
		} else if c > 0 && hi == nil {
			hi = &h
		}
	}
	for _, h := range []*util.Uint160{lo, hi} {
		tx, err := n.MakeTx(chainx.CallScript(nativehashes.PolicyContract, "blockAccount", *h), []neotest.Signer{chainx.Signer(3), n.Committee}, chainx.SysFee(gasUnit))
		if err != nil {
			return nil, err
		}
		txs = append(txs, tx)
	}
	if _, err := n.AddBlock(txs...); err != nil {
		return nil, fmt.Errorf("setup block: %w", err)
	}
	for _, tx := range append(txs, dep) {
		if err := n.CheckHalt(tx.Hash()); err != nil {
			return nil, err
		}
	}
	w.height = n.Height()
	for i := uint32(1); i <= n.Height(); i++ {
		b, err := n.BC.GetBlock(n.BC.GetHeaderHash(i))
		if err != nil {
			return nil, err
		}
		bb, err := chainx.BlockBytes(b)
		if err != nil {
			return nil, err
		}
		w.blocks = append(w.blocks, bb)
	}
	if w.udManifest, w.udNEF, err = w.udBytes(); err != nil {
		return nil, err
	}
	w.hashes = [nPrinc]util.Uint160{cw.UA.Hash, cw.UB.Hash, cw.UC.Hash, chainx.Acc(1).ScriptHash(), chainx.Acc(2).ScriptHash()}
	for i, c := range []*neotest.Contract{cw.UA, cw.UB, cw.UC} {
		cs := n.BC.GetContractState(c.Hash)
		if cs == nil {
			return nil, fmt.Errorf("instance %d not deployed", i)
		}
		w.ids[i] = cs.ID
	}
	return w, nil
}

type rig struct {
	w *world
	n *chainx.Node
}

func (w *world) newRig() (*rig, error) {
	n, err := chainx.New(w.opts())
	if err != nil {
		return nil, err
	}
	for _, bb := range w.blocks {
		if err := n.AddBytes(bb); err != nil {
			n.Close()
			return nil, fmt.Errorf("replay of the prepared chain: %w", err)
		}
	}
	return &rig{w: w, n: n}, nil
}

func (rg *rig) close() {
	if rg != nil && rg.n != nil {
		rg.n.Close()
	}
}

// getter abstracts the committed chain state and the DAO of a test invocation.
type getter interface {
	get(id int32, key []byte) []byte
	seek(id int32, f func(k, v []byte))
}

type chainGetter struct{ n *chainx.Node }

func (g chainGetter) get(id int32, key []byte) []byte { return g.n.BC.GetStorageItem(id, key) }
func (g chainGetter) seek(id int32, f func(k, v []byte)) {
	g.n.BC.SeekStorage(id, nil, func(k, v []byte) bool { f(k, v); return true })
}

type daoGetter struct{ ic *interop.Context }

func (g daoGetter) get(id int32, key []byte) []byte { return g.ic.DAO.GetStorageItem(id, key) }
func (g daoGetter) seek(id int32, f func(k, v []byte)) {
	g.ic.DAO.Seek(id, storage.SeekRange{}, func(k, v []byte) bool { f(k, v); return true })
}

func accountKey(h util.Uint160) []byte { return append([]byte{20}, h.BytesBE()...) }

// readState decodes the model-relevant part of the ledger state from raw storage.
func (w *world) readState(g getter) (*State, error) {
	s := &State{}
	for i := range s.Stor {
		s.Stor[i] = map[string]string{}
		g.seek(w.ids[i], func(k, v []byte) { s.Stor[i][string(k)] = string(v) })
	}
	for p := 0; p < nPrinc; p++ {
		if b := g.get(nativeids.GasToken, accountKey(w.hashes[p])); b != nil {
			bal, err := state.NEP17BalanceFromBytes(b)
			if err != nil {
				return nil, err
			}
			s.Gas[p] = bal.Balance.Int64()
		}
		if b := g.get(nativeids.NeoToken, accountKey(w.hashes[p])); b != nil {
			bal, err := state.NEOBalanceFromBytes(b)
			if err != nil {
				return nil, err
			}
			s.Neo[p] = bal.Balance.Int64()
		}
	}
	s.Fee = bigint.FromBytes(g.get(nativeids.PolicyContract, []byte{10})).Int64()
	s.Blocked = g.get(nativeids.PolicyContract, append([]byte{15}, chainx.Acc(5).ScriptHash().BytesBE()...)) != nil
	s.Deployed = g.get(nativeids.ContractManagement, append([]byte{8}, w.ud.BytesBE()...)) != nil
	for i := range s.Destroyed {
		s.Destroyed[i] = g.get(nativeids.ContractManagement, append([]byte{8}, w.hashes[i].BytesBE()...)) == nil
	}
	return s, nil
}

// initState is the committed state plus the pending NEO bonuses for the next block.
func (rg *rig) initState() (*State, error) {
	s, err := rg.w.readState(chainGetter{rg.n})
	if err != nil {
		return nil, err
	}
	bc := rg.n.BC
	for p := 0; p < nPrinc; p++ {
		// self-check of the raw decoding against the node's own getters
		if g := bc.GetUtilityTokenBalance(rg.w.hashes[p], util.Uint160{}); g.Int64() != s.Gas[p] {
			return nil, fmt.Errorf("GAS balance decoding: %d != %s", s.Gas[p], g)
		}
		if g, _ := bc.GetGoverningTokenBalance(rg.w.hashes[p]); g.Int64() != s.Neo[p] {
			return nil, fmt.Errorf("NEO balance decoding: %d != %s", s.Neo[p], g)
		}
		b, err := bc.CalculateClaimable(rg.w.hashes[p], bc.BlockHeight()+1)
		if err != nil {
			return nil, err
		}
		s.Bonus[p] = b.Int64()
	}
	if bc.FeePerByte() != s.Fee {
		return nil, fmt.Errorf("fee per byte decoding: %d != %d", s.Fee, bc.FeePerByte())
	}
	return s, nil
}

// ---- program -> data for U ---------------------------------------------------------

func (w *world) toU(ops []Op) []any {
	out := []any{}
	gasH, pol := nativehashes.GasToken.BytesBE(), nativehashes.PolicyContract.BytesBE()
	for _, o := range ops {
		id := []byte(fmt.Sprint(o.ID))
		switch o.K {
		case 'E':
			out = append(out, []any{chainx.OpPut, []byte(fmt.Sprintf("k%d", o.ID)), id}, []any{chainx.OpNotify, o.ID})
		case 'N':
			out = append(out, []any{chainx.OpNotify, o.ID})
		case 'P':
			out = append(out, []any{chainx.OpPut, []byte("a"), id})
		case 'D':
			out = append(out, []any{chainx.OpDel, []byte("a")})
		case '!':
			out = append(out, []any{chainx.OpThrow})
		case '#':
			out = append(out, []any{chainx.OpAbort})
		case 'X', '~':
			amt := 1
			if o.K == '~' {
				amt = -1
			}
			// "self" is filled in by the callee-specific rendering below
			out = append(out, []any{chainx.OpCall, gasH, "transfer", 15, []any{selfMarker, w.hashes[pOther].BytesBE(), amt, nil}})
		case '$':
			tok := gasH
			if o.Src == 'n' {
				tok = nativehashes.NeoToken.BytesBE()
			}
			var from any = selfMarker
			if o.Src != 'g' {
				from = w.hashes[pSender].BytesBE()
			}
			out = append(out, []any{chainx.OpCall, tok, "transfer", 15, []any{from, w.hashes[o.To].BytesBE(), 1, w.bind(w.toU(o.Body), o.To)}})
		case 'F':
			out = append(out, []any{chainx.OpCall, pol, "setFeePerByte", 15, []any{1000 + o.ID}})
		case 'K':
			out = append(out, []any{chainx.OpCall, pol, "blockAccount", 15, []any{chainx.Acc(5).ScriptHash().BytesBE()}})
		case 'U':
			out = append(out, []any{chainx.OpCall, pol, "unblockAccount", 15, []any{chainx.Acc(5).ScriptHash().BytesBE()}})
		case 'Y':
			out = append(out, []any{chainx.OpCall, nativehashes.ContractManagement.BytesBE(), "deploy", 15, []any{w.udNEF, w.udManifest, nil}})
		case 'Z':
			out = append(out, []any{chainx.OpCall, nativehashes.ContractManagement.BytesBE(), "destroy", 15, []any{}})
		case 'I':
			out = append(out, []any{opIter, w.toU(o.Body)})
		case 'w':
			out = append(out, []any{chainx.OpCall, w.wtok.BytesBE(), wMethod(o.Src, o.To), 15, []any{w.bind(w.toU(o.Body), o.To)}})
		case 'r':
			out = append(out, []any{chainx.OpRun, w.hashes[o.To].BytesBE(), o.Flags, w.bind(w.toU(o.Body), o.To)})
		case 'T':
			out = append(out, []any{chainx.OpTry, w.toU(o.Body), w.toU(o.H)})
		}
	}
	return out
}

type selfT struct{}

var selfMarker = selfT{}

// bind replaces the "current contract" marker in the ops executed by instance
// inst (not descending into programs run by other instances: they are bound already).
func (w *world) bind(prog []any, inst int) []any {
	for _, x := range prog {
		op := x.([]any)
		switch op[0].(int) {
		case chainx.OpCall:
			args := op[4].([]any)
			if len(args) == 0 {
				break
			}
			if _, ok := args[0].(selfT); ok {
				args[0] = w.hashes[inst].BytesBE()
			}
		case chainx.OpTry:
			w.bind(op[1].([]any), inst)
			w.bind(op[2].([]any), inst)
		case opIter:
			w.bind(op[1].([]any), inst)
		}
	}
	return prog
}

func (w *world) script(ops []Op) []byte {
	if isHand(ops) {
		return w.handScript(ops[0].Body)
	}
	prog := w.bind(w.toU(ops), pA)
	if hasOp(ops, 'F') {
		prog = append(prog, []any{chainx.OpCall, nativehashes.PolicyContract.BytesBE(), "getFeePerByte", 15, []any{}})
	}
	if hasAny(ops, "KU") {
		prog = append(prog, []any{chainx.OpCall, nativehashes.PolicyContract.BytesBE(), "isBlocked", 15, []any{chainx.Acc(5).ScriptHash().BytesBE()}})
	}
	if hasOp(ops, 'Y') {
		prog = append(prog, []any{chainx.OpCall, nativehashes.ContractManagement.BytesBE(), "isContract", 15, []any{w.ud.BytesBE()}})
	}
	return chainx.CallScript(w.hashes[pA], "run", prog)
}

// ---- rendering of what the real code produced ------------------------------------------

func (w *world) name(b []byte) (string, bool) {
	if len(b) != 20 {
		return "", false
	}
	for p, h := range w.hashes {
		if bytes.Equal(h.BytesBE(), b) {
			return princNames[p], true
		}
	}
	if bytes.Equal(w.ud.BytesBE(), b) {
		return "D", true
	}
	return "", false
}

func (w *world) renderItem(sb *strings.Builder, it stackitem.Item) {
	switch v := it.(type) {
	case stackitem.Null:
		sb.WriteString("null")
	case *stackitem.BigInteger:
		sb.WriteString(v.Big().String())
	case stackitem.Bool:
		fmt.Fprint(sb, bool(v))
	case *stackitem.ByteArray, *stackitem.Buffer:
		b, _ := it.TryBytes()
		if n, ok := w.name(b); ok {
			sb.WriteString(n)
		} else {
			fmt.Fprintf(sb, "x%x", b)
		}
	case *stackitem.Array, *stackitem.Struct:
		if es := it.Value().([]stackitem.Item); len(es) == 5 {
			if b, err := es[2].TryBytes(); err == nil && bytes.Equal(b, w.ud.BytesBE()) {
				sb.WriteString("<UD>") // the contract state deploy returns
				return
			}
		}
		sb.WriteByte('[')
		for i, e := range it.Value().([]stackitem.Item) {
			if i > 0 {
				sb.WriteByte(',')
			}
			w.renderItem(sb, e)
		}
		sb.WriteByte(']')
	default:
		fmt.Fprintf(sb, "<%s>", it.Type())
	}
}

func (w *world) renderStack(st []stackitem.Item) string {
	var sb strings.Builder
	for i, it := range st {
		if i > 0 {
			sb.WriteByte(' ')
		}
		w.renderItem(&sb, it)
	}
	return sb.String()
}

func (w *world) renderEvents(evs []state.NotificationEvent) []string {
	var out []string
	for _, e := range evs {
		var sb strings.Builder
		switch {
		case e.ScriptHash == nativehashes.GasToken:
			sb.WriteString("GAS")
		case e.ScriptHash == nativehashes.NeoToken:
			sb.WriteString("NEO")
		case e.ScriptHash == nativehashes.ContractManagement:
			sb.WriteString("MGMT")
		default:
			if n, ok := w.name(e.ScriptHash.BytesBE()); ok {
				sb.WriteString(n)
			} else {
				sb.WriteString(e.ScriptHash.StringLE()[:8])
			}
		}
		sb.WriteString(":" + e.Name + ":")
		w.renderItem(&sb, e.Item)
		out = append(out, sb.String())
	}
	return out
}

// ---- executions -----------------------------------------------------------------------

// real is what one execution on the real code produced.
type real struct {
	Halt  bool     `json:"halt"`
	Fault string   `json:"fault,omitempty"`
	Log   string   `json:"log"`
	Notes []string `json:"notes"`
	State *State   `json:"state"`
	Fees  int64    `json:"fees"`
	tx    *transaction.Transaction
}

const sysFee = 3 * gasUnit

func feeFor(ops []Op) int64 {
	if n := countOp(ops, 'Y'); n > 0 {
		return int64(10+15*n) * gasUnit // a deployment costs at least 10 GAS, also when it is rolled back
	}
	return sysFee
}

func countOp(ops []Op, k byte) (n int) {
	for _, o := range ops {
		if o.K == k {
			n++
		}
		n += countOp(o.Body, k) + countOp(o.H, k) + countOp(o.Fin, k)
	}
	return
}

func (rg *rig) signers(committee bool) []neotest.Signer {
	s := []neotest.Signer{chainx.Signer(1)}
	if committee {
		s = append(s, rg.n.Committee)
	}
	return s
}

// runTest executes prog in a test invocation on the committed state.
func (rg *rig) runTest(ops []Op, committee bool) (*real, error) {
	script := rg.w.script(ops)
	tx := transaction.New(script, feeFor(ops))
	tx.ValidUntilBlock = rg.n.BC.BlockHeight() + 5
	for _, s := range rg.signers(committee) {
		tx.Signers = append(tx.Signers, transaction.Signer{Account: s.ScriptHash(), Scopes: transaction.Global})
	}
	ic, err := rg.n.BC.GetTestVM(trigger.Application, tx, nil)
	if err != nil {
		return nil, err
	}
	ic.VM.LoadScriptWithFlags(script, callflag.All)
	ic.VM.SetGasLimit(feeFor(ops))
	res := &real{}
	if err := ic.Exec(); err != nil {
		res.Fault = err.Error()
	}
	res.Halt = !ic.VM.HasFailed()
	if res.Halt {
		res.Log = rg.w.renderStack(ic.VM.Estack().ToArray())
		// what the transaction would commit: the invocation's DAO layer
		st, err := rg.w.readState(daoGetter{ic})
		if err != nil {
			return nil, err
		}
		res.State = st
	}
	res.Notes = rg.w.renderEvents(ic.Notifications)
	return res, nil
}

// runBlock executes prog as the only transaction of the next block.
func (rg *rig) runBlock(ops []Op, committee bool) (*real, error) {
	tx, err := rg.n.MakeTx(rg.w.script(ops), rg.signers(committee), chainx.SysFee(feeFor(ops)))
	if err != nil {
		return nil, fmt.Errorf("make tx: %w", err)
	}
	if _, err := rg.n.AddBlock(tx); err != nil {
		return nil, fmt.Errorf("block rejected: %w", err)
	}
	aers, err := rg.n.BC.GetAppExecResults(tx.Hash(), trigger.Application)
	if err != nil || len(aers) != 1 {
		return nil, fmt.Errorf("no execution result: %v", err)
	}
	a := aers[0]
	res := &real{Halt: a.VMState.String() == "HALT", Fault: a.FaultException, Fees: tx.SystemFee + tx.NetworkFee, tx: tx}
	if res.Halt {
		res.Log = rg.w.renderStack(a.Stack)
	}
	res.Notes = rg.w.renderEvents(a.Events)
	st, err := rg.w.readState(chainGetter{rg.n})
	if err != nil {
		return nil, err
	}
	if f := rg.n.BC.FeePerByte(); f != st.Fee {
		st.Fee = -f // the cached value and the stored one disagree: make it visible
	}
	res.State = st
	return res, nil
}

// compare returns the names of the observables in which the real execution
// differs from the model, with details. feesPaid is subtracted from the
// sender's model balance (0 for test invocations).
func compare(m *Result, r *real) (what []string, detail []string) {
	add := func(w, d string) { what = append(what, w); detail = append(detail, w+": "+d) }
	if m.Halt != r.Halt {
		add("vmstate", fmt.Sprintf("model halt=%v real halt=%v fault=%q", m.Halt, r.Halt, r.Fault))
		return
	}
	if m.Halt {
		if m.Log != r.Log {
			add("oplog", fmt.Sprintf("model %s real %s", m.Log, r.Log))
		}
		if strings.Join(m.State.Notes, " ") != strings.Join(r.Notes, " ") {
			add("notifications", fmt.Sprintf("model %v real %v", m.State.Notes, r.Notes))
		}
	}
	if r.State == nil {
		return
	}
	ms, rs := m.State.storLines(), r.State.storLines()
	if strings.Join(ms, " ") != strings.Join(rs, " ") {
		add("storage", fmt.Sprintf("model %v real %v", ms, rs))
	}
	mg := m.State.Gas
	mg[pSender] -= r.Fees
	if mg != r.State.Gas {
		add("gas-balances", fmt.Sprintf("model %v real %v (A B C sender other)", mg, r.State.Gas))
	}
	if m.State.Neo != r.State.Neo {
		add("neo-balances", fmt.Sprintf("model %v real %v", m.State.Neo, r.State.Neo))
	}
	if m.State.Blocked != r.State.Blocked {
		add("policy-blocked", fmt.Sprintf("model %v real %v", m.State.Blocked, r.State.Blocked))
	}
	if m.State.Destroyed != r.State.Destroyed {
		add("destroyed", fmt.Sprintf("model %v real %v", m.State.Destroyed, r.State.Destroyed))
	}
	if m.State.Deployed != r.State.Deployed {
		add("deployed", fmt.Sprintf("model %v real %v", m.State.Deployed, r.State.Deployed))
	}
	if m.State.Fee != r.State.Fee {
		add("policy-fee", fmt.Sprintf("model %d real %d (negative: cache and storage disagree)", m.State.Fee, r.State.Fee))
	}
	sort.Strings(what)
	return
}

var _ = big.NewInt
