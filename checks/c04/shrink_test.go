package c04

// shrink greedily minimises a failing program: it tries to delete single ops,
// to replace a TRY by its body or handler, and to replace a nested call by
// nothing, as long as the failure (same first differing observable) persists.

func variants(ops []Op) [][]Op {
	if isHand(ops) { // hand-assembled script: shrink its body
		var out [][]Op
		for _, v := range variants(ops[0].Body) {
			out = append(out, []Op{{K: 'S', Body: v}})
		}
		return out
	}
	var out [][]Op
	for i := range ops {
		// delete op i
		d := append(append([]Op{}, ops[:i]...), ops[i+1:]...)
		out = append(out, d)
		o := ops[i]
		repl := func(sub []Op) []Op {
			return append(append(append([]Op{}, ops[:i]...), sub...), ops[i+1:]...)
		}
		with := func(f func(o *Op)) []Op {
			c := append([]Op{}, ops...)
			f(&c[i])
			return c
		}
		switch o.K {
		case 'T':
			out = append(out, repl(o.Body), repl(o.H))
			for _, v := range variants(o.Body) {
				v := v
				out = append(out, with(func(o *Op) { o.Body = v }))
			}
			for _, v := range variants(o.H) {
				v := v
				out = append(out, with(func(o *Op) { o.H = v }))
			}
		case 'h': // a handler: one of its parts alone, or a smaller part
			out = append(out, repl(o.Body))
			if o.HasC {
				out = append(out, repl(o.H))
			}
			if o.HasF {
				out = append(out, repl(o.Fin))
			}
			for _, v := range variants(o.Body) {
				v := v
				out = append(out, with(func(o *Op) { o.Body = v }))
			}
			for _, v := range variants(o.H) {
				v := v
				out = append(out, with(func(o *Op) { o.H = v }))
			}
			for _, v := range variants(o.Fin) {
				v := v
				out = append(out, with(func(o *Op) { o.Fin = v }))
			}
		case '(', 'I':
			if o.K == '(' {
				out = append(out, repl(o.Body))
			}
			for _, v := range variants(o.Body) {
				v := v
				out = append(out, with(func(o *Op) { o.Body = v }))
			}
		case 'r', '$', 'w':
			for _, v := range variants(o.Body) {
				v := v
				out = append(out, with(func(o *Op) { o.Body = v }))
			}
			if o.K == 'r' && o.Flags != 15 {
				out = append(out, with(func(o *Op) { o.Flags = 15 }))
			}
		}
	}
	return out
}

func shrink(prog string, fails func(string) bool) string {
	cur := prog
	for budget := 400; budget > 0; {
		ops, err := parseProg(cur)
		if err != nil {
			return cur
		}
		improved := false
		for _, v := range variants(ops) {
			s := render(v)
			if len(s) >= len(cur) && s >= cur {
				continue
			}
			budget--
			if fails(s) {
				cur, improved = s, true
				break
			}
			if budget <= 0 {
				break
			}
		}
		if !improved {
			break
		}
	}
	return cur
}
