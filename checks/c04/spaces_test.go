package c04

// spaces returns the bounded program spaces of a tier.
func spaces(thorough bool) []*space {
	qk := [3][]string{1: {"Bf", "Bd", "$gB"}, 2: {"Cf", "$gC"}}
	if !thorough {
		return []*space{
			{Name: "full3", Levels: 3, TM: "!#~", F: 1, Full: true, Kinds: qk, Block: true},
			{Name: "ops2", Levels: 2, NT: "EPDX", TM: "!#~", B: 2, G: 2, F: 1, Kinds: qk},
			{Name: "ops3", Levels: 3, NT: "E", TM: "!#", B: 2, G: 2, F: 1, Kinds: qk},
		}
	}
	tk := [3][]string{1: {"Bf", "Bd", "B7", "B5", "Af", "$gB", "$sB"}, 2: {"Cf", "Cd", "Af", "Bf", "$gC", "$gA"}}
	return []*space{
		{Name: "full3", Levels: 3, TM: "!#~", F: 2, Full: true, Kinds: tk},
		{Name: "ops2", Levels: 2, NT: "EPDXF", TM: "!#~", B: 2, G: 2, F: 1, Kinds: tk},
		{Name: "ops3", Levels: 3, NT: "EP", TM: "!#", B: 2, G: 3, F: 1, Kinds: qk},
	}
}
