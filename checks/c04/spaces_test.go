package c04

// spaces returns the bounded program spaces of a tier (see prog_test.go for
// the notation). Every space is enumerated completely.
//
//	full3: <= 3 call levels, every slot of every body shape holds an effect op E
//	       (storage + notification trace), failing ops at every sequence end
//	ops2:  <= 2 call levels, <= B ops per body and <= G per tree over the whole op alphabet
//	ops3:  <= 3 call levels, <= B ops per body and <= G per tree over a small alphabet
//	fee3:  <= 3 call levels, native setting changes (Policy.setFeePerByte: native cache + storage)
//	reg*:  native registries: Policy block list (cached sorted list), contract deployment (registry cache, Deploy event)
//	tok*:  the callee is reached through method tokens (CALLT) of the conduit contract W (wtoken_test.go)
//	neo3:  NEO transfers (with payment callback) inside a callee that fails
func spaces(thorough bool) []*space {
	qk := [3][]string{1: {"Bf", "Bd", "$gB"}, 2: {"Cf", "$gC"}}
	if !thorough {
		fk := [3][]string{1: {"Bf", "Bd", "Af", "$gB", "$sB"}, 2: {"Cf", "Af", "$gC"}}
		return []*space{
			{Name: "full3", Levels: 3, TM: "!#~", F: 1, FreeLit: true, Full: true, Kinds: fk, Block: true},
			{Name: "ops2", Levels: 2, NT: "ENPDXF", TM: "!#~", B: 2, G: 2, F: 1, Kinds: qk},
			{Name: "ops3", Levels: 3, NT: "E", TM: "!#", B: 2, G: 2, F: 1, Kinds: qk},
			{Name: "fee3", Levels: 3, NT: "F", TM: "!", B: 2, G: 3, F: 1, Kinds: [3][]string{1: {"Bf"}, 2: {"Cf"}}},
			{Name: "fee2b", Levels: 2, NT: "EF", TM: "!", B: 2, G: 2, F: 1, Kinds: [3][]string{1: {"Bf"}}, Block: true},
			{Name: "reg2", Levels: 2, NT: "KUY", TM: "!#", B: 2, G: 3, F: 1, Kinds: [3][]string{1: {"Bf"}}},
			{Name: "reg2b", Levels: 2, NT: "KUY", TM: "!", B: 2, G: 2, F: 1, Kinds: [3][]string{1: {"Bf"}}, Block: true},
			// calls that reach the callee through method tokens (CALLT) of the conduit W: no handler / W catches / try-finally in W
			{Name: "tok3", Levels: 3, TM: "!#", F: 1, FreeLit: true, Full: true, Kinds: [3][]string{1: {"WcB", "WtB", "WfB"}, 2: {"WcC", "WtC", "WfC", "Cf"}}},
			{Name: "tok2b", Levels: 2, TM: "!#", F: 1, FreeLit: true, Full: true, Kinds: [3][]string{1: {"WcB", "WtB", "WfB"}}, Block: true},
			// NEO moved by the sender inside a callee that fails (NEO account state, GAS bonus minting, total supply)
			{Name: "neo3", Levels: 3, NT: "E", TM: "!", B: 1, G: 1, F: 1, Kinds: [3][]string{1: {"Bf"}, 2: {"$nC", "$sC"}}, Block: true},
		}
	}
	tk := [3][]string{1: {"Bf", "Bd", "B7", "B5", "Af", "$gB", "$sB", "$nB"}, 2: {"Cf", "Cd", "Af", "Bf", "$gC", "$gA"}}
	return []*space{
		{Name: "full3", Levels: 3, TM: "!#~", F: 2, Full: true, Kinds: tk, Block: true},
		{Name: "ops2", Levels: 2, NT: "ENPDXF", TM: "!#~", B: 2, G: 2, F: 2, Kinds: tk},
		{Name: "ops3", Levels: 3, NT: "EP", TM: "!#", B: 2, G: 3, F: 1, Kinds: qk},
		{Name: "fee3", Levels: 3, NT: "EF", TM: "!", B: 2, G: 3, F: 1, Kinds: [3][]string{1: {"Bf", "$gB"}, 2: {"Cf", "Af"}}},
		{Name: "fee3b", Levels: 3, NT: "F", TM: "!", B: 2, G: 3, F: 1, Kinds: [3][]string{1: {"Bf"}, 2: {"Cf"}}, Block: true},
		{Name: "reg3", Levels: 3, NT: "KUY", TM: "!#", B: 2, G: 2, F: 1, Kinds: [3][]string{1: {"Bf", "$gB"}, 2: {"Cf"}}},
		{Name: "reg2", Levels: 2, NT: "KUYF", TM: "!#", B: 2, G: 3, F: 1, Kinds: [3][]string{1: {"Bf"}}},
		{Name: "reg2b", Levels: 2, NT: "KUY", TM: "!", B: 2, G: 2, F: 1, Kinds: [3][]string{1: {"Bf"}}, Block: true},
		{Name: "tok3", Levels: 3, TM: "!#", F: 2, Full: true, Kinds: [3][]string{1: {"WcB", "WtB", "WfB", "Bf"}, 2: {"WcC", "WtC", "WfC", "Cf"}}, Block: true},
		{Name: "neo3", Levels: 3, NT: "EX", TM: "!#", B: 2, G: 3, F: 1, Kinds: [3][]string{1: {"Bf", "WtB"}, 2: {"$nC", "$sC", "$nA"}}, Block: true},
	}
}
