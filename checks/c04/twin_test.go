package c04

// Twin-differential oracle for real blocks (needs no expected values): a program
// in which callees fail and are caught must leave exactly the ledger state of
// its twin, in which every such callee does nothing but throw (same signers,
// fees, nonce). Compared: the state root, i.e. the storage of ALL contracts
// including every native (contract id counter, candidate and vote records, total
// supplies, Policy lists, ...), which the reference interpreter does not model.

import (
	"fmt"
	"sort"

	"github.com/nspcc-dev/neo-go/pkg/core/transaction"

	"verif/lib/chainx"
)

// stripThrown returns a copy of ops in which the body of every contract call
// listed in thrown is a bare THROW (op ids are kept).
func stripThrown(ops []Op, thrown map[int]bool) []Op {
	out := make([]Op, len(ops))
	for i, o := range ops {
		if (o.K == 'r' || o.K == 'w') && thrown[o.ID] {
			o.Body = []Op{{K: '!', ID: o.ID}}
		} else {
			o.Body = stripThrown(o.Body, thrown)
		}
		o.H = stripThrown(o.H, thrown)
		o.Fin = stripThrown(o.Fin, thrown)
		out[i] = o
	}
	return out
}

func (rg *rig) stateRoot() string {
	return rg.n.BC.GetStateModule().CurrentLocalStateRoot().StringLE()
}

// runTwinBlock executes the twin of the transaction tx (script replaced) as the only transaction of the next block.
func (rg *rig) runTwinBlock(script []byte, like *transaction.Transaction, committee bool) error {
	tw, err := rg.manualTx(script, like, rg.signers(committee))
	if err != nil {
		return err
	}
	if _, err := rg.n.AddBlock(tw); err != nil {
		return fmt.Errorf("twin block rejected: %w", err)
	}
	return nil
}

// storageDiff lists the contract storage keys in which the two replicas differ.
func storageDiff(a, b *rig, maxID int32) []string {
	da, db := a.n.StorageDump(a.n.ContractIDs(maxID)), b.n.StorageDump(b.n.ContractIDs(maxID))
	var out []string
	for k, v := range da {
		if w, ok := db[k]; !ok || w != v {
			out = append(out, fmt.Sprintf("storage[%s]: with the failed callees %q, with bare-THROW callees %q", k, v, db[k]))
		}
	}
	for k, w := range db {
		if _, ok := da[k]; !ok {
			out = append(out, fmt.Sprintf("storage[%s]: with the failed callees <missing>, with bare-THROW callees %q", k, w))
		}
	}
	sort.Strings(out)
	if len(out) > 8 {
		out = append(out[:8], fmt.Sprintf("... %d more", len(out)-8))
	}
	return out
}

var _ = chainx.SysFee
