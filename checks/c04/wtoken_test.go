package c04

// Contract W: a hand-assembled conduit that reaches B.run / C.run through METHOD
// TOKENS (CALLT, interop LoadToken -> callInternal(isDynamic=false)), the second
// entry path to a contract call besides System.Contract.Call. Methods (one
// parameter: the program; result: whatever the callee returned):
//
//	c<inst>: CALLT; RET                                   no handler: an exception passes through W
//	t<inst>: TRY{ CALLT } CATCH{ DROP; PUSH 71 }; RET      W catches the callee's failure and returns 71
//	f<inst>: TRY{ CALLT } FINALLY{ }; RET                  handler without CATCH: the exception passes after the finally part
//
// Program op: 'W' mode inst '[' seq ']', e.g. WtB[E!].

import (
	"github.com/nspcc-dev/neo-go/pkg/core/state"
	"github.com/nspcc-dev/neo-go/pkg/neotest"
	"github.com/nspcc-dev/neo-go/pkg/smartcontract"
	"github.com/nspcc-dev/neo-go/pkg/smartcontract/callflag"
	"github.com/nspcc-dev/neo-go/pkg/smartcontract/manifest"
	"github.com/nspcc-dev/neo-go/pkg/smartcontract/nef"
	"github.com/nspcc-dev/neo-go/pkg/util"
	"github.com/nspcc-dev/neo-go/pkg/vm/opcode"
)

const wModes = "ctf"

func wMethod(mode byte, inst int) string { return string(mode) + string(instNames[inst]) }

// buildW assembles W for the callees B and C, deployable by sender.
func buildW(sender util.Uint160, ub, uc util.Uint160) (*neotest.Contract, error) {
	m := manifest.DefaultManifest("W")
	m.Permissions = []manifest.Permission{*manifest.NewPermission(manifest.PermissionWildcard)}
	var script []byte
	var tokens []nef.MethodToken
	for ti, inst := range []int{pB, pC} {
		h := ub
		if inst == pC {
			h = uc
		}
		tokens = append(tokens, nef.MethodToken{Hash: h, Method: "run", ParamCount: 1, HasReturn: true, CallFlag: callflag.All})
		callt := []byte{byte(opcode.CALLT), byte(ti), 0}
		for i := 0; i < len(wModes); i++ {
			mode := wModes[i]
			m.ABI.Methods = append(m.ABI.Methods, manifest.Method{Name: wMethod(mode, inst), Offset: len(script), ReturnType: smartcontract.AnyType,
				Parameters: []manifest.Parameter{manifest.NewParameter("prog", smartcontract.AnyType)}})
			switch mode {
			case 'c':
				script = append(script, callt...)
				script = append(script, byte(opcode.RET))
			case 't':
				// 0 TRY c=8 f=0 | 3 CALLT | 6 ENDTRY +7 | 8 DROP | 9 PUSHINT8 71 | 11 ENDTRY +2 | 13 RET
				script = append(script, byte(opcode.TRY), 8, 0)
				script = append(script, callt...)
				script = append(script, byte(opcode.ENDTRY), 7, byte(opcode.DROP), byte(opcode.PUSHINT8), 71, byte(opcode.ENDTRY), 2, byte(opcode.RET))
			case 'f':
				// 0 TRY c=0 f=8 | 3 CALLT | 6 ENDTRY +3 | 8 ENDFINALLY | 9 RET
				script = append(script, byte(opcode.TRY), 0, 8)
				script = append(script, callt...)
				script = append(script, byte(opcode.ENDTRY), 3, byte(opcode.ENDFINALLY), byte(opcode.RET))
			}
		}
	}
	ne, err := nef.NewFile(script)
	if err != nil {
		return nil, err
	}
	ne.Tokens = tokens
	ne.Checksum = ne.CalculateChecksum()
	return &neotest.Contract{Hash: state.CreateContractHash(sender, ne.Checksum, m.Name), NEF: ne, Manifest: m}, nil
}
