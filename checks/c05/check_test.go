// C05: native token supply and governance accounting are conserved.
// Every block history of a bounded tree (families x preamble pads x block
// alphabet^depth) is executed on a real core.Blockchain; at EVERY block
// boundary (genesis, every preamble block, every tree node) the raw storage of
// the NEO, GAS and Notary contracts is decoded and the conservation laws of
// the property are evaluated on the decoded numbers, together with the
// Transfer events of the block's executions (DESIGN.md section 4, C05).
package c05

import (
	"crypto/sha256"
	"encoding/hex"
	"fmt"
	"os"
	"sort"
	"strings"
	"sync"
	"testing"
	"time"

	"github.com/nspcc-dev/neo-go/pkg/core/block"
	"github.com/nspcc-dev/neo-go/pkg/core/native/nativehashes"
	"github.com/nspcc-dev/neo-go/pkg/core/transaction"
	"github.com/nspcc-dev/neo-go/pkg/util"

	"verif/lib/chainx"
	"verif/lib/vk"
)

// plan is one bounded history space: forced prefix blocks, then every
// sequence over the per-level alphabets.
type plan struct {
	Name   string
	Fam    chainx.Family
	Pad    int
	Prefix []string   // forced first blocks (one history)
	Levels [][]string // alphabet of each free level after the prefix
	// Restart: the replica is closed and reopened on its store before the last
	// block of every history (native caches are rebuilt from storage); the
	// accounting state after the block must also equal the one of a replica
	// that was never restarted.
	Restart bool
	// Dedup (graph plans): a history is extended only if it is the first one (in
	// breadth-first, alphabet order) that reaches its governance state
	// (dedupKey: NEO balances and votes, candidates, voters count, deposits,
	// blocked accounts). Every template of the next level is thus applied to
	// every distinct governance state reached within the depth, once.
	Dedup bool
	// KeyDepth: the depth of the history is part of the state identity of a
	// graph plan (plans whose behaviour depends on the height: deposit tills).
	KeyDepth bool
}

func (p plan) famKey() string {
	k := p.Fam.Name
	if p.Pad != 0 {
		k += fmt.Sprintf("+pad%d", p.Pad)
	}
	if p.Restart {
		k += "+restart"
	}
	if strings.HasPrefix(p.Name, "atoms/") {
		k += "/" + p.Name
	}
	return k
}

var (
	famSingle     = chainx.Family{Name: "single"}
	famSingleSRIH = chainx.Family{Name: "single-srih", SRIH: true}
	famMulti      = chainx.Family{Name: "multi", Multi: true}
	famMultiSRIH  = chainx.Family{Name: "multi-srih", Multi: true, SRIH: true}
)

// alphabets, simplest first
var (
	alphaQuick = []string{
		"empty", "gas-transfer", "neo-transfer", "vote1", "vote2for1", "unvote1", "vote2+transfer", "voter-moves",
		"unregister1", "register1", "register2", "zero-transfer", "self-transfer", "whole-balance", "neo-to-contract",
		"contract-holder", "vote-unregistered", "fault-between", "fault-all", "caught-transfer",
		"notary-deposit", "n-deposit2-short", "n-withdraw2", "gas-to-contract",
	}
	alphaMore = []string{
		"unvote2", "vote-unreg-rereg", "register-by-payment", "block-voter2", "block-account3", "halt-all", "policy-fee+tx",
		"n-deposit2-more", "n-deposit-for2", "n-deposit-bad", "n-withdraw2-to4", "n-lock2", "designate-notary",
		"no-witness", "bad-args", "gas-per-block7", "gas-per-block0", "register-price500", "drop1", "reelect1", "claim12", "recover2@1y",
	}
	alphaMulti = []string{
		"empty", "vote1", "vote2for1", "vote2+transfer", "unvote1", "voter-moves", "unregister1", "register1",
		"zero-transfer", "fault-all", "n-deposit2-short", "policy-fee+tx", "spread-votes",
	}
	alphaMultiDeep = []string{"empty", "vote1", "vote2+transfer", "unvote1", "unregister1", "voter-moves", "zero-transfer", "register1", "spread-votes"}
	alphaNotary    = []string{
		"empty", "n-withdraw2", "n-withdraw2-to4", "n-deposit2-more", "n-deposit-for2", "n-lock2", "n-assisted",
		"n-deposit-bad", "notary-deposit", "fault-all", "halt-all", "n-lock2-early", "n-deposit5-exact", "n-assisted5", "no-witness",
	}
	alphaGov     = []string{"vote1", "vote2for1", "unvote1", "unregister1", "register1", "voter-moves", "vote2+transfer", "fault-all", "block-voter2", "drop1", "reelect1", "claim12", "recover2@1y"}
	alphaReelect = []string{"empty", "claim12", "drop1", "reelect1", "unvote1", "vote1", "unregister1", "voter-moves"}
	alphaRestart = []string{"empty", "vote1", "vote2for1", "unvote1", "voter-moves", "drop1", "reelect1", "claim12", "gas-per-block7", "n-deposit2-short", "n-withdraw2", "whole-balance"}
	pairSetups   = []string{"empty", "vote2for1", "register2", "vote1", "vote2+transfer", "n-deposit2-short"}
)

func names(ts []chainx.Tpl) []string {
	var out []string
	for _, t := range ts {
		out = append(out, t.Name)
	}
	return out
}

func rep(a []string, n int) [][]string {
	var out [][]string
	for i := 0; i < n; i++ {
		out = append(out, a)
	}
	return out
}

func plans(thorough bool) []plan {
	pq := names(pairTemplates(quickPairOps))
	full := append(append([]string{}, alphaQuick...), alphaMore...)
	ps := amountPlans(thorough) // first: within every level they run before the deep plans
	ps = append(ps, []plan{
		{Name: "single/full", Fam: famSingle, Levels: rep(full, 2)},
		{Name: "single/pairs", Fam: famSingle, Levels: [][]string{pairSetups, pq}},
		{Name: "single/notary", Fam: famSingle, Prefix: []string{"n-setup", "empty"}, Levels: rep(alphaNotary, 2)},
		{Name: "single/gov3", Fam: famSingle, Levels: rep(alphaGov, 3)},
	}...)
	for _, pad := range []int{0, 1, 2} {
		ps = append(ps, plan{Name: fmt.Sprintf("multi/pad%d", pad), Fam: famMulti, Pad: pad, Levels: rep(alphaMulti, 2)})
	}
	ps = append(ps,
		// vote1 at 4, rate change at 5 (committee = account 1 from here, rewards per vote are stored): claims
		// at 6 and 7 span the rate boundary and, after the restart, read the stored reward
		plan{Name: "single/restart", Fam: famSingle, Prefix: []string{"vote1", "gas-per-block7"}, Levels: rep(alphaRestart, 2), Restart: true},
		// candidate 1 dropped with accrued rewards and elected again
		plan{Name: "single/reelect/restart", Fam: famSingle, Prefix: []string{"vote1", "vote2for1", "drop1", "reelect1"}, Levels: rep(alphaReelect, 2), Restart: true},
		plan{Name: "multi/pad1/restart", Fam: famMulti, Pad: 1, Levels: rep(alphaMultiDeep, 2), Restart: true},
	)
	ps = append(ps, atomPlans(thorough)...)
	if !thorough {
		return ps
	}
	ps = append(ps,
		plan{Name: "single/restart3", Fam: famSingle, Levels: rep(alphaRestart, 3), Restart: true},
		plan{Name: "single/reelect3", Fam: famSingle, Prefix: []string{"vote1", "vote2for1", "drop1", "reelect1"}, Levels: rep(alphaReelect, 3)},
		plan{Name: "multi/pad0/restart3", Fam: famMulti, Pad: 0, Levels: rep(alphaMultiDeep, 3), Restart: true},
		plan{Name: "single/notary/restart", Fam: famSingle, Prefix: []string{"n-setup", "empty"}, Levels: rep(alphaNotary, 2), Restart: true},
	)
	pt := names(pairTemplates(len(pairOps())))
	ps = append(ps,
		plan{Name: "single/pairs-all", Fam: famSingle, Levels: [][]string{pairSetups, pt}},
		plan{Name: "single/pairs2", Fam: famSingle, Levels: [][]string{pq, pq}},
		plan{Name: "single/notary3", Fam: famSingle, Prefix: []string{"n-setup", "empty"}, Levels: rep(alphaNotary, 3)},
		plan{Name: "single-srih/full", Fam: famSingleSRIH, Levels: rep(full, 2)},
		plan{Name: "single/base3", Fam: famSingle, Levels: rep(alphaQuick, 3)},
	)
	for _, pad := range []int{0, 1, 2, 3, 4, 5} {
		ps = append(ps, plan{Name: fmt.Sprintf("multi/full/pad%d", pad), Fam: famMulti, Pad: pad, Levels: rep(full, 2)})
		ps = append(ps, plan{Name: fmt.Sprintf("multi/deep/pad%d", pad), Fam: famMulti, Pad: pad, Levels: rep(alphaMultiDeep, 3)})
	}
	ps = append(ps,
		plan{Name: "multi/pairs", Fam: famMulti, Pad: 1, Levels: [][]string{pairSetups, pq}},
		plan{Name: "multi/notary", Fam: famMulti, Pad: 2, Prefix: []string{"n-setup", "empty"}, Levels: rep(alphaNotary, 2)},
		plan{Name: "multi-srih/pad2", Fam: famMultiSRIH, Pad: 2, Levels: rep(alphaMulti, 2)},
	)
	return ps
}

// ---- run-wide counters ---------------------------------------------------------------

type stats struct {
	mu       sync.Mutex
	tx       map[string]map[string]int // template -> vm state -> transactions
	events   int
	mints    int
	burns    int
	notAppl  map[string]int
	faults   map[string]int
	byInv    map[string]int
	boundary vk.Counter
	nodes    vk.Counter
	full     *vk.Set // distinct (balances, votes, deposits) states incl. GAS
	gov      *vk.Set // distinct NEO/vote/candidate/deposit states
	perPlan  map[string]*planStat
	classes  map[string]int // what atom transitions did to the accounting state
	amounts  amountStats
	effects  map[string]map[string]int // atom block -> effect on the accounting state -> times
}

// planStat counts one plan.
type planStat struct {
	Nodes     int `json:"blocks_executed"`
	NotAppl   int `json:"not_applicable"`
	States    int `json:"distinct_governance_states"`
	Merged    int `json:"transitions_into_a_known_state"`
	Histories int `json:"complete_histories"`
	seen      map[string]bool
}

func newStats() *stats {
	return &stats{faults: map[string]int{}, tx: map[string]map[string]int{}, notAppl: map[string]int{}, byInv: map[string]int{}, full: vk.NewSet(), gov: vk.NewSet(),
		perPlan: map[string]*planStat{}, classes: map[string]int{}, effects: map[string]map[string]int{}, amounts: newAmountStats()}
}

func short(s string) string {
	h := sha256.Sum256([]byte(s))
	return hex.EncodeToString(h[:12])
}

func (st *stats) boundaryDone(s *tokState, ev *blockEvents, tplOfTx func(i int) string) {
	st.boundary.Inc()
	st.full.Add(short(s.fullKey()))
	st.gov.Add(short(s.govKey()))
	st.mu.Lock()
	defer st.mu.Unlock()
	st.events += ev.N
	st.mints += ev.Mints
	st.burns += ev.Burns
	for i, e := range ev.Execs {
		t := tplOfTx(i)
		if st.tx[t] == nil {
			st.tx[t] = map[string]int{}
		}
		st.tx[t][e.State]++
		if e.Fault != "" {
			f := e.Fault
			if i := strings.Index(f, "0x"); i > 0 { // drop hashes and offsets that vary
				f = f[:i]
			}
			if len(f) > 90 {
				f = f[len(f)-90:]
			}
			st.faults[t+": "+f]++
		}
	}
}

// ---- one plan --------------------------------------------------------------------------

type caseRec struct {
	Plan     string   `json:"plan"`
	Family   string   `json:"family"`
	Multi    bool     `json:"multi"`
	SRIH     bool     `json:"srih"`
	Pad      int      `json:"pad"`
	Restart  bool     `json:"restart,omitempty"`
	History  []string `json:"history"` // template names after the preamble ("" = violation inside the preamble)
	Height   uint32   `json:"height"`
	Inv      string   `json:"invariant"`
	Viols    []viol   `json:"violations"`
	BlockTxs []string `json:"block_txs,omitempty"`
}

type planRun struct {
	p      plan
	sc     *chainx.Scenario
	idx    map[string]int
	probes []util.Uint160
	pre    *tokState // decoded state after the preamble
	r      *vk.Run
	st     *stats
	mu     sync.Mutex
	tree   map[string]*tnode
}

func harness(format string, a ...any) {
	fmt.Printf("CHECK-ERROR: harness decode mismatch: "+format+"\n", a...)
	os.Exit(3)
}

func probesOf(w *chainx.World, n *chainx.Node) []util.Uint160 {
	p := []util.Uint160{w.UA.Hash, w.UB.Hash, nativehashes.Notary, nativehashes.NeoToken, nativehashes.GasToken, nativehashes.PolicyContract, n.Validator.ScriptHash(), n.Committee.ScriptHash()}
	for i := 1; i <= 7; i++ {
		p = append(p, chainx.Acc(i).ScriptHash())
	}
	return p
}

// boundary evaluates everything at the top block of n. before is the decoded
// state one block earlier; dump is the storage at the top.
func boundary(n *chainx.Node, before *tokState, dump map[string]string, probes []util.Uint160) (*tokState, *blockEvents, []viol) {
	after, err := decode(dump)
	if err != nil {
		harness("height %d: %v", n.Height(), err)
	}
	if len(after.Bad) != 0 {
		// the node's own getters cannot read such an item either: no cross-check, no delta
		var vs []viol
		for _, m := range after.Bad {
			vs = append(vs, viol{"above-supply", m})
		}
		return after, &blockEvents{}, vs
	}
	if err := crossCheck(n, after, probes); err != nil {
		harness("height %d: %v", n.Height(), err)
	}
	b, err := n.BC.GetBlock(n.BC.CurrentBlockHash())
	if err != nil {
		harness("top block: %v", err)
	}
	ev, err := collectEvents(n, b)
	if err != nil {
		harness("height %d: %v", n.Height(), err)
	}
	vs := after.staticInvariants(n.BC.GetContractState(nativehashes.Notary) != nil)
	for _, m := range ev.Neg {
		vs = append(vs, viol{"negative", m})
	}
	vs = append(vs, deltaInvariant(before, after, ev)...)
	return after, ev, vs
}

func firstInv(vs []viol) string {
	// fixed priority so that the key of one defect is stable
	for _, inv := range []string{"neo-supply", "neo-sum", "gas-sum", "candidate-votes", "voters-count", "notary-deposits", "negative", "delta-events", "restart-differs",
		"above-supply", "negative-amount-accepted", "overdraft-accepted", "refused-changed-state"} {
		for _, v := range vs {
			if v.Inv == inv {
				return inv
			}
		}
	}
	return vs[0].Inv
}

func (pr *planRun) report(hist []string, height uint32, vs []viol, key string) {
	if len(vs) > 8 {
		vs = vs[:8]
	}
	inv := firstInv(vs)
	rec := caseRec{Plan: pr.p.Name, Family: pr.p.Fam.Name, Multi: pr.p.Fam.Multi, SRIH: pr.p.Fam.SRIH, Pad: pr.p.Pad, Restart: pr.p.Restart, History: hist, Height: height, Inv: inv, Viols: vs}
	pr.st.mu.Lock()
	pr.st.byInv[inv]++
	pr.st.mu.Unlock()
	if pr.r != nil {
		pr.r.Violation(fmt.Sprintf("%s:%s:%s", inv, pr.p.famKey(), key), rec)
	}
}

// setup builds the scenario and checks genesis and every preamble boundary.
// It returns false if the preamble itself violates (the tree is then skipped).
func (pr *planRun) setup() (ok bool, err error) {
	all := allTemplates()
	pr.idx = map[string]int{}
	pr.tree = map[string]*tnode{}
	var tpls []chainx.Tpl
	use := func(n string) error {
		if _, ok := pr.idx[n]; ok {
			return nil
		}
		t, ok := all[n]
		if !ok {
			t, ok = atomTemplate(n)
		}
		if !ok {
			t, ok = amountTemplate(n)
		}
		if !ok {
			return fmt.Errorf("no template %q", n)
		}
		pr.idx[n] = len(tpls)
		tpls = append(tpls, t)
		return nil
	}
	for _, n := range pr.p.Prefix {
		if err := use(n); err != nil {
			return false, err
		}
	}
	for _, l := range pr.p.Levels {
		for _, n := range l {
			if err := use(n); err != nil {
				return false, err
			}
		}
	}
	if pr.sc, err = chainx.NewScenario(pr.p.Fam, pr.p.Pad, tpls); err != nil {
		return false, fmt.Errorf("preamble: %w", err)
	}
	n, err := chainx.New(pr.p.Fam.Opts())
	if err != nil {
		return false, err
	}
	defer n.Close()
	pr.probes = probesOf(pr.sc.World, n)
	state := newTokState() // before genesis: nothing
	for i := -1; i < len(pr.sc.Preamble); i++ {
		if i >= 0 {
			if err := n.AddBytes(pr.sc.Preamble[i]); err != nil {
				return false, fmt.Errorf("preamble replay: %w", err)
			}
		}
		after, ev, vs := boundary(n, state, n.StorageDump(dumpIDs), pr.probes)
		pr.st.boundaryDone(after, ev, func(int) string { return "(preamble)" })
		if len(vs) != 0 {
			pr.report(nil, n.Height(), vs, fmt.Sprintf("preamble@%d", n.Height()))
			return false, nil
		}
		state = after
	}
	pr.pre = state
	return true, nil
}

func (pr *planRun) histNames(h []int) []string { return pr.sc.Names(h) }

// ps returns the plan's counters (caller holds st.mu).
func (pr *planRun) ps() *planStat {
	p := pr.st.perPlan[pr.p.Name]
	if p == nil {
		p = &planStat{seen: map[string]bool{}}
		pr.st.perPlan[pr.p.Name] = p
	}
	return p
}

// fresh tells whether the state reached by h is new for the plan (graph
// plans extend only from new states). Called sequentially in candidate order.
func (pr *planRun) fresh(s *tokState, depth int) bool {
	pr.st.mu.Lock()
	defer pr.st.mu.Unlock()
	p := pr.ps()
	k := dedupKey(s)
	if pr.p.KeyDepth {
		k = fmt.Sprintf("%d|%s", depth, k)
	}
	k = short(k)
	if p.seen[k] {
		p.Merged++
		return false
	}
	p.seen[k] = true
	p.States = len(p.seen)
	return true
}

// tnode is a node of the plan's history tree: the block that extends the
// prefix and the decoded accounting state after it.
type tnode struct {
	block []byte
	state *tokState
}

func hkey(h []int) string { return fmt.Sprint(h) }

func (pr *planRun) get(h []int) *tnode {
	pr.mu.Lock()
	defer pr.mu.Unlock()
	return pr.tree[hkey(h)]
}

// visit executes history h on a fresh replica (preamble, the blocks of the
// prefix, then the block built by the last template), checks the new boundary
// and tells whether the history may be extended (the block exists in this
// state and nothing was violated).
func (pr *planRun) visit(h []int) (extend bool) {
	tplName := pr.sc.Tpls[h[len(h)-1]].Name
	notAppl := func(err error) bool {
		pr.st.mu.Lock()
		pr.st.notAppl[tplName]++
		pr.ps().NotAppl++
		pr.st.mu.Unlock()
		if strings.Contains(err.Error(), "panic") || os.Getenv("VERIF_C05_WHY") != "" {
			fmt.Println("note:", pr.p.Name, pr.histNames(h), err)
		}
		return false
	}
	n, err := chainx.New(pr.p.Fam.Opts())
	if err != nil {
		harness("cannot start a replica: %v", err)
	}
	defer func() { n.Close() }()
	for _, bb := range pr.sc.Preamble {
		if err := n.AddBytes(bb); err != nil {
			harness("preamble replay: %v", err)
		}
	}
	before := pr.pre
	for i := 1; i < len(h); i++ {
		tn := pr.get(h[:i])
		if tn == nil {
			harness("prefix %v of %v was not built", h[:i], h)
		}
		if err := n.AddBytes(tn.block); err != nil {
			harness("replay of %v: %v", pr.histNames(h[:i]), err)
		}
		before = tn.state
	}
	if pr.p.Restart {
		m, err := n.Reopen()
		if err != nil {
			harness("restart before the last block of %v: %v", pr.histNames(h), err)
		}
		n = m
	}
	w := pr.sc.World.Attach(n)
	var built []*transaction.Transaction
	if err := chainx.Try(func() {
		var e error
		if built, e = pr.sc.Tpls[h[len(h)-1]].Build(w); e != nil {
			panic(chainx.Failure{Msg: e.Error()})
		}
	}); err != nil {
		return notAppl(err)
	}
	var b *block.Block
	if strings.HasSuffix(tplName, "@1y") {
		b, err = futureBlock(n, 366*24*3600*1000, built)
		if err == nil {
			err = n.BC.AddBlock(b)
		}
	} else {
		b, err = n.AddBlock(built...)
	}
	if err != nil {
		if strings.HasPrefix(tplName, "q:") {
			// the transaction was valid, the node refuses the block that carries it
			fmt.Println("note: block of an amount atom rejected:", pr.p.Name, pr.histNames(h), err)
			pr.st.mu.Lock()
			pr.st.amounts.Rejected++
			pr.st.mu.Unlock()
		}
		return notAppl(err)
	}
	bb, err := chainx.BlockBytes(b)
	if err != nil {
		harness("%v", err)
	}
	after, ev, vs := boundary(n, before, n.StorageDump(dumpIDs), pr.probes)
	if pr.p.Restart {
		if d := pr.neverRestarted(h, bb, after); d != "" {
			vs = append(vs, viol{"restart-differs", d})
		}
	}
	if strings.HasPrefix(tplName, "q:") {
		vs = append(vs, pr.judgeAmount(w, tplName, before, after, ev)...)
	}
	pr.mu.Lock()
	pr.tree[hkey(h)] = &tnode{block: bb, state: after}
	pr.mu.Unlock()
	pr.st.nodes.Inc()
	pr.st.boundaryDone(after, ev, func(int) string { return tplName })
	pr.st.mu.Lock()
	pr.ps().Nodes++
	if strings.HasPrefix(tplName, "a:") || strings.HasPrefix(tplName, "a2:") {
		cs := classes(tplName, before, after)
		for _, c := range cs {
			pr.st.classes[c]++
		}
		if strings.HasPrefix(tplName, "a:") {
			eff := strings.Join(effectsOnly(cs), "; ")
			if eff == "" {
				eff = "(no change of NEO accounts, votes, candidates, deposits, blocked set)"
			}
			if pr.st.effects[tplName] == nil {
				pr.st.effects[tplName] = map[string]int{}
			}
			pr.st.effects[tplName][eff]++
		}
	}
	pr.st.mu.Unlock()
	hist := pr.histNames(h)
	if pr.r != nil {
		pr.r.Sample(map[string]any{"plan": pr.p.Name, "history": hist, "height": n.Height(), "transfer_events": ev.N, "execs": execStates(ev),
			"neo_accounts": len(after.NEO), "gas_accounts": len(after.GAS), "candidates": len(after.Cands), "voters_count": after.Voters.String(), "deposits": len(after.Deposits), "gas_supply": after.GASSupply.String()})
	}
	if len(vs) != 0 {
		pr.report(hist, n.Height(), vs, strings.Join(hist, ","))
		return false
	}
	return true
}

// futureBlock builds the next block dated ms milliseconds after its parent
// (lock periods counted in wall time, e.g. Policy.recoverFund).
func futureBlock(n *chainx.Node, ms uint64, built []*transaction.Transaction) (*block.Block, error) {
	ref, err := n.NewBlock(built...)
	if err != nil {
		return nil, err
	}
	b := &block.Block{Header: ref.Header, Transactions: built}
	b.Header = block.Header{
		Version: ref.Version, PrevHash: ref.PrevHash, MerkleRoot: ref.MerkleRoot, Timestamp: ref.Timestamp + ms, Nonce: ref.Nonce,
		Index: ref.Index, PrimaryIndex: ref.PrimaryIndex, NextConsensus: ref.NextConsensus,
		StateRootEnabled: ref.StateRootEnabled, PrevStateRoot: ref.PrevStateRoot,
		Script: transaction.Witness{VerificationScript: ref.Script.VerificationScript},
	}
	vals, err := n.BC.GetNextBlockValidators()
	if err != nil {
		return nil, err
	}
	return b, chainx.SignBlock(b, vals, uint32(n.BC.GetConfig().Magic))
}

// neverRestarted replays the same history on a replica that is never
// restarted and compares the accounting state (every decoded field).
func (pr *planRun) neverRestarted(h []int, last []byte, got *tokState) string {
	n, err := chainx.New(pr.p.Fam.Opts())
	if err != nil {
		harness("cannot start a replica: %v", err)
	}
	defer n.Close()
	for _, bb := range pr.sc.Preamble {
		if err := n.AddBytes(bb); err != nil {
			harness("preamble replay: %v", err)
		}
	}
	for i := 1; i < len(h); i++ {
		if err := n.AddBytes(pr.get(h[:i]).block); err != nil {
			harness("replay of %v: %v", pr.histNames(h[:i]), err)
		}
	}
	if err := n.AddBytes(last); err != nil {
		return "the block accepted after the restart is rejected by a replica that never restarted: " + err.Error()
	}
	want, err := decode(n.StorageDump(dumpIDs))
	if err != nil {
		harness("%v", err)
	}
	return want.diff(got)
}

func execStates(ev *blockEvents) []string {
	var out []string
	for _, e := range ev.Execs {
		out = append(out, e.State)
	}
	return out
}

// ---- the check -----------------------------------------------------------------------

// onlyPlans is a development aid: VERIF_C05_ONLY=<substring> runs only the
// plans whose name contains it (the evidence of such a run is partial).
func onlyPlans(ps []plan) []plan {
	f := os.Getenv("VERIF_C05_ONLY")
	if f == "" {
		return ps
	}
	fmt.Println("note: VERIF_C05_ONLY set, running only the plans matching", f)
	var out []plan
	for _, p := range ps {
		if strings.Contains(p.Name, f) {
			out = append(out, p)
		}
	}
	return out
}

func TestCheck(t *testing.T) {
	vk.UseT(t)
	r := vk.Start("C05", "model_checking", 180*time.Second, 22*time.Minute)
	defer vk.CleanScratch()
	if r.Replay != "" {
		replay(r)
		return
	}
	st := newStats()
	t0 := time.Now()
	var runs []*planRun
	for _, p := range onlyPlans(plans(r.Thorough())) {
		pr := &planRun{p: p, r: r, st: st}
		ok, err := pr.setup()
		if err != nil {
			fmt.Println("CHECK-ERROR: plan", p.Name, err)
			os.Exit(3)
		}
		if ok {
			runs = append(runs, pr)
		}
	}
	// forced prefixes (sequential chains)
	type job struct {
		pr *planRun
		h  []int
	}
	var level []job
	for _, pr := range runs {
		h := []int{}
		ok := true
		for _, nme := range pr.p.Prefix {
			h = append(h, pr.idx[nme])
			if !pr.visit(append([]int{}, h...)) {
				fmt.Println("note: prefix of plan", pr.p.Name, "not applicable or violating at", nme)
				ok = false
				break
			}
		}
		if ok {
			level = append(level, job{pr, append([]int{}, h...)})
			start := pr.pre
			if len(h) > 0 {
				start = pr.get(h).state
			}
			pr.fresh(start, len(h))
		}
	}
	if os.Getenv("VERIF_C05_WHY") != "" {
		fmt.Printf("note: setups and prefixes done: %.1fs since start\n", time.Since(t0).Seconds())
	}
	// free levels, breadth first over all plans (shortest histories first)
	histories := 0
	for d := 0; len(level) > 0; d++ {
		var cand []job
		for _, j := range level {
			if d >= len(j.pr.p.Levels) {
				histories++
				st.mu.Lock()
				j.pr.ps().Histories++
				st.mu.Unlock()
				continue
			}
			for _, nme := range j.pr.p.Levels[d] {
				cand = append(cand, job{j.pr, append(append([]int{}, j.h...), j.pr.idx[nme])})
			}
		}
		ok := make([]bool, len(cand))
		r.Parallel(len(cand), func(i int) { ok[i] = cand[i].pr.visit(cand[i].h) })
		level = level[:0]
		for i, c := range cand {
			if !ok[i] {
				continue
			}
			if isNew := c.pr.fresh(c.pr.get(c.h).state, len(c.h)); c.pr.p.Dedup && !isNew {
				continue
			}
			level = append(level, c)
		}
		if os.Getenv("VERIF_C05_WHY") != "" {
			fmt.Printf("note: level %d done: %d candidates, %d extended, %.1fs since start\n", d+1, len(cand), len(level), time.Since(t0).Seconds())
		}
		if os.Getenv("VERIF_C05_ONLY") != "" {
			st.mu.Lock()
			for n, p := range st.perPlan {
				fmt.Printf("note: level %d: %s blocks=%d states=%d\n", d+1, n, p.Nodes, p.States)
			}
			st.mu.Unlock()
		}
		if r.Expired() || r.TooMany() {
			break
		}
	}
	finish(r, st, histories, onlyPlans(plans(r.Thorough())))
}

func finish(r *vk.Run, st *stats, histories int, ps []plan) {
	st.mu.Lock()
	txStats := map[string]string{}
	halted, faulted := 0, 0
	for t, m := range st.tx {
		var l []string
		for s, c := range m {
			l = append(l, fmt.Sprintf("%s=%d", s, c))
			if strings.HasPrefix(s, "HALT") {
				halted += c
			} else {
				faulted += c
			}
		}
		sort.Strings(l)
		txStats[t] = strings.Join(l, " ")
	}
	var planDesc []string
	for _, p := range ps {
		var ls []string
		for _, l := range p.Levels {
			ls = append(ls, fmt.Sprint(len(l)))
		}
		planDesc = append(planDesc, fmt.Sprintf("%s: family=%s pad=%d prefix=%v levels=%s restart=%v graph=%v", p.Name, p.Fam.Name, p.Pad, p.Prefix, strings.Join(ls, "x"), p.Restart, p.Dedup))
	}
	na := map[string]int{}
	for k, v := range st.notAppl {
		na[k] = v
	}
	cov := map[string]any{
		"states":                        st.full.Len(),
		"transitions":                   int(st.boundary.Get()),
		"traces_validated_against_impl": int(st.nodes.Get()),
		"complete_histories":            histories,
		"block_boundaries_checked":      int(st.boundary.Get()),
		"tree_nodes":                    int(st.nodes.Get()),
		"distinct_balance_vote_states":  st.full.Len(),
		"distinct_governance_states":    st.gov.Len(),
		"transfer_events_counted":       st.events,
		"mint_events":                   st.mints,
		"burn_events":                   st.burns,
		"tx_halt":                       halted,
		"tx_fault":                      faulted,
		"tx_by_template":                txStats,
		"template_not_applicable":       na,
		"fault_reasons":                 st.faults,
		"plans":                         planDesc,
		"alphabet_quick":                alphaQuick,
		"alphabet_more":                 alphaMore,
		"alphabet_multi":                alphaMulti,
		"alphabet_notary":               alphaNotary,
		"alphabet_gov_depth3":           alphaGov,
		"alphabet_multi_depth3":         alphaMultiDeep,
		"pair_ops":                      "v1 t v2 u r2 x2 | d w z (ordered pairs of distinct ops of account 2 in one block; quick uses the first 6)",
		"invariants":                    []string{"neo-supply", "neo-sum", "gas-sum", "candidate-votes", "voters-count", "notary-deposits", "negative", "delta-events", "restart-differs (restart plans)"},
		"alphabet_restart":              alphaRestart,
		"per_plan":                      st.perPlan,
		"atom_transition_classes":       st.classes,
		"atom_transition_classes_n":     len(st.classes),
		"atom_effects":                  st.effects,
		"atoms_drop":                    atomsDrop,
		"atoms_two":                     atomsTwo,
		"atoms_contract":                atomsContract,
		"atoms_pair_block":              atomsPair,
		"atoms_gas":                     atomsGas,
		"atoms_notary":                  atomsNot,
		"atoms_notary_pair_block":       atomsNotPair,
		"alphabet_oracle":               alphaOracle,
		"atoms_multi":                   atomsMulti,
		"amount_atoms":                  amountAtomCount(r.Thorough()),
		"amount_menu":                   menuNames(tillMenu()),
		"amount_entries":                entryNames(),
		"amount_states":                 append([]string{"(the preamble's state)"}, qStates...),
		"amount_blocks_executed":        st.amounts.Blocks,
		"amount_not_applicable":         "see template_not_applicable (labels with the value of an earlier label in the state, no deposit)",
		"amount_blocks_rejected":        st.amounts.Rejected,
		"amount_distinct_outcomes":      len(st.amounts.Outcomes),
		"amount_outcomes":               st.amounts.Outcomes,
		"amount_results_by_class":       st.amounts.ByClass,
		"amount_accepted_by_entry":      st.amounts.Accepted,
		"atoms_doc":                     "v<a>><c> vote (0 = revoke), r/x<c> (un)register, T/P/M/t<a>><b> NEO transfer of the whole balance / +1 / -1 / 1, UB = contract with payment callback (!back/!vote1/!fwd3 = re-entrant callback), B/U = block/unblock, c = claim, g* = GAS whole-balance and exact-fee atoms, n* = notary deposit boundary atoms; a2:X+Y = both in one block",
		"rule":                          "state = decoded (NEO balances+VoteTo, GAS balances, candidates, votersCount, deposits, supplies) at a block boundary; every boundary of every history (genesis, preamble, each tree node) is decoded from raw storage, cross-checked with the getters and evaluated",
	}
	if len(st.byInv) > 0 {
		cov["violations_by_invariant"] = st.byInv
	}
	st.mu.Unlock()
	r.Finish(cov, []string{
		"the decoded storage is cross-checked at every boundary with GetGoverningTokenBalance, GetUtilityTokenBalance (incl. the Notary deposit form), GetNotaryDepositExpiration, GetEnrollments and a test invocation of NEO/GAS totalSupply, GAS.balanceOf(Notary), NEO.getCandidateVote; a disagreement aborts with exit 3 instead of reporting a violation",
		"Transfer events: native NEO/GAS events of the OnPersist/PostPersist executions and of HALTed Application executions; FAULTed executions contribute none",
		"a history is not extended past its first violation; a violating preamble suppresses its tree",
		"graph plans (graph=true): breadth first; a history is extended only if it is the first to reach its governance state (NEO balances+votes, candidates, voters count, deposits+tills, blocked accounts), so every atom is applied once in every distinct governance state within the depth; GAS amounts, balance heights and reward counters are not part of that identity (the plain tree plans atoms/drop3, atoms/gas, atoms/notary cover history dependence at depth 3)",
		"amount atoms (q:<entry>/<path>/<label>, plans atoms/amounts*): every caller-supplied quantity of the anchored natives (GAS/NEO transfer amounts incl. deposits and the NEP-27 payment, deposit tills, lock tills, setGasPerBlock, setRegisterPrice, Oracle gasForResponse, BurnGas, NKeys) takes every value of amount_menu (b = balance of the paying account / current till / current price, read from the state), as one transaction of an entry script (e) and through the deployed contract UB (c), in the preamble's state and in two voted states; besides the conservation laws a transfer of a negative amount must FAULT, a transfer of more than the balance of `from` must not return true, a refused or faulted amount atom leaves the governance state as it was, and no stored quantity exceeds its token's supply (above-supply)",
		"amount atoms whose label has the value of an earlier label in the state (b = 0: b-1, b, b+1, 2^64+b) are not built; a setter value the node accepts and then cannot live with (the block is rejected in PostPersist) is counted as not applicable, not as a violation of this property",
		"templates whose block the node rejects in a state (sender blocked or out of GAS, no deposit) are not part of the history space there; they are counted in template_not_applicable",
	})
}

// ---- replay --------------------------------------------------------------------------

func replay(r *vk.Run) {
	var c caseRec
	if err := r.ReadReplay(&c); err != nil {
		fmt.Println("cannot read replay:", err)
		os.Exit(3)
	}
	st := newStats()
	reproduced := 0
	for i := 0; i < 5; i++ {
		p := plan{Name: c.Plan, Fam: chainx.Family{Name: c.Family, Multi: c.Multi, SRIH: c.SRIH}, Pad: c.Pad, Prefix: c.History, Restart: c.Restart}
		pr := &planRun{p: p, st: st}
		ok, err := pr.setup()
		if err != nil {
			fmt.Println("replay: setup:", err)
			os.Exit(3)
		}
		got := !ok
		if ok {
			h := []int{}
			for _, nme := range c.History {
				h = append(h, pr.idx[nme])
				if !pr.visit(append([]int{}, h...)) {
					got = pr.get(h) != nil
					break
				}
			}
		}
		if got {
			reproduced++
			fmt.Printf("replay %d: REPRODUCED (%v)\n", i, st.byInv)
		} else {
			fmt.Printf("replay %d: all boundaries of %v conserve\n", i, c.History)
		}
	}
	if reproduced > 0 {
		r.Violation(fmt.Sprintf("replay:%s:%s:%s", c.Inv, c.Family, strings.Join(c.History, ",")), c)
	}
	r.Finish(map[string]any{"states": st.full.Len() + 1, "transitions": int(st.boundary.Get()) + 1, "traces_validated_against_impl": 5, "reproduced": reproduced}, nil)
}
