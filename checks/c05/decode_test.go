package c05

// Decoding of the raw storage of the NEO (-5), GAS (-6), Notary (-10) and
// Policy (-7, blocked accounts only) native contracts, written against the
// data model of pkg/core/native/{native_nep17,native_neo,notary}.go and
// pkg/core/state/{native_state,deposit}.go, and the conservation laws of C05
// evaluated on the decoded numbers.

import (
	"crypto/elliptic"
	"encoding/hex"
	"fmt"
	"math/big"
	"sort"
	"strings"

	"github.com/nspcc-dev/neo-go/pkg/core/block"
	"github.com/nspcc-dev/neo-go/pkg/core/native/nativehashes"
	"github.com/nspcc-dev/neo-go/pkg/core/state"
	"github.com/nspcc-dev/neo-go/pkg/crypto/keys"
	"github.com/nspcc-dev/neo-go/pkg/smartcontract/callflag"
	"github.com/nspcc-dev/neo-go/pkg/smartcontract/trigger"
	"github.com/nspcc-dev/neo-go/pkg/util"
	"github.com/nspcc-dev/neo-go/pkg/vm/stackitem"
	"github.com/nspcc-dev/neo-go/pkg/vm/vmstate"

	"verif/lib/chainx"
)

// ids and prefixes (verified against nativeids/ids.go, native_nep17.go:24,55,
// native_neo.go:94-96, notary.go:51, policy.go:60).
const (
	idNEO    = -5
	idGAS    = -6
	idPolicy = -7
	idNotary = -10

	pfxAccount     = 20 // + 20 bytes account (BE)
	pfxTotalSupply = 11 // single key
	pfxCandidate   = 33 // + 33 bytes compressed key
	pfxVotersCount = 1  // single key
	pfxDeposit     = 1  // + 20 bytes account (BE)
	pfxBlocked     = 15 // + 20 bytes account (BE)

	neoTotal = 100000000
)

// dumpIDs is what a boundary needs from the storage.
var dumpIDs = []int32{idNEO, idGAS, idPolicy, idNotary}

type neoAcc struct {
	Balance  *big.Int
	Height   uint32
	VoteTo   string // hex of the compressed key, "" = not voting
	LastGPV  *big.Int
	rawValue string
}

type candRec struct {
	Registered bool
	Votes      *big.Int
}

type depRec struct {
	Amount *big.Int
	Till   uint32
}

// tokState is the decoded accounting state at a block boundary.
type tokState struct {
	NEOSupply   *big.Int
	NEOSupplyOK bool // the item exists
	GASSupply   *big.Int
	NEO         map[util.Uint160]*neoAcc
	GAS         map[util.Uint160]*big.Int
	Cands       map[string]*candRec // hex key -> record
	Voters      *big.Int
	VotersOK    bool
	Deposits    map[util.Uint160]*depRec
	Blocked     map[util.Uint160]bool
	Other       int // items of other prefixes (committee, gas per block, ...)
	// Bad: balance items that are no serialized stack item any more (an integer
	// beyond the VM's 256 bits): a violation (the number is far outside any
	// supply), not a decoding problem of the harness.
	Bad []string
}

func newTokState() *tokState {
	return &tokState{
		NEOSupply: new(big.Int), GASSupply: new(big.Int), Voters: new(big.Int),
		NEO: map[util.Uint160]*neoAcc{}, GAS: map[util.Uint160]*big.Int{},
		Cands: map[string]*candRec{}, Deposits: map[util.Uint160]*depRec{}, Blocked: map[util.Uint160]bool{},
	}
}

// leInt decodes the little-endian two's complement integers the DAO stores
// (dao.PutBigInt, bigint.ToPreallocatedBytes); the empty item is zero.
func leInt(b []byte) *big.Int {
	if len(b) == 0 {
		return new(big.Int)
	}
	be := make([]byte, len(b))
	for i := range b {
		be[len(b)-1-i] = b[i]
	}
	x := new(big.Int).SetBytes(be)
	if b[len(b)-1]&0x80 != 0 {
		x.Sub(x, new(big.Int).Lsh(big.NewInt(1), uint(8*len(b))))
	}
	return x
}

func structFields(v []byte, n int) ([]stackitem.Item, error) {
	it, err := stackitem.Deserialize(v)
	if err != nil {
		return nil, err
	}
	if it.Type() != stackitem.StructT {
		return nil, fmt.Errorf("not a struct: %s", it.Type())
	}
	f := it.Value().([]stackitem.Item)
	if len(f) != n {
		return nil, fmt.Errorf("%d fields, want %d", len(f), n)
	}
	return f, nil
}

func intField(it stackitem.Item) (*big.Int, error) {
	if it.Type() != stackitem.IntegerT {
		return nil, fmt.Errorf("field is %s, not Integer", it.Type())
	}
	return it.TryInteger()
}

// decode turns a chainx storage dump ("id:hexkey" -> hexvalue) into a tokState.
// An error is a harness problem (layout not understood), never a violation.
func decode(dump map[string]string) (*tokState, error) {
	s := newTokState()
	for k, hv := range dump {
		c := strings.IndexByte(k, ':')
		if c < 0 {
			return nil, fmt.Errorf("bad dump key %q", k)
		}
		var id int
		if _, err := fmt.Sscanf(k[:c], "%d", &id); err != nil {
			return nil, fmt.Errorf("bad dump key %q", k)
		}
		if id != idNEO && id != idGAS && id != idNotary && id != idPolicy {
			continue
		}
		key, err := hex.DecodeString(k[c+1:])
		if err != nil || len(key) == 0 {
			return nil, fmt.Errorf("bad dump key %q", k)
		}
		val, err := hex.DecodeString(hv)
		if err != nil {
			return nil, fmt.Errorf("bad dump value at %q", k)
		}
		bad := func(e error) error { return fmt.Errorf("item %s=%s: %w", k, hv, e) }
		switch {
		case (id == idNEO || id == idGAS) && key[0] == pfxTotalSupply && len(key) == 1:
			if id == idNEO {
				s.NEOSupply, s.NEOSupplyOK = leInt(val), true
			} else {
				s.GASSupply = leInt(val)
			}
		case (id == idNEO || id == idGAS) && key[0] == pfxAccount:
			if len(key) != 21 {
				return nil, bad(fmt.Errorf("account key of %d bytes", len(key)))
			}
			h, _ := util.Uint160DecodeBytesBE(key[1:])
			if _, derr := stackitem.Deserialize(val); derr != nil && strings.Contains(derr.Error(), "too big") {
				s.Bad = append(s.Bad, fmt.Sprintf("balance item %s = %s: %v", k, hv, derr))
				break
			}
			if id == idGAS {
				f, err := structFields(val, 1)
				if err != nil {
					return nil, bad(err)
				}
				b, err := intField(f[0])
				if err != nil {
					return nil, bad(err)
				}
				s.GAS[h] = b
				break
			}
			f, err := structFields(val, 4)
			if err != nil {
				return nil, bad(err)
			}
			a := &neoAcc{rawValue: hv}
			if a.Balance, err = intField(f[0]); err != nil {
				return nil, bad(err)
			}
			hh, err := intField(f[1])
			if err != nil || !hh.IsUint64() || hh.Uint64() > 0xffffffff {
				return nil, bad(fmt.Errorf("bad balance height"))
			}
			a.Height = uint32(hh.Uint64())
			if f[2].Type() != stackitem.AnyT {
				pk, err := f[2].TryBytes()
				if err != nil || len(pk) != 33 {
					return nil, bad(fmt.Errorf("bad VoteTo"))
				}
				a.VoteTo = hex.EncodeToString(pk)
			}
			if a.LastGPV, err = intField(f[3]); err != nil {
				return nil, bad(err)
			}
			s.NEO[h] = a
		case id == idNEO && key[0] == pfxCandidate:
			if len(key) != 34 {
				return nil, bad(fmt.Errorf("candidate key of %d bytes", len(key)))
			}
			f, err := structFields(val, 2)
			if err != nil {
				return nil, bad(err)
			}
			if f[0].Type() != stackitem.BooleanT {
				return nil, bad(fmt.Errorf("registered flag is %s", f[0].Type()))
			}
			reg, _ := f[0].TryBool()
			v, err := intField(f[1])
			if err != nil {
				return nil, bad(err)
			}
			s.Cands[hex.EncodeToString(key[1:])] = &candRec{Registered: reg, Votes: v}
		case id == idNEO && key[0] == pfxVotersCount && len(key) == 1:
			s.Voters, s.VotersOK = leInt(val), true
		case id == idNotary && key[0] == pfxDeposit:
			if len(key) != 21 {
				return nil, bad(fmt.Errorf("deposit key of %d bytes", len(key)))
			}
			h, _ := util.Uint160DecodeBytesBE(key[1:])
			f, err := structFields(val, 2)
			if err != nil {
				return nil, bad(err)
			}
			a, err := intField(f[0])
			if err != nil {
				return nil, bad(err)
			}
			t, err := intField(f[1])
			if err != nil || !t.IsUint64() || t.Uint64() > 0xffffffff {
				return nil, bad(fmt.Errorf("bad till"))
			}
			s.Deposits[h] = &depRec{Amount: a, Till: uint32(t.Uint64())}
		case id == idPolicy && key[0] == pfxBlocked && len(key) == 21:
			h, _ := util.Uint160DecodeBytesBE(key[1:])
			s.Blocked[h] = true
		default:
			if id != idPolicy {
				s.Other++
			}
		}
	}
	return s, nil
}

// govKey / fullKey are the state identities used to count distinct states.
func (s *tokState) govKey() string {
	var l []string
	for h, a := range s.NEO {
		l = append(l, fmt.Sprintf("n%s=%s>%s", h.StringBE()[:8], a.Balance, a.VoteTo))
	}
	for k, c := range s.Cands {
		l = append(l, fmt.Sprintf("c%s=%v/%s", k[:10], c.Registered, c.Votes))
	}
	for h, d := range s.Deposits {
		l = append(l, fmt.Sprintf("d%s=%s", h.StringBE()[:8], d.Amount))
	}
	l = append(l, "v="+s.Voters.String())
	sort.Strings(l)
	return strings.Join(l, ";")
}

func (s *tokState) fullKey() string {
	var l []string
	for h, b := range s.GAS {
		l = append(l, fmt.Sprintf("g%s=%s", h.StringBE()[:8], b))
	}
	sort.Strings(l)
	return s.govKey() + "|" + strings.Join(l, ";") + "|" + s.GASSupply.String()
}

// exactKey renders every decoded field (incl. balance heights and reward
// snapshots) in a canonical order.
func (s *tokState) exactLines() []string {
	var l []string
	for h, a := range s.NEO {
		l = append(l, fmt.Sprintf("NEO %s = %s h=%d vote=%s gpv=%s", h.StringLE(), a.Balance, a.Height, a.VoteTo, a.LastGPV))
	}
	for h, b := range s.GAS {
		l = append(l, fmt.Sprintf("GAS %s = %s", h.StringLE(), b))
	}
	for k, c := range s.Cands {
		l = append(l, fmt.Sprintf("candidate %s = %v/%s", k, c.Registered, c.Votes))
	}
	for h, d := range s.Deposits {
		l = append(l, fmt.Sprintf("deposit %s = %s till %d", h.StringLE(), d.Amount, d.Till))
	}
	l = append(l, "voters = "+s.Voters.String(), "NEO supply = "+s.NEOSupply.String(), "GAS supply = "+s.GASSupply.String(), fmt.Sprintf("other items = %d", s.Other))
	sort.Strings(l)
	return l
}

// diff names the first fields in which two states differ ("" = equal).
func (s *tokState) diff(o *tokState) string {
	a, b := s.exactLines(), o.exactLines()
	in := map[string]bool{}
	for _, x := range b {
		in[x] = true
	}
	var d []string
	for _, x := range a {
		if !in[x] {
			d = append(d, "never restarted: "+x)
		}
		delete(in, x)
	}
	for _, x := range b {
		if in[x] {
			d = append(d, "restarted: "+x)
		}
	}
	if len(d) > 6 {
		d = d[:6]
	}
	return strings.Join(d, "; ")
}

// viol is one broken conservation law.
type viol struct {
	Inv string `json:"invariant"`
	Msg string `json:"message"`
}

// staticInvariants evaluates the laws that speak about one boundary.
func (s *tokState) staticInvariants(notaryActive bool) []viol {
	var out []viol
	add := func(inv, f string, a ...any) { out = append(out, viol{inv, fmt.Sprintf(f, a...)}) }
	// no negative number anywhere
	neg := func(what string, x *big.Int) {
		if x.Sign() < 0 {
			add("negative", "%s = %s", what, x)
		}
	}
	neg("NEO totalSupply", s.NEOSupply)
	neg("GAS totalSupply", s.GASSupply)
	neg("votersCount", s.Voters)
	sumNEO, sumGAS, sumVoting, sumDep := new(big.Int), new(big.Int), new(big.Int), new(big.Int)
	perCand := map[string]*big.Int{}
	for h, a := range s.NEO {
		neg("NEO balance of "+h.StringLE(), a.Balance)
		sumNEO.Add(sumNEO, a.Balance)
		if a.VoteTo != "" {
			sumVoting.Add(sumVoting, a.Balance)
			if perCand[a.VoteTo] == nil {
				perCand[a.VoteTo] = new(big.Int)
			}
			perCand[a.VoteTo].Add(perCand[a.VoteTo], a.Balance)
		}
	}
	for h, b := range s.GAS {
		neg("GAS balance of "+h.StringLE(), b)
		sumGAS.Add(sumGAS, b)
	}
	for k, c := range s.Cands {
		neg("votes of candidate "+k, c.Votes)
	}
	for h, d := range s.Deposits {
		neg("deposit of "+h.StringLE(), d.Amount)
		sumDep.Add(sumDep, d.Amount)
	}
	if !s.NEOSupplyOK || s.NEOSupply.Cmp(big.NewInt(neoTotal)) != 0 {
		add("neo-supply", "NEO totalSupply item = %s (present=%v), want %d", s.NEOSupply, s.NEOSupplyOK, neoTotal)
	}
	if sumNEO.Cmp(s.NEOSupply) != 0 {
		add("neo-sum", "sum of NEO balances = %s, totalSupply = %s", sumNEO, s.NEOSupply)
	}
	if sumGAS.Cmp(s.GASSupply) != 0 {
		add("gas-sum", "sum of GAS balances = %s, totalSupply = %s (difference %s)", sumGAS, s.GASSupply, new(big.Int).Sub(sumGAS, s.GASSupply))
	}
	for k, c := range s.Cands {
		want := perCand[k]
		if want == nil {
			want = new(big.Int)
		}
		if c.Votes.Cmp(want) != 0 {
			add("candidate-votes", "candidate %s (registered=%v): votes = %s, NEO held by its voters = %s", k, c.Registered, c.Votes, want)
		}
	}
	for k, w := range perCand {
		if _, ok := s.Cands[k]; !ok && w.Sign() != 0 {
			add("candidate-votes", "accounts holding %s NEO vote for %s which has no candidate record", w, k)
		}
	}
	if !s.VotersOK {
		add("voters-count", "voters count item is missing")
	} else if s.Voters.Cmp(sumVoting) != 0 {
		add("voters-count", "votersCount = %s, NEO held by voting accounts = %s", s.Voters, sumVoting)
	}
	nb := s.GAS[nativehashes.Notary]
	if nb == nil {
		nb = new(big.Int)
	}
	if (notaryActive || len(s.Deposits) != 0) && nb.Cmp(sumDep) != 0 {
		add("notary-deposits", "GAS.balanceOf(Notary) = %s, sum of deposits = %s", nb, sumDep)
	}
	return append(out, s.aboveSupply()...)
}

// ---- Transfer events of a block ----------------------------------------------------

type execStat struct {
	Tx    util.Uint256
	State string // HALT | FAULT | HALT(true) | HALT(false)
	Fault string
	Ret   string // the result stack, rendered (booleans, integers, arrays of them)
}

// renderItem renders the small results the atoms return.
func renderItem(it stackitem.Item, depth int) string {
	switch it.Type() {
	case stackitem.BooleanT:
		v, _ := it.TryBool()
		return fmt.Sprint(v)
	case stackitem.IntegerT:
		v, _ := it.TryInteger()
		return v.String()
	case stackitem.AnyT:
		return "null"
	case stackitem.ArrayT, stackitem.StructT:
		f, _ := it.Value().([]stackitem.Item)
		if depth > 2 || len(f) > 8 {
			return fmt.Sprintf("[%d items]", len(f))
		}
		var l []string
		for _, e := range f {
			l = append(l, renderItem(e, depth+1))
		}
		return "[" + strings.Join(l, ",") + "]"
	}
	return it.Type().String()
}

func renderStack(st []stackitem.Item) string {
	var l []string
	for _, it := range st {
		l = append(l, renderItem(it, 0))
	}
	return strings.Join(l, " ")
}

type blockEvents struct {
	NEO, GAS map[util.Uint160]*big.Int // net amount per account
	N        int                       // Transfer events counted
	Mints    int
	Burns    int
	Neg      []string                  // Transfer events with a negative amount
	PreGAS   map[util.Uint160]*big.Int // net GAS per account of the OnPersist execution (before any transaction runs)
	Execs    []execStat
}

func addTo(m map[util.Uint160]*big.Int, h util.Uint160, x *big.Int, sign int) {
	if m[h] == nil {
		m[h] = new(big.Int)
	}
	if sign > 0 {
		m[h].Add(m[h], x)
	} else {
		m[h].Sub(m[h], x)
	}
}

func side(it stackitem.Item) (*util.Uint160, error) {
	if it.Type() == stackitem.AnyT {
		return nil, nil
	}
	b, err := it.TryBytes()
	if err != nil {
		return nil, err
	}
	h, err := util.Uint160DecodeBytesBE(b)
	if err != nil {
		return nil, err
	}
	return &h, nil
}

// collectEvents nets the Transfer events of block b: OnPersist and PostPersist
// executions plus the Application executions that HALTed.
func collectEvents(n *chainx.Node, b *block.Block) (*blockEvents, error) {
	ev := &blockEvents{NEO: map[util.Uint160]*big.Int{}, GAS: map[util.Uint160]*big.Int{}, PreGAS: map[util.Uint160]*big.Int{}}
	take := func(aers []state.AppExecResult, what string) error {
		for _, a := range aers {
			if a.VMState != vmstate.Halt {
				if a.Trigger != trigger.Application {
					return fmt.Errorf("%s execution of trigger %s is %s", what, a.Trigger, a.VMState)
				}
				continue
			}
			for _, e := range a.Events {
				if e.Name != "Transfer" {
					continue
				}
				var m map[util.Uint160]*big.Int
				switch e.ScriptHash {
				case nativehashes.NeoToken:
					m = ev.NEO
				case nativehashes.GasToken:
					m = ev.GAS
				default:
					continue
				}
				f := e.Item.Value().([]stackitem.Item)
				if len(f) != 3 {
					return fmt.Errorf("%s: Transfer event with %d fields", what, len(f))
				}
				from, err := side(f[0])
				if err != nil {
					return fmt.Errorf("%s: Transfer.from: %w", what, err)
				}
				to, err := side(f[1])
				if err != nil {
					return fmt.Errorf("%s: Transfer.to: %w", what, err)
				}
				amt, err := f[2].TryInteger()
				if err != nil {
					return fmt.Errorf("%s: Transfer.amount: %w", what, err)
				}
				ev.N++
				if amt.Sign() < 0 {
					ev.Neg = append(ev.Neg, fmt.Sprintf("%s Transfer event of %s with amount %s", what, e.ScriptHash.StringLE()[:8], amt))
				}
				pre := a.Trigger == trigger.OnPersist && e.ScriptHash == nativehashes.GasToken
				if from != nil {
					addTo(m, *from, amt, -1)
					if pre {
						addTo(ev.PreGAS, *from, amt, -1)
					}
				} else {
					ev.Mints++
				}
				if to != nil {
					addTo(m, *to, amt, +1)
					if pre {
						addTo(ev.PreGAS, *to, amt, +1)
					}
				} else {
					ev.Burns++
				}
			}
		}
		return nil
	}
	aers, err := n.BC.GetAppExecResults(b.Hash(), trigger.All)
	if err != nil {
		return nil, fmt.Errorf("block executions: %w", err)
	}
	var on, post int
	for _, a := range aers {
		switch a.Trigger {
		case trigger.OnPersist:
			on++
		case trigger.PostPersist:
			post++
		}
	}
	if on != 1 || (post != 1 && b.Index != 0) || post > 1 {
		return nil, fmt.Errorf("block %d has %d OnPersist and %d PostPersist executions", b.Index, on, post)
	}
	if err := take(aers, "block"); err != nil {
		return nil, err
	}
	for _, tx := range b.Transactions {
		aers, err := n.BC.GetAppExecResults(tx.Hash(), trigger.Application)
		if err != nil || len(aers) != 1 {
			return nil, fmt.Errorf("tx %s executions: %d %v", tx.Hash().StringLE(), len(aers), err)
		}
		st := aers[0].VMState.String()
		if aers[0].VMState == vmstate.Halt && len(aers[0].Stack) == 1 && aers[0].Stack[0].Type() == stackitem.BooleanT {
			v, _ := aers[0].Stack[0].TryBool()
			st += fmt.Sprintf("(%v)", v)
		}
		ev.Execs = append(ev.Execs, execStat{Tx: tx.Hash(), State: st, Fault: aers[0].FaultException, Ret: renderStack(aers[0].Stack)})
		if err := take(aers, "tx"); err != nil {
			return nil, err
		}
	}
	return ev, nil
}

// deltaInvariant: balance_after - balance_before == net Transfer events, per
// account and token.
func deltaInvariant(before, after *tokState, ev *blockEvents) []viol {
	var out []viol
	zero := new(big.Int)
	get := func(m map[util.Uint160]*big.Int, h util.Uint160) *big.Int {
		if v := m[h]; v != nil {
			return v
		}
		return zero
	}
	neoBal := func(s *tokState, h util.Uint160) *big.Int {
		if a := s.NEO[h]; a != nil {
			return a.Balance
		}
		return zero
	}
	accs := map[util.Uint160]bool{}
	for h := range before.NEO {
		accs[h] = true
	}
	for h := range after.NEO {
		accs[h] = true
	}
	for h := range ev.NEO {
		accs[h] = true
	}
	for h := range accs {
		d := new(big.Int).Sub(neoBal(after, h), neoBal(before, h))
		if d.Cmp(get(ev.NEO, h)) != 0 {
			out = append(out, viol{"delta-events", fmt.Sprintf("NEO of %s: balance %s -> %s (change %s), Transfer events net %s", h.StringLE(), neoBal(before, h), neoBal(after, h), d, get(ev.NEO, h))})
		}
	}
	accs = map[util.Uint160]bool{}
	for h := range before.GAS {
		accs[h] = true
	}
	for h := range after.GAS {
		accs[h] = true
	}
	for h := range ev.GAS {
		accs[h] = true
	}
	for h := range accs {
		d := new(big.Int).Sub(get(after.GAS, h), get(before.GAS, h))
		if d.Cmp(get(ev.GAS, h)) != 0 {
			out = append(out, viol{"delta-events", fmt.Sprintf("GAS of %s: balance %s -> %s (change %s), Transfer events net %s", h.StringLE(), get(before.GAS, h), get(after.GAS, h), d, get(ev.GAS, h))})
		}
	}
	sort.Slice(out, func(i, j int) bool { return out[i].Msg < out[j].Msg })
	return out
}

// ---- cross-check of the decoder with the public getters ------------------------------

// crossCheck compares the decoded numbers with what the node's own getters
// answer at the same height. A difference means the decoder (or the getter)
// is wrong: it is reported as a harness error, never as a violation.
func crossCheck(n *chainx.Node, s *tokState, probes []util.Uint160) error {
	bc := n.BC
	for h, a := range s.NEO {
		b, ht := bc.GetGoverningTokenBalance(h)
		if b.Cmp(a.Balance) != 0 || ht != a.Height {
			return fmt.Errorf("NEO %s: decoded (%s,%d), GetGoverningTokenBalance (%s,%d)", h.StringLE(), a.Balance, a.Height, b, ht)
		}
	}
	for h, g := range s.GAS {
		if b := bc.GetUtilityTokenBalance(h, util.Uint160{}); b.Cmp(g) != 0 {
			return fmt.Errorf("GAS %s: decoded %s, GetUtilityTokenBalance %s", h.StringLE(), g, b)
		}
	}
	for _, h := range probes {
		if _, ok := s.NEO[h]; !ok {
			if b, _ := bc.GetGoverningTokenBalance(h); b.Sign() != 0 {
				return fmt.Errorf("NEO %s: no decoded item, GetGoverningTokenBalance %s", h.StringLE(), b)
			}
		}
		if _, ok := s.GAS[h]; !ok {
			if b := bc.GetUtilityTokenBalance(h, util.Uint160{}); b.Sign() != 0 {
				return fmt.Errorf("GAS %s: no decoded item, GetUtilityTokenBalance %s", h.StringLE(), b)
			}
		}
		if _, ok := s.Deposits[h]; !ok {
			if b := bc.GetUtilityTokenBalance(nativehashes.Notary, h); b.Sign() != 0 {
				return fmt.Errorf("deposit %s: no decoded item, getter %s", h.StringLE(), b)
			}
		}
	}
	for h, d := range s.Deposits {
		if b := bc.GetUtilityTokenBalance(nativehashes.Notary, h); b.Cmp(d.Amount) != 0 {
			return fmt.Errorf("deposit %s: decoded %s, getter %s", h.StringLE(), d.Amount, b)
		}
		if t := bc.GetNotaryDepositExpiration(h); t != d.Till {
			return fmt.Errorf("deposit %s: decoded till %d, getter %d", h.StringLE(), d.Till, t)
		}
	}
	en, err := bc.GetEnrollments()
	if err != nil {
		return fmt.Errorf("GetEnrollments: %w", err)
	}
	seen := map[string]bool{}
	for _, v := range en {
		k := hex.EncodeToString(v.Key.Bytes())
		seen[k] = true
		c := s.Cands[k]
		if c == nil || !c.Registered || c.Votes.Cmp(v.Votes) != 0 {
			return fmt.Errorf("enrollment %s=%s: decoded %+v", k, v.Votes, c)
		}
	}
	for k, c := range s.Cands {
		if !c.Registered || seen[k] {
			continue
		}
		kb, _ := hex.DecodeString(k)
		pk, err := keys.NewPublicKeyFromBytes(kb, elliptic.P256())
		if err != nil {
			return fmt.Errorf("candidate key %s: %w", k, err)
		}
		if !s.Blocked[pk.GetScriptHash()] {
			return fmt.Errorf("decoded registered candidate %s (votes %s) is not in GetEnrollments and not blocked", k, c.Votes)
		}
	}
	// The contracts' own read methods through one test invocation: totalSupply,
	// symbol, decimals, GAS.balanceOf(Notary), NEO.getCandidateVote/getCandidates/
	// getAccountState, Notary.balanceOf/expirationOf.
	type q struct {
		name  string
		check func(it stackitem.Item) error
	}
	var script []byte
	var qs []q
	ask := func(h util.Uint160, name string, check func(it stackitem.Item) error, method string, args ...any) {
		script = append(script, chainx.CallScript(h, method, args...)...)
		qs = append(qs, q{name, check})
	}
	wantInt := func(w *big.Int) func(stackitem.Item) error {
		return func(it stackitem.Item) error {
			got, err := it.TryInteger()
			if err != nil {
				return err
			}
			if w == nil {
				w = new(big.Int)
			}
			if got.Cmp(w) != 0 {
				return fmt.Errorf("decoded %s, invocation %s", w, got)
			}
			return nil
		}
	}
	wantStr := func(w string) func(stackitem.Item) error {
		return func(it stackitem.Item) error {
			b, err := it.TryBytes()
			if err != nil || string(b) != w {
				return fmt.Errorf("want %q, invocation %q (%v)", w, b, err)
			}
			return nil
		}
	}
	ask(nativehashes.NeoToken, "NEO.totalSupply", wantInt(s.NEOSupply), "totalSupply")
	ask(nativehashes.GasToken, "GAS.totalSupply", wantInt(s.GASSupply), "totalSupply")
	ask(nativehashes.GasToken, "GAS.balanceOf(Notary)", wantInt(s.GAS[nativehashes.Notary]), "balanceOf", nativehashes.Notary)
	ask(nativehashes.NeoToken, "NEO.symbol", wantStr("NEO"), "symbol")
	ask(nativehashes.GasToken, "GAS.symbol", wantStr("GAS"), "symbol")
	ask(nativehashes.NeoToken, "NEO.decimals", wantInt(big.NewInt(0)), "decimals")
	ask(nativehashes.GasToken, "GAS.decimals", wantInt(big.NewInt(8)), "decimals")
	var regd []string
	for k, c := range s.Cands {
		if c.Registered {
			regd = append(regd, k)
		}
	}
	sort.Strings(regd)
	for _, k := range regd {
		kb, _ := hex.DecodeString(k)
		ask(nativehashes.NeoToken, "NEO.getCandidateVote("+k[:10]+")", wantInt(s.Cands[k].Votes), "getCandidateVote", kb)
	}
	ask(nativehashes.NeoToken, "NEO.getCandidates", func(it stackitem.Item) error {
		arr, ok := it.Value().([]stackitem.Item)
		if !ok {
			return fmt.Errorf("not an array")
		}
		n := 0
		for _, e := range arr {
			f, ok := e.Value().([]stackitem.Item)
			if !ok || len(f) != 2 {
				return fmt.Errorf("bad element")
			}
			kb, err := f[0].TryBytes()
			if err != nil {
				return err
			}
			v, err := f[1].TryInteger()
			if err != nil {
				return err
			}
			c := s.Cands[hex.EncodeToString(kb)]
			if c == nil || !c.Registered || c.Votes.Cmp(v) != 0 {
				return fmt.Errorf("%x=%s: decoded %+v", kb, v, c)
			}
			n++
		}
		if n != len(en) {
			return fmt.Errorf("%d candidates, GetEnrollments %d", n, len(en))
		}
		return nil
	}, "getCandidates")
	var holders []util.Uint160
	for h := range s.NEO {
		holders = append(holders, h)
	}
	sort.Slice(holders, func(i, j int) bool { return holders[i].Less(holders[j]) })
	for _, h := range holders {
		a := s.NEO[h]
		ask(nativehashes.NeoToken, "NEO.getAccountState("+h.StringLE()[:8]+")", func(it stackitem.Item) error {
			f, ok := it.Value().([]stackitem.Item)
			if !ok || len(f) != 4 {
				return fmt.Errorf("not a 4-field struct: %s", it.Type())
			}
			b, e1 := f[0].TryInteger()
			ht, e2 := f[1].TryInteger()
			g, e3 := f[3].TryInteger()
			if e1 != nil || e2 != nil || e3 != nil {
				return fmt.Errorf("bad fields")
			}
			vt := ""
			if f[2].Type() != stackitem.AnyT {
				kb, err := f[2].TryBytes()
				if err != nil {
					return err
				}
				vt = hex.EncodeToString(kb)
			}
			if b.Cmp(a.Balance) != 0 || ht.Uint64() != uint64(a.Height) || vt != a.VoteTo || g.Cmp(a.LastGPV) != 0 {
				return fmt.Errorf("decoded (%s,%d,%s,%s), invocation (%s,%s,%s,%s)", a.Balance, a.Height, a.VoteTo, a.LastGPV, b, ht, vt, g)
			}
			return nil
		}, "getAccountState", h)
	}
	for _, h := range probes {
		if _, ok := s.NEO[h]; !ok {
			ask(nativehashes.NeoToken, "NEO.getAccountState("+h.StringLE()[:8]+")", func(it stackitem.Item) error {
				if it.Type() != stackitem.AnyT {
					return fmt.Errorf("no decoded item, invocation returns %s", it.Type())
				}
				return nil
			}, "getAccountState", h)
		}
	}
	depAccs := map[util.Uint160]bool{}
	for h := range s.Deposits {
		depAccs[h] = true
	}
	for _, h := range probes {
		depAccs[h] = true
	}
	var dl []util.Uint160
	for h := range depAccs {
		dl = append(dl, h)
	}
	sort.Slice(dl, func(i, j int) bool { return dl[i].Less(dl[j]) })
	var nscript []byte
	var nqs []q
	if bc.GetContractState(nativehashes.Notary) != nil {
		mainScript, mainQs := script, qs
		script, qs = nil, nil
		for _, h := range dl {
			amt, till := new(big.Int), uint32(0)
			if d := s.Deposits[h]; d != nil {
				amt, till = d.Amount, d.Till
			}
			ask(nativehashes.Notary, "Notary.balanceOf("+h.StringLE()[:8]+")", wantInt(amt), "balanceOf", h)
			ask(nativehashes.Notary, "Notary.expirationOf("+h.StringLE()[:8]+")", wantInt(big.NewInt(int64(till))), "expirationOf", h)
		}
		nscript, nqs = script, qs
		script, qs = mainScript, mainQs
	}
	for _, h := range probes {
		if _, ok := s.Deposits[h]; !ok {
			if t := bc.GetNotaryDepositExpiration(h); t != 0 {
				return fmt.Errorf("deposit %s: no decoded item, expiration getter %d", h.StringLE(), t)
			}
		}
	}
	// The invocation runs "in" the top block: a fake next block could sit on a
	// hardfork boundary where the stored manifests are not yet updated. The
	// Notary questions are the exception: in the block that deploys Notary the
	// contract is not callable yet, so they run in the (fake) next block - the
	// families have no hardfork after the one that activates Notary.
	top, err := bc.GetBlock(bc.CurrentBlockHash())
	if err != nil {
		return fmt.Errorf("top block: %w", err)
	}
	run := func(script []byte, qs []q, b *block.Block) error {
		if len(qs) == 0 {
			return nil
		}
		ic, err := bc.GetTestVM(trigger.Application, nil, b)
		if err != nil {
			return fmt.Errorf("test vm: %w", err)
		}
		defer ic.Finalize()
		ic.VM.LoadWithFlags(script, callflag.ReadOnly)
		if err := ic.VM.Run(); err != nil {
			return fmt.Errorf("test invocation: %w", err)
		}
		st := ic.VM.Estack().ToArray()
		if len(st) != len(qs) {
			return fmt.Errorf("test invocation returned %d items, want %d", len(st), len(qs))
		}
		for i, it := range st {
			if err := qs[i].check(it); err != nil {
				return fmt.Errorf("%s: %w", qs[i].name, err)
			}
		}
		return nil
	}
	if err := run(script, qs, top); err != nil {
		return err
	}
	if err := run(nscript, nqs, nil); err != nil {
		return err
	}
	return nil
}
