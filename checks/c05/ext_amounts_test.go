package c05

// Amount atoms of C05 (second extension): caller-supplied QUANTITIES outside
// the range the balances live in. Every quantity of the earlier alphabets was
// small or derived from a balance (whole balance, +-1); the natives receive a
// VM integer of up to 256 bits, balances and supplies fit 64. Here every
// native entry point of the property's anchors that takes a quantity from the
// caller (GAS.transfer, NEO.transfer, the Notary deposit via GAS.transfer with
// data, Notary.lockDepositUntil, the NEP-27 registration payment,
// NEO.setGasPerBlock / setRegisterPrice, Oracle.request's gasForResponse,
// System.Runtime.BurnGas, the NKeys of a notary-assisted transaction) gets the
// whole menu below as ONE transaction in one block, through a transaction's
// entry script ("/e/") and through the deployed universal contract UB
// ("/c/"), from three states (fresh; votes + contract holder + deposit;
// the same with the voted candidate unregistered) and with senders that are
// funded, that own no balance item at all, that vote, that are a contract.
//
// Name of an amount atom: "q:<entry>/<path>/<label>", of a state "qs:<name>".
// "b" in a label is the reference value of the entry in the state the block is
// built on: the balance of the paying account (transfers), the current till
// (tills), the current price / limit (setters).

import (
	"fmt"
	"math/big"
	"strings"
	"sync"

	"github.com/nspcc-dev/neo-go/pkg/core/interop/interopnames"
	"github.com/nspcc-dev/neo-go/pkg/core/native/nativehashes"
	"github.com/nspcc-dev/neo-go/pkg/core/native/noderoles"
	"github.com/nspcc-dev/neo-go/pkg/core/transaction"
	"github.com/nspcc-dev/neo-go/pkg/io"
	"github.com/nspcc-dev/neo-go/pkg/neotest"
	"github.com/nspcc-dev/neo-go/pkg/smartcontract/callflag"
	"github.com/nspcc-dev/neo-go/pkg/smartcontract/trigger"
	"github.com/nspcc-dev/neo-go/pkg/util"
	"github.com/nspcc-dev/neo-go/pkg/vm/emit"

	"verif/lib/chainx"
)

// ---- the menu ------------------------------------------------------------------------------

type amtLabel struct {
	Name string
	F    func(b *big.Int) *big.Int // always a new big.Int (scripts are built in parallel)
}

func pow2(n uint, d int64) *big.Int {
	x := new(big.Int).Lsh(big.NewInt(1), n)
	return x.Add(x, big.NewInt(d))
}

func amountMenu() []amtLabel {
	c := func(name string, f func() *big.Int) amtLabel {
		return amtLabel{name, func(*big.Int) *big.Int { return f() }}
	}
	p := func(name string, n uint, d int64) amtLabel {
		return c(name, func() *big.Int { return pow2(n, d) })
	}
	m := func(name string, n uint, d int64) amtLabel {
		return c(name, func() *big.Int { x := pow2(n, d); return x.Neg(x) })
	}
	return []amtLabel{
		c("0", func() *big.Int { return big.NewInt(0) }),
		c("1", func() *big.Int { return big.NewInt(1) }),
		{"b-1", func(b *big.Int) *big.Int { return new(big.Int).Sub(b, big.NewInt(1)) }},
		{"b", func(b *big.Int) *big.Int { return new(big.Int).Set(b) }},
		{"b+1", func(b *big.Int) *big.Int { return new(big.Int).Add(b, big.NewInt(1)) }},
		p("2^31", 31, 0), p("2^32", 32, 0), p("2^53", 53, 0), p("2^62", 62, 0), p("2^63-1", 63, -1), p("2^63", 63, 0), p("2^63+1", 63, 1),
		p("2^64-1", 64, -1), p("2^64", 64, 0), p("2^64+1", 64, 1),
		{"2^64+b", func(b *big.Int) *big.Int { return new(big.Int).Add(pow2(64, 0), b) }}, // == b in 64-bit arithmetic
		p("2^127", 127, 0), p("2^128+1", 128, 1), p("2^200", 200, 0), p("2^255-1", 255, -1),
		c("-1", func() *big.Int { return big.NewInt(-1) }),
		m("-2^63", 63, 0), m("-2^63-1", 63, 1), m("-2^64", 64, 0), m("-2^255", 255, 0),
	}
}

// tillMenu: the same values plus the largest height.
func tillMenu() []amtLabel {
	return append(amountMenu(), amtLabel{"2^32-1", func(*big.Int) *big.Int { return pow2(32, -1) }})
}

func labelByName(menu []amtLabel, n string) (amtLabel, bool) {
	for _, l := range menu {
		if l.Name == n {
			return l, true
		}
	}
	return amtLabel{}, false
}

// ---- entries -------------------------------------------------------------------------------

const (
	qPayer   = 5 // pays every amount atom unless the entry says otherwise; never the paying side of a transfer
	qEntryFe = 3 * gas
	qContrFe = 5 * gas
)

type qWho int // an account of the cast; qUB = the contract UB

const qUB qWho = -1

func (a qWho) hash(w *chainx.World) util.Uint160 {
	if a == qUB {
		return w.UB.Hash
	}
	return acc(int(a))
}

func (a qWho) String() string {
	if a == qUB {
		return "UB"
	}
	return fmt.Sprint(int(a))
}

// qEntry is one native entry point with one caller-supplied quantity left open.
type qEntry struct {
	Name string
	// Token/From: set for plain token transfers; the reference value b is then
	// the balance of From and the result is judged (see amountOracle).
	Token string // "gas" | "neo" | ""
	From  qWho
	Tills bool                                    // the quantity is a height: tillMenu
	Base  func(w *chainx.World) (*big.Int, error) // reference value when Token == ""
	Call  func(w *chainx.World, v *big.Int) qCall // the call with quantity v
	Need  func(w *chainx.World) error             // state precondition (nil = none)
	Paths string                                  // subset of "ec" available at all
	Quick string                                  // subset of Paths in the quick tier
}

type qCall struct {
	Target    util.Uint160
	Method    string
	Args      []any // hashes as big-endian bytes
	Signers   []int // cosigners after the payer (Global scope)
	Payer     int   // 0 = qPayer
	UBSigns   bool  // UB is a signer of the transaction (entry path with the contract as `from`)
	Committee bool  // committee cosigns
	Script    []byte
	ViaUA     bool // the contract path runs on UA (Oracle callback owner)
}

func be(h util.Uint160) []byte { return h.BytesBE() }

func depositTill(w *chainx.World, a int) *big.Int {
	_, t := depositOf(w, acc(a))
	if t == 0 {
		t = w.N.Height() + 2
	}
	return big.NewInt(int64(t))
}

// invokeInt asks a native getter in a test invocation at the top.
func invokeInt(w *chainx.World, h util.Uint160, method string, args ...any) (*big.Int, error) {
	ic, err := w.N.BC.GetTestVM(trigger.Application, nil, nil)
	if err != nil {
		return nil, err
	}
	defer ic.Finalize()
	ic.VM.LoadWithFlags(chainx.CallScript(h, method, args...), callflag.ReadOnly)
	if err := ic.VM.Run(); err != nil {
		return nil, err
	}
	if ic.VM.Estack().Len() != 1 {
		return nil, fmt.Errorf("%s: %d results", method, ic.VM.Estack().Len())
	}
	v, err := ic.VM.Estack().Pop().Item().TryInteger()
	if err != nil {
		return nil, err
	}
	return new(big.Int).Set(v), nil
}

func qEntries() []qEntry {
	var out []qEntry
	xfer := func(token string, from, to qWho, paths, quick string) {
		th, pfx := gasH, "G"
		if token == "neo" {
			th, pfx = neoH, "N"
		}
		e := qEntry{Name: fmt.Sprintf("%s%s>%s", pfx, from, to), Token: token, From: from, Paths: paths, Quick: quick}
		e.Call = func(w *chainx.World, v *big.Int) qCall {
			c := qCall{Target: th, Method: "transfer", Args: []any{be(from.hash(w)), be(to.hash(w)), v, nil}}
			if from == qUB {
				c.UBSigns = true
			} else {
				c.Signers = []int{int(from)}
			}
			return c
		}
		out = append(out, e)
	}
	// GAS: funded -> no item; no item -> funded; self (funded / no item); to a contract with a payment callback; contract as payer
	xfer("gas", 6, 7, "ec", "ec")
	xfer("gas", 7, 6, "ec", "ec")
	xfer("gas", 6, 6, "ec", "ec")
	xfer("gas", 7, 7, "ec", "e")
	xfer("gas", 6, qUB, "ec", "e")
	xfer("gas", qUB, 6, "ec", "ec")
	xfer("gas", qUB, qUB, "ec", "c")
	// NEO: holder (a voter in the voted states) -> holder; no item -> holder; self; to a contract; candidate+voter; small voter; contract
	xfer("neo", 2, 3, "ec", "ec")
	xfer("neo", 4, 2, "ec", "ec")
	xfer("neo", 2, 2, "ec", "ec")
	xfer("neo", 4, 4, "ec", "e")
	xfer("neo", 2, qUB, "ec", "ec")
	xfer("neo", 1, 2, "ec", "e")
	xfer("neo", 3, 2, "ec", "e")
	xfer("neo", qUB, 3, "ec", "ec")
	// Notary deposits: the AMOUNT is open (first deposit of 6, first or top-up of 2, third party for 2)
	dep := func(name string, from int, to any, paths, quick string) {
		out = append(out, qEntry{Name: name, Token: "gas", From: qWho(from), Paths: paths, Quick: quick,
			Call: func(w *chainx.World, v *big.Int) qCall {
				return qCall{Target: gasH, Method: "transfer", Args: []any{be(acc(from)), be(notH), v, []any{to, int64(w.N.Height() + 2 + 40)}}, Signers: []int{from}}
			}})
	}
	dep("G6>Not", 6, nil, "ec", "ec")
	dep("G2>Not", 2, nil, "ec", "e")
	dep("G3>Not:2", 3, be(acc(2)), "ec", "e")
	// NEP-27 registration by payment: b = the register price
	out = append(out, qEntry{Name: "G3>NEO", Paths: "ec", Quick: "e",
		Base: func(w *chainx.World) (*big.Int, error) { return invokeInt(w, neoH, "getRegisterPrice") },
		Call: func(w *chainx.World, v *big.Int) qCall {
			return qCall{Target: gasH, Method: "transfer", Args: []any{be(acc(3)), be(neoH), v, pub(3)}, Signers: []int{3}}
		}})
	// Notary tills: the deposit's till on a payment by the owner (who is the sender: the till counts), on a third party's
	// payment (it is parsed, not used), and the lock
	out = append(out, qEntry{Name: "ND2@", Tills: true, Paths: "ec", Quick: "ec",
		Base: func(w *chainx.World) (*big.Int, error) { return depositTill(w, 2), nil },
		Call: func(w *chainx.World, v *big.Int) qCall {
			return qCall{Target: gasH, Method: "transfer", Args: []any{be(acc(2)), be(notH), int64(gas), []any{nil, v}}, Payer: 2}
		}})
	out = append(out, qEntry{Name: "ND3:2@", Tills: true, Paths: "ec", Quick: "e",
		Base: func(w *chainx.World) (*big.Int, error) { return depositTill(w, 2), nil },
		Call: func(w *chainx.World, v *big.Int) qCall {
			return qCall{Target: gasH, Method: "transfer", Args: []any{be(acc(3)), be(notH), int64(gas), []any{be(acc(2)), v}}, Payer: 3}
		}})
	out = append(out, qEntry{Name: "NL2@", Tills: true, Paths: "ec", Quick: "ec",
		Base: func(w *chainx.World) (*big.Int, error) { return depositTill(w, 2), nil },
		Call: func(w *chainx.World, v *big.Int) qCall {
			return qCall{Target: notH, Method: "lockDepositUntil", Args: []any{be(acc(2)), v}, Signers: []int{2}}
		}})
	// committee parameters behind mints and burns
	out = append(out, qEntry{Name: "setGPB", Paths: "ec", Quick: "e",
		Base: func(*chainx.World) (*big.Int, error) { return big.NewInt(10 * gas), nil }, // the documented maximum
		Call: func(w *chainx.World, v *big.Int) qCall {
			return qCall{Target: neoH, Method: "setGasPerBlock", Args: []any{v}, Committee: true}
		}})
	out = append(out, qEntry{Name: "setPrice", Paths: "ec", Quick: "e",
		Base: func(w *chainx.World) (*big.Int, error) { return invokeInt(w, neoH, "getRegisterPrice") },
		Call: func(w *chainx.World, v *big.Int) qCall {
			return qCall{Target: neoH, Method: "setRegisterPrice", Args: []any{v}, Committee: true}
		}})
	// GAS minted to the Oracle contract for the response (only a contract may ask: contract path, on UA)
	out = append(out, qEntry{Name: "oracleReq", Paths: "c", Quick: "c",
		Base: func(*chainx.World) (*big.Int, error) { return big.NewInt(gas / 10), nil }, // the minimum
		Call: func(w *chainx.World, v *big.Int) qCall {
			return qCall{Target: nativehashes.OracleContract, Method: "request", Args: []any{"https://x.y/z", nil, "other", nil, v}, ViaUA: true}
		}})
	// GAS burnt by the script itself (entry script; in a contract through a loaded script)
	out = append(out, qEntry{Name: "burnGas", Paths: "ec", Quick: "ec",
		Base: func(*chainx.World) (*big.Int, error) { return big.NewInt(gas), nil },
		Call: func(w *chainx.World, v *big.Int) qCall {
			bw := io.NewBufBinWriter()
			emit.BigInt(bw.BinWriter, v)
			emit.Syscall(bw.BinWriter, interopnames.SystemRuntimeBurnGas)
			if bw.Err != nil {
				panic(bw.Err)
			}
			return qCall{Script: bw.Bytes()}
		}})
	return out
}

var (
	qOnce sync.Once
	qReg  map[string]qEntry
)

func qRegistry() map[string]qEntry {
	qOnce.Do(func() {
		qReg = map[string]qEntry{}
		for _, e := range qEntries() {
			if _, dup := qReg[e.Name]; dup {
				panic("duplicate amount entry " + e.Name)
			}
			qReg[e.Name] = e
		}
	})
	return qReg
}

func (e qEntry) menu() []amtLabel {
	if e.Tills {
		return tillMenu()
	}
	return amountMenu()
}

func tokenBal(w *chainx.World, token string, h util.Uint160) *big.Int {
	if token == "neo" {
		return neoBal(w, h)
	}
	return gasBal(w, h)
}

func (e qEntry) base(w *chainx.World) (*big.Int, error) {
	if e.Token != "" {
		return tokenBal(w, e.Token, e.From.hash(w)), nil
	}
	return e.Base(w)
}

// parseQ splits "q:<entry>/<path>/<label>".
func parseQ(name string) (e qEntry, path string, l amtLabel, ok bool) {
	if !strings.HasPrefix(name, "q:") {
		return
	}
	f := strings.Split(strings.TrimPrefix(name, "q:"), "/")
	if len(f) != 3 || (f[1] != "e" && f[1] != "c") {
		return
	}
	e, ok = qRegistry()[f[0]]
	if !ok || !strings.Contains(e.Paths, f[1]) {
		return e, "", l, false
	}
	l, ok = labelByName(e.menu(), f[2])
	return e, f[1], l, ok
}

// makeQ builds the transaction of an amount atom on the state of w.
func makeQ(w *chainx.World, e qEntry, path string, l amtLabel) (*transaction.Transaction, error) {
	if e.Need != nil {
		if err := e.Need(w); err != nil {
			return nil, err
		}
	}
	b, err := e.base(w)
	if err != nil {
		return nil, err
	}
	v := l.F(b)
	// the same value under two labels in this state: keep the first
	for _, o := range e.menu() {
		if o.Name == l.Name {
			break
		}
		if o.F(b).Cmp(v) == 0 {
			return nil, fmt.Errorf("label %s has the value of %s in this state", l.Name, o.Name)
		}
	}
	if v.BitLen() > 255 && !(v.Sign() < 0 && v.Cmp(new(big.Int).Neg(pow2(255, 0))) == 0) {
		return nil, fmt.Errorf("%s is not a VM integer", v)
	}
	c := e.Call(w, v)
	payer := c.Payer
	if payer == 0 {
		payer = qPayer
	}
	signers := []neotest.Signer{chainx.Signer(payer)}
	for _, s := range c.Signers {
		if s != payer {
			signers = append(signers, chainx.Signer(s))
		}
	}
	if c.UBSigns && path == "e" {
		signers = append(signers, neotest.NewContractSigner(w.UB.Hash, func(*transaction.Transaction) []any { return nil }))
	}
	if c.Committee {
		signers = append(signers, committeeSigner(w))
	}
	var script []byte
	fee := int64(qEntryFe)
	switch {
	case path == "e" && c.Script != nil:
		script = c.Script
	case path == "e":
		script = chainx.CallScript(c.Target, c.Method, c.Args...)
	default:
		fee = qContrFe
		host := w.UB.Hash
		if c.ViaUA {
			host = w.UA.Hash
		}
		var op []any
		if c.Script != nil {
			op = []any{chainx.OpLoadScript, c.Script, 15, []any{}}
		} else {
			op = ucall(c.Target, c.Method, c.Args...)
		}
		script = chainx.CallScript(host, "run", []any{op})
	}
	tx, err := w.N.MakeTx(script, signers, chainx.SysFee(fee))
	if err == nil {
		qMeta.Store(tx.Hash(), qMetaRec{B: new(big.Int).Set(b), V: new(big.Int).Set(v)})
	}
	return tx, err
}

// qMeta remembers, per built transaction, the reference value and the quantity it carries.
var qMeta sync.Map // util.Uint256 -> qMetaRec

type qMetaRec struct{ B, V *big.Int }

// ---- states ---------------------------------------------------------------------------------

// qSetups are the blocks that prepare the states the amount atoms run on.
func qSetups() map[string]func(w *chainx.World) (txs, error) {
	voted := func(w *chainx.World, unregister1 bool) (txs, error) {
		h := int64(w.N.Height())
		fs := []mk{
			func() (*transaction.Transaction, error) { // notary node (account 4)
				return w.N.MakeTx(chainx.CallScript(nativehashes.RoleManagement, "designateAsRole", int64(noderoles.P2PNotary), []any{pub(4)}), []neotest.Signer{w.N.Committee}, chainx.SysFee(3*gas))
			},
			func() (*transaction.Transaction, error) {
				return call(w, []int{2}, 1010*gas, neoH, "registerCandidate", pub(2))
			},
			func() (*transaction.Transaction, error) { return call(w, []int{1}, gas, neoH, "vote", acc(1), pub(1)) },
			func() (*transaction.Transaction, error) { return call(w, []int{2}, gas, neoH, "vote", acc(2), pub(1)) },
			func() (*transaction.Transaction, error) { return call(w, []int{3}, gas, neoH, "vote", acc(3), pub(2)) },
			func() (*transaction.Transaction, error) { // UB becomes a NEO holder and votes in its payment callback
				return call(w, []int{2}, 5*gas, neoH, "transfer", acc(2), w.UB.Hash, int64(1000), []any{ucall(neoH, "vote", w.UB.Hash.BytesBE(), pub(1))})
			},
			func() (*transaction.Transaction, error) { // ... and a GAS holder
				return call(w, []int{6}, 3*gas, gasH, "transfer", acc(6), w.UB.Hash, int64(100*gas), nil)
			},
			func() (*transaction.Transaction, error) { // deposit of account 2, withdrawable at once
				return call(w, []int{2}, gas, gasH, "transfer", acc(2), notH, int64(40*gas), []any{nil, h + 2})
			},
		}
		if unregister1 {
			fs = append(fs, func() (*transaction.Transaction, error) {
				return call(w, []int{1}, gas, neoH, "unregisterCandidate", pub(1))
			})
		}
		return seq(fs...)
	}
	return map[string]func(w *chainx.World) (txs, error){
		"qs:fresh": func(w *chainx.World) (txs, error) {
			return seq(func() (*transaction.Transaction, error) {
				return call(w, []int{atomPayer}, gas, neoH, "getRegisterPrice")
			})
		},
		"qs:voted":    func(w *chainx.World) (txs, error) { return voted(w, false) },
		"qs:voted-x1": func(w *chainx.World) (txs, error) { return voted(w, true) },
	}
}

// assistedK: a notary-assisted transaction with NKeys = k charged to the deposit of payer.
func assistedK(w *chainx.World, payer int, k uint8) (*transaction.Transaction, error) {
	if d, _ := depositOf(w, acc(payer)); d.Sign() == 0 {
		return nil, fmt.Errorf("no deposit of account %d", payer)
	}
	return w.N.MakeTx(chainx.CallScript(gasH, "transfer", acc(payer), acc(3), int64(11), nil),
		[]neotest.Signer{notarySigner(w), chainx.Signer(payer)}, chainx.SysFee(gas),
		func(t *transaction.Transaction) {
			t.Signers[0].Scopes = transaction.None
			t.Attributes = append(t.Attributes, transaction.Attribute{Type: transaction.NotaryAssistedT, Value: &transaction.NotaryAssisted{NKeys: k}})
		})
}

// amountTemplate resolves "q:..." and "qs:..." names.
func amountTemplate(name string) (chainx.Tpl, bool) {
	if f, ok := qSetups()[name]; ok {
		return chainx.Tpl{Name: name, Build: f}, true
	}
	if k, ok := strings.CutPrefix(name, "q:na2k"); ok {
		var n int
		if _, err := fmt.Sscanf(k, "%d", &n); err != nil || n < 0 || n > 255 || fmt.Sprint(n) != k {
			return chainx.Tpl{}, false
		}
		return chainx.Tpl{Name: name, Build: func(w *chainx.World) (txs, error) {
			tx, err := assistedK(w, 2, uint8(n))
			if err != nil {
				return nil, err
			}
			return txs{tx}, nil
		}}, true
	}
	e, path, l, ok := parseQ(name)
	if !ok {
		return chainx.Tpl{}, false
	}
	return chainx.Tpl{Name: name, Build: func(w *chainx.World) (txs, error) {
		tx, err := makeQ(w, e, path, l)
		if err != nil {
			return nil, err
		}
		return txs{tx}, nil
	}}, true
}

// qAtoms lists the amount atoms of a tier, simplest labels first within an
// entry, entries in their declaration order.
func qAtoms(thorough bool, only func(e qEntry) bool) []string {
	var out []string
	for _, e := range qEntries() {
		if only != nil && !only(e) {
			continue
		}
		paths := e.Quick
		if thorough {
			paths = e.Paths
		}
		for _, p := range []string{"e", "c"} {
			if !strings.Contains(paths, p) {
				continue
			}
			for _, l := range e.menu() {
				out = append(out, fmt.Sprintf("q:%s/%s/%s", e.Name, p, l.Name))
			}
		}
	}
	return out
}

var (
	qNKeys     = []string{"q:na2k0", "q:na2k1", "q:na2k2", "q:na2k254", "q:na2k255"}
	qStates    = []string{"qs:voted", "qs:voted-x1"}
	qFollow    = []string{"a:c2", "a:T2>3", "a:v2>0", "a:x1", "a:nw2", "a:UB>2", "a:T3>2", "a:nop"}
	qFollowGPB = []string{"a:c2", "a:c1", "a:nop"}
	qFollowPr  = []string{"a:r2", "q:G3>NEO/e/b", "q:G3>NEO/e/b-1", "q:G3>NEO/e/2^64+b"}
)

func isSetter(e qEntry) bool { return strings.HasPrefix(e.Name, "set") }

// amountPlans come FIRST in the plan list: within every level of the
// breadth-first exploration they are executed before the deep graph plans.
func amountPlans(thorough bool) []plan {
	main := append(qAtoms(thorough, func(e qEntry) bool { return !isSetter(e) }), qNKeys...)
	gpb := qAtoms(thorough, func(e qEntry) bool { return e.Name == "setGPB" })
	price := qAtoms(thorough, func(e qEntry) bool { return e.Name == "setPrice" })
	ps := []plan{
		// every amount atom in every state; graph plans: the follow-up level runs once from every distinct governance
		// state an accepted quantity produced. The fresh state is the preamble's own (a state block that changes
		// nothing would be merged with the root).
		{Name: "atoms/amounts", Fam: famSingle, Levels: [][]string{main, qFollow}, Dedup: true},
		{Name: "atoms/amounts/voted", Fam: famSingle, Levels: [][]string{qStates, main, qFollow}, Dedup: true},
		// generation rate: the blocks after the change mint with it (committee reward, holder and voter rewards on claim)
		{Name: "atoms/amounts-gpb", Fam: famSingle, Prefix: []string{"qs:voted"}, Levels: [][]string{gpb, qFollowGPB}},
		// register price: what the next registrations burn
		{Name: "atoms/amounts-price", Fam: famSingle, Levels: [][]string{price, qFollowPr}},
	}
	if thorough {
		more := append(one("v2>1", "T2>UB", "g6>UB", "x1", "B2", "T2>3", "g6>7", "r2"), "n-setup")
		ps = append(ps,
			plan{Name: "atoms/amounts/states", Fam: famSingle, Levels: [][]string{more, main, qFollow}, Dedup: true},
			plan{Name: "atoms/amounts/restart", Fam: famSingle, Prefix: []string{"qs:voted"}, Levels: [][]string{main}, Restart: true},
			plan{Name: "atoms/amounts/multi", Fam: famMulti, Pad: 1, Levels: [][]string{append([]string{"qs:fresh"}, qStates...), main}},
			plan{Name: "atoms/amounts-gpb/multi", Fam: famMulti, Pad: 2, Prefix: []string{"qs:voted"}, Levels: [][]string{gpb, qFollowGPB, qFollowGPB}},
		)
	}
	return ps
}

// ---- judging the result of an amount atom -----------------------------------------------------

// qVerdict is what one executed amount atom did.
type qVerdict struct {
	Class  string // class of the quantity
	Result string // FAULT | true | false | HALT
}

func amountClass(v, b *big.Int, tills bool) string {
	i64 := v.IsInt64()
	switch {
	case v.Sign() < 0 && !i64:
		return "negative, below int64"
	case v.Sign() < 0:
		return "negative"
	case v.Sign() == 0:
		return "zero"
	case v.Cmp(b) < 0:
		return "below b"
	case v.Cmp(b) == 0:
		return "exactly b"
	case !i64 && !v.IsUint64():
		return "above b, above 64 bits"
	case !i64:
		return "above b, above int64"
	case tills && v.BitLen() > 32:
		return "above b, above 32 bits"
	}
	return "above b"
}

func resultOf(e execStat) string {
	switch {
	case strings.HasPrefix(e.State, "FAULT"):
		return "FAULT"
	case e.Ret == "true" || e.Ret == "[true]":
		return "true"
	case e.Ret == "false" || e.Ret == "[false]":
		return "false"
	}
	return "HALT"
}

// amountOracle judges the single transaction of an amount-atom block built on
// `before`. It demands only consequences of the property and of the code's own
// comments: a transfer of a negative amount faults ("negative amount"); a
// transfer of more than the balance of `from` is not accepted (it would leave
// a negative balance or break the sum); an execution that faulted or refused
// leaves balances, votes, candidates, voters count and deposits as they were.
func amountOracle(w *chainx.World, name string, before, after *tokState, ev *blockEvents) (qVerdict, []viol) {
	e, _, _, ok := parseQ(name)
	if !ok || len(ev.Execs) != 1 {
		return qVerdict{}, nil
	}
	m, ok := qMeta.Load(ev.Execs[0].Tx)
	if !ok {
		harness("amount atom %s: transaction %s was not built by makeQ", name, ev.Execs[0].Tx.StringLE())
	}
	b, v := m.(qMetaRec).B, m.(qMetaRec).V
	res := resultOf(ev.Execs[0])
	var vs []viol
	changed := dedupKey(before) != dedupKey(after)
	if e.Token == "" {
		if res == "FAULT" && changed {
			vs = append(vs, viol{"refused-changed-state", fmt.Sprintf("%s faulted but the governance state changed", name)})
		}
		return qVerdict{Class: amountClass(v, b, e.Tills), Result: res}, vs
	}
	// the balance the block is built on is the one of the previous boundary; the transfer is executed on it plus what
	// OnPersist did to the account (from never pays fees, but it may be the primary of the block)
	from := e.From.hash(w)
	have := new(big.Int)
	if e.Token == "neo" {
		if a := before.NEO[from]; a != nil {
			have = a.Balance
		}
	} else if g := before.GAS[from]; g != nil {
		have = g
	}
	if have.Cmp(b) != 0 {
		harness("amount atom %s: built on a balance of %s, the decoded state before the block says %s", name, b, have)
	}
	atExec := new(big.Int).Set(b)
	if d := ev.PreGAS[from]; d != nil && e.Token == "gas" {
		atExec.Add(atExec, d)
	}
	switch {
	case v.Sign() < 0 && res != "FAULT":
		vs = append(vs, viol{"negative-amount-accepted", fmt.Sprintf("%s: transfer of %s did not fault (result %s)", name, v, res)})
	case v.Cmp(atExec) > 0 && res != "FAULT" && res != "false":
		vs = append(vs, viol{"overdraft-accepted", fmt.Sprintf("%s: transfer of %s from a balance of %s was not refused (result %s)", name, v, atExec, res)})
	}
	if (res == "FAULT" || res == "false") && changed {
		vs = append(vs, viol{"refused-changed-state", fmt.Sprintf("%s: result %s but the governance state changed", name, res)})
	}
	return qVerdict{Class: amountClass(v, b, false), Result: res}, vs
}

// aboveSupply: no stored quantity exceeds the supply of its token (a
// consequence of "no balance is negative" and "supply = sum of balances").
func (s *tokState) aboveSupply() []viol {
	var out []viol
	chk := func(what string, x, supply *big.Int) {
		if x.Cmp(supply) > 0 {
			out = append(out, viol{"above-supply", fmt.Sprintf("%s = %s exceeds the total supply %s", what, x, supply)})
		}
	}
	for h, a := range s.NEO {
		chk("NEO balance of "+h.StringLE(), a.Balance, s.NEOSupply)
	}
	for h, g := range s.GAS {
		chk("GAS balance of "+h.StringLE(), g, s.GASSupply)
	}
	for k, c := range s.Cands {
		chk("votes of candidate "+k, c.Votes, s.NEOSupply)
	}
	chk("votersCount", s.Voters, s.NEOSupply)
	for h, d := range s.Deposits {
		chk("deposit of "+h.StringLE(), d.Amount, s.GASSupply)
	}
	return out
}

// ---- counters -------------------------------------------------------------------------------

type amountStats struct {
	Blocks   int
	Rejected int                       // blocks of amount atoms the node refused (valid transaction, block not accepted)
	Outcomes map[string]int            // "<entry>/<path> | <class> -> <result>" -> blocks
	ByClass  map[string]map[string]int // class -> result -> blocks
	Accepted map[string]int            // entry/path -> blocks whose transaction returned true / HALTed
}

func newAmountStats() amountStats {
	return amountStats{Outcomes: map[string]int{}, ByClass: map[string]map[string]int{}, Accepted: map[string]int{}}
}

func (pr *planRun) judgeAmount(w *chainx.World, name string, before, after *tokState, ev *blockEvents) []viol {
	if strings.HasPrefix(name, "q:na2k") {
		pr.st.mu.Lock()
		pr.st.amounts.Blocks++
		pr.st.amounts.Outcomes["na2 | NKeys="+strings.TrimPrefix(name, "q:na2k")+" -> "+resultOf(ev.Execs[0])]++
		pr.st.mu.Unlock()
		return nil
	}
	vd, vs := amountOracle(w, name, before, after, ev)
	f := strings.Split(strings.TrimPrefix(name, "q:"), "/")
	ep := f[0] + "/" + f[1]
	pr.st.mu.Lock()
	a := &pr.st.amounts
	a.Blocks++
	a.Outcomes[ep+" | "+vd.Class+" -> "+vd.Result]++
	if a.ByClass[vd.Class] == nil {
		a.ByClass[vd.Class] = map[string]int{}
	}
	a.ByClass[vd.Class][vd.Result]++
	if vd.Result == "true" || vd.Result == "HALT" {
		a.Accepted[ep]++
	}
	pr.st.mu.Unlock()
	if pr.r != nil {
		pr.r.Outcome("amount:" + ep + ":" + vd.Class + "->" + vd.Result)
	}
	return vs
}

func menuNames(m []amtLabel) []string {
	var out []string
	for _, l := range m {
		out = append(out, l.Name)
	}
	return out
}

func entryNames() []string {
	var out []string
	for _, e := range qEntries() {
		out = append(out, fmt.Sprintf("%s (paths %s, quick %s)", e.Name, e.Paths, e.Quick))
	}
	return out
}

func amountAtomCount(thorough bool) int {
	return len(qAtoms(thorough, nil)) + len(qNKeys)
}
