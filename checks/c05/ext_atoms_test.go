package c05

// Atom alphabets of C05 (extension): every atom is ONE transaction whose
// arguments are taken from the state it is built on ("the whole balance",
// "the balance plus one", "exactly the current till", "exactly the fees of the
// next transaction"). A block of an atom history holds one atom ("a:X") or an
// ordered pair of atoms ("a2:X+Y"). The histories over these alphabets reach
// what the coarse block templates could not: candidate records dropped and
// re-created while votes exist (by a whole-balance transfer of the last voter,
// by its unvote, by its vote change, by its account being blocked), balances
// going to exactly zero and back, voters of the same / of different
// candidates paying each other, voter == candidate, contracts as holders and
// voters with re-entrant payment callbacks, GAS accounts emptied exactly by
// fees, notary deposits at their exact amount and height boundaries.

import (
	"fmt"
	"math/big"
	"sort"
	"strings"

	"github.com/nspcc-dev/neo-go/pkg/core/transaction"
	"github.com/nspcc-dev/neo-go/pkg/io"
	"github.com/nspcc-dev/neo-go/pkg/neotest"
	"github.com/nspcc-dev/neo-go/pkg/smartcontract/callflag"
	"github.com/nspcc-dev/neo-go/pkg/util"
	"github.com/nspcc-dev/neo-go/pkg/vm/emit"
	"github.com/nspcc-dev/neo-go/pkg/vm/opcode"

	"verif/lib/chainx"
)

// payer of the committee-signed atoms and of the contract-mediated ones: it
// owns GAS only and is never blocked by an atom.
const atomPayer = 5

type atom struct {
	Name string
	Make func(w *chainx.World) (*transaction.Transaction, error)
}

func neoBal(w *chainx.World, h util.Uint160) *big.Int {
	b, _ := w.N.BC.GetGoverningTokenBalance(h)
	return new(big.Int).Set(b)
}

func gasBal(w *chainx.World, h util.Uint160) *big.Int {
	return new(big.Int).Set(w.N.BC.GetUtilityTokenBalance(h, util.Uint160{}))
}

// ubRun runs prog on UB (paid by atomPayer): UB is then the calling contract,
// so it may move its own tokens and vote.
func ubRun(w *chainx.World, prog []any) (*transaction.Transaction, error) {
	return w.N.MakeTx(chainx.CallScript(w.UB.Hash, "run", prog), sg(atomPayer), chainx.SysFee(5*gas))
}

func uaRun(w *chainx.World, prog []any) (*transaction.Transaction, error) {
	return w.N.MakeTx(chainx.CallScript(w.UA.Hash, "run", prog), sg(atomPayer), chainx.SysFee(5*gas))
}

func committeeTx(w *chainx.World, method string, args ...any) (*transaction.Transaction, error) {
	return w.N.MakeTx(chainx.CallScript(polH, method, args...), []neotest.Signer{chainx.Signer(atomPayer), committeeSigner(w)}, chainx.SysFee(3*gas))
}

func keyOrNil(c int) any {
	if c == 0 {
		return nil
	}
	return pub(c)
}

// atoms returns the whole atom set by name.
func atoms() map[string]atom {
	m := map[string]atom{}
	add := func(name string, f func(w *chainx.World) (*transaction.Transaction, error)) {
		if _, dup := m[name]; dup {
			panic("duplicate atom " + name)
		}
		m[name] = atom{name, f}
	}
	holders := []int{1, 2, 3, 4}
	// ---- votes: v<a>>c (c = 0: revoke) ----
	for _, a := range []int{1, 2, 3} {
		for _, c := range []int{0, 1, 2} {
			add(fmt.Sprintf("v%d>%d", a, c), func(w *chainx.World) (*transaction.Transaction, error) {
				return call(w, []int{a}, gas, neoH, "vote", acc(a), keyOrNil(c))
			})
		}
	}
	// ---- candidates ----
	for _, c := range []int{1, 2} {
		add(fmt.Sprintf("r%d", c), func(w *chainx.World) (*transaction.Transaction, error) {
			return call(w, []int{c}, 1010*gas, neoH, "registerCandidate", pub(c))
		})
		add(fmt.Sprintf("x%d", c), func(w *chainx.World) (*transaction.Transaction, error) {
			return call(w, []int{c}, gas, neoH, "unregisterCandidate", pub(c))
		})
	}
	// ---- NEO transfers between accounts: T = the whole balance, P = balance + 1 (must fail),
	// M = balance - 1 (leaves 1), t = 1 ----
	for _, a := range holders {
		for _, b := range holders {
			add(fmt.Sprintf("T%d>%d", a, b), func(w *chainx.World) (*transaction.Transaction, error) {
				return call(w, []int{a}, gas, neoH, "transfer", acc(a), acc(b), neoBal(w, acc(a)), nil)
			})
			add(fmt.Sprintf("P%d>%d", a, b), func(w *chainx.World) (*transaction.Transaction, error) {
				x := neoBal(w, acc(a))
				return call(w, []int{a}, gas, neoH, "transfer", acc(a), acc(b), x.Add(x, big.NewInt(1)), nil)
			})
			add(fmt.Sprintf("M%d>%d", a, b), func(w *chainx.World) (*transaction.Transaction, error) {
				x := neoBal(w, acc(a))
				if x.Sign() == 0 {
					return nil, fmt.Errorf("account %d owns no NEO", a)
				}
				return call(w, []int{a}, gas, neoH, "transfer", acc(a), acc(b), x.Sub(x, big.NewInt(1)), nil)
			})
			add(fmt.Sprintf("t%d>%d", a, b), func(w *chainx.World) (*transaction.Transaction, error) {
				return call(w, []int{a}, gas, neoH, "transfer", acc(a), acc(b), int64(1), nil)
			})
		}
	}
	// ---- contract UB as a NEO holder and voter ----
	for _, a := range []int{2, 3} {
		add(fmt.Sprintf("T%d>UB", a), func(w *chainx.World) (*transaction.Transaction, error) { // payment callback without a program
			return call(w, []int{a}, 3*gas, neoH, "transfer", acc(a), w.UB.Hash, neoBal(w, acc(a)), nil)
		})
		add(fmt.Sprintf("UB>%d", a), func(w *chainx.World) (*transaction.Transaction, error) { // the contract pays out everything it owns
			return ubRun(w, []any{ucall(neoH, "transfer", w.UB.Hash.BytesBE(), acc(a).BytesBE(), neoBal(w, w.UB.Hash), nil)})
		})
	}
	add("T2>UB!back", func(w *chainx.World) (*transaction.Transaction, error) { // re-entrant: the callback returns the payment at once
		x := neoBal(w, acc(2))
		return call(w, []int{2}, 5*gas, neoH, "transfer", acc(2), w.UB.Hash, x,
			[]any{ucall(neoH, "transfer", w.UB.Hash.BytesBE(), acc(2).BytesBE(), new(big.Int).Add(x, neoBal(w, w.UB.Hash)), nil)})
	})
	add("T2>UB!vote1", func(w *chainx.World) (*transaction.Transaction, error) { // re-entrant: the callback votes with what it just got
		return call(w, []int{2}, 5*gas, neoH, "transfer", acc(2), w.UB.Hash, neoBal(w, acc(2)),
			[]any{ucall(neoH, "vote", w.UB.Hash.BytesBE(), pub(1))})
	})
	add("T2>UB!fwd3", func(w *chainx.World) (*transaction.Transaction, error) { // re-entrant: the callback forwards half to account 3
		x := neoBal(w, acc(2))
		return call(w, []int{2}, 5*gas, neoH, "transfer", acc(2), w.UB.Hash, x,
			[]any{ucall(neoH, "transfer", w.UB.Hash.BytesBE(), acc(3).BytesBE(), new(big.Int).Rsh(x, 1), nil)})
	})
	for _, c := range []int{0, 1, 2} {
		add(fmt.Sprintf("vUB>%d", c), func(w *chainx.World) (*transaction.Transaction, error) {
			return ubRun(w, []any{ucall(neoH, "vote", w.UB.Hash.BytesBE(), keyOrNil(c))})
		})
	}
	// ---- Policy: blocking revokes the votes of the account ----
	for _, a := range []int{1, 2, 3} {
		add(fmt.Sprintf("B%d", a), func(w *chainx.World) (*transaction.Transaction, error) {
			return committeeTx(w, "blockAccount", acc(a))
		})
		add(fmt.Sprintf("U%d", a), func(w *chainx.World) (*transaction.Transaction, error) {
			return committeeTx(w, "unblockAccount", acc(a))
		})
	}
	add("BUB", func(w *chainx.World) (*transaction.Transaction, error) {
		return committeeTx(w, "blockAccount", w.UB.Hash)
	})
	add("UUB", func(w *chainx.World) (*transaction.Transaction, error) {
		return committeeTx(w, "unblockAccount", w.UB.Hash)
	})
	// ---- claims ----
	for _, a := range []int{1, 2, 3} {
		add(fmt.Sprintf("c%d", a), func(w *chainx.World) (*transaction.Transaction, error) {
			return call(w, []int{a}, gas, neoH, "transfer", acc(a), acc(a), int64(0), nil)
		})
	}
	add("nop", func(w *chainx.World) (*transaction.Transaction, error) { // a block with a transaction that touches no token
		return call(w, []int{atomPayer}, gas, neoH, "getRegisterPrice")
	})
	gasAtoms(add)
	notaryAtoms(add)
	return m
}

// ---- GAS accounts emptied and refilled exactly -------------------------------------------
//
// Accounts 6 (5000 GAS) and 7 (nothing) with account 4 as the payer of the
// transactions that must not touch the moved balance.

func gasAtoms(add func(string, func(w *chainx.World) (*transaction.Transaction, error))) {
	signers := func(payer, owner int) []int {
		if payer == owner {
			return []int{payer}
		}
		return []int{payer, owner}
	}
	whole := func(name string, payer, from int, to func(w *chainx.World) util.Uint160, delta int64, data any) {
		add(name, func(w *chainx.World) (*transaction.Transaction, error) {
			return w.N.MakeTx(balanceTransferScript(gasH, acc(from), to(w), delta, data), sg(signers(payer, from)...), chainx.SysFee(3*gas))
		})
	}
	a := func(i int) func(*chainx.World) util.Uint160 {
		return func(*chainx.World) util.Uint160 { return acc(i) }
	}
	ub := func(w *chainx.World) util.Uint160 { return w.UB.Hash }
	whole("g6>7", 4, 6, a(7), 0, nil)   // item of 6 deleted, item of 7 created
	whole("g7>6", 4, 7, a(6), 0, nil)   // and back (or a zero transfer between absent items)
	whole("g6>7+1", 4, 6, a(7), 1, nil) // one more than owned: false
	whole("g6>7-1", 4, 6, a(7), -1, nil)
	whole("g6>6", 4, 6, a(6), 0, nil)   // whole balance to self
	whole("g6>6+1", 4, 6, a(6), 1, nil) // more than owned to self: false
	whole("g6>UB", 4, 6, ub, 0, nil)    // to a contract, callback without a program
	add("gUB>6", func(w *chainx.World) (*transaction.Transaction, error) {
		return ubRun(w, []any{ucall(gasH, "transfer", w.UB.Hash.BytesBE(), acc(6).BytesBE(), gasBal(w, w.UB.Hash), nil)})
	})
	add("g6>UB!back", func(w *chainx.World) (*transaction.Transaction, error) { // the callback returns the payment at once
		x := gasBal(w, acc(6))
		return w.N.MakeTx(chainx.CallScript(gasH, "transfer", acc(6), w.UB.Hash, x,
			[]any{ucall(gasH, "transfer", w.UB.Hash.BytesBE(), acc(6).BytesBE(), new(big.Int).Add(x, gasBal(w, w.UB.Hash)), nil)}), sg(4, 6), chainx.SysFee(5*gas))
	})
	// g6-leave: account 6 pays everything but exactly the fees of its next
	// transaction (g6-spend) to account 5; g6-spend is then paid with the whole
	// balance: GAS.OnPersist burns the account to exactly zero and the
	// transaction runs for a sender without a balance item.
	add("g6-leave", func(w *chainx.World) (*transaction.Transaction, error) {
		probe, err := spend6(w)
		if err != nil {
			return nil, err
		}
		keep := probe.SystemFee + probe.NetworkFee
		bal := gasBal(w, acc(6))
		mk := func(x *big.Int) (*transaction.Transaction, error) {
			return call(w, []int{6}, gas, gasH, "transfer", acc(6), acc(5), x, nil)
		}
		first, err := mk(new(big.Int).Sub(bal, big.NewInt(keep+2*gas)))
		if err != nil {
			return nil, err
		}
		x := new(big.Int).Sub(bal, big.NewInt(keep+first.SystemFee+first.NetworkFee))
		if x.Sign() <= 0 {
			return nil, fmt.Errorf("account 6 cannot pay both transactions")
		}
		tx, err := mk(x)
		if err != nil {
			return nil, err
		}
		if tx.SystemFee+tx.NetworkFee != first.SystemFee+first.NetworkFee {
			return nil, fmt.Errorf("fees of g6-leave are not stable")
		}
		return tx, nil
	})
	add("g6-spend", func(w *chainx.World) (*transaction.Transaction, error) {
		tx, err := spend6(w)
		if err != nil {
			return nil, err
		}
		if gasBal(w, acc(6)).Cmp(big.NewInt(tx.SystemFee+tx.NetworkFee)) != 0 {
			return nil, fmt.Errorf("account 6 does not own exactly the fees")
		}
		return tx, nil
	})
	add("g5>6", func(w *chainx.World) (*transaction.Transaction, error) { // refill
		return call(w, []int{5}, gas, gasH, "transfer", acc(5), acc(6), int64(7*gas), nil)
	})
	add("g-reg3", func(w *chainx.World) (*transaction.Transaction, error) { // NEP-27 registration: the price is burnt from NEO's own account
		return call(w, []int{3}, 3*gas, gasH, "transfer", acc(3), neoH, int64(1000*gas), pub(3))
	})
}

// spend6 is the transaction whose fees g6-leave keeps: a zero GAS transfer of
// account 6 to itself.
func spend6(w *chainx.World) (*transaction.Transaction, error) {
	return call(w, []int{6}, gas, gasH, "transfer", acc(6), acc(6), int64(0), nil)
}

// ---- notary deposits at their boundaries -------------------------------------------------

func depositOf(w *chainx.World, h util.Uint160) (*big.Int, uint32) {
	return new(big.Int).Set(w.N.BC.GetUtilityTokenBalance(notH, h)), w.N.BC.GetNotaryDepositExpiration(h)
}

func notaryAtoms(add func(string, func(w *chainx.World) (*transaction.Transaction, error))) {
	feePerKey := func(w *chainx.World) int64 { return w.N.BC.GetNotaryServiceFeePerKey() }
	minTill := func(w *chainx.World) int64 { return int64(w.N.Height() + 2) } // smallest till the next block accepts
	dep := func(w *chainx.World, from int, amount int64, to any, till int64) (*transaction.Transaction, error) {
		return call(w, []int{from}, gas, gasH, "transfer", acc(from), notH, amount, []any{to, till})
	}
	// account 6: first deposit at / one below the smallest amount, at the smallest till
	add("nd6-min", func(w *chainx.World) (*transaction.Transaction, error) {
		return dep(w, 6, 2*feePerKey(w), nil, minTill(w))
	})
	add("nd6-min-1", func(w *chainx.World) (*transaction.Transaction, error) {
		return dep(w, 6, 2*feePerKey(w)-1, nil, minTill(w))
	})
	// top-ups of account 2's deposit by its owner: 1 datoshi / nothing, till = exactly the current one, one below, one above
	for _, d := range []int64{0, -1, 1} {
		add(fmt.Sprintf("nd2+1@till%+d", d), func(w *chainx.World) (*transaction.Transaction, error) {
			_, till := depositOf(w, acc(2))
			if till == 0 {
				return nil, fmt.Errorf("no deposit of account 2")
			}
			return dep(w, 2, 1, nil, int64(till)+d)
		})
	}
	add("nd2+0", func(w *chainx.World) (*transaction.Transaction, error) { // zero top-up that only moves till
		_, till := depositOf(w, acc(2))
		t := max(int64(till), minTill(w)) + 1
		return dep(w, 2, 0, nil, t)
	})
	add("nd3for2", func(w *chainx.World) (*transaction.Transaction, error) { // third party: amount counts, till does not
		return dep(w, 3, 3, acc(2), minTill(w)+7)
	})
	add("nd3for6", func(w *chainx.World) (*transaction.Transaction, error) { // third party opens (default till) or tops up the deposit of 6
		return dep(w, 3, 2*feePerKey(w), acc(6), minTill(w))
	})
	add("nd2forN", func(w *chainx.World) (*transaction.Transaction, error) { // a deposit owned by the Notary contract itself
		return dep(w, 2, 2*feePerKey(w), notH, minTill(w))
	})
	// locks: exactly the current till, one below, one above
	for _, d := range []int64{0, -1, 1} {
		add(fmt.Sprintf("nl2@till%+d", d), func(w *chainx.World) (*transaction.Transaction, error) {
			_, till := depositOf(w, acc(2))
			return call(w, []int{2}, gas, notH, "lockDepositUntil", acc(2), int64(till)+d)
		})
	}
	// withdrawals (the result tells whether the height boundary was passed)
	add("nw2", func(w *chainx.World) (*transaction.Transaction, error) {
		return call(w, []int{2}, gas, notH, "withdraw", acc(2), nil)
	})
	add("nw2>7", func(w *chainx.World) (*transaction.Transaction, error) {
		return call(w, []int{2}, gas, notH, "withdraw", acc(2), acc(7))
	})
	add("nw2>UA", func(w *chainx.World) (*transaction.Transaction, error) {
		return call(w, []int{2}, 3*gas, notH, "withdraw", acc(2), w.UA.Hash)
	})
	add("nw2>N", func(w *chainx.World) (*transaction.Transaction, error) { // into the Notary contract: its callback refuses, all rolled back
		return call(w, []int{2}, 3*gas, notH, "withdraw", acc(2), notH)
	})
	add("nw6", func(w *chainx.World) (*transaction.Transaction, error) {
		return call(w, []int{6}, gas, notH, "withdraw", acc(6), nil)
	})
	add("nw2+nd2", func(w *chainx.World) (*transaction.Transaction, error) { // one transaction: withdraw, then deposit the minimum again
		s := append(chainx.CallScript(notH, "withdraw", acc(2), nil), chainx.CallScript(gasH, "transfer", acc(2), notH, 2*feePerKey(w), []any{nil, minTill(w)})...)
		return w.N.MakeTx(s, sg(2), chainx.SysFee(3*gas))
	})
	// contract UA (funded by the prefix atom g3>UA) as transaction SENDER and depositor: its fees are burnt from a contract
	// account, it may set its own till and withdraw
	add("g3>UA", func(w *chainx.World) (*transaction.Transaction, error) {
		return call(w, []int{3}, 3*gas, gasH, "transfer", acc(3), w.UA.Hash, int64(40*gas), nil)
	})
	uaSends := func(w *chainx.World, script []byte) (*transaction.Transaction, error) {
		ua := neotest.NewContractSigner(w.UA.Hash, func(*transaction.Transaction) []any { return nil })
		return w.N.MakeTx(script, []neotest.Signer{ua}, chainx.SysFee(3*gas))
	}
	add("ndUA", func(w *chainx.World) (*transaction.Transaction, error) {
		return uaSends(w, chainx.CallScript(gasH, "transfer", w.UA.Hash, notH, 2*feePerKey(w), []any{nil, minTill(w)}))
	})
	add("ndUA-call", func(w *chainx.World) (*transaction.Transaction, error) { // UA is the calling contract, not the sender: default till
		return uaRun(w, []any{ucall(gasH, "transfer", w.UA.Hash.BytesBE(), notH.BytesBE(), 2*feePerKey(w), []any{nil, minTill(w)})})
	})
	add("nwUA>3", func(w *chainx.World) (*transaction.Transaction, error) {
		return uaSends(w, chainx.CallScript(notH, "withdraw", w.UA.Hash, acc(3)))
	})
	add("nwUA>UA", func(w *chainx.World) (*transaction.Transaction, error) { // withdrawn by a contract call into the contract itself (payment callback)
		return uaRun(w, []any{ucall(notH, "withdraw", w.UA.Hash.BytesBE(), w.UA.Hash.BytesBE())})
	})
	// notary-assisted transactions charged to the deposit of account 2
	add("na2", func(w *chainx.World) (*transaction.Transaction, error) {
		if d, _ := depositOf(w, acc(2)); d.Sign() == 0 {
			return nil, fmt.Errorf("no deposit of account 2")
		}
		return assisted(w, 2)
	})
	add("nd2=na2", func(w *chainx.World) (*transaction.Transaction, error) { // bring the deposit of 2 to exactly the fees of one na2 (top-up only)
		probe, err := assisted(w, 2)
		if err != nil {
			return nil, err
		}
		d, till := depositOf(w, acc(2))
		need := new(big.Int).Sub(big.NewInt(probe.SystemFee+probe.NetworkFee), d)
		if d.Sign() == 0 || need.Sign() <= 0 {
			return nil, fmt.Errorf("deposit of account 2 is absent or too large")
		}
		return dep(w, 2, need.Int64(), nil, max(int64(till), minTill(w)))
	})
}

// balanceTransferScript: token.transfer(from, to, token.balanceOf(from)+delta, data)
// with the balance read by the script itself (the fees of the block are
// already burnt when it runs).
func balanceTransferScript(token, from, to util.Uint160, delta int64, data any) []byte {
	bw := io.NewBufBinWriter()
	emit.Any(bw.BinWriter, data)
	emit.AppCall(bw.BinWriter, token, "balanceOf", callflag.ReadStates, from)
	if delta != 0 {
		emit.Int(bw.BinWriter, delta)
		emit.Opcodes(bw.BinWriter, opcode.ADD)
	}
	emit.Bytes(bw.BinWriter, to.BytesBE())
	emit.Bytes(bw.BinWriter, from.BytesBE())
	emit.Int(bw.BinWriter, 4)
	emit.Opcodes(bw.BinWriter, opcode.PACK)
	emit.AppCallNoArgs(bw.BinWriter, token, "transfer", callflag.All)
	if bw.Err != nil {
		panic(bw.Err)
	}
	return bw.Bytes()
}

// ---- templates over atoms -----------------------------------------------------------------

// atomTemplate resolves "a:X" (one atom) and "a2:X+Y" (an ordered pair in one block).
func atomTemplate(name string) (chainx.Tpl, bool) {
	all := atoms()
	var parts []string
	switch {
	case strings.HasPrefix(name, "a:"):
		parts = []string{strings.TrimPrefix(name, "a:")}
	case strings.HasPrefix(name, "a2:"):
		parts = strings.SplitN(strings.TrimPrefix(name, "a2:"), "+", 2)
		// atom names may contain '+': try every split position
		rest := strings.TrimPrefix(name, "a2:")
		parts = nil
		for i := 1; i < len(rest); i++ {
			if rest[i] != '+' {
				continue
			}
			if _, ok := all[rest[:i]]; !ok {
				continue
			}
			if _, ok := all[rest[i+1:]]; ok {
				parts = []string{rest[:i], rest[i+1:]}
				break
			}
		}
	}
	if len(parts) == 0 {
		return chainx.Tpl{}, false
	}
	var as []atom
	for _, p := range parts {
		a, ok := all[p]
		if !ok {
			return chainx.Tpl{}, false
		}
		as = append(as, a)
	}
	return chainx.Tpl{Name: name, Build: func(w *chainx.World) (txs, error) {
		var out txs
		for _, a := range as {
			tx, err := a.Make(w)
			if err != nil {
				return nil, err
			}
			out = append(out, tx)
		}
		return out, nil
	}}, true
}

func one(ns ...string) []string {
	var out []string
	for _, n := range ns {
		out = append(out, "a:"+n)
	}
	return out
}

// pairs: every ordered pair (also of an atom with itself) as one block.
func pairsOf(ns ...string) []string {
	var out []string
	for _, x := range ns {
		for _, y := range ns {
			out = append(out, "a2:"+x+"+"+y)
		}
	}
	return out
}

// ---- atom alphabets -----------------------------------------------------------------------

var (
	// one candidate (1, registered by the preamble, also a voter), voters 2 and 3, account 4 without NEO
	atomsDrop = []string{"v2>1", "v3>1", "x1", "T3>2", "T2>3", "v2>0", "v3>0", "r1", "v1>1", "v1>0", "T1>2", "T2>4", "T4>2", "T3>3", "B2", "U2", "B3", "c2"}
	// two candidates (2 is voter and candidate), vote changes between them, voters paying each other
	atomsTwo = []string{"r2", "v2>1", "v3>2", "v2>2", "v3>1", "x1", "x2", "T2>3", "T3>2", "t2>3", "t3>2", "v2>0", "v3>0", "r1", "T2>2", "M2>3", "P2>3", "B3", "U3"}
	// the contract as holder / voter, re-entrant callbacks, blocking a voting contract
	atomsContract = []string{"T2>UB", "vUB>1", "x1", "UB>2", "T2>UB!vote1", "T2>UB!back", "T2>UB!fwd3", "vUB>0", "UB>3", "T3>UB", "r1", "v2>1", "BUB", "UUB", "vUB>2", "r2"}
	// the in-block interactions: second operation of an account whose GAS was distributed already in this block
	atomsPair = []string{"v2>1", "v2>0", "v3>1", "x1", "r1", "T2>3", "T3>2", "B2", "U2", "T2>UB", "UB>2", "vUB>1"}
	atomsGas  = []string{"g6>7", "g7>6", "g6>7+1", "g6>7-1", "g6>6", "g6>6+1", "g6>UB", "gUB>6", "g6>UB!back", "g6-leave", "g6-spend", "g5>6", "g-reg3", "nop"}
	atomsNot  = []string{"nw2", "nd2+1@till+0", "nd2+1@till-1", "nd2+1@till+1", "nd2+0", "nl2@till+0", "nl2@till-1", "nl2@till+1", "nd6-min", "nd6-min-1", "nw6",
		"nd3for2", "nd3for6", "nd2forN", "nw2>7", "nw2>UA", "nw2>N", "nw2+nd2", "ndUA", "ndUA-call", "nwUA>3", "nwUA>UA", "na2", "nd2=na2", "nop"}
	alphaOracle  = []string{"oracle-request", "oracle-respond", "empty", "gas-to-contract", "a:g6>UB"}
	atomsNotPair = []string{"na2", "nw2", "nd2+1@till+0", "nl2@till+1", "nd3for2", "nd2=na2"}
	// the history-dependent core of atomsDrop (plain tree)
	atomsDrop3 = []string{"v2>1", "v3>1", "x1", "T3>2", "T2>3", "v2>0", "r1", "v1>1", "T1>2", "B2", "c2", "T2>4"}
	atomsMulti = []string{"v2>1", "v3>1", "x1", "T3>2", "T2>3", "v2>0", "r1", "v1>1", "T1>2", "B2", "v2>2", "x2"}
)

func atomPlans(thorough bool) []plan {
	ps := []plan{
		// graph plans: a history is extended only from the first (shortest, in alphabet order) history that reaches its
		// governance state; every atom is applied in every distinct governance state reached within the depth
		{Name: "atoms/drop", Fam: famSingle, Levels: rep(one(atomsDrop...), 7), Dedup: true},
		{Name: "atoms/two", Fam: famSingle, Levels: rep(one(atomsTwo...), 5), Dedup: true},
		{Name: "atoms/contract", Fam: famSingle, Levels: rep(one(atomsContract...), 5), Dedup: true},
		{Name: "atoms/pairs", Fam: famSingle, Levels: [][]string{one(atomsPair...), one(atomsPair...), pairsOf(atomsPair...)}, Dedup: true},
		{Name: "atoms/multi", Fam: famMulti, Pad: 1, Levels: rep(one(atomsMulti...), 4), Dedup: true},
		{Name: "atoms/drop/restart", Fam: famSingle, Levels: rep(one(atomsDrop...), 3), Dedup: true, Restart: true},
		{Name: "atoms/notary", Fam: famSingle, Prefix: []string{"a:g3>UA", "n-setup"}, Levels: rep(one(atomsNot...), 3), Dedup: true, KeyDepth: true},
		// plain trees (reward counters, balance heights and GAS amounts matter: no merging of states)
		{Name: "atoms/drop3", Fam: famSingle, Levels: rep(one(atomsDrop3...), 3)},
		{Name: "atoms/gas", Fam: famSingle, Levels: rep(one(atomsGas...), 3)},
		// GAS minted to / burnt from the Oracle contract (request reserve, response fees, node reward): a second mint/burn entry path
		{Name: "single/oracle", Fam: famSingle, Prefix: []string{"designate-oracle"}, Levels: rep(alphaOracle, 3)},
		// two notary operations of one payer in one block (both charged by Notary.OnPersist, or charged and then withdrawn)
		{Name: "atoms/notary-pairs", Fam: famSingle, Prefix: []string{"n-setup"}, Levels: [][]string{one("nop", "na2", "nd2+0", "nd6-min"), pairsOf(atomsNotPair...)}},
	}
	if thorough {
		ps = append(ps,
			plan{Name: "atoms/drop9", Fam: famSingle, Levels: rep(one(atomsDrop...), 9), Dedup: true},
			plan{Name: "atoms/two8", Fam: famSingle, Levels: rep(one(atomsTwo...), 8), Dedup: true},
			plan{Name: "atoms/contract8", Fam: famSingle, Levels: rep(one(atomsContract...), 8), Dedup: true},
			plan{Name: "atoms/two3", Fam: famSingle, Levels: rep(one(atomsTwo...), 3)},
			plan{Name: "atoms/drop4", Fam: famSingle, Levels: rep(one(atomsDrop3...), 4)},
			plan{Name: "atoms/multi6", Fam: famMulti, Pad: 0, Levels: rep(one(atomsMulti...), 6), Dedup: true},
			plan{Name: "atoms/multi-srih", Fam: famMultiSRIH, Pad: 3, Levels: rep(one(atomsMulti...), 4), Dedup: true},
			plan{Name: "atoms/two/restart", Fam: famSingle, Levels: rep(one(atomsTwo...), 4), Dedup: true, Restart: true},
			plan{Name: "atoms/notary3", Fam: famSingle, Prefix: []string{"a:g3>UA", "n-setup"}, Levels: rep(one(atomsNot...), 3)},
			plan{Name: "atoms/gas4", Fam: famSingle, Levels: rep(one(atomsGas...), 4)},
		)
	}
	return ps
}

// ---- what a transition did (evidence that the class of histories is reached) ---------------

func atomKind(tpl string) string {
	n := strings.TrimPrefix(strings.TrimPrefix(tpl, "a2:"), "a:")
	switch {
	case strings.HasPrefix(n, "vUB"):
		return "contract-vote"
	case strings.HasPrefix(n, "v") && strings.HasSuffix(n, ">0"):
		return "unvote"
	case strings.HasPrefix(n, "v"):
		return "vote"
	case strings.HasPrefix(n, "x"):
		return "unregister"
	case strings.HasPrefix(n, "r"):
		return "register"
	case strings.HasPrefix(n, "BUB"), strings.HasPrefix(n, "B"):
		return "block"
	case strings.HasPrefix(n, "U") && !strings.HasPrefix(n, "UB"):
		return "unblock"
	case strings.Contains(n, "UB"):
		return "contract-transfer"
	case strings.HasPrefix(n, "T"):
		return "whole-transfer"
	case strings.HasPrefix(n, "t"), strings.HasPrefix(n, "M"), strings.HasPrefix(n, "P"):
		return "part-transfer"
	case strings.HasPrefix(n, "n"):
		return "notary"
	case strings.HasPrefix(n, "g"):
		return "gas"
	}
	return "other"
}

// classes names what the block did to the accounting state.
func classes(tpl string, before, after *tokState) []string {
	var out []string
	kind := atomKind(tpl)
	if strings.HasPrefix(tpl, "a2:") {
		kind = "pair"
	}
	for k, c := range before.Cands {
		a := after.Cands[k]
		switch {
		case a == nil && !c.Registered:
			out = append(out, "unregistered candidate record dropped at zero votes by "+kind)
		case a == nil:
			out = append(out, "registered candidate record dropped by "+kind)
		case !c.Registered && a.Registered && a.Votes.Sign() > 0:
			out = append(out, "candidate re-registered while voted")
		case c.Registered && !a.Registered && a.Votes.Sign() > 0:
			out = append(out, "candidate unregistered while voted")
		case !a.Registered && c.Votes.Cmp(a.Votes) != 0:
			out = append(out, "votes of an unregistered candidate changed by "+kind)
		}
	}
	for k := range after.Cands {
		if before.Cands[k] == nil {
			out = append(out, "candidate record created")
		}
	}
	for h, b := range before.NEO {
		a := after.NEO[h]
		switch {
		case a == nil && b.VoteTo != "":
			out = append(out, "voting account emptied by "+kind)
		case a == nil:
			out = append(out, "account emptied by "+kind)
		case b.VoteTo == "" && a.VoteTo != "":
			out = append(out, "vote cast by "+kind)
		case b.VoteTo != "" && a.VoteTo == "":
			out = append(out, "vote revoked by "+kind)
		case b.VoteTo != "" && a.VoteTo != b.VoteTo:
			out = append(out, "vote moved to another candidate")
		case b.VoteTo != "" && a.Balance.Cmp(b.Balance) != 0:
			out = append(out, "balance of a voting account changed by "+kind)
		}
	}
	for h := range after.NEO {
		if before.NEO[h] == nil {
			out = append(out, "account created by "+kind)
		}
	}
	if before.Voters.Sign() != 0 && after.Voters.Sign() == 0 {
		out = append(out, "voters count to zero by "+kind)
	}
	for h, b := range before.GAS {
		if after.GAS[h] == nil && b.Sign() > 0 {
			out = append(out, "GAS account emptied by "+kind)
		}
	}
	for h, b := range before.Deposits {
		a := after.Deposits[h]
		switch {
		case a == nil:
			out = append(out, "deposit removed")
		case a.Amount.Cmp(b.Amount) > 0:
			out = append(out, "deposit topped up")
		case a.Amount.Cmp(b.Amount) < 0:
			out = append(out, "deposit charged")
		case a.Till != b.Till:
			out = append(out, "deposit till moved")
		}
	}
	for h := range after.Deposits {
		if before.Deposits[h] == nil {
			out = append(out, "deposit opened")
		}
	}
	if len(after.Blocked) != len(before.Blocked) {
		out = append(out, "blocked set changed")
	}
	sort.Strings(out)
	return out
}

// effectsOnly strips the " by <kind>" suffixes and duplicates.
func effectsOnly(cs []string) []string {
	seen := map[string]bool{}
	var out []string
	for _, c := range cs {
		if i := strings.Index(c, " by "); i > 0 {
			c = c[:i]
		}
		if !seen[c] {
			seen[c] = true
			out = append(out, c)
		}
	}
	return out
}

// dedupKey is the identity of a governance state for the graph plans.
func dedupKey(s *tokState) string {
	var bl []string
	for h := range s.Blocked {
		bl = append(bl, h.StringBE()[:8])
	}
	sort.Strings(bl)
	var dl []string
	for h, d := range s.Deposits {
		dl = append(dl, fmt.Sprintf("%s@%d", h.StringBE()[:8], d.Till))
	}
	sort.Strings(dl)
	return s.govKey() + "|b=" + strings.Join(bl, ",") + "|t=" + strings.Join(dl, ",")
}
