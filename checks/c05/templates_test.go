package c05

// Token / governance block templates of C05 (added to chainx.Templates()).
// Every template builds the transactions of ONE block on the current state of
// the reference replica. System fees are fixed (not taken from a test
// invocation) so that a transaction behaves the same wherever it stands in
// its block.

import (
	"fmt"
	"math/big"
	"strings"

	"github.com/nspcc-dev/neo-go/pkg/core/native/nativehashes"
	"github.com/nspcc-dev/neo-go/pkg/core/native/noderoles"
	"github.com/nspcc-dev/neo-go/pkg/core/transaction"
	"github.com/nspcc-dev/neo-go/pkg/io"
	"github.com/nspcc-dev/neo-go/pkg/neotest"
	"github.com/nspcc-dev/neo-go/pkg/smartcontract/callflag"
	"github.com/nspcc-dev/neo-go/pkg/util"
	"github.com/nspcc-dev/neo-go/pkg/vm/emit"
	"github.com/nspcc-dev/neo-go/pkg/vm/opcode"
	"github.com/nspcc-dev/neo-go/pkg/wallet"

	"verif/lib/chainx"
)

const gas = 100000000 // 1 GAS in datoshi

var (
	neoH = nativehashes.NeoToken
	gasH = nativehashes.GasToken
	polH = nativehashes.PolicyContract
	notH = nativehashes.Notary
)

type txs = []*transaction.Transaction

func sg(is ...int) []neotest.Signer {
	var out []neotest.Signer
	for _, i := range is {
		out = append(out, chainx.Signer(i))
	}
	return out
}
func acc(i int) util.Uint160 { return chainx.Acc(i).ScriptHash() }
func pub(i int) []byte       { return chainx.Acc(i).PublicKey().Bytes() }

// call builds a transaction of signers (the first pays) calling h.method with
// a fixed system fee.
func call(w *chainx.World, signers []int, fee int64, h util.Uint160, method string, args ...any) (*transaction.Transaction, error) {
	return w.N.MakeTx(chainx.CallScript(h, method, args...), sg(signers...), chainx.SysFee(fee))
}

// callAssert is call with ASSERT on the boolean result (false => FAULT).
func callAssert(w *chainx.World, signers []int, fee int64, h util.Uint160, method string, args ...any) (*transaction.Transaction, error) {
	return w.N.MakeTx(chainx.ScriptThen(chainx.CallScript(h, method, args...), opcode.ASSERT), sg(signers...), chainx.SysFee(fee))
}

// urun runs prog on UA signed by account i.
func urun(w *chainx.World, i int, prog []any) (*transaction.Transaction, error) {
	return w.N.MakeTx(chainx.CallScript(w.UA.Hash, "run", prog), sg(i), chainx.SysFee(5*gas))
}

func seq(fs ...func() (*transaction.Transaction, error)) (txs, error) {
	var out txs
	for _, f := range fs {
		tx, err := f()
		if err != nil {
			return nil, err
		}
		out = append(out, tx)
	}
	return out, nil
}

type mk = func() (*transaction.Transaction, error)

func ucall(h util.Uint160, method string, args ...any) []any {
	return []any{chainx.OpCall, h.BytesBE(), method, 15, args}
}

// op is an atomic governance operation of account 2, used for the ordered
// pairs "two transactions of one sender in one block, in both orders".
type op struct {
	Name string
	Make func(w *chainx.World) (*transaction.Transaction, error)
}

func pairOps() []op {
	return []op{
		{"v1", func(w *chainx.World) (*transaction.Transaction, error) {
			return call(w, []int{2}, gas, neoH, "vote", acc(2), pub(1))
		}},
		{"t", func(w *chainx.World) (*transaction.Transaction, error) {
			return call(w, []int{2}, gas, neoH, "transfer", acc(2), acc(1), int64(1000000), nil)
		}},
		{"v2", func(w *chainx.World) (*transaction.Transaction, error) {
			return call(w, []int{2}, gas, neoH, "vote", acc(2), pub(2))
		}},
		{"u", func(w *chainx.World) (*transaction.Transaction, error) {
			return call(w, []int{2}, gas, neoH, "vote", acc(2), nil)
		}},
		{"r2", func(w *chainx.World) (*transaction.Transaction, error) {
			return call(w, []int{2}, 1010*gas, neoH, "registerCandidate", pub(2))
		}},
		{"x2", func(w *chainx.World) (*transaction.Transaction, error) {
			return call(w, []int{2}, gas, neoH, "unregisterCandidate", pub(2))
		}},
		// thorough only from here
		{"d", func(w *chainx.World) (*transaction.Transaction, error) {
			return call(w, []int{2}, gas, gasH, "transfer", acc(2), notH, int64(7*gas), []any{nil, int64(w.N.Height() + 3)})
		}},
		{"w", func(w *chainx.World) (*transaction.Transaction, error) {
			return call(w, []int{2}, gas, notH, "withdraw", acc(2), nil)
		}},
		{"z", func(w *chainx.World) (*transaction.Transaction, error) {
			return call(w, []int{2}, gas, neoH, "transfer", acc(2), acc(2), int64(0), nil)
		}},
	}
}

const quickPairOps = 6

// pairTemplates returns "pair:A>B" for every ordered pair of distinct ops among the first n.
func pairTemplates(n int) []chainx.Tpl {
	ops := pairOps()
	if n > len(ops) {
		n = len(ops)
	}
	var out []chainx.Tpl
	for i := 0; i < n; i++ {
		for j := 0; j < n; j++ {
			if i == j {
				continue
			}
			a, b := ops[i], ops[j]
			out = append(out, chainx.Tpl{Name: "pair:" + a.Name + ">" + b.Name, Build: func(w *chainx.World) (txs, error) {
				return seq(func() (*transaction.Transaction, error) { return a.Make(w) }, func() (*transaction.Transaction, error) { return b.Make(w) })
			}})
		}
	}
	return out
}

// committeeSigner returns a signer for the CURRENT committee address: the
// standby committee of the family, or - once votes have elected the cast's
// accounts - the majority multisig of their keys.
func committeeSigner(w *chainx.World) neotest.Signer {
	com, err := w.N.BC.GetCommittee()
	if err != nil {
		return w.N.Committee
	}
	if !w.N.Opts.Multi {
		// one member, one-block epochs: the next block's committee is what the
		// last PostPersist computed
		com = w.N.BC.ComputeNextBlockValidators()
	}
	byKey := map[string]int{}
	for i := 1; i <= 7; i++ {
		byKey[string(pub(i))] = i
	}
	var members []int
	for _, k := range com {
		i, ok := byKey[string(k.Bytes())]
		if !ok {
			return w.N.Committee
		}
		members = append(members, i)
	}
	m := len(com) - (len(com)-1)/2
	var accs []*wallet.Account
	for _, i := range members {
		a := wallet.NewAccountFromPrivateKey(chainx.Acc(i).PrivateKey())
		if err := a.ConvertMultisig(m, com.Copy()); err != nil {
			return w.N.Committee
		}
		accs = append(accs, a)
	}
	return neotest.NewMultiSigner(accs...)
}

func notarySigner(w *chainx.World) neotest.Signer {
	magic := uint32(w.N.BC.GetConfig().Magic)
	return neotest.NewContractSigner(notH, func(tx *transaction.Transaction) []any {
		// sign a copy: the builder is also called while fees are still being
		// computed and must not make tx cache a hash of its unfinished form
		cp := *tx
		return []any{chainx.Acc(4).PrivateKey().SignHashable(magic, &cp)}
	})
}

// ownTemplates is the C05 part of the alphabet.
func ownTemplates() []chainx.Tpl {
	return []chainx.Tpl{
		{"vote2for1", func(w *chainx.World) (txs, error) {
			return seq(func() (*transaction.Transaction, error) { return call(w, []int{2}, gas, neoH, "vote", acc(2), pub(1)) })
		}},
		{"unvote2", func(w *chainx.World) (txs, error) {
			return seq(func() (*transaction.Transaction, error) { return call(w, []int{2}, gas, neoH, "vote", acc(2), nil) })
		}},
		{"self-transfer", func(w *chainx.World) (txs, error) { // NEO to self (claims GAS), GAS to self above and within the balance
			return seq(
				func() (*transaction.Transaction, error) {
					return call(w, []int{1}, gas, neoH, "transfer", acc(1), acc(1), int64(5), nil)
				},
				func() (*transaction.Transaction, error) {
					return call(w, []int{3}, gas, gasH, "transfer", acc(3), acc(3), int64(999999*gas), nil)
				},
				func() (*transaction.Transaction, error) {
					return call(w, []int{3}, gas, gasH, "transfer", acc(3), acc(3), int64(1), nil)
				},
			)
		}},
		{"zero-transfer", func(w *chainx.World) (txs, error) { // GAS claim by a zero NEO transfer; zero transfers from/to accounts without an item
			return seq(
				func() (*transaction.Transaction, error) {
					return call(w, []int{2}, gas, neoH, "transfer", acc(2), acc(3), int64(0), nil)
				},
				func() (*transaction.Transaction, error) {
					return call(w, []int{4}, gas, neoH, "transfer", acc(4), acc(1), int64(0), nil)
				},
				func() (*transaction.Transaction, error) {
					return call(w, []int{4}, gas, gasH, "transfer", acc(4), acc(7), int64(0), nil)
				},
			)
		}},
		{"whole-balance", func(w *chainx.World) (txs, error) { // items must disappear; nothing may be left or created
			from, to := 3, 4
			bal, _ := w.N.BC.GetGoverningTokenBalance(acc(3))
			if bal.Sign() == 0 {
				from, to = 4, 3
				bal, _ = w.N.BC.GetGoverningTokenBalance(acc(4))
			}
			amount := new(big.Int).Set(bal)
			return seq(
				func() (*transaction.Transaction, error) {
					return call(w, []int{from}, gas, neoH, "transfer", acc(from), acc(to), amount, nil)
				},
				func() (*transaction.Transaction, error) {
					// GAS.transfer(acc5, acc6, GAS.balanceOf(acc5), null) paid by account 6
					bw := io.NewBufBinWriter()
					emit.Opcodes(bw.BinWriter, opcode.PUSHNULL)
					emit.AppCall(bw.BinWriter, gasH, "balanceOf", callflag.ReadStates, acc(5))
					emit.Bytes(bw.BinWriter, acc(6).BytesBE())
					emit.Bytes(bw.BinWriter, acc(5).BytesBE())
					emit.Int(bw.BinWriter, 4)
					emit.Opcodes(bw.BinWriter, opcode.PACK)
					emit.AppCallNoArgs(bw.BinWriter, gasH, "transfer", callflag.All)
					if bw.Err != nil {
						return nil, bw.Err
					}
					return w.N.MakeTx(bw.Bytes(), sg(6, 5), chainx.SysFee(gas))
				},
			)
		}},
		{"neo-to-contract", func(w *chainx.World) (txs, error) { // receiver with and without onNEP17Payment
			return seq(
				func() (*transaction.Transaction, error) {
					return call(w, []int{2}, 3*gas, neoH, "transfer", acc(2), w.UA.Hash, int64(500), []any{[]any{chainx.OpPut, []byte("np"), []byte("1")}, []any{chainx.OpNotify, 5}})
				},
				func() (*transaction.Transaction, error) {
					return call(w, []int{2}, gas, neoH, "transfer", acc(2), polH, int64(10), nil)
				},
				func() (*transaction.Transaction, error) {
					return call(w, []int{2}, gas, neoH, "transfer", acc(2), neoH, int64(10), nil)
				},
				func() (*transaction.Transaction, error) {
					return call(w, []int{2}, gas, gasH, "transfer", acc(2), w.UB.Hash, int64(2*gas), nil)
				},
			)
		}},
		{"contract-holder", func(w *chainx.World) (txs, error) { // a contract that holds NEO votes and pays out
			return seq(
				func() (*transaction.Transaction, error) {
					return urun(w, 3, []any{ucall(neoH, "vote", w.UA.Hash.BytesBE(), pub(1))})
				},
				func() (*transaction.Transaction, error) {
					return urun(w, 3, []any{ucall(neoH, "transfer", w.UA.Hash.BytesBE(), acc(3).BytesBE(), 100, nil)})
				},
			)
		}},
		{"voter-moves", func(w *chainx.World) (txs, error) { // transfers between (possibly voting) accounts change tallies
			return seq(
				func() (*transaction.Transaction, error) {
					return call(w, []int{3}, gas, neoH, "transfer", acc(3), acc(1), int64(100), nil)
				},
				func() (*transaction.Transaction, error) {
					return call(w, []int{1}, gas, neoH, "transfer", acc(1), acc(2), int64(5), nil)
				},
				func() (*transaction.Transaction, error) {
					return call(w, []int{2}, gas, neoH, "transfer", acc(2), acc(3), int64(1), nil)
				},
				func() (*transaction.Transaction, error) { return call(w, []int{3}, gas, neoH, "vote", acc(3), pub(1)) },
			)
		}},
		{"vote-unregistered", func(w *chainx.World) (txs, error) { // must fail and change nothing
			return seq(
				func() (*transaction.Transaction, error) { return call(w, []int{3}, gas, neoH, "vote", acc(3), pub(7)) },
				func() (*transaction.Transaction, error) { return call(w, []int{2}, gas, neoH, "vote", acc(2), pub(5)) },
			)
		}},
		{"register1", func(w *chainx.World) (txs, error) {
			return seq(func() (*transaction.Transaction, error) {
				return call(w, []int{1}, 1010*gas, neoH, "registerCandidate", pub(1))
			})
		}},
		{"vote-unreg-rereg", func(w *chainx.World) (txs, error) { // votes stay recorded on an unregistered candidate
			return seq(
				func() (*transaction.Transaction, error) { return call(w, []int{2}, gas, neoH, "vote", acc(2), pub(1)) },
				func() (*transaction.Transaction, error) {
					return call(w, []int{1}, gas, neoH, "unregisterCandidate", pub(1))
				},
				func() (*transaction.Transaction, error) {
					return call(w, []int{2}, gas, neoH, "transfer", acc(2), acc(3), int64(100), nil)
				},
				func() (*transaction.Transaction, error) {
					return call(w, []int{1}, 1010*gas, neoH, "registerCandidate", pub(1))
				},
			)
		}},
		{"register-by-payment", func(w *chainx.World) (txs, error) { // NEP-27 registration: GAS paid to NEO is burnt; wrong price faults
			return seq(
				func() (*transaction.Transaction, error) {
					return call(w, []int{3}, 3*gas, gasH, "transfer", acc(3), neoH, int64(1000*gas), pub(3))
				},
				func() (*transaction.Transaction, error) {
					return call(w, []int{3}, 3*gas, gasH, "transfer", acc(3), neoH, int64(999*gas), pub(3))
				},
			)
		}},
		{"block-voter2", func(w *chainx.World) (txs, error) { // blocking revokes the votes of the account
			return seq(func() (*transaction.Transaction, error) {
				// account 3 pays: an elected committee's multisig address owns no GAS
				return w.N.MakeTx(chainx.CallScript(polH, "blockAccount", acc(2)), []neotest.Signer{chainx.Signer(3), committeeSigner(w)}, chainx.SysFee(3*gas))
			})
		}},
		{"caught-transfer", func(w *chainx.World) (txs, error) { // callee moves tokens and votes, then throws; caller catches
			return seq(func() (*transaction.Transaction, error) {
				return urun(w, 2, []any{
					[]any{chainx.OpTry, []any{[]any{chainx.OpRun, w.UB.Hash.BytesBE(), 15, []any{
						ucall(gasH, "transfer", acc(2).BytesBE(), acc(3).BytesBE(), 9, nil),
						ucall(neoH, "transfer", acc(2).BytesBE(), acc(3).BytesBE(), 3, nil),
						ucall(neoH, "vote", acc(2).BytesBE(), pub(1)),
						[]any{chainx.OpThrow},
					}}}, []any{[]any{chainx.OpNotify, 1}}},
					ucall(gasH, "transfer", acc(2).BytesBE(), acc(3).BytesBE(), 1, nil),
				})
			})
		}},
		{"halt-all", func(w *chainx.World) (txs, error) {
			return seq(func() (*transaction.Transaction, error) { return allInOne(w, false) })
		}},
		{"fault-all", func(w *chainx.World) (txs, error) { // everything above, then ABORT
			return seq(
				func() (*transaction.Transaction, error) { return allInOne(w, true) },
				func() (*transaction.Transaction, error) {
					return call(w, []int{3}, gas, gasH, "transfer", acc(3), acc(2), int64(gas), nil)
				},
			)
		}},
		{"no-witness", func(w *chainx.World) (txs, error) { // operations on somebody else's account: all must return false and move nothing
			return seq(
				func() (*transaction.Transaction, error) {
					return call(w, []int{2}, gas, neoH, "transfer", acc(1), acc(2), int64(1000), nil)
				},
				func() (*transaction.Transaction, error) {
					return call(w, []int{2}, gas, gasH, "transfer", acc(1), acc(2), int64(gas), nil)
				},
				func() (*transaction.Transaction, error) { return call(w, []int{2}, gas, neoH, "vote", acc(1), pub(1)) },
				func() (*transaction.Transaction, error) { return call(w, []int{3}, gas, neoH, "vote", acc(2), nil) },
				func() (*transaction.Transaction, error) {
					return call(w, []int{2}, gas, neoH, "unregisterCandidate", pub(1))
				},
				func() (*transaction.Transaction, error) {
					return call(w, []int{3}, gas, notH, "lockDepositUntil", acc(2), int64(w.N.Height()+40))
				},
				func() (*transaction.Transaction, error) {
					return call(w, []int{3}, gas, notH, "withdraw", acc(2), acc(3))
				},
			)
		}},
		{"bad-args", func(w *chainx.World) (txs, error) { // overdraft, negative amount, balance check of an account without an item, direct payment callbacks
			return seq(
				func() (*transaction.Transaction, error) { // more GAS than owned: false
					return call(w, []int{3}, gas, gasH, "transfer", acc(3), acc(4), int64(999999*gas), nil)
				},
				func() (*transaction.Transaction, error) { // more NEO than owned: false
					return call(w, []int{3}, gas, neoH, "transfer", acc(3), acc(4), int64(99999999), nil)
				},
				func() (*transaction.Transaction, error) { // negative amount: fault
					return call(w, []int{3}, gas, gasH, "transfer", acc(3), acc(4), int64(-1), nil)
				},
				func() (*transaction.Transaction, error) { // self-transfer of an account that owns nothing (account 4 pays): false
					return call(w, []int{4, 7}, gas, gasH, "transfer", acc(7), acc(7), int64(5), nil)
				},
				func() (*transaction.Transaction, error) { // NEO of an account that owns none: false
					return call(w, []int{4, 7}, gas, neoH, "transfer", acc(7), acc(4), int64(1), nil)
				},
				func() (*transaction.Transaction, error) { // payment callbacks called directly: fault
					return call(w, []int{3}, gas, neoH, "onNEP17Payment", acc(3), int64(1000*gas), pub(3))
				},
				func() (*transaction.Transaction, error) {
					return call(w, []int{3}, gas, notH, "onNEP17Payment", acc(3), int64(10*gas), []any{nil, int64(w.N.Height() + 10)})
				},
				func() (*transaction.Transaction, error) { // registration fee does not fit into the system fee: fault
					return call(w, []int{3}, 5*gas, neoH, "registerCandidate", pub(3))
				},
				func() (*transaction.Transaction, error) { // governance parameters: value out of range, not the committee: fault
					return call(w, []int{3}, gas, neoH, "setGasPerBlock", int64(11*gas))
				},
				func() (*transaction.Transaction, error) {
					return call(w, []int{3}, gas, neoH, "setGasPerBlock", int64(gas))
				},
				func() (*transaction.Transaction, error) {
					return call(w, []int{3}, gas, neoH, "setRegisterPrice", int64(0))
				},
				func() (*transaction.Transaction, error) {
					return call(w, []int{3}, gas, neoH, "setRegisterPrice", int64(5))
				},
				func() (*transaction.Transaction, error) { // NEP-27 registration of a key the payer does not own: fault, GAS stays
					return call(w, []int{3}, 3*gas, gasH, "transfer", acc(3), neoH, int64(1000*gas), pub(4))
				},
			)
		}},
		{"gas-per-block7", func(w *chainx.World) (txs, error) { // generation rate change: rewards and claims over a rate boundary
			return seq(func() (*transaction.Transaction, error) {
				return w.N.MakeTx(chainx.CallScript(neoH, "setGasPerBlock", int64(7*gas)), []neotest.Signer{chainx.Signer(3), committeeSigner(w)}, chainx.SysFee(3*gas))
			})
		}},
		{"gas-per-block0", func(w *chainx.World) (txs, error) { // nothing is generated any more: zero mints must be skipped
			return seq(func() (*transaction.Transaction, error) {
				return w.N.MakeTx(chainx.CallScript(neoH, "setGasPerBlock", int64(0)), []neotest.Signer{chainx.Signer(3), committeeSigner(w)}, chainx.SysFee(3*gas))
			})
		}},
		{"register-price500", func(w *chainx.World) (txs, error) { // price change, then NEP-27 registrations at the old and the new price
			return seq(
				func() (*transaction.Transaction, error) {
					return w.N.MakeTx(chainx.CallScript(neoH, "setRegisterPrice", int64(500*gas)), []neotest.Signer{chainx.Signer(3), committeeSigner(w)}, chainx.SysFee(3*gas))
				},
				func() (*transaction.Transaction, error) {
					return call(w, []int{3}, 3*gas, gasH, "transfer", acc(3), neoH, int64(1000*gas), pub(3))
				},
				func() (*transaction.Transaction, error) {
					return call(w, []int{3}, 3*gas, gasH, "transfer", acc(3), neoH, int64(500*gas), pub(3))
				},
			)
		}},
		{"drop1", func(w *chainx.World) (txs, error) { // candidate 1 loses its last votes and is unregistered: the record is dropped
			return seq(
				func() (*transaction.Transaction, error) { return call(w, []int{1}, gas, neoH, "vote", acc(1), nil) },
				func() (*transaction.Transaction, error) { return call(w, []int{2}, gas, neoH, "vote", acc(2), nil) },
				func() (*transaction.Transaction, error) {
					return call(w, []int{1}, gas, neoH, "unregisterCandidate", pub(1))
				},
			)
		}},
		{"reelect1", func(w *chainx.World) (txs, error) { // ... registered and voted again; reward accrual restarts; claim
			return seq(
				func() (*transaction.Transaction, error) {
					return call(w, []int{1}, 1010*gas, neoH, "registerCandidate", pub(1))
				},
				func() (*transaction.Transaction, error) { return call(w, []int{1}, gas, neoH, "vote", acc(1), pub(1)) },
				func() (*transaction.Transaction, error) { return call(w, []int{2}, gas, neoH, "vote", acc(2), pub(1)) },
			)
		}},
		{"claim12", func(w *chainx.World) (txs, error) { // accounts 1 and 2 claim (holder + voter reward) by zero transfers
			return seq(
				func() (*transaction.Transaction, error) {
					return call(w, []int{1}, gas, neoH, "transfer", acc(1), acc(1), int64(0), nil)
				},
				func() (*transaction.Transaction, error) {
					return call(w, []int{2}, gas, neoH, "transfer", acc(2), acc(3), int64(0), nil)
				},
			)
		}},
		{"spread-votes", func(w *chainx.World) (txs, error) { // five more voters for five different candidates (committee members beyond the validators get votes)
			fs := []mk{}
			for i := 4; i <= 6; i++ {
				fs = append(fs, func() (*transaction.Transaction, error) {
					return call(w, []int{2}, gas, neoH, "transfer", acc(2), acc(i), int64(3000000), nil)
				})
			}
			for i := 2; i <= 6; i++ {
				fs = append(fs, func() (*transaction.Transaction, error) { return call(w, []int{i}, gas, neoH, "vote", acc(i), pub(i)) })
			}
			return seq(fs...)
		}},
		{"recover2@1y", func(w *chainx.World) (txs, error) { // (block dated one year ahead) committee recovers the funds of blocked account 2 into the Treasury
			cs := committeeSigner(w)
			return seq(
				func() (*transaction.Transaction, error) {
					return w.N.MakeTx(chainx.CallScript(polH, "recoverFund", acc(2), neoH), []neotest.Signer{chainx.Signer(3), cs}, chainx.SysFee(3*gas))
				},
				func() (*transaction.Transaction, error) {
					return w.N.MakeTx(chainx.CallScript(polH, "recoverFund", acc(2), gasH), []neotest.Signer{chainx.Signer(3), cs}, chainx.SysFee(3*gas))
				},
				func() (*transaction.Transaction, error) { // not blocked: faults
					return w.N.MakeTx(chainx.CallScript(polH, "recoverFund", acc(1), neoH), []neotest.Signer{chainx.Signer(3), cs}, chainx.SysFee(3*gas))
				},
			)
		}},
		// ---- Notary deposits (account 2) ----
		{"n-deposit2-short", func(w *chainx.World) (txs, error) { // smallest allowed till
			return seq(func() (*transaction.Transaction, error) {
				return call(w, []int{2}, gas, gasH, "transfer", acc(2), notH, int64(10*gas), []any{nil, int64(w.N.Height() + 2)})
			})
		}},
		{"n-deposit2-more", func(w *chainx.World) (txs, error) { // second deposit with a longer till (or a first one)
			return seq(func() (*transaction.Transaction, error) {
				return call(w, []int{2}, gas, gasH, "transfer", acc(2), notH, int64(5*gas), []any{nil, int64(w.N.Height() + 6)})
			})
		}},
		{"n-deposit-for2", func(w *chainx.World) (txs, error) { // third party tops up; cannot move till
			return seq(func() (*transaction.Transaction, error) {
				return call(w, []int{3}, gas, gasH, "transfer", acc(3), notH, int64(4*gas), []any{acc(2), int64(w.N.Height() + 9)})
			})
		}},
		{"n-deposit-bad", func(w *chainx.World) (txs, error) { // till too small; data of a wrong shape: both must fault and move nothing
			return seq(
				func() (*transaction.Transaction, error) {
					return call(w, []int{2}, gas, gasH, "transfer", acc(2), notH, int64(3*gas), []any{nil, int64(w.N.Height() + 1)})
				},
				func() (*transaction.Transaction, error) {
					return call(w, []int{2}, gas, gasH, "transfer", acc(2), notH, int64(3*gas), nil)
				},
				func() (*transaction.Transaction, error) { // first deposit below twice the notary fee per key
					return call(w, []int{6}, gas, gasH, "transfer", acc(6), notH, int64(1), []any{nil, int64(w.N.Height() + 5)})
				},
			)
		}},
		{"n-withdraw2", func(w *chainx.World) (txs, error) { // too early => false => ASSERT faults
			return seq(func() (*transaction.Transaction, error) {
				return callAssert(w, []int{2}, gas, notH, "withdraw", acc(2), nil)
			})
		}},
		{"n-withdraw2-to4", func(w *chainx.World) (txs, error) {
			return seq(func() (*transaction.Transaction, error) {
				return call(w, []int{2}, gas, notH, "withdraw", acc(2), acc(4))
			})
		}},
		{"n-lock2", func(w *chainx.World) (txs, error) {
			return seq(func() (*transaction.Transaction, error) {
				return call(w, []int{2}, gas, notH, "lockDepositUntil", acc(2), int64(w.N.Height()+4))
			})
		}},
		{"n-lock2-early", func(w *chainx.World) (txs, error) { // till not in the future / below the current one: false
			return seq(
				func() (*transaction.Transaction, error) {
					return call(w, []int{2}, gas, notH, "lockDepositUntil", acc(2), int64(w.N.Height()+1))
				},
				func() (*transaction.Transaction, error) {
					return call(w, []int{2}, gas, notH, "lockDepositUntil", acc(2), int64(w.N.Height()+2))
				},
			)
		}},
		{"n-deposit5-exact", func(w *chainx.World) (txs, error) { // account 5 deposits exactly the fees of one n-assisted5 transaction
			probe, err := assisted(w, 5)
			if err != nil {
				return nil, err
			}
			f := probe.SystemFee + probe.NetworkFee
			return seq(func() (*transaction.Transaction, error) {
				return call(w, []int{5}, gas, gasH, "transfer", acc(5), notH, f, []any{nil, int64(w.N.Height() + 2)})
			})
		}},
		{"n-assisted5", func(w *chainx.World) (txs, error) { // fees eat the whole deposit: the item must go
			if w.N.BC.GetUtilityTokenBalance(notH, acc(5)).Sign() == 0 {
				return nil, fmt.Errorf("no deposit of account 5")
			}
			return seq(func() (*transaction.Transaction, error) { return assisted(w, 5) })
		}},
		{"n-setup", func(w *chainx.World) (txs, error) { // designate the notary node (account 4) and deposit with the smallest till
			return seq(
				func() (*transaction.Transaction, error) {
					return w.N.MakeTx(chainx.CallScript(nativehashes.RoleManagement, "designateAsRole", int64(noderoles.P2PNotary), []any{pub(4)}), []neotest.Signer{w.N.Committee}, chainx.SysFee(3*gas))
				},
				func() (*transaction.Transaction, error) {
					return call(w, []int{2}, gas, gasH, "transfer", acc(2), notH, int64(30*gas), []any{nil, int64(w.N.Height() + 2)})
				},
			)
		}},
		{"n-assisted", func(w *chainx.World) (txs, error) { // Notary is the sender: fees come out of account 2's deposit
			if w.N.BC.GetUtilityTokenBalance(notH, acc(2)).Sign() == 0 {
				return nil, fmt.Errorf("no deposit of account 2")
			}
			return seq(func() (*transaction.Transaction, error) { return assisted(w, 2) })
		}},
	}
}

// assisted builds a notary-assisted transaction whose sender is the Notary
// contract and whose fees are charged to the deposit of account payer.
func assisted(w *chainx.World, payer int) (*transaction.Transaction, error) {
	return w.N.MakeTx(chainx.CallScript(gasH, "transfer", acc(payer), acc(3), int64(11), nil),
		[]neotest.Signer{notarySigner(w), chainx.Signer(payer)}, chainx.SysFee(gas),
		func(t *transaction.Transaction) {
			t.Signers[0].Scopes = transaction.None
			t.Attributes = append(t.Attributes, transaction.Attribute{Type: transaction.NotaryAssistedT, Value: &transaction.NotaryAssisted{NKeys: 1}})
		})
}

// allInOne: one contract-mediated transaction of account 2 doing a vote, NEO
// and GAS transfers, a notary deposit and a lock; with abort it ABORTs at the end.
func allInOne(w *chainx.World, abort bool) (*transaction.Transaction, error) {
	h := int64(w.N.Height())
	prog := []any{
		ucall(neoH, "vote", acc(2).BytesBE(), pub(1)),
		ucall(neoH, "transfer", acc(2).BytesBE(), acc(3).BytesBE(), 77, nil),
		ucall(gasH, "transfer", acc(2).BytesBE(), notH.BytesBE(), 3*gas, []any{nil, h + 20}),
		ucall(gasH, "transfer", acc(2).BytesBE(), acc(3).BytesBE(), 5, nil),
		ucall(notH, "lockDepositUntil", acc(2).BytesBE(), h+30),
		ucall(neoH, "transfer", acc(2).BytesBE(), w.UB.Hash.BytesBE(), 8, nil),
	}
	if abort {
		prog = append(prog, []any{chainx.OpAbort})
	}
	return urun(w, 2, prog)
}

// needsNotary lists the templates that send GAS to the Notary contract or call
// it. Where the Notary contract is not deployed yet (the multi families
// activate Echidna at height 5) its hash is a plain address and "deposit"
// has no meaning, so these templates are not applicable there.
var needsNotary = map[string]bool{"notary-deposit": true, "halt-all": true, "fault-all": true, "no-witness": true, "bad-args": true}

func guardNotary(t chainx.Tpl) chainx.Tpl {
	pairWithNotaryOp := strings.HasPrefix(t.Name, "pair:") && strings.ContainsAny(strings.TrimPrefix(t.Name, "pair:"), "dw")
	if !needsNotary[t.Name] && !strings.HasPrefix(t.Name, "n-") && !pairWithNotaryOp {
		return t
	}
	build := t.Build
	return chainx.Tpl{Name: t.Name, Build: func(w *chainx.World) (txs, error) {
		if w.N.BC.GetContractState(notH) == nil {
			return nil, fmt.Errorf("notary contract is not active yet")
		}
		return build(w)
	}}
}

// allTemplates is the union alphabet by name.
func allTemplates() map[string]chainx.Tpl {
	m := map[string]chainx.Tpl{}
	defer func() {
		for k, t := range m {
			m[k] = guardNotary(t)
		}
	}()
	for _, t := range chainx.Templates() {
		m[t.Name] = t
	}
	for _, t := range ownTemplates() {
		if _, dup := m[t.Name]; dup {
			panic("duplicate template " + t.Name)
		}
		m[t.Name] = t
	}
	for _, t := range pairTemplates(len(pairOps())) {
		m[t.Name] = t
	}
	return m
}
